/* wrapper TU (C02): the real lib/lpc/program/icode.c + read access to its statics */
#include "lib/lpc/program/icode.c"
int vw_c02_icode_state (char *buf, int len) {
  return snprintf (buf, len, "D icode.push_state=%d\nP icode.push_start=%d\nD icode.current_num_values=%d\nP icode.foreach_depth=%d\nP icode.current_forward_branch=%td\n"
                   "P icode.last_size_generated=%zu\nP icode.line_being_generated=%d\nP icode.branch_list=%d%d%d\n", push_state, push_start, current_num_values, foreach_depth,
                   current_forward_branch, last_size_generated, line_being_generated, branch_list[0] != 0, branch_list[1] != 0, branch_list[2] != 0);
}
