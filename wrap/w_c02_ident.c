/* wrapper TU (C02): the real lib/lpc/identifier.c + read access to its statics.
 * vw_c02_ident_snapshot() remembers (once, in the fresh driver) every permanent identifier with its sem_value;
 * vw_c02_ident_state() prints the bookkeeping counters and one line per permanent identifier that deviates from
 * the snapshot or still has a live local/global/function/class binding — so the text is empty of such lines in s0. */
#include "lib/lpc/identifier.c"

typedef struct { ident_hash_elem_t *e; short sem; short tok; } vw_snap;
static vw_snap *vw_snaps; static int vw_nsnap;

static int vw_snap_cmp (const void *a, const void *b) { const vw_snap *x = a, *y = b; return x->e < y->e ? -1 : x->e > y->e; }
static vw_snap *vw_find (ident_hash_elem_t *e) {
  int lo = 0, hi = vw_nsnap - 1;
  while (lo <= hi) { int m = (lo + hi) / 2; if (vw_snaps[m].e == e) return &vw_snaps[m]; if (vw_snaps[m].e < e) lo = m + 1; else hi = m - 1; }
  return 0;
}

void vw_c02_ident_snapshot (void) {
  int cap = 4096;
  free (vw_snaps);
  vw_snaps = malloc (sizeof (vw_snap) * (size_t) cap); vw_nsnap = 0;
  for (int i = 0; i < IDENT_HASH_SIZE; i++) {
    ident_hash_elem_t *h = ident_hash_head[i], *e = h;
    int guard = 0;
    if (!h) continue;
    do {
      if ((e->token & IHE_PERMANENT) && vw_nsnap < cap) { vw_snaps[vw_nsnap].e = e; vw_snaps[vw_nsnap].sem = e->sem_value; vw_snaps[vw_nsnap].tok = e->token; vw_nsnap++; }
      if (e == ident_hash_tail[i]) break;
      e = e->next;
    } while (e && e != h && ++guard < 100000);
  }
  qsort (vw_snaps, (size_t) vw_nsnap, sizeof (vw_snap), vw_snap_cmp);
}

int vw_c02_ident_state (char *buf, int len) {
  int n = 0, i, nonperm = 0, rotated = 0, broken = 0, nperm = 0, unknown = 0;
  char np[300] = "";
  ident_hash_elem_t *d;
  int dev0 = -1;
  for (i = 0, d = ident_dirty_list; d && i < 100000; d = d->next_dirty) i++;
  n += snprintf (buf + n, len - n, "D ident.dirty_list=%d\n", i);
  { int k = 0; for (ident_hash_elem_list_t *l = ihe_list; l; l = l->next) k++; n += snprintf (buf + n, len - n, "D ident.ihe_blocks=%d\nD ident.num_free=%d\n", k, num_free); }
  { int k = 0; for (lname_linked_buf_t *l = lnamebuf; l; l = l->next) k++; n += snprintf (buf + n, len - n, "D ident.local_name_blocks=%d\nD ident.lb_index=%zu\n", k, lb_index); }
  dev0 = n;
  for (i = 0; i < IDENT_HASH_SIZE; i++) {
    ident_hash_elem_t *h = ident_hash_table[i], *e;
    if (h != ident_hash_head[i]) rotated++;
    if (ident_hash_head[i] && ident_hash_tail[i] && ident_hash_tail[i]->next != ident_hash_head[i]) broken++;
    if (!h) continue;
    int guard = 0;
    e = h;
    do {
      if (!(e->token & IHE_PERMANENT)) {
        nonperm++;
        if (strlen (np) + strlen (e->name ? e->name : "?") + 2 < sizeof np) { strcat (np, e->name ? e->name : "?"); strcat (np, ","); }
      } else {
        vw_snap *s = vw_find (e);
        nperm++;
        if (!s) unknown++;
        else if (e->token & IHE_RESWORD) {
          /* reserved words are keyword_t objects: only the common prefix (name, token, sem_value, next) exists */
          if ((e->sem_value != s->sem || e->token != s->tok) && n < len - 200)
            n += snprintf (buf + n, len - n, "D ident[%s]=reserved word: sem %d (fresh %d) tok %x (fresh %x)\n", e->name, e->sem_value, s->sem, (unsigned short) e->token, (unsigned short) s->tok);
        }
        else if (e->sem_value != s->sem || e->token != s->tok || e->dn.local_num != -1 || e->dn.global_num != -1 || e->dn.function_num != -1 || e->dn.class_num != -1) {
          if (n < len - 200)
            n += snprintf (buf + n, len - n, "D ident[%s]=sem %d (fresh %d) tok %x (fresh %x) local %d global %d function %d class %d\n", e->name, e->sem_value, s->sem,
                           (unsigned short) e->token, (unsigned short) s->tok, e->dn.local_num, e->dn.global_num, e->dn.function_num, e->dn.class_num);
        }
      }
      e = e->next;
    } while (e && e != h && ++guard < 100000);
    if (!e || guard >= 100000) broken++;
  }
  (void) dev0;
  n += snprintf (buf + n, len - n, "D ident.nonpermanent_in_table=%d %s\n", nonperm, np);
  n += snprintf (buf + n, len - n, "D ident.buckets_rotated=%d\nD ident.chains_broken=%d\nD ident.permanent=%d\nD ident.permanent_not_in_snapshot=%d\n", rotated, broken, nperm, unknown);
  return n;
}
