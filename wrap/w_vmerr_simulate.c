/* wrapper TU (vm-err checks C04/C05/C06): the real src/simulate.c of the current tree + read access to its statics */
#include "src/simulate.c"   /* resolved through -I <repo> */

int vw_cgsp_depth (void) { return (int) (cgsp - command_giver_stack); }
object_t *vw_restrict_destruct (void) { return restrict_destruct; }
int vw_num_objects_this_thread (void) { return num_objects_this_thread; }
const char *vw_last_verb (void) { return last_verb; }
