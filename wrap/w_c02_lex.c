/* wrapper TU (C02): the real lib/lpc/lex.c (+ preprocess.c, which it includes) + read access to its statics */
#include "lib/lpc/lex.c"

int vw_c02_lex_state (char *buf, int len) {
  int n = 0, i, k;
  incstate_t *is;
  ifstate_t *ifs;
  linked_buf_t *lb;
  unsigned long h = 1469598103UL;
  int nuser = 0, nundef = 0, npre = 0;
  for (k = 0, is = inctop; is; is = is->next) k++;
  n += snprintf (buf + n, len - n, "D lex.include_stack_depth=%d\n", k);
  for (k = 0, ifs = iftop; ifs; ifs = ifs->next) k++;
  n += snprintf (buf + n, len - n, "D lex.if_stack_depth=%d\n", k);
  for (k = 0, lb = cur_lbuf; lb && lb != &head_lbuf; lb = lb->prev) k++;
  n += snprintf (buf + n, len - n, "D lex.linked_input_buffers=%d\n", k);
  n += snprintf (buf + n, len - n, "D lex.current_file=%s\n", current_file ? current_file : "(null)");
  /* both are per-token flags of yylex(); whether a stale value is harmful is decided by the probe compiled next */
  n += snprintf (buf + n, len - n, "P lex.function_flag=%d\n", function_flag);
  n += snprintf (buf + n, len - n, "P lex.wide_char_literal=%d\n", wide_char_literal);
  n += snprintf (buf + n, len - n, "D lex.defines_need_freed=%d\n", defines_need_freed);
  n += snprintf (buf + n, len - n, "P lex.incnum=%d\nP lex.lex_fatal=%d\nP lex.nexpands=%d\nP lex.pragmas=%d\nP lex.num_parse_error=%d\n", incnum, lex_fatal, nexpands, pragmas, num_parse_error);
  n += snprintf (buf + n, len - n, "P lex.current_line=%d\nP lex.current_line_base=%d\nP lex.current_line_saved=%d\nP lex.current_file_id=%d\n", current_line, current_line_base,
                 current_line_saved, current_file_id);
  n += snprintf (buf + n, len - n, "P lex.last_function_context=%d\nP lex.current_function_context=%s\n", last_function_context, current_function_context ? "set" : "null");
  for (i = 0; i < DEFHASH; i++)
    for (defn_t *d = defns[i]; d; d = d->next) {
      if (d->flags & DEF_IS_PREDEF) {
        npre++;
        for (const char *s = d->name; *s; s++) h = (h ^ (unsigned char) *s) * 16777619UL;
        for (const char *s = d->exps; *s; s++) h = (h ^ (unsigned char) *s) * 16777619UL;
        h = (h ^ (unsigned) d->nargs) * 16777619UL;
      } else nuser++;
      if (d->flags & DEF_IS_UNDEFINED) nundef++;
    }
  n += snprintf (buf + n, len - n, "D lex.predefines=%d/%08lx\n", npre, h & 0xffffffffUL);
  n += snprintf (buf + n, len - n, "P lex.user_defines=%d\nP lex.undefined_flags=%d\n", nuser, nundef);
  return n;
}
