/* wrapper TU (C02): the real lib/lpc/program/generate.c + read access to its statics */
#include "lib/lpc/program/generate.c"
int vw_c02_generate_state (char *buf, int len) {
  return snprintf (buf, len, "D generate.last_local_refs=%s\nP generate.optimizer_state=%d\nP generate.optimizer_num_locals=%d\n", last_local_refs ? "set" : "null", optimizer_state,
                   optimizer_num_locals);
}
