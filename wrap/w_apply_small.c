/* wrapper TU: src/apply.c with the apply cache scaled from 2048 to 2 entries, so that every
 * replacement / negative-entry path of apply_low() is reached within three calls. */
#ifdef HAVE_CONFIG_H
#include <config.h>
#endif
#include "efuns/options.h"
#undef APPLY_CACHE_BITS
#define APPLY_CACHE_BITS 1
#include "w_apply_full.c"
