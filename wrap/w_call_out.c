/* wrapper TU: the real lib/efuns/call_out.c of the current tree + read access to its statics */
#include "lib/efuns/call_out.c"   /* resolved through -I <repo> */

long vw_call_out_time (void) { return (long) call_out_time; }
int vw_co_pending (void) {
  int n = 0;
  for (int j = 0; j < CALLOUT_CYCLE_SIZE; j++) for (pending_call_t *c = call_list[j]; c; c = c->next) n++;
  return n;
}
/* canonical wheel: for each slot relative to now, the delta chain and the argument id */
int vw_co_canon (char *buf, int len) {
  int n = 0;
  n += snprintf (buf + n, len - n, "lag=%ld;", (long) (current_time - call_out_time));
  for (int j = 0; j < CALLOUT_CYCLE_SIZE && n < len - 40; j++) {
    int slot = (int) ((call_out_time + 1 + j) & (CALLOUT_CYCLE_SIZE - 1));
    if (!call_list[slot]) continue;
    n += snprintf (buf + n, len - n, "s%d:", j);
    for (pending_call_t *c = call_list[slot]; c && n < len - 40; c = c->next) {
      long id = (c->vs && c->vs->size > 0 && c->vs->item[0].type == T_NUMBER) ? (long) c->vs->item[0].u.number : -1;
      n += snprintf (buf + n, len - n, "%ld/%ld%s,", (long) c->delta, id, c->ob ? ((c->ob->flags & O_DESTRUCTED) ? "d" : "") : "f");
    }
    n += snprintf (buf + n, len - n, ";");
  }
  return n;
}
