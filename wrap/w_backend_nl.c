/* wrapper TU (net-loop, C09/C12): the real src/backend.c of the current tree + read access to its statics.
 * The function-local static of look_for_objects_to_swap() is renamed so that it can be found by name. */
#define next_time nl_swap_next_time
#include "src/backend.c"          /* resolved through -I <repo> */
#undef next_time

int nl_hb_num (void) { return num_hb_objs; }
int nl_hb_to_do (void) { return num_hb_to_do; }
int nl_hb_index (void) { return heart_beat_index; }
object_t *nl_hb_ob (int i) { return (i >= 0 && i < num_hb_objs) ? heart_beats[i].ob : 0; }
int nl_hb_ticks (int i) { return (i >= 0 && i < num_hb_objs) ? heart_beats[i].heart_beat_ticks : -1; }
int nl_hb_interval (int i) { return (i >= 0 && i < num_hb_objs) ? heart_beats[i].time_to_heart_beat : -1; }
