/* wrapper TU: the real lib/lpc/object.c of the current tree + read access to the sentence free list */
#include "lib/lpc/object.c"   /* resolved through -I <repo> */

/* length of the free list of sentences (bounded walk); -1 if it does not end */
int vw_sent_free_len (void) {
  int n = 0;
  for (sentence_t *s = sent_free; s; s = s->next) if (++n > 4096) return -1;
  return n;
}
/* is p on the free list? */
int vw_sent_is_free (sentence_t *p) {
  int n = 0;
  for (sentence_t *s = sent_free; s; s = s->next) { if (s == p) return 1; if (++n > 4096) break; }
  return 0;
}
