/* wrapper TU (C02): the real lib/lpc/program/parse_trees.c + read access to its statics */
#include "lib/lpc/program/parse_trees.c"
int vw_c02_ptrees_state (char *buf, int len) {
  int a = 0, b = 0;
  for (parse_node_block_t *p = parse_block_list; p && a < 100000; p = p->next) a++;
  for (parse_node_block_t *p = free_block_list; p && b < 100000; p = p->next) b++;
  return snprintf (buf, len, "D ptrees.parse_blocks=%d\nD ptrees.free_blocks=%d\nD ptrees.next_node=%s\nD ptrees.last_prog_size=%d\n", a, b, next_node ? "set" : "null", last_prog_size);
}
