/* wrapper TU for C19's heart-beat race run: the real src/backend.c, unchanged except that the
 * compile-time heart-beat period is 500 us instead of 2 s (so that a few hundred beats take < 1 s). */
#include "lib/efuns/options.h"
#undef HEARTBEAT_INTERVAL
#define HEARTBEAT_INTERVAL 500
#include "src/backend.c"
