/* wrapper TU (vm-err checks C04/C05/C06): the real src/error_context.c of the current tree + read access to its statics.
 * error_handler() is additionally routed through a recorder (every error the driver raises passes through it). */
#ifdef HAVE_CONFIG_H
#include <config.h>
#endif
#include "src/std.h"
#include "src/error_context.h"
#include "src/simulate.h"
/* the first statement of error_handler(err) is reset_destruct_object_limits(): record the message there */
static void vw_record (const char *err);
#define reset_destruct_object_limits() (vw_record (err), (reset_destruct_object_limits) ())
#include "src/error_context.c"   /* resolved through -I <repo> */
#undef reset_destruct_object_limits

int vw_ec_depth (void) { int d = 0; for (error_context_t *e = current_error_context; e; e = e->save_context) d++; return d; }
int vw_ec_top_is_catch (void) {
  return current_error_context && ((current_error_context->save_csp + 1)->framekind & FRAME_MASK) == FRAME_CATCH;
}
control_stack_t *vw_ec_top_csp (void) { return current_error_context ? current_error_context->save_csp : 0; }
int vw_in_error (void) { return in_error; }
int vw_in_mudlib_error_handler (void) { return in_mudlib_error_handler; }

/* recorder */
int vw_nerrors;                 /* errors raised since last reset */
int vw_limit_contained;         /* same bits, for limit errors raised under a safe_apply context */
int vw_limit_mask;              /* 1 eval cost, 2 too deep recursion, 4 value stack overflow, 8 "Can't catch ..." re-raise */
char vw_last_error_text[200];
char vw_first_limit_text[120];
void vw_reset_errors (void) { vw_nerrors = 0; vw_limit_mask = 0; vw_limit_contained = 0; vw_last_error_text[0] = 0; vw_first_limit_text[0] = 0; }
static void vw_record (const char *err) {
  int bit = 0;
  vw_nerrors++;
  snprintf (vw_last_error_text, sizeof vw_last_error_text, "%s", err);
  if (!strncmp (err, "*Too long evaluation", 20)) bit = 1;
  else if (!strncmp (err, "***Too deep recursion", 21)) bit = 2;
  else if (!strncmp (err, "***Stack overflow", 17)) bit = 4;
  else if (!strncmp (err, "*Can't catch", 12)) bit = 8;
  /* a limit error raised while the innermost error context is a safe_apply()/safe_call_function_pointer() of the driver (e.g. the master's
   * object_name() called for sprintf("%O") from the master's error_handler()) is contained by that call by design: it aborts the callee,
   * not the evaluation.  Only limit errors on their way to a catch or to the driver's entry count for "catch cannot swallow". */
  if (bit && !vw_ec_top_is_catch () && vw_ec_depth () > 1) { vw_limit_contained |= bit; bit = 0; }
  if (bit && !vw_limit_mask) snprintf (vw_first_limit_text, sizeof vw_first_limit_text, "%s", err);
  vw_limit_mask |= bit;
}
