/* wrapper TU (vm-err checks C04/C05/C06): the real src/error_context.c of the current tree + read access to its statics */
#include "src/error_context.c"   /* resolved through -I <repo> */

int vw_ec_depth (void) { int d = 0; for (error_context_t *e = current_error_context; e; e = e->save_context) d++; return d; }
int vw_ec_top_is_catch (void) {
  return current_error_context && ((current_error_context->save_csp + 1)->framekind & FRAME_MASK) == FRAME_CATCH;
}
control_stack_t *vw_ec_top_csp (void) { return current_error_context ? current_error_context->save_csp : 0; }
int vw_in_error (void) { return in_error; }
int vw_in_mudlib_error_handler (void) { return in_mudlib_error_handler; }
