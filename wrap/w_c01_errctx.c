/* C01: the real src/error_context.c plus a read-only accessor for its file-static context chain */
#include "src/error_context.c"

int vw_c01_error_context_depth (void) {
  int d = 0;
  for (error_context_t *e = current_error_context; e; e = e->save_context) d++;
  return d;
}
