/* wrapper TU (net-loop, C09): the real lib/efuns/call_out.c + canonical rendering of the wheel */
#include "lib/efuns/call_out.c"   /* resolved through -I <repo> */

/* wheel relative to now: for each slot (distance from the cursor) the delta chain with function name / first argument */
int nl_co_canon (char *buf, int len) {
  int n = 0;
  n += snprintf (buf + n, len - n, "lag=%ld;", (long) (current_time - call_out_time));
  for (int j = 0; j < CALLOUT_CYCLE_SIZE && n < len - 80; j++) {
    int slot = (int) ((call_out_time + 1 + j) & (CALLOUT_CYCLE_SIZE - 1));
    if (!call_list[slot]) continue;
    n += snprintf (buf + n, len - n, "s%d:", j);
    for (pending_call_t *c = call_list[slot]; c && n < len - 80; c = c->next)
      n += snprintf (buf + n, len - n, "%ld/%s/%s%s,", (long) c->delta, c->ob ? c->function.s : "fp",
                     c->ob ? c->ob->name : "-", (c->ob && (c->ob->flags & O_DESTRUCTED)) ? "(d)" : "");
    n += snprintf (buf + n, len - n, ";");
  }
  return n;
}
int nl_co_pending (void) {
  int n = 0;
  for (int j = 0; j < CALLOUT_CYCLE_SIZE; j++) for (pending_call_t *c = call_list[j]; c; c = c->next) n++;
  return n;
}
