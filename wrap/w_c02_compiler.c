/* wrapper TU (C02): the real lib/lpc/compiler.c of the current tree + read access to its statics.
 * Line classes of the canonical residual state:  "D" live after any compile (must equal the baseline right
 * after every input), "C" capacities (may only grow), "P" re-initialised by the next compile (compared only
 * after the probe has been compiled on top). */
#include "lib/lpc/compiler.c"

int vw_c02_compiler_state (char *buf, int len) {
  int n = 0, i;
  ovlwarn_t *w;
  for (i = 0; i < NUMAREAS; i++) n += snprintf (buf + n, len - n, "P compiler.mem_block[%d].current_size=%zu\n", i, mem_block[i].current_size);
  n += snprintf (buf + n, len - n, "D compiler.num_local_variables_allowed=%zu\n", num_local_variables_allowed);
  n += snprintf (buf + n, len - n, "D compiler.locals_ptr-locals=%td\n", locals_ptr - locals);
  n += snprintf (buf + n, len - n, "D compiler.type_of_locals_ptr-type_of_locals=%td\n", type_of_locals_ptr - type_of_locals);
  n += snprintf (buf + n, len - n, "D compiler.runtime_locals_ptr-runtime_locals=%td\n", runtime_locals_ptr - runtime_locals);
  n += snprintf (buf + n, len - n, "D compiler.current_number_of_locals=%d\n", current_number_of_locals);
  n += snprintf (buf + n, len - n, "D compiler.max_num_locals=%d\n", max_num_locals);
  n += snprintf (buf + n, len - n, "C compiler.locals_size=%zu\n", locals_size);
  n += snprintf (buf + n, len - n, "C compiler.type_of_locals_size=%zu\n", type_of_locals_size);
  for (i = 0, w = overload_warnings; w; w = w->next) i++;
  n += snprintf (buf + n, len - n, "D compiler.overload_warnings=%d\n", i);
  n += snprintf (buf + n, len - n, "P compiler.exact_types=%d\nP compiler.global_modifiers=%d\nP compiler.current_type=%d\nP compiler.var_defined=%d\nP compiler.current_block=%d\n",
                 exact_types, global_modifiers, current_type, var_defined, current_block);
  n += snprintf (buf + n, len - n, "P compiler.function_context.num_parameters=%d\n", function_context.num_parameters);
  n += snprintf (buf + n, len - n, "P compiler.freed_string=%d\n", freed_string);
  return n;
}

/* the locals tables as init_locals() leaves them at boot (they only grow afterwards) */
void vw_c02_reset_locals (void) { deinit_locals (); init_locals (); }
