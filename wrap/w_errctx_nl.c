/* wrapper TU (net-loop, C09): the real src/error_context.c + read access to its re-entrancy flags */
#include "src/error_context.c"    /* resolved through -I <repo> */

int nl_in_error (void) { return in_error; }
int nl_in_mudlib_error_handler (void) { return in_mudlib_error_handler; }
int nl_error_context_depth (void) { int d = 0; for (error_context_t *e = current_error_context; e; e = e->save_context) d++; return d; }
