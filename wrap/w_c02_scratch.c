/* wrapper TU (C02): the real lib/misc/scratchpad.c + read access to its statics */
#include "lib/misc/scratchpad.c"
int vw_c02_scratch_state (char *buf, int len) {
  int k = 0;
  for (sp_block_t *b = scratch_head.next; b && k < 100000; b = b->next) k++;
  return snprintf (buf, len, "D scratch.scr_last=%td\nD scratch.scr_tail=%td\nD scratch.large_blocks=%d\n", scr_last - scratchblock, scr_tail - scratchblock, k);
}
