/* wrapper TU: the real lib/lpc/array.c of the current tree + read access to the list of sort_array() callback descriptors
 * (part of the machine state that an error inside a comparator / inside sort_array()'s argument processing must leave as it was) */
#include "lib/lpc/array.c"   /* resolved through -I <repo> */

/* number of descriptors linked (bounded walk); -1 if the list does not end */
int vw_sort_ftc_depth (void) {
  int n = 0;
  for (sort_array_ftc_t *p = sort_array_ftc; p; p = p->prev) if (++n > 4096) return -1;
  return n;
}
