/* w_comm_scaled.c — src/comm.c with *logical* buffer sizes that can be scaled down (C13, C14).
 *
 * interactive_t is also used by backend.c, simulate.c, lib/efuns (iflags, ed_buffer, ...), so its
 * layout must stay what src/comm.h declares.  The header is therefore included first with the
 * real sizes (text[2048], message_buf[4096]); only then MAX_TEXT / MESSAGE_BUF_SIZE are redefined,
 * so every use *inside comm.c* (space computations, ring arithmetic, the local buffers
 * `char buf[MAX_TEXT]`) sees the scaled value.  The unused upper part of the arrays is filled with
 * a known byte by the harness and must stay untouched (a write past the logical size is what a
 * buffer overflow would be at the real size).
 *   -DVW_MAX_TEXT=48   -DVW_MSG_SIZE=8     (neither: real sizes)
 * Use with replace_stem=["comm.c"]. */
#ifdef HAVE_CONFIG_H
#include <config.h>
#endif
#include "std.h"
#include "lpc/object.h"
#include "lpc/array.h"
#include "lpc/buffer.h"
#include "src/comm.h"
#ifdef VW_MAX_TEXT
#undef MAX_TEXT
#define MAX_TEXT VW_MAX_TEXT
#endif
#ifdef VW_MSG_SIZE
#undef MESSAGE_BUF_SIZE
#define MESSAGE_BUF_SIZE VW_MSG_SIZE
#endif
#include "src/comm.c"

int vw_max_text (void) { return MAX_TEXT; }
int vw_msg_size (void) { return MESSAGE_BUF_SIZE; }
