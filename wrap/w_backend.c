/* wrapper TU: the real src/backend.c of the current tree + read access to its heart-beat statics.
 *
 *  -DVW_HB_CHUNK=<n>  scales HEART_BEAT_CHUNK (32) down so that heart_beats[] grows under a running round.
 *
 * The only textual intervention is that the call `call_function(...)` inside call_heart_beat() is routed
 * through vw_hb_call_function(), which reports "heart_beat of <ob> is about to be invoked" to the harness and
 * then calls the real call_function() with the same arguments.  The round loop, the index compensation and
 * set_heart_beat() are compiled unchanged from the tree. */
#ifdef HAVE_CONFIG_H
#include <config.h>
#endif
#define call_function vw_hb_call_function
#include "std.h"
#ifdef VW_HB_CHUNK
#undef HEART_BEAT_CHUNK
#define HEART_BEAT_CHUNK VW_HB_CHUNK
#endif
#include "src/backend.c"          /* resolved through -I <repo> */
#undef call_function

extern void call_function (program_t *progp, int runtime_index, int num_args, svalue_t *ret_value);

/* harness callback: object about to be called, cursor, round size, list size */
void (*vw_hb_probe) (object_t *ob, int index, int to_do, int nobjs);

void vw_hb_call_function (program_t *progp, int runtime_index, int num_args, svalue_t *ret_value) {
  if (vw_hb_probe) vw_hb_probe (current_heart_beat, heart_beat_index, num_hb_to_do, num_hb_objs);
  call_function (progp, runtime_index, num_args, ret_value);
}

void vw_call_heart_beat (void) { call_heart_beat (); }
int vw_num_hb_objs (void) { return num_hb_objs; }
int vw_hb_index (void) { return heart_beat_index; }
int vw_num_hb_to_do (void) { return num_hb_to_do; }
int vw_max_heart_beats (void) { return max_heart_beats; }
int vw_hb_chunk (void) { return HEART_BEAT_CHUNK; }
object_t *vw_hb_ob (int i) { return (i >= 0 && i < num_hb_objs) ? heart_beats[i].ob : 0; }
int vw_hb_ticks (int i) { return (i >= 0 && i < num_hb_objs) ? heart_beats[i].heart_beat_ticks : -1; }
int vw_hb_interval (int i) { return (i >= 0 && i < num_hb_objs) ? heart_beats[i].time_to_heart_beat : -1; }
