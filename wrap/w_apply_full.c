/* wrapper TU: the real src/apply.c of the current tree + read access to its static apply cache.
 * (w_apply_small.c includes this file after scaling APPLY_CACHE_BITS down.) */
#include "src/apply.c"            /* resolved through -I <repo> */

int vw_cache_size (void) { return APPLY_CACHE_SIZE; }
int vw_cache_bits (void) { return APPLY_CACHE_BITS; }

/* slot a (program id, name pointer) pair hashes to: same expression as apply_low() */
int vw_cache_slot (int prog_id, const char *fun) {
  return (int) ((prog_id ^ (intptr_t) fun ^ ((intptr_t) fun >> APPLY_CACHE_BITS)) & (APPLY_CACHE_SIZE - 1));
}

/* canonical text of everything apply_low() can read from the cache: slot, key and, for positive
 * entries, the resolution it memoises.  Program pointers are rendered as program ids. */
int vw_cache_canon (char *buf, int len) {
  int n = 0;
  buf[0] = 0;
  for (int i = 0; i < APPLY_CACHE_SIZE && n < len - 200; i++) {
    cache_entry_t *e = &cache[i];
    if (!e->id && !e->name) continue;
    n += snprintf (buf + n, len - n, "%d:%d/%d:%.40s:", i, e->id, e->oprogp ? e->oprogp->id_number : 0, e->name ? e->name : "(null)");
    if (e->progp)
      n += snprintf (buf + n, len - n, "+%d,%d,%d,%d,%d,%d;", e->progp->id_number, e->index, e->function_index_offset,
                     e->variable_index_offset, e->num_arg, e->num_local);
    else
      n += snprintf (buf + n, len - n, "-;");
  }
  return n;
}

/* 0 = no entry for this key in its slot, 1 = positive entry, -1 = negative entry */
int vw_cache_probe (program_t *prog, const char *fun) {
  cache_entry_t *e = &cache[vw_cache_slot (prog->id_number, fun)];
  if (e->id == prog->id_number && e->oprogp == prog && e->name && !strcmp (e->name, fun)) return e->progp ? 1 : -1;
  return 0;
}
