/* wrapper TU: the real lib/lpc/otable.c of the current tree + read access to the name hash table */
#include "lib/lpc/otable.c"   /* resolved through -I <repo> */

int vw_otable_size (void) { return otable_size; }
int vw_objs_in_table (void) { return objs_in_table; }
object_t *vw_otable_bucket (int i) { return (obj_table && i >= 0 && i < otable_size) ? obj_table[i] : 0; }
int vw_otable_hash (const char *s) { return ObjHash (s); }
