/* wrapper TU (C17): the real lib/lpc/program/binaries.c of the current tree + access to its format stamps */
#include "lib/lpc/program/binaries.c"
unsigned vw_c17_driver_id (void) { return driver_id; }
void vw_c17_set_driver_id (unsigned v) { driver_id = v; }
unsigned long long vw_c17_config_id (void) { return (unsigned long long) config_id; }
