/* sched — engine E3: cooperative, serialising scheduler over hooked pthread-level
 * synchronisation points (CHESS style).  See sched.c. */
#pragma once
#include <stdint.h>
#ifdef __cplusplus
extern "C" {
#endif

enum { SCHED_DEADLOCK = 1, SCHED_HANG = 2, SCHED_STEP_LIMIT = 3 };

typedef struct {
  int max_steps;                /* horizon: scheduling points per execution (0 = 600) */
  int trace;                    /* 1 = log every context switch with vx_obs */
  long pipe_capacity;           /* bytes a pipe created inside the session can hold (0 = the kernel's capacity) */
  /* called (on whatever thread detected it) when no progress is possible; must call vx_fail.
   * kind: SCHED_*; desc: one line per thread "T<i> <state> <op>".  After it returns the execution ends. */
  void (*on_stuck) (int kind, const char *desc);
} sched_cfg;

void sched_begin (const sched_cfg *cfg);        /* calling thread becomes T0; hooks become active */
void sched_end (void);                          /* waits (as a join) for all other threads, deactivates */
int sched_self (void);                          /* scheduler id of the calling thread, -1 if unmanaged */
int sched_nthreads (void);
int sched_finished (int tid);
long sched_steps (void);
int64_t sched_now_ns (void);                    /* virtual clock */
void sched_track_fd (int fd);                   /* read()/write() on fd become scheduling points */
void sched_point (const char *label);           /* explicit always-enabled scheduling point */
const char *sched_pending (int tid);            /* label of the operation thread tid is parked at */
uint64_t sched_state_hash (void);               /* hash of scheduler-visible state (per-thread pc/op, mutex owners, clock) */

#ifdef __cplusplus
}
#endif
