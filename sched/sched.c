/* sched.c — engine E3 (DESIGN §2.5): cooperative, serialising scheduler for real pthreads.
 *
 * The harness executable DEFINES the pthread-level synchronisation entry points below, so every
 * call made by the unmodified repo code (and by libstdc++'s std::thread / std::mutex /
 * std::condition_variable, when libstdc++ is the shared one) lands here.  While a scheduler
 * session is active (sched_begin .. sched_end, inside one vx execution):
 *   - exactly one managed thread runs at a time; OS threads hand over with raw futexes;
 *   - every hooked operation is a scheduling point; blocking forms become "disabled until ...";
 *   - at a scheduling point the set of enabled threads is listed in canonical order (running
 *     thread first, then ascending ids) and vx picks: vx_choose() when the running thread is still
 *     enabled (alternative 0 = keep running, others = a PREEMPTION, cost 1 against --budget),
 *     vx_choose_free() when the running thread blocked / yielded / finished (forced switch, free);
 *   - time is virtual: it only advances when a timed wait / sleep "times out"; a timed waiter is
 *     enabled by its wake-up or by the alternative "its timeout fires";
 *   - fairness (as in CHESS): a thread that yields (sleep / unsatisfied timed wait) is not given
 *     its timeout until every thread that was enabled at that moment has executed one operation
 *     (or got blocked / finished); polling loops therefore terminate, bounded by max_steps;
 *   - no enabled thread and not all finished = deadlock; horizon reached = hang.
 * eventfd / epoll / pipe objects stay real kernel objects (deterministic because serialised);
 * descriptors created by eventfd()/pipe()/pipe2() inside a session are tracked: read()/write() on them
 * are scheduling points.
 * Condition variables are modelled here (the real object is never waited on); mutexes are modelled
 * AND really try-locked so that the real object state stays consistent.
 * Scheduling points lie BEFORE every hooked operation and additionally AFTER pthread_mutex_unlock and
 * pthread_create (the code that follows those two is what an unsynchronised access would race with), and at the
 * entry of a condition wait while the mutex is still held.
 * Not modelled: spurious condition-variable wake-ups; a timed condition wait times out only while
 * its mutex is free (timeout + re-acquisition are one step).
 * This TU is compiled without sanitizer instrumentation. */
#define _GNU_SOURCE
#include "vsched.h"
#include "vx.h"
#include <dlfcn.h>
#include <errno.h>
#include <limits.h>
#include <linux/futex.h>
#include <pthread.h>
#include <stdarg.h>
#include <stdio.h>
#include <stdlib.h>
#include <string.h>
#include <fcntl.h>
#include <sys/epoll.h>
#include <sys/eventfd.h>
#include <sys/select.h>
#include <sys/syscall.h>
#include <time.h>
#include <unistd.h>

#define MAXT 8
#define MAXM 256
#define MAXFD 16
#define VBASE_S 1000000L        /* virtual clock origin (seconds) */

enum { OP_NONE, OP_START, OP_STEP, OP_LOCK, OP_CONDWAIT, OP_JOIN, OP_JOINALL, OP_EPOLL, OP_SELECT, OP_SLEEP, OP_PIPEWRITE, OP_PIPEREAD };

typedef struct {
  int used, fin, joined;
  pthread_t pth;
  volatile int go;
  int op;
  const void *obj, *obj2;
  const char *label;
  int timed;
  int64_t deadline;
  int timedout;
  int yield_pending;
  int yields;
  unsigned pmask;               /* fairness: threads that must run (or block) before my timeout may fire */
  int jtarget;
  int pipe_i, pipe_nonblock;
  size_t pipe_n;
  int epfd;
  int sel_n;
  fd_set *sel_r, *sel_w, *sel_e;
  void *(*fn) (void *);
  void *arg;
  long steps;
} sthread;

static sthread T[MAXT];
static struct { const void *m; int owner; } M[MAXM];
static int nM;
static int tracked[MAXFD], ntracked;
/* pipes created inside a session get a LOGICAL capacity (cfg.pipe_capacity bytes, 0 = the kernel's): the
 * kernel object stays real, the scheduler only counts the bytes in flight.  A write that does not fit
 * blocks the thread if the descriptor is blocking and fails with EAGAIN if it is O_NONBLOCK -- the flag is
 * read from the kernel (F_GETFL) at the time of the call, i.e. exactly as the code under test set it with
 * pipe2()/fcntl().  A read from an empty pipe likewise blocks or returns EAGAIN. */
static struct { int r, w; long pending; } PIPES[8];
static int npipes;
static int pipe_of (int fd, int want_w) {
  for (int i = 0; i < npipes; i++) if ((want_w ? PIPES[i].w : PIPES[i].r) == fd) return i;
  return -1;
}
static volatile int g_active;
static int g_cur;
static long g_steps;
static int64_t vnow;            /* virtual ns since origin */
static sched_cfg g_cfg;
static __thread int my_tid = -1;

#define REAL(name) ({ static __typeof__ (&name) p_; if (!p_) p_ = (__typeof__ (&name)) dlsym (RTLD_NEXT, #name); p_; })
#define MANAGED() (g_active && my_tid >= 0)

/* ------------------------------------------------------------------ hand-over */
static void fwait (volatile int *a, int v) { syscall (SYS_futex, a, FUTEX_WAIT_PRIVATE, v, NULL, NULL, 0); }
static void fwake (volatile int *a) { syscall (SYS_futex, a, FUTEX_WAKE_PRIVATE, 1, NULL, NULL, 0); }
static void resume (sthread *t) { __atomic_store_n (&t->go, 1, __ATOMIC_SEQ_CST); fwake (&t->go); }
static void park (sthread *t) {
  while (!__atomic_load_n (&t->go, __ATOMIC_SEQ_CST)) fwait (&t->go, 0);
  __atomic_store_n (&t->go, 0, __ATOMIC_SEQ_CST);
}

static int *mowner (const void *m) {
  for (int i = 0; i < nM; i++) if (M[i].m == m) return &M[i].owner;
  if (nM == MAXM) { vx_fail ("sched:internal:mutex-table-full", "more than %d mutexes", MAXM); vx_child_exit (3); }
  M[nM].m = m; M[nM].owner = -1;
  return &M[nM++].owner;
}

static int is_tracked (int fd) { for (int i = 0; i < ntracked; i++) if (tracked[i] == fd) return 1; return 0; }
void sched_track_fd (int fd) { if (!is_tracked (fd) && ntracked < MAXFD) tracked[ntracked++] = fd; }

/* ------------------------------------------------------------------ enabledness */
static int sel_probe (sthread *t) {
  fd_set r, w, e; struct timeval z = { 0, 0 };
  FD_ZERO (&r); FD_ZERO (&w); FD_ZERO (&e);
  if (t->sel_r) r = *t->sel_r;
  if (t->sel_w) w = *t->sel_w;
  if (t->sel_e) e = *t->sel_e;
  return REAL (select) (t->sel_n, t->sel_r ? &r : 0, t->sel_w ? &w : 0, t->sel_e ? &e : 0, &z) > 0;
}

/* can the pending operation of t complete right now without a timeout? */
static int op_ready (sthread *t) {
  switch (t->op) {
  case OP_START: case OP_STEP: return 1;
  case OP_LOCK: return *mowner (t->obj) == -1;
  case OP_CONDWAIT: return 0;
  case OP_JOIN: return T[t->jtarget].fin;
  case OP_JOINALL:
    for (int i = 0; i < MAXT; i++) if (T[i].used && !T[i].fin && &T[i] != t) return 0;
    return 1;
  case OP_EPOLL: { struct epoll_event ev; return REAL (epoll_wait) (t->epfd, &ev, 1, 0) > 0; }
  case OP_SELECT: return sel_probe (t);
  case OP_SLEEP: return 0;
  case OP_PIPEWRITE: return t->pipe_nonblock || PIPES[t->pipe_i].pending + (long) t->pipe_n <= g_cfg.pipe_capacity;
  case OP_PIPEREAD: return t->pipe_nonblock || PIPES[t->pipe_i].pending > 0;
  }
  return 0;
}
/* may "the timeout fires" be taken for t (fairness aside)? */
static int op_can_timeout (sthread *t) {
  if (!t->timed) return 0;
  if (t->op == OP_CONDWAIT) return *mowner (t->obj2) == -1;
  return 1;
}

static const char *opname (int op) {
  static const char *n[] = { "-", "start", "step", "lock", "cond-wait", "join", "join-all", "epoll_wait", "select", "sleep", "pipe-write(full)", "pipe-read(empty)" };
  return n[op];
}

static void stuck (int kind) {
  char desc[900]; int k = 0;
  for (int i = 0; i < MAXT && k < (int) sizeof desc - 80; i++) if (T[i].used)
    k += snprintf (desc + k, sizeof desc - (size_t) k, "T%d %s %s%s(%s) steps=%ld yields=%d; ", i,
                   T[i].fin ? "finished" : (op_ready (&T[i]) ? "enabled" : (T[i].timed ? "timed-wait" : "BLOCKED")),
                   T[i].fin ? "" : opname (T[i].op), T[i].fin ? "" : " ", T[i].label ? T[i].label : "", T[i].steps, T[i].yields);
  desc[k] = 0;
  vx_obs ("!! scheduler: %s: %s", kind == SCHED_DEADLOCK ? "DEADLOCK" : kind == SCHED_HANG ? "HANG (horizon reached)" : "STEP LIMIT", desc);
  if (g_cfg.on_stuck) g_cfg.on_stuck (kind, desc);
  else vx_fail (kind == SCHED_DEADLOCK ? "sched:deadlock" : kind == SCHED_HANG ? "sched:hang" : "sched:step-limit", "%s", desc);
  vx_child_exit (0);
}

/* ------------------------------------------------------------------ the scheduling decision */
static int pick (int self) {
  int ready[MAXT], base[MAXT], list[MAXT], n, nfair;
  if (++g_steps > (g_cfg.max_steps ? g_cfg.max_steps : 600)) {
    int hang = 0;
    for (int i = 0; i < MAXT; i++) if (T[i].used && !T[i].fin && (T[i].yields >= 3 || !(op_ready (&T[i]) || T[i].timed))) hang = 1;
    stuck (hang ? SCHED_HANG : SCHED_STEP_LIMIT);
  }
again:
  n = nfair = 0;
  for (int i = 0; i < MAXT; i++) {
    ready[i] = base[i] = 0;
    if (!T[i].used || T[i].fin) continue;
    ready[i] = op_ready (&T[i]);
    base[i] = ready[i] || op_can_timeout (&T[i]);
  }
  if (T[self].yield_pending) {
    T[self].yield_pending = 0;
    if (!T[self].fin && !ready[self]) {
      T[self].yields++;
      T[self].pmask = 0;
      for (int u = 0; u < MAXT; u++) if (u != self && base[u]) T[self].pmask |= 1u << u;
    }
  }
  for (int k = 0; k < MAXT; k++) {
    int i = k == 0 ? self : (k <= self ? k - 1 : k);      /* self, then ascending ids without self */
    if (!base[i]) continue;
    if (!ready[i]) {
      int blocked = 0;
      for (int u = 0; u < MAXT; u++) if (u != i && (T[i].pmask >> u & 1) && base[u]) blocked = 1;
      if (blocked) { nfair++; continue; }
    }
    list[n++] = i;
  }
  if (!n) {
    if (nfair) { for (int i = 0; i < MAXT; i++) T[i].pmask = 0; goto again; }
    stuck (SCHED_DEADLOCK);
  }
  int c = 0;
  if (n > 1) {
    char lab[28];
    int selfen = list[0] == self;
    snprintf (lab, sizeof lab, "T%d:%s%s", self, T[self].fin ? "exit" : (T[self].label ? T[self].label : "?"), selfen ? "" : "!");
    c = selfen ? vx_choose (n, lab) : vx_choose_free (n, lab);
  }
  int next = list[c];
  for (int i = 0; i < MAXT; i++) T[i].pmask &= ~(1u << next);
  if (!ready[next]) {
    T[next].timedout = 1;
    if (T[next].deadline > vnow) vnow = T[next].deadline;
  } else T[next].timedout = 0;
  return next;
}

static void run_sched (int self) {
  int next = pick (self);
  if (next != self) {
    if (g_cfg.trace) vx_obs ("    ~ T%d(%s) -> T%d(%s%s)", self, T[self].label, next, T[next].label, T[next].timedout ? ",timeout" : "");
    g_cur = next;
    resume (&T[next]);
    park (&T[self]);
  }
  T[self].steps++;
}

static void step (const char *label) {
  sthread *t = &T[my_tid];
  t->op = OP_STEP; t->label = label; t->timed = 0;
  run_sched (my_tid);
}
void sched_point (const char *label) { if (MANAGED ()) step (label); }

/* ------------------------------------------------------------------ session */
void sched_begin (const sched_cfg *cfg) {
  memset (T, 0, sizeof T); nM = 0; ntracked = 0; npipes = 0; g_steps = 0; vnow = 0;
  memset (&g_cfg, 0, sizeof g_cfg);
  if (cfg) g_cfg = *cfg;
  T[0].used = 1; T[0].pth = pthread_self (); T[0].label = "main"; T[0].op = OP_STEP;
  my_tid = 0; g_cur = 0;
  g_active = 1;
}
void sched_end (void) {
  if (!MANAGED ()) return;
  sthread *t = &T[my_tid];
  t->op = OP_JOINALL; t->label = "end"; t->timed = 0;
  run_sched (my_tid);
  g_active = 0;
}
int sched_self (void) { return g_active ? my_tid : -1; }
int sched_nthreads (void) { int n = 0; for (int i = 0; i < MAXT; i++) n += T[i].used; return n; }
int sched_finished (int tid) { return tid >= 0 && tid < MAXT && T[tid].used && T[tid].fin; }
long sched_steps (void) { return g_steps; }
int64_t sched_now_ns (void) { return vnow; }
const char *sched_pending (int tid) { return tid >= 0 && tid < MAXT && T[tid].used ? (T[tid].fin ? "finished" : T[tid].label) : "?"; }
uint64_t sched_state_hash (void) {
  uint64_t h = 1469598103934665603ULL;
#define MIX(v) do { uint64_t v_ = (uint64_t) (v); for (int b_ = 0; b_ < 8; b_++) { h ^= (v_ >> (8 * b_)) & 0xff; h *= 1099511628211ULL; } } while (0)
  MIX (g_cur); MIX (vnow);
  for (int i = 0; i < MAXT; i++) if (T[i].used) { MIX (i); MIX (T[i].fin); MIX (T[i].op); MIX (T[i].steps); MIX (T[i].pmask); MIX (T[i].timed); MIX (T[i].timed ? T[i].deadline : 0); }
  for (int i = 0; i < nM; i++) if (M[i].owner >= 0) { MIX (1000 + M[i].owner); }
  return h;
}

/* ------------------------------------------------------------------ threads */
static void *tramp (void *p) {
  sthread *t = p;
  my_tid = (int) (t - T);
  park (t);
  t->steps++;
  void *r = t->fn (t->arg);
  t->fin = 1; t->op = OP_NONE; t->label = "exit"; t->timed = 0; t->yield_pending = 0;
  int self = my_tid;
  int next = pick (self);
  if (g_cfg.trace) vx_obs ("    ~ T%d(exit) -> T%d(%s%s)", self, next, T[next].label, T[next].timedout ? ",timeout" : "");
  g_cur = next;
  my_tid = -1;
  resume (&T[next]);
  return r;
}

int pthread_create (pthread_t *th, const pthread_attr_t *attr, void *(*fn) (void *), void *arg) {
  if (!MANAGED ()) return REAL (pthread_create) (th, attr, fn, arg);
  step ("create");
  int i = 0;
  while (i < MAXT && T[i].used) i++;
  if (i == MAXT) { vx_fail ("sched:internal:too-many-threads", "more than %d threads", MAXT); vx_child_exit (3); }
  memset (&T[i], 0, sizeof T[i]);
  T[i].used = 1; T[i].fn = fn; T[i].arg = arg; T[i].op = OP_START; T[i].label = "start";
  int r = REAL (pthread_create) (th, attr, tramp, &T[i]);
  if (r) { T[i].used = 0; return r; }
  T[i].pth = *th;
  step ("created");             /* the new thread may run before the creator's next statement */
  return 0;
}

int pthread_join (pthread_t th, void **ret) {
  if (MANAGED ()) {
    /* pthread_t values are reused after a join: only a not-yet-joined entry can be meant */
    for (int i = 0; i < MAXT; i++) if (T[i].used && !T[i].joined && i != my_tid && pthread_equal (T[i].pth, th)) {
      sthread *t = &T[my_tid];
      t->op = OP_JOIN; t->jtarget = i; t->label = "join"; t->timed = 0;
      run_sched (my_tid);
      t->op = OP_NONE;
      T[i].joined = 1;
      break;
    }
  }
  return REAL (pthread_join) (th, ret);
}

/* ------------------------------------------------------------------ mutexes */
int pthread_mutex_lock (pthread_mutex_t *m) {
  if (!MANAGED ()) return REAL (pthread_mutex_lock) (m);
  sthread *t = &T[my_tid];
  t->op = OP_LOCK; t->obj = m; t->label = "lock"; t->timed = 0;
  run_sched (my_tid);
  *mowner (m) = my_tid;
  t->op = OP_NONE;
  int r = REAL (pthread_mutex_trylock) (m);
  if (r) { vx_fail ("sched:internal:mutex-model", "model says free, trylock says %d", r); vx_child_exit (3); }
  return 0;
}
int pthread_mutex_trylock (pthread_mutex_t *m) {
  if (!MANAGED ()) return REAL (pthread_mutex_trylock) (m);
  step ("trylock");
  int *o = mowner (m);
  if (*o != -1) return EBUSY;
  int r = REAL (pthread_mutex_trylock) (m);
  if (!r) *o = my_tid;
  return r;
}
int pthread_mutex_unlock (pthread_mutex_t *m) {
  if (!MANAGED ()) return REAL (pthread_mutex_unlock) (m);
  step ("unlock");
  *mowner (m) = -1;
  int r = REAL (pthread_mutex_unlock) (m);
  /* second scheduling point AFTER the release: what the thread does next is no longer protected by the
   * mutex, so another thread must be able to run between the unlock and that code (e.g. a copy out of a
   * shared slot that was moved behind the unlock) -- a point only before each operation cannot show that */
  step ("unlocked");
  return r;
}

/* ------------------------------------------------------------------ condition variables (modelled) */
static int64_t abs_to_v (const struct timespec *ts) {
  return ((int64_t) ts->tv_sec - VBASE_S) * 1000000000LL + ts->tv_nsec;
}
static int cond_wait_common (pthread_cond_t *c, pthread_mutex_t *m, int timed, int64_t deadline) {
  sthread *t = &T[my_tid];
  /* scheduling point at the entry, mutex still held: whatever the caller tested before deciding to wait was
   * tested earlier, and a thread that does not need this mutex (a lock-free "set flag + notify") can run in
   * between -- its notify then finds no waiter yet (lost wake-up) */
  step ("cv-enter");
  *mowner (m) = -1;
  REAL (pthread_mutex_unlock) (m);
  t->op = OP_CONDWAIT; t->obj = c; t->obj2 = m; t->timed = timed; t->deadline = deadline;
  t->label = timed ? "cv-timedwait" : "cv-wait"; t->yield_pending = timed;
  run_sched (my_tid);
  int timed_out = t->op == OP_CONDWAIT;         /* a signal turns the op into OP_LOCK */
  t->op = OP_NONE; t->timed = 0;
  *mowner (m) = my_tid;
  int r = REAL (pthread_mutex_trylock) (m);
  if (r) { vx_fail ("sched:internal:mutex-model", "cond re-acquire: trylock says %d", r); vx_child_exit (3); }
  return timed_out ? ETIMEDOUT : 0;
}
int pthread_cond_wait (pthread_cond_t *c, pthread_mutex_t *m) {
  if (!MANAGED ()) return REAL (pthread_cond_wait) (c, m);
  return cond_wait_common (c, m, 0, 0);
}
int pthread_cond_timedwait (pthread_cond_t *c, pthread_mutex_t *m, const struct timespec *abst) {
  if (!MANAGED ()) return REAL (pthread_cond_timedwait) (c, m, abst);
  return cond_wait_common (c, m, 1, abs_to_v (abst));
}
int pthread_cond_clockwait (pthread_cond_t *c, pthread_mutex_t *m, clockid_t clk, const struct timespec *abst) {
  if (!MANAGED ()) return REAL (pthread_cond_clockwait) (c, m, clk, abst);
  return cond_wait_common (c, m, 1, abs_to_v (abst));
}
static void cond_wake (pthread_cond_t *c, int all) {
  int w[MAXT], n = 0;
  for (int i = 0; i < MAXT; i++) if (T[i].used && !T[i].fin && T[i].op == OP_CONDWAIT && T[i].obj == c) w[n++] = i;
  if (!n) return;
  int from = 0, to = n;
  if (!all) { from = n > 1 ? vx_choose_free (n, "cv-signal-picks") : 0; to = from + 1; }
  for (int k = from; k < to; k++) {
    sthread *t = &T[w[k]];
    t->op = OP_LOCK; t->obj = t->obj2; t->timed = 0; t->label = "cv-woken"; t->yield_pending = 0;
  }
}
int pthread_cond_signal (pthread_cond_t *c) {
  if (!MANAGED ()) return REAL (pthread_cond_signal) (c);
  step ("cv-signal");
  cond_wake (c, 0);
  return 0;
}
int pthread_cond_broadcast (pthread_cond_t *c) {
  if (!MANAGED ()) return REAL (pthread_cond_broadcast) (c);
  step ("cv-broadcast");
  cond_wake (c, 1);
  return 0;
}

/* ------------------------------------------------------------------ time */
static void vsleep (int64_t ns, const char *label) {
  sthread *t = &T[my_tid];
  t->op = OP_SLEEP; t->timed = 1; t->deadline = vnow + (ns > 0 ? ns : 0); t->label = label; t->yield_pending = 1;
  run_sched (my_tid);
  t->op = OP_NONE; t->timed = 0;
}
int nanosleep (const struct timespec *req, struct timespec *rem) {
  if (!MANAGED ()) return REAL (nanosleep) (req, rem);
  vsleep ((int64_t) req->tv_sec * 1000000000LL + req->tv_nsec, "nanosleep");
  if (rem) rem->tv_sec = rem->tv_nsec = 0;
  return 0;
}
int usleep (useconds_t us) {
  if (!MANAGED ()) return REAL (usleep) (us);
  vsleep ((int64_t) us * 1000, "usleep");
  return 0;
}
int clock_nanosleep (clockid_t clk, int flags, const struct timespec *req, struct timespec *rem) {
  if (!MANAGED ()) return REAL (clock_nanosleep) (clk, flags, req, rem);
  int64_t ns = (flags & TIMER_ABSTIME) ? abs_to_v (req) - vnow : (int64_t) req->tv_sec * 1000000000LL + req->tv_nsec;
  vsleep (ns, "clock_nanosleep");
  return 0;
}
int clock_gettime (clockid_t clk, struct timespec *ts) {
  if (!MANAGED ()) return REAL (clock_gettime) (clk, ts);
  step ("clock");             /* also a scheduling point: separates the atomics around it in timer.cpp */
  ts->tv_sec = VBASE_S + vnow / 1000000000LL;
  ts->tv_nsec = vnow % 1000000000LL;
  return 0;
}

/* ------------------------------------------------------------------ kernel objects */
int epoll_wait (int epfd, struct epoll_event *evs, int max, int ms) {
  if (!MANAGED ()) return REAL (epoll_wait) (epfd, evs, max, ms);
  sthread *t = &T[my_tid];
  if (ms == 0) { step ("epoll_wait0"); return REAL (epoll_wait) (epfd, evs, max, 0); }
  t->op = OP_EPOLL; t->epfd = epfd; t->timed = ms > 0; t->deadline = vnow + (int64_t) ms * 1000000LL;
  t->label = "epoll_wait"; t->yield_pending = ms > 0;
  run_sched (my_tid);
  t->op = OP_NONE; t->timed = 0;
  if (t->timedout) return 0;
  return REAL (epoll_wait) (epfd, evs, max, 0);
}
int select (int n, fd_set *r, fd_set *w, fd_set *e, struct timeval *tv) {
  if (!MANAGED ()) return REAL (select) (n, r, w, e, tv);
  sthread *t = &T[my_tid];
  struct timeval z = { 0, 0 };
  if (tv && tv->tv_sec == 0 && tv->tv_usec == 0) { step ("select0"); return REAL (select) (n, r, w, e, &z); }
  t->op = OP_SELECT; t->sel_n = n; t->sel_r = r; t->sel_w = w; t->sel_e = e;
  t->timed = tv != 0; t->deadline = tv ? vnow + (int64_t) tv->tv_sec * 1000000000LL + (int64_t) tv->tv_usec * 1000 : 0;
  t->label = "select"; t->yield_pending = tv != 0;
  run_sched (my_tid);
  t->op = OP_NONE; t->timed = 0;
  if (t->timedout) {
    if (r) FD_ZERO (r);
    if (w) FD_ZERO (w);
    if (e) FD_ZERO (e);
    return 0;
  }
  return REAL (select) (n, r, w, e, &z);
}
int eventfd (unsigned int init, int flags) {
  int fd = REAL (eventfd) (init, flags);
  if (MANAGED () && fd >= 0) sched_track_fd (fd);
  return fd;
}
static void pipe_created (int fds[2]) {
  sched_track_fd (fds[0]); sched_track_fd (fds[1]);
  if (g_cfg.pipe_capacity > 0 && npipes < 8) { PIPES[npipes].r = fds[0]; PIPES[npipes].w = fds[1]; PIPES[npipes].pending = 0; npipes++; }
}
int pipe2 (int fds[2], int flags) {
  int r = REAL (pipe2) (fds, flags);
  if (MANAGED () && r == 0) pipe_created (fds);
  return r;
}
int pipe (int fds[2]) {
  int r = REAL (pipe) (fds);
  if (MANAGED () && r == 0) pipe_created (fds);
  return r;
}
ssize_t read (int fd, void *buf, size_t n) {
  if (MANAGED () && is_tracked (fd)) {
    int pi = pipe_of (fd, 0);
    if (pi < 0) step ("read");
    else {
      sthread *t = &T[my_tid];
      t->op = OP_PIPEREAD; t->pipe_i = pi; t->pipe_n = n; t->label = "read"; t->timed = 0;
      t->pipe_nonblock = (fcntl (fd, F_GETFL) & O_NONBLOCK) != 0;
      run_sched (my_tid);
      t->op = OP_NONE;
      if (PIPES[pi].pending <= 0) { errno = EAGAIN; return -1; }        /* only reached on a non-blocking descriptor */
      ssize_t r = REAL (read) (fd, buf, n);
      if (r > 0) PIPES[pi].pending -= r;
      return r;
    }
  }
  return REAL (read) (fd, buf, n);
}
ssize_t write (int fd, const void *buf, size_t n) {
  if (MANAGED () && is_tracked (fd)) {
    int pi = pipe_of (fd, 1);
    if (pi < 0) step ("write");
    else {
      sthread *t = &T[my_tid];
      t->op = OP_PIPEWRITE; t->pipe_i = pi; t->pipe_n = n; t->label = "write"; t->timed = 0;
      t->pipe_nonblock = (fcntl (fd, F_GETFL) & O_NONBLOCK) != 0;
      run_sched (my_tid);
      t->op = OP_NONE;
      if (PIPES[pi].pending + (long) n > g_cfg.pipe_capacity) { errno = EAGAIN; return -1; }   /* full, non-blocking descriptor */
      ssize_t r = REAL (write) (fd, buf, n);
      if (r > 0) PIPES[pi].pending += r;
      return r;
    }
  }
  return REAL (write) (fd, buf, n);
}
