/* vx — bounded-exhaustive explorer for harnesses that drive the real neolith code.
 *
 * A harness initialises the driver once, then calls vx_run().  Every execution
 * of `body` happens in a fork()ed child of that initialised process (fork is
 * the snapshot), with a prefix of choices to replay; after the prefix every
 * vx_choose() returns 0 (the default environment answer).  The parent
 * enumerates prefixes depth-first: all alternatives of all choice points whose
 * deviation cost fits the budget, pruned by canonical-state hashes supplied via
 * vx_state().  Nothing is sampled.
 */
#pragma once
#include <stddef.h>
#ifdef __cplusplus
extern "C" {
#endif

typedef void (*vx_body_fn) (void);
typedef void (*vx_elem_fn) (long index);

/* choice points */
int vx_choose (int n, const char *label);       /* alternatives 1..n-1 cost one deviation each */
int vx_choose_free (int n, const char *label);  /* alternatives are free: bounded by the harness's own depth */
void vx_state (const void *canon, size_t len);  /* canonical state, attached to the next choice point */

/* observations and verdicts */
void vx_obs (const char *fmt, ...);              /* appended to this execution's observation log */
void vx_fail (const char *key, const char *fmt, ...);   /* violation; key = finding key */
void vx_count (int id, long add);                /* measured counters, summed over executions (id 0..15) */
void vx_count_name (int id, const char *name);
int vx_replaying (void);
int vx_in_child (void);
long vx_enum_index (void);
const char *vx_obs_text (void);
void vx_scan_now (void);                          /* scan sanitizer output produced so far into fails */
void vx_child_exit (int code);                    /* finish this execution early (records, then _exit) */
void vx_enum_restart (void);                      /* --enum: after this element, run the rest of the batch in a fresh child */
void vx_detach (void);                            /* (added for C01) a process forked BY a child stops recording into the child's slot:
                                                     vx_fail prints to stderr, vx_obs/vx_count/vx_scan_now become no-ops */

/* harness options: --name=value anywhere in argv (call vx_init_args first) */
void vx_init_args (int argc, char **argv);
const char *vx_opt (const char *name, const char *def);
long vx_opt_long (const char *name, long def);

/* enumeration mode (E2): total elements, per-element function, printable description */
void vx_set_enum (long total, vx_elem_fn fn, void (*describe) (long index, char *buf, size_t len));

/* entry: parses --explore/--replay/--enum/... from argv */
int vx_run (int argc, char **argv, vx_body_fn body);

#ifdef __cplusplus
}
#endif
