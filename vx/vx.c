/* vx.c — see vx.h.  This TU is compiled WITHOUT sanitizer instrumentation. */
#define _GNU_SOURCE
#include "vx.h"
#include <errno.h>
#include <fcntl.h>
#include <signal.h>
#include <stdarg.h>
#include <stdint.h>
#include <stdio.h>
#include <stdlib.h>
#include <string.h>
#include <sys/mman.h>
#include <sys/personality.h>
#include <sys/prctl.h>
#include <sys/syscall.h>
#include <sys/time.h>
#include <sys/types.h>
#include <sys/wait.h>
#include <time.h>
#include <unistd.h>

#define MAXC 400
#define LABLEN 28
#define OBS_MAX (96 * 1024)
#define MAXFAIL 512             /* per execution / per enumeration batch; overflow is reported as VX-FAIL-OVERFLOW (was 48, silent) */
#define NCOUNT 16
#define MAXJOBS 64

typedef struct {
  char key[220];
  char msg[600];
  long index;                   /* enumeration index or -1 */
} vx_failrec;

typedef struct {
  volatile int done;
  int nchoices;
  int choice[MAXC];
  int n[MAXC];
  unsigned char isfree[MAXC];
  uint64_t st[MAXC];
  char label[MAXC][LABLEN];
  int obs_len;
  char obs[OBS_MAX];
  int nfail, fail_overflow;
  vx_failrec fail[MAXFAIL];
  long counter[NCOUNT];
  volatile long enum_cur;       /* element being run */
  volatile long enum_ndone;     /* elements completed by this child */
  volatile int64_t tick_ms;     /* time the current element started */
  int diverged;
  int sample_n;                 /* enumeration: obs offsets of first elements */
  volatile int enum_restart;    /* enumeration: child asks for the rest of its batch to be run in a fresh child */
} vx_slot;

static int g_argc;
static char **g_argv;
static vx_slot *slots;
static int slot_fd[MAXJOBS];
static int njobs = 16;
static vx_slot *cur;            /* child: my slot */
static int cur_fd = -1;
static int in_child;
static int replaying;
static int *prefix, prefix_len;
static char **replay_labels;
static int replay_nlabels;
static uint64_t pending_state;
static off_t scanned;           /* child/parent: stderr bytes already scanned */
static const char *counter_name[NCOUNT];
static long enum_total;
static vx_elem_fn enum_fn;
static void (*enum_describe) (long, char *, size_t);

static int64_t now_ms (void) {
  struct timespec ts;
  clock_gettime (CLOCK_MONOTONIC, &ts);
  return (int64_t) ts.tv_sec * 1000 + ts.tv_nsec / 1000000;
}

static uint64_t fnv (const void *p, size_t n, uint64_t h) {
  const unsigned char *s = p;
  if (!h) h = 1469598103934665603ULL;
  while (n--) { h ^= *s++; h *= 1099511628211ULL; }
  return h;
}

/* ------------------------------------------------------------------ options */
void vx_init_args (int argc, char **argv) { g_argc = argc; g_argv = argv; }
const char *vx_opt (const char *name, const char *def) {
  size_t l = strlen (name);
  for (int i = 1; i < g_argc; i++)
    if (!strncmp (g_argv[i], "--", 2) && !strncmp (g_argv[i] + 2, name, l) && g_argv[i][2 + l] == '=')
      return g_argv[i] + 3 + l;
  return def;
}
long vx_opt_long (const char *name, long def) {
  const char *v = vx_opt (name, 0);
  return v ? strtol (v, 0, 0) : def;
}
static int has_flag (const char *name) {
  for (int i = 1; i < g_argc; i++)
    if (!strncmp (g_argv[i], "--", 2) && !strcmp (g_argv[i] + 2, name)) return 1;
  return 0;
}

/* ------------------------------------------------------------------ child API */
int vx_replaying (void) { return replaying; }
int vx_in_child (void) { return in_child; }
long vx_enum_index (void) { return cur ? cur->enum_cur : -1; }
const char *vx_obs_text (void) { return cur ? cur->obs : ""; }
void vx_count_name (int id, const char *name) { if (id >= 0 && id < NCOUNT) counter_name[id] = name; }
void vx_count (int id, long add) { if (cur && id >= 0 && id < NCOUNT) cur->counter[id] += add; }

void vx_fail (const char *key, const char *fmt, ...) {
  va_list ap;
  if (!cur) { va_start (ap, fmt); fprintf (stderr, "vx_fail(%s): ", key); vfprintf (stderr, fmt, ap); fputc ('\n', stderr); va_end (ap); return; }
  /* one record per key per execution/element */
  for (int i = 0; i < cur->nfail; i++)
    if (!strcmp (cur->fail[i].key, key) && cur->fail[i].index == cur->enum_cur) return;
  if (cur->nfail >= MAXFAIL - 1) {
    /* never lose a failure silently: the last record says that records were dropped */
    if (cur->nfail == MAXFAIL - 1) {
      vx_failrec *o = &cur->fail[cur->nfail++];
      snprintf (o->key, sizeof o->key, "VX-FAIL-OVERFLOW");
      snprintf (o->msg, sizeof o->msg, "more than %d failure records in one execution/batch; later ones dropped (first dropped key: %.200s)", MAXFAIL - 1, key);
      o->index = cur->enum_cur;
    }
    cur->fail_overflow++;
    return;
  }
  vx_failrec *f = &cur->fail[cur->nfail];
  snprintf (f->key, sizeof f->key, "%s", key);
  va_start (ap, fmt);
  vsnprintf (f->msg, sizeof f->msg, fmt, ap);
  va_end (ap);
  f->index = cur->enum_cur;
  cur->nfail++;
}

void vx_obs (const char *fmt, ...) {
  va_list ap;
  if (!cur) return;
  int room = OBS_MAX - 1 - cur->obs_len;
  if (room <= 1) return;
  va_start (ap, fmt);
  int k = vsnprintf (cur->obs + cur->obs_len, room, fmt, ap);
  va_end (ap);
  if (k < 0) return;
  if (k >= room) k = room - 1;
  cur->obs_len += k;
  if (cur->obs_len < OBS_MAX - 2 && cur->obs[cur->obs_len - 1] != '\n') cur->obs[cur->obs_len++] = '\n';
  cur->obs[cur->obs_len] = 0;
}

void vx_state (const void *canon, size_t len) {
  pending_state = fnv (canon, len, 0);
  if (!pending_state) pending_state = 1;
}

static int choose (int n, const char *label, int isfree) {
  if (!cur) return 0;
  if (n < 1) n = 1;
  int pos = cur->nchoices;
  int c = 0;
  if (pos >= MAXC) { vx_fail ("VX-TOO-MANY-CHOICES", "more than %d choice points", MAXC); vx_child_exit (3); }
  if (pos < prefix_len) {
    c = prefix[pos];
    if (c < 0 || c >= n) {
      cur->diverged = 1;
      vx_fail ("VX-DIVERGENCE", "choice %d at position %d (%s) out of range %d", c, pos, label, n);
      vx_child_exit (2);
    }
    if (replay_labels && pos < replay_nlabels && strncmp (replay_labels[pos], label, LABLEN - 1)) {
      cur->diverged = 1;
      vx_fail ("VX-DIVERGENCE", "label at position %d is '%s', recorded '%s'", pos, label, replay_labels[pos]);
      vx_child_exit (2);
    }
  }
  cur->choice[pos] = c;
  cur->n[pos] = n;
  cur->isfree[pos] = (unsigned char) isfree;
  cur->st[pos] = pending_state;
  pending_state = 0;
  snprintf (cur->label[pos], LABLEN, "%s", label);
  cur->nchoices = pos + 1;
  return c;
}
int vx_choose (int n, const char *label) { return choose (n, label, 0); }
int vx_choose_free (int n, const char *label) { return choose (n, label, 1); }

/* ------------------------------------------------------------------ sanitizer text → finding keys */
static const char *base_name (const char *p) { const char *s = strrchr (p, '/'); return s ? s + 1 : p; }

/* parse "    #0 0x... in FUNC PATH:LINE[:COL]" → func, path; returns 1 if a frame line */
static int parse_frame (const char *line, char *func, size_t fl, char *path, size_t pl) {
  const char *p = line;
  while (*p == ' ') p++;
  if (*p != '#') return 0;
  const char *in = strstr (p, " in ");
  func[0] = path[0] = 0;
  if (!in) return 1;
  in += 4;
  const char *sp = strchr (in, ' ');
  size_t n = sp ? (size_t) (sp - in) : strlen (in);
  if (n >= fl) n = fl - 1;
  memcpy (func, in, n); func[n] = 0;
  if (sp) {
    sp++;
    const char *e = sp + strcspn (sp, ":\n (");
    n = (size_t) (e - sp);
    if (n >= pl) n = pl - 1;
    memcpy (path, sp, n); path[n] = 0;
  }
  return 1;
}

static const char *repo_prefix (void) {
  static const char *p;
  if (!p) { p = getenv ("VX_REPO_PREFIX"); if (!p || !*p) p = "/repo/"; }
  return p;
}
static void emit_scan (const char *key, const char *msg) { vx_fail (key, "%s", msg); }

static void scan_text (char *buf) {
  char *line = buf, *next;
  int in_asan = 0, frames_started = 0, stack_done = 0;
  char kind[64] = "", rw[16] = "", frame[160] = "", first_any[160] = "", msg[300] = "";
  int in_ubsan = 0;
  char ukey[260] = "", umsg[300] = "";
  for (; line && *line; line = next) {
    next = strchr (line, '\n');
    if (next) *next++ = 0;
    char *e;
    if ((e = strstr (line, "ERROR: AddressSanitizer: ")) || (e = strstr (line, "ERROR: LeakSanitizer"))) {
      if (in_asan) {
        char key[260];
        snprintf (key, sizeof key, "asan:%s:%s:%s", kind, rw[0] ? rw : "-", frame[0] ? frame : (first_any[0] ? first_any : "?"));
        emit_scan (key, msg);
      }
      if (in_ubsan) { emit_scan (ukey, umsg); in_ubsan = 0; }
      in_asan = 1; frames_started = stack_done = 0; rw[0] = frame[0] = first_any[0] = 0;
      const char *k = strstr (line, "Sanitizer: ");
      k = k ? k + 11 : "leak";
      size_t n = strcspn (k, " \n");
      if (!strncmp (k, "attempting", 10)) n = strcspn (k, "(\n"); /* "attempting double-free on ..." */
      if (n >= sizeof kind) n = sizeof kind - 1;
      memcpy (kind, k, n); kind[n] = 0;
      for (char *q = kind; *q; q++) if (*q == ' ') *q = '-';
      if (!strncmp (kind, "attempting-", 11)) { char *q = strstr (kind, "-on-"); if (q) *q = 0; }
      snprintf (msg, sizeof msg, "%s", e);
      continue;
    }
    if (in_asan) {
      if (!strncmp (line, "READ of size", 12)) strcpy (rw, "READ");
      else if (!strncmp (line, "WRITE of size", 13)) strcpy (rw, "WRITE");
      else if (strstr (line, "caused by a READ")) strcpy (rw, "READ");
      else if (strstr (line, "caused by a WRITE")) strcpy (rw, "WRITE");
      char func[120], path[300];
      if (!stack_done && parse_frame (line, func, sizeof func, path, sizeof path)) {
        frames_started = 1;
        if (path[0] && !strstr (path, "libsanitizer") && !strstr (path, "/vx/vx.c")) {
          if (!first_any[0]) snprintf (first_any, sizeof first_any, "%s:%s", base_name (path), func);
          if (!frame[0] && !strncmp (path, repo_prefix (), strlen (repo_prefix ()))) snprintf (frame, sizeof frame, "%s:%s", base_name (path), func);
        }
      } else if (frames_started && !stack_done) stack_done = 1;
      if (strstr (line, "SUMMARY: AddressSanitizer") || strstr (line, "SUMMARY: LeakSanitizer")) {
        char key[260];
        snprintf (key, sizeof key, "asan:%s:%s:%s", kind, rw[0] ? rw : "-", frame[0] ? frame : (first_any[0] ? first_any : "?"));
        emit_scan (key, msg);
        in_asan = 0;
      }
      continue;
    }
    if ((e = strstr (line, ": runtime error: "))) {
      if (in_ubsan) emit_scan (ukey, umsg);
      in_ubsan = 1;
      char file[200];
      size_t n = strcspn (line, ":");
      if (n >= sizeof file) n = sizeof file - 1;
      memcpy (file, line, n); file[n] = 0;
      const char *m = e + 17;
      const char *cls = "other";
      if (!strncmp (m, "index ", 6)) cls = "index-out-of-bounds";
      else if (strstr (m, "null pointer")) cls = "null-pointer";
      else if (strstr (m, "misaligned")) cls = "misaligned";
      snprintf (ukey, sizeof ukey, "ubsan:%s:%s:", cls, base_name (file));
      snprintf (umsg, sizeof umsg, "%s", line);
      continue;
    }
    if (in_ubsan) {
      char func[120], path[300];
      if (parse_frame (line, func, sizeof func, path, sizeof path)) {
        if (ukey[strlen (ukey) - 1] == ':' && func[0]) strncat (ukey, func, sizeof ukey - strlen (ukey) - 1);
      } else { emit_scan (ukey, umsg); in_ubsan = 0; }
    }
  }
  if (in_asan) {
    char key[260];
    snprintf (key, sizeof key, "asan:%s:%s:%s", kind, rw[0] ? rw : "-", frame[0] ? frame : (first_any[0] ? first_any : "?"));
    emit_scan (key, msg);
  }
  if (in_ubsan) emit_scan (ukey, umsg);
}

static void scan_fd (int fd) {
  off_t end = lseek (fd, 0, SEEK_END);
  if (end <= scanned) return;
  size_t n = (size_t) (end - scanned);
  if (n > (8u << 20)) { scanned = end - (8 << 20); n = 8u << 20; }
  char *buf = malloc (n + 1);
  if (!buf) return;
  ssize_t r = pread (fd, buf, n, scanned);
  if (r > 0) {
    buf[r] = 0;
    if (memmem (buf, (size_t) r, "Sanitizer", 9) || memmem (buf, (size_t) r, "runtime error", 13)) scan_text (buf);
  }
  scanned = end;
  free (buf);
}

void vx_scan_now (void) { if (cur && cur_fd >= 0) scan_fd (cur_fd); }
void vx_detach (void) { cur = 0; cur_fd = -1; }

/* enumeration mode: finish the current element normally, then end this child; the parent runs the remaining
 * elements of the batch in a fresh child (for elements that leave the process in a state that would taint the next ones) */
void vx_enum_restart (void) { if (cur) cur->enum_restart = 1; }

void vx_child_exit (int code) {
  if (cur) {
    vx_scan_now ();
    cur->done = 1;
  }
  syscall (SYS_exit_group, code);   /* not _exit(): harnesses --wrap it */
  for (;;) ;
}

/* ------------------------------------------------------------------ JSON helpers */
static void jstr (FILE *f, const char *s) {
  fputc ('"', f);
  for (; *s; s++) {
    unsigned char c = (unsigned char) *s;
    if (c == '"' || c == '\\') { fputc ('\\', f); fputc (c, f); }
    else if (c == '\n') fputs ("\\n", f);
    else if (c == '\t') fputs ("\\t", f);
    else if (c < 0x20 || c >= 0x7f) fprintf (f, "\\u%04x", c);
    else fputc (c, f);
  }
  fputc ('"', f);
}

static char *read_tail (int fd, size_t max) {
  off_t end = lseek (fd, 0, SEEK_END);
  off_t from = end > (off_t) max ? end - (off_t) max : 0;
  char *b = malloc ((size_t) (end - from) + 1);
  ssize_t r = pread (fd, b, (size_t) (end - from), from);
  if (r < 0) r = 0;
  b[r] = 0;
  return b;
}

static void write_exec_record (FILE *out, const char *type, vx_slot *s, int fd, int with_stderr) {
  fprintf (out, "{\"type\":\"%s\",\"choices\":[", type);
  for (int i = 0; i < s->nchoices; i++) fprintf (out, "%s%d", i ? "," : "", s->choice[i]);
  fputs ("],\"labels\":[", out);
  for (int i = 0; i < s->nchoices; i++) { if (i) fputc (',', out); jstr (out, s->label[i]); }
  fputs ("],\"fails\":[", out);
  for (int i = 0; i < s->nfail; i++) {
    if (i) fputc (',', out);
    fputs ("{\"key\":", out); jstr (out, s->fail[i].key);
    fputs (",\"msg\":", out); jstr (out, s->fail[i].msg);
    fprintf (out, ",\"index\":%ld}", s->fail[i].index);
  }
  fputs ("],\"obs\":", out);
  s->obs[s->obs_len < OBS_MAX ? s->obs_len : OBS_MAX - 1] = 0;
  jstr (out, s->obs);
  if (with_stderr && fd >= 0) {
    char *t = read_tail (fd, 6000);
    fputs (",\"stderr\":", out); jstr (out, t);
    free (t);
  }
  fputs ("}\n", out);
  fflush (out);
}

/* ------------------------------------------------------------------ parent: sets */
typedef struct { uint64_t *k; signed char *v; size_t cap, n; } hset;
static void hs_init (hset *h, size_t cap) { h->cap = cap; h->n = 0; h->k = calloc (cap, 8); h->v = calloc (cap, 1); }
static void hs_free (hset *h) { free (h->k); free (h->v); }
static signed char *hs_slot (hset *h, uint64_t key, int *isnew);
static void hs_grow (hset *h) {
  hset o = *h;
  hs_init (h, o.cap * 2);
  for (size_t i = 0; i < o.cap; i++) if (o.k[i]) { int nw; *hs_slot (h, o.k[i], &nw) = o.v[i]; }
  hs_free (&o);
}
static signed char *hs_slot (hset *h, uint64_t key, int *isnew) {
  if (h->n * 10 > h->cap * 6) hs_grow (h);
  if (!key) key = 1;
  size_t i = (size_t) (key * 0x9E3779B97F4A7C15ULL >> 20) % h->cap;
  while (h->k[i] && h->k[i] != key) i = (i + 1) % h->cap;
  *isnew = !h->k[i];
  if (*isnew) { h->k[i] = key; h->n++; }
  return &h->v[i];
}

/* ------------------------------------------------------------------ parent: job control */
typedef struct { int len, cost; int *c; } work;
static work *stack; static size_t sp_n, sp_cap;
static void push_work (const int *c, int len, int extra, int cost) {
  if (sp_n == sp_cap) { sp_cap = sp_cap ? sp_cap * 2 : 1024; stack = realloc (stack, sp_cap * sizeof *stack); }
  work *w = &stack[sp_n++];
  w->len = len + (extra >= 0); w->cost = cost;
  w->c = malloc (sizeof (int) * (size_t) (w->len ? w->len : 1));
  if (len) memcpy (w->c, c, sizeof (int) * (size_t) len);
  if (extra >= 0) w->c[len] = extra;
}

typedef struct {
  pid_t pid; int64_t start; work w; int active; long e_from, e_to; int64_t timeout;
} job;
static job jobs[MAXJOBS];

static void child_setup (int j) {
  prctl (PR_SET_PDEATHSIG, SIGKILL);    /* an explorer that is killed (hard timeout) must not leave spinning children */
  if (getppid () == 1) syscall (SYS_exit_group, 0);
  in_child = 1;
  cur = &slots[j];
  cur_fd = slot_fd[j];
  memset (cur, 0, offsetof (vx_slot, obs));
  cur->obs_len = 0; cur->obs[0] = 0; cur->nfail = cur->fail_overflow = 0;
  memset (cur->counter, 0, sizeof cur->counter);
  cur->enum_cur = -1; cur->enum_ndone = 0; cur->diverged = 0; cur->enum_restart = 0;
  (void) !ftruncate (cur_fd, 0);
  lseek (cur_fd, 0, SEEK_SET);
  scanned = 0;
  dup2 (cur_fd, 2);
  dup2 (cur_fd, 1);
  pending_state = 0;
}

static pid_t launch_exec (int j, vx_body_fn body, const int *pre, int len) {
  slots[j].done = 0;
  fflush (0);
  pid_t pid = fork ();
  if (pid < 0) { perror ("fork"); exit (2); }
  if (pid == 0) {
    child_setup (j);
    prefix = (int *) pre; prefix_len = len;
    body ();
    vx_child_exit (0);
  }
  return pid;
}

static pid_t launch_enum (int j, long from, long to, long rotate) {
  slots[j].done = 0;
  fflush (0);
  pid_t pid = fork ();
  if (pid < 0) { perror ("fork"); exit (2); }
  if (pid == 0) {
    child_setup (j);
    for (long i = from; i < to; i++) {
      long idx = (i + rotate) % enum_total;
      cur->enum_cur = idx;
      cur->tick_ms = now_ms ();
      int keep = cur->enum_ndone < 3;
      if (!keep) { cur->obs_len = 0; cur->obs[0] = 0; }
      else vx_obs ("#elem %ld", idx);
      enum_fn (idx);
      vx_scan_now ();
      cur->enum_ndone++;
      if (cur->enum_restart) break;
    }
    cur->enum_cur = -1;
    vx_child_exit (0);
  }
  return pid;
}

/* add a parent-side failure for a child that died */
static void death_fail (vx_slot *s, int fd, int status, const char *where) {
  vx_slot *save = cur; int savefd = cur_fd; off_t savesc = scanned;
  cur = s; cur_fd = fd; scanned = 0;
  int before = s->nfail;
  scan_fd (fd);                 /* a fatal sanitizer report is in the text; duplicates are dropped by key */
  if (s->nfail == before) {
    char key[200];
    if (WIFSIGNALED (status)) snprintf (key, sizeof key, "died:signal%d:%s", WTERMSIG (status), where);
    else snprintf (key, sizeof key, "died:exit%d:%s", WEXITSTATUS (status), where);
    vx_fail (key, "child ended abnormally (status 0x%x) at %s", status, where);
  }
  cur = save; cur_fd = savefd; scanned = savesc;
}

typedef struct { char key[220]; long n; } keycount;
static keycount *kc; static size_t kc_n, kc_cap;
static long bump_key (const char *key) {
  for (size_t i = 0; i < kc_n; i++) if (!strcmp (kc[i].key, key)) return ++kc[i].n;
  if (kc_n == kc_cap) { kc_cap = kc_cap ? kc_cap * 2 : 64; kc = realloc (kc, kc_cap * sizeof *kc); }
  snprintf (kc[kc_n].key, sizeof kc[kc_n].key, "%s", key); kc[kc_n].n = 1; kc_n++;
  return 1;
}

static long tot_counter[NCOUNT];
static void add_counters (vx_slot *s) { for (int i = 0; i < NCOUNT; i++) tot_counter[i] += s->counter[i]; }

static void write_counters (FILE *out) {
  fputs ("\"counters\":{", out);
  int first = 1;
  for (int i = 0; i < NCOUNT; i++) if (counter_name[i]) {
    if (!first) fputc (',', out);
    first = 0;
    jstr (out, counter_name[i]); fprintf (out, ":%ld", tot_counter[i]);
  }
  fputs ("},\"fail_keys\":{", out);
  for (size_t i = 0; i < kc_n; i++) { if (i) fputc (',', out); jstr (out, kc[i].key); fprintf (out, ":%ld", kc[i].n); }
  fputs ("}", out);
}

/* ------------------------------------------------------------------ explore */
static int explore (vx_body_fn body, FILE *out) {
  int maxbudget = (int) vx_opt_long ("budget", 0);
  int minbudget = (int) vx_opt_long ("min-budget", 0);
  int64_t timeout = vx_opt_long ("timeout-ms", 20000);
  int64_t deadline = vx_opt_long ("deadline-s", 0) ? now_ms () + 1000 * vx_opt_long ("deadline-s", 0) : 0;
  long max_exec = vx_opt_long ("max-exec", 0);
  int samples_left = (int) vx_opt_long ("samples", 4);
  int completed = -1, capped = 0;
  long g_exec = 0, g_states = 0, g_trans = 0, g_merged = 0, g_hang = 0; int g_maxdepth = 0; size_t g_outcomes = 0;
  hset outcomes; hs_init (&outcomes, 1 << 16);

  for (int budget = minbudget; budget <= maxbudget && !capped; budget++) {
    hset seen; hs_init (&seen, 1 << 18);
    long exec = 0, states = 0, trans = 0, merged = 0; int maxdepth = 0;
    int64_t t0 = now_ms ();
    sp_n = 0;
    push_work (0, 0, -1, 0);
    int active = 0;
    work *retry = 0; size_t nretry = 0;
    int phase_retry = 0;
    for (;;) {
      /* launch */
      while (active < (phase_retry ? 1 : njobs) && (sp_n > 0) && !capped) {
        if (deadline && now_ms () > deadline) { capped = 1; break; }
        if (max_exec && g_exec + exec >= max_exec) { capped = 1; break; }
        int j = 0; while (jobs[j].active) j++;
        jobs[j].w = stack[--sp_n];
        jobs[j].pid = launch_exec (j, body, jobs[j].w.c, jobs[j].w.len);
        jobs[j].start = now_ms (); jobs[j].active = 1; jobs[j].timeout = phase_retry ? timeout * 20 : timeout;
        active++;
      }
      if (!active) {
        if (capped) break;
        if (!phase_retry && nretry) {     /* timed-out paths are re-run alone with 20x the limit */
          phase_retry = 1;
          for (size_t i = 0; i < nretry; i++) { if (sp_n == sp_cap) { sp_cap = sp_cap ? sp_cap * 2 : 1024; stack = realloc (stack, sp_cap * sizeof *stack); } stack[sp_n++] = retry[i]; }
          nretry = 0;
          continue;
        }
        break;
      }
      int status; pid_t pid = waitpid (-1, &status, WNOHANG);
      if (pid <= 0) {
        int64_t t = now_ms ();
        for (int j = 0; j < njobs; j++) if (jobs[j].active && t - jobs[j].start > jobs[j].timeout) kill (jobs[j].pid, SIGKILL);
        usleep (150);
        continue;
      }
      int j = 0; while (j < njobs && !(jobs[j].active && jobs[j].pid == pid)) j++;
      if (j == njobs) continue;
      jobs[j].active = 0; active--;
      vx_slot *s = &slots[j];
      work w = jobs[j].w;
      int killed = WIFSIGNALED (status) && WTERMSIG (status) == SIGKILL && now_ms () - jobs[j].start >= jobs[j].timeout;
      if (killed && !phase_retry) {
        retry = realloc (retry, (nretry + 1) * sizeof *retry); retry[nretry++] = w;
        continue;
      }
      exec++;
      if (killed) {
        g_hang++;
        vx_slot *save = cur; cur = s;
        char key[200]; snprintf (key, sizeof key, "hang:%s", s->nchoices ? s->label[s->nchoices - 1] : "start");
        vx_fail (key, "execution did not finish within %ld ms (re-run alone)", (long) jobs[j].timeout);
        cur = save;
      } else if (!s->done || !WIFEXITED (status) || WEXITSTATUS (status) != 0) {
        if (!(s->done && s->diverged))
          death_fail (s, slot_fd[j], status, s->nchoices ? s->label[s->nchoices - 1] : "start");
      }
      add_counters (s);
      if (s->nchoices > maxdepth) maxdepth = s->nchoices;
      /* outcome */
      { int nw; hs_slot (&outcomes, fnv (s->obs, (size_t) s->obs_len, 0), &nw); }
      if (s->nfail) {
        int report = 0;
        for (int i = 0; i < s->nfail; i++) if (bump_key (s->fail[i].key) <= 3) report = 1;
        if (report) write_exec_record (out, "fail", s, slot_fd[j], 1);
      } else if (samples_left > 0 && (exec == 1 || s->nchoices >= 2)) {
        samples_left--;
        write_exec_record (out, "sample", s, -1, 0);
      }
      /* expand */
      int cost = 0;
      for (int i = 0; i < s->nchoices; i++) {
        if (i >= w.len) {
          int rem = budget - cost;
          if (s->st[i]) {
            int nw; signed char *v = hs_slot (&seen, s->st[i], &nw);
            if (!nw && *v >= rem + 1) { merged++; break; }
            if (nw) states++;
            *v = (signed char) (rem + 1);
          } else states++;
          for (int alt = s->n[i] - 1; alt >= 1; alt--) {
            int c = s->isfree[i] ? 0 : 1;
            if (cost + c <= budget) push_work (s->choice, i, alt, cost + c);
          }
        }
        if (s->choice[i] && !s->isfree[i]) cost++;
      }
      trans += s->nchoices - w.len + (w.len > 0);
      free (w.c);
    }
    /* drain on cap */
    for (int j = 0; j < njobs; j++) if (jobs[j].active) { kill (jobs[j].pid, SIGKILL); waitpid (jobs[j].pid, 0, 0); jobs[j].active = 0; free (jobs[j].w.c); }
    while (sp_n) free (stack[--sp_n].c);
    hs_free (&seen);
    g_exec += exec; g_states = states; g_trans = trans; g_merged = merged; if (maxdepth > g_maxdepth) g_maxdepth = maxdepth;
    fprintf (out, "{\"type\":\"budget\",\"budget\":%d,\"complete\":%s,\"executions\":%ld,\"states\":%ld,\"transitions\":%ld,\"merged\":%ld,\"max_depth\":%d,\"ms\":%ld}\n",
             budget, capped ? "false" : "true", exec, states, trans, merged, maxdepth, (long) (now_ms () - t0));
    fflush (out);
    if (!capped) completed = budget;
  }
  g_outcomes = outcomes.n;
  fprintf (out, "{\"type\":\"summary\",\"mode\":\"explore\",\"budget_completed\":%d,\"budget_requested\":%d,\"exhaustive\":%s,\"executions\":%ld,\"states\":%ld,\"transitions\":%ld,\"merged\":%ld,\"max_depth\":%d,\"distinct_outcomes\":%zu,\"hangs\":%ld,",
           completed, maxbudget, capped ? "false" : "true", g_exec, g_states, g_trans, g_merged, g_maxdepth, g_outcomes, g_hang);
  write_counters (out);
  fputs ("}\n", out);
  fflush (out);
  return 0;
}

/* ------------------------------------------------------------------ enumerate */
static void write_enum_fails (FILE *out, vx_slot *s, int fd) {
  for (int i = 0; i < s->nfail; i++) {
    if (bump_key (s->fail[i].key) > 3) continue;
    char d[2000] = "";
    if (enum_describe && s->fail[i].index >= 0) enum_describe (s->fail[i].index, d, sizeof d);
    fprintf (out, "{\"type\":\"fail\",\"index\":%ld,\"desc\":", s->fail[i].index); jstr (out, d);
    fputs (",\"fails\":[{\"key\":", out); jstr (out, s->fail[i].key);
    fputs (",\"msg\":", out); jstr (out, s->fail[i].msg);
    fprintf (out, ",\"index\":%ld}]", s->fail[i].index);
    char *t = read_tail (fd, 5000);
    fputs (",\"stderr\":", out); jstr (out, t); free (t);
    fputs ("}\n", out);
  }
  fflush (out);
}

static int enumerate (FILE *out) {
  long from = vx_opt_long ("from", 0), to = vx_opt_long ("to", enum_total);
  long batch = vx_opt_long ("batch", 200), rotate = vx_opt_long ("rotate", 0);
  int64_t timeout = vx_opt_long ("timeout-ms", 10000);
  int64_t deadline = vx_opt_long ("deadline-s", 0) ? now_ms () + 1000 * vx_opt_long ("deadline-s", 0) : 0;
  if (to > enum_total) to = enum_total;
  if (enum_total > 0) rotate %= enum_total;
  long next = from, evaluated = 0, hangs = 0; int capped = 0, active = 0, samples = 3;
  /* pending ranges pushed back after a crash/hang */
  struct rng { long a, b; int alone; } *pend = 0; size_t npend = 0;
  for (;;) {
    while (active < njobs && !capped) {
      if (!npend && next >= to) break;          /* nothing left to launch: a deadline that passes now caps nothing */
      if (deadline && now_ms () > deadline) { capped = 1; break; }
      long a, b; int alone = 0;
      if (npend) { a = pend[npend - 1].a; b = pend[npend - 1].b; alone = pend[npend - 1].alone; npend--; }
      else if (next < to) { a = next; b = next + batch < to ? next + batch : to; next = b; }
      else break;
      int j = 0; while (jobs[j].active) j++;
      jobs[j].e_from = a; jobs[j].e_to = b;
      jobs[j].timeout = alone ? timeout * 20 : timeout;
      slots[j].tick_ms = now_ms ();
      jobs[j].pid = launch_enum (j, a, b, rotate);
      jobs[j].active = 1; active++;
    }
    if (!active) break;
    int status; pid_t pid = waitpid (-1, &status, WNOHANG);
    if (pid <= 0) {
      int64_t t = now_ms ();
      for (int j = 0; j < njobs; j++)
        if (jobs[j].active && t - slots[j].tick_ms > jobs[j].timeout) kill (jobs[j].pid, SIGKILL);
      usleep (150);
      continue;
    }
    int j = 0; while (j < njobs && !(jobs[j].active && jobs[j].pid == pid)) j++;
    if (j == njobs) continue;
    jobs[j].active = 0; active--;
    vx_slot *s = &slots[j];
    evaluated += s->enum_ndone;
    add_counters (s);
    if (samples > 0 && s->enum_ndone > 0 && !s->nfail) {
      samples = 0;
      fputs ("{\"type\":\"sample\",\"obs\":", out); jstr (out, s->obs); fputs ("}\n", out);
    }
    if (s->done && WIFEXITED (status) && WEXITSTATUS (status) == 0) {
      write_enum_fails (out, s, slot_fd[j]);
      if (s->enum_restart && jobs[j].e_from + s->enum_ndone < jobs[j].e_to) {   /* vx_enum_restart(): rest of the batch in a fresh child */
        pend = realloc (pend, (npend + 1) * sizeof *pend);
        pend[npend].a = jobs[j].e_from + s->enum_ndone; pend[npend].b = jobs[j].e_to; pend[npend].alone = 0; npend++;
      }
      continue;
    }
    /* died in the middle of element enum_cur */
    long curidx = s->enum_cur;          /* rotated index */
    long pos = jobs[j].e_from + s->enum_ndone;   /* position in [from,to) */
    int killed = WIFSIGNALED (status) && WTERMSIG (status) == SIGKILL;
    if (killed && jobs[j].timeout == timeout && !(jobs[j].e_to - jobs[j].e_from == 1)) {
      /* re-run that element alone with 20x before calling it a hang */
      pend = realloc (pend, (npend + 2) * sizeof *pend);
      if (pos + 1 < jobs[j].e_to) { pend[npend].a = pos + 1; pend[npend].b = jobs[j].e_to; pend[npend].alone = 0; npend++; }
      pend[npend].a = pos; pend[npend].b = pos + 1; pend[npend].alone = 1; npend++;
      write_enum_fails (out, s, slot_fd[j]);
      continue;
    }
    evaluated++;
    {
      vx_slot *save = cur; cur = s;
      if (killed) { hangs++; vx_fail ("hang:element", "element %ld did not finish within %ld ms", curidx, (long) jobs[j].timeout); }
      cur = save;
      if (!killed) death_fail (s, slot_fd[j], status, "element");
      for (int i = 0; i < s->nfail; i++) if (s->fail[i].index < 0) s->fail[i].index = curidx;
    }
    write_enum_fails (out, s, slot_fd[j]);
    if (pos + 1 < jobs[j].e_to) {
      pend = realloc (pend, (npend + 1) * sizeof *pend);
      pend[npend].a = pos + 1; pend[npend].b = jobs[j].e_to; pend[npend].alone = 0; npend++;
    }
  }
  for (int j = 0; j < njobs; j++) if (jobs[j].active) { kill (jobs[j].pid, SIGKILL); waitpid (jobs[j].pid, 0, 0); jobs[j].active = 0; }
  fprintf (out, "{\"type\":\"summary\",\"mode\":\"enum\",\"total\":%ld,\"from\":%ld,\"to\":%ld,\"evaluations\":%ld,\"exhaustive\":%s,\"hangs\":%ld,",
           enum_total, from, to, evaluated, (capped || evaluated < to - from) ? "false" : "true", hangs);
  write_counters (out);
  fputs ("}\n", out);
  fflush (out);
  return 0;
}

void vx_set_enum (long total, vx_elem_fn fn, void (*describe) (long, char *, size_t)) {
  enum_total = total; enum_fn = fn; enum_describe = describe;
}

/* ------------------------------------------------------------------ entry */
static int parse_list (const char *s, int **out) {
  int n = 0, cap = 16; int *v = malloc (sizeof (int) * (size_t) cap);
  while (s && *s) {
    if (n == cap) { cap *= 2; v = realloc (v, sizeof (int) * (size_t) cap); }
    v[n++] = (int) strtol (s, (char **) &s, 10);
    if (*s == ',') s++;
  }
  *out = v;
  return n;
}

int vx_run (int argc, char **argv, vx_body_fn body) {
  g_argc = argc; g_argv = argv;
  njobs = (int) vx_opt_long ("jobs", 16);
  if (njobs < 1) njobs = 1;
  if (njobs > MAXJOBS) njobs = MAXJOBS;
  slots = mmap (0, sizeof (vx_slot) * (size_t) njobs, PROT_READ | PROT_WRITE, MAP_SHARED | MAP_ANONYMOUS, -1, 0);
  if (slots == MAP_FAILED) { perror ("mmap"); return 2; }
  for (int j = 0; j < njobs; j++) {
    slot_fd[j] = memfd_create ("vxerr", 0);
    fcntl (slot_fd[j], F_SETFL, fcntl (slot_fd[j], F_GETFL) | O_APPEND);
  }
  const char *outp = vx_opt ("out", 0);
  FILE *out = outp ? fopen (outp, "w") : fdopen (dup (1), "w");
  if (!out) { perror ("out"); return 2; }

  if (has_flag ("explore")) return explore (body, out);
  if (has_flag ("enum")) return enumerate (out);

  const char *rp = vx_opt ("replay", 0);
  const char *ri = vx_opt ("replay-index", 0);
  if (rp || ri || has_flag ("replay")) {
    int *pre = 0; int len = rp ? parse_list (rp, &pre) : 0;
    const char *labs = vx_opt ("labels", 0);
    if (labs) {
      char *d = strdup (labs); int cap = 8; replay_labels = malloc (sizeof (char *) * (size_t) cap);
      for (char *t = strtok (d, ","); t; t = strtok (0, ",")) {
        if (replay_nlabels == cap) { cap *= 2; replay_labels = realloc (replay_labels, sizeof (char *) * (size_t) cap); }
        replay_labels[replay_nlabels++] = t;
      }
    }
    replaying = 1;
    pid_t pid;
    if (ri) {
      long idx = strtol (ri, 0, 10);
      pid = launch_enum (0, idx, idx + 1, 0);
    } else pid = launch_exec (0, body, pre, len);
    int status; int64_t t0 = now_ms (); int64_t timeout = vx_opt_long ("timeout-ms", 20000) * 20; int killed = 0;
    while (waitpid (pid, &status, WNOHANG) == 0) {
      if (now_ms () - t0 > timeout) { kill (pid, SIGKILL); killed = 1; }
      usleep (500);
    }
    vx_slot *s = &slots[0];
    if (killed) { cur = s; vx_fail ("hang:replay", "replay did not finish"); cur = 0; }
    else if (!s->done || !WIFEXITED (status) || (WEXITSTATUS (status) != 0 && !s->diverged))
      death_fail (s, slot_fd[0], status, s->nchoices ? s->label[s->nchoices - 1] : (ri ? "element" : "start"));
    if (ri) for (int i = 0; i < s->nfail; i++) if (s->fail[i].index < 0) s->fail[i].index = strtol (ri, 0, 10);
    write_exec_record (out, s->diverged ? "diverged" : "replay", s, slot_fd[0], 1);
    return s->diverged ? 2 : (s->nfail ? 1 : 0);
  }
  if (has_flag ("describe")) {
    long idx = vx_opt_long ("index", 0);
    char d[4000] = "";
    if (enum_describe) enum_describe (idx, d, sizeof d);
    fprintf (out, "%s\n", d);
    return 0;
  }
  if (has_flag ("total")) { fprintf (out, "%ld\n", enum_total); return 0; }
  fprintf (stderr, "vx: need --explore | --enum | --replay=c0,c1,.. | --replay-index=i\n");
  return 2;
}

/* re-exec with ASLR off so that address-ordered tables are reproducible */
__attribute__ ((constructor)) static void vx_no_aslr (void) {
  if (getenv ("VX_NOASLR_DONE")) return;
  int p = personality (0xffffffff);
  if (p != -1 && !(p & ADDR_NO_RANDOMIZE)) {
    if (personality (p | ADDR_NO_RANDOMIZE) != -1) {
      setenv ("VX_NOASLR_DONE", "1", 1);
      char exe[4096]; ssize_t n = readlink ("/proc/self/exe", exe, sizeof exe - 1);
      if (n > 0) {
        exe[n] = 0;
        /* read argv from /proc/self/cmdline */
        static char buf[1 << 16]; static char *av[4096];
        int fd = open ("/proc/self/cmdline", O_RDONLY);
        ssize_t m = fd >= 0 ? read (fd, buf, sizeof buf - 1) : -1;
        if (fd >= 0) close (fd);
        if (m > 0) {
          int ac = 0;
          for (char *q = buf; q < buf + m && ac < 4095; q += strlen (q) + 1) av[ac++] = q;
          av[ac] = 0;
          execv (exe, av);
        }
      }
    }
  }
}
