#!/bin/bash
# run_tiers.sh <tier> <ID>... — run the given checks one after the other, print one status line each
tier=$1; shift
for id in "$@"; do
  s=$(date +%s)
  out=$(./check $id --tier $tier 2>&1 | grep -E "^(PASS|FAIL|VIOLATION|CHECK-BROKEN|HARNESS)" | cut -c1-300)
  echo "== $id $tier $(( $(date +%s) - s ))s"; echo "$out" | tail -8
done
