#!/usr/bin/env python3
"""mkmanifest.py — regenerate MANIFEST.json from the table below (claimed checks) and properties.jsonl
(everything else goes to not_applicable with the reason given in PENDING)."""
import json, os, subprocess

VERIF = os.path.dirname(os.path.dirname(os.path.abspath(__file__)))

# id -> (level category, level text, level note, technique, engine, design ref)
CLAIMED = {}
PENDING = {}


def claim(pid, cat, text, note, technique, engine="vx"):
    CLAIMED[pid] = dict(cat=cat, text=text, note=note, technique=technique, engine=engine)


exec(open(os.path.join(VERIF, "tools", "manifest_entries.py")).read())

props = [json.loads(l) for l in open(os.path.join(VERIF, "properties.jsonl"))]
checks = []
for p in props:
    pid = p["id"]
    if pid not in CLAIMED:
        continue
    c = CLAIMED[pid]
    checks.append({
        "property_id": pid,
        "quick_cmd": "./check %s --tier quick" % pid,
        "thorough_cmd": "./check %s --tier thorough" % pid,
        "evidence_file": "/verif/evidence/%s.json" % pid,
        "replay_cmd_template": "./check %s --replay {path}" % pid,
        "engine": c["engine"],
        "level_claimed": {"category": c["cat"], "text": c["text"], "design_ref": "DESIGN.md §3 " + pid},
        "level_note": c["note"],
        "technique": c["technique"],
    })
hooks = subprocess.run(["git", "-C", "/repo", "log", "--format=%h", "--grep=verif hook"], capture_output=True, text=True).stdout.split()
m = {
    "version": 1,
    "setup_cmd": "python3 tools/build.py repo asan && python3 tools/build.py repo plain",
    "hooks": {"guard": "NEOLITH_VERIF",
              "enable": "tools/build.py configures /repo into /verif/build/<profile> with -DNEOLITH_VERIF in CMAKE_C_FLAGS/CMAKE_CXX_FLAGS",
              "baseline_off_cmd": "/verif/tools/baseline_off.sh", "source_commits": hooks, "add_only": True},
    "engines": [
        {"name": "vx", "path": "vx/vx.c", "serves_properties": sorted(k for k, v in CLAIMED.items() if "vx" in v["engine"]),
         "kind_free_text": "fork-server stateless explorer of the real code: deviation-bounded DFS over choice vectors with canonical-state pruning (--explore), exhaustive enumeration of generated inputs/programs in forked children (--enum), deterministic replay; sanitizer reports become finding keys"},
        {"name": "sched", "path": "sched/sched.c", "serves_properties": ["C19"] if "C19" in CLAIMED else [],
         "kind_free_text": "cooperative serialising scheduler over interposed pthread/eventfd/epoll/sleep calls; schedules are vx choice vectors, preemption-bounded"},
        {"name": "env", "path": "env/net.c, env/fs.c", "serves_properties": sorted(k for k in CLAIMED if k in ("C09", "C12", "C13", "C14", "C15", "C16", "C17", "C11")),
         "kind_free_text": "scripted environment: async runtime, sockets, timer, console worker and libc file calls replaced at link time so the real backend()/comm.c/file efuns run unchanged under harness-chosen answers"},
    ],
    "checks": checks,
    "not_applicable": [{"property_id": p["id"], "reason": PENDING.get(p["id"], "check not finished in this session (harness under construction, see DESIGN.md §3)")}
                       for p in props if p["id"] not in CLAIMED],
    "notes": "see DESIGN.md (design, corrections log §8, findings §9, seeded changes §10) and known_findings.json",
}
json.dump(m, open(os.path.join(VERIF, "MANIFEST.json"), "w"), indent=1)
print("claimed:", sorted(CLAIMED), "unclaimed:", [x["property_id"] for x in m["not_applicable"]])
