"""vlib — shared driver code for /verif/check: build harnesses, run vx, confirm
failures by double replay, apply known_findings.json, write evidence."""
import hashlib, json, os, subprocess, sys, time, shutil

sys.path.insert(0, os.path.dirname(os.path.abspath(__file__)))
import build as B

VERIF = B.VERIF
OUT = os.path.join(B.BUILD, "out")
KF_PATH = os.path.join(VERIF, "known_findings.json")
# runs against another source tree (VERIF_REPO=scratch worktree) must not overwrite the real evidence/replays
ARTEFACTS = VERIF if B.REPO == "/repo" else B.BUILD
STD_WRAPS = ["exit", "_exit", "abort", "time", "gettimeofday"]
VX = ["vx/vx.c", "h/hx.c"]


def env():
    e = dict(os.environ)
    e["ASAN_OPTIONS"] = "halt_on_error=0:detect_leaks=0:allocator_may_return_null=1:handle_abort=1:max_malloc_fill_size=0"
    e["UBSAN_OPTIONS"] = "print_stacktrace=1"
    e["TSAN_OPTIONS"] = "halt_on_error=0"
    e["VERIF_DIR"] = VERIF
    e["VX_REPO_PREFIX"] = B.REPO + "/"
    e["LC_ALL"] = "C.UTF-8"
    return e


def log(*a):
    print("[check]", *a, file=sys.stderr, flush=True)


def load_known():
    if not os.path.exists(KF_PATH):
        return []
    return json.load(open(KF_PATH)).get("findings", [])


class Check:
    def __init__(self, pid, tier, seed, level):
        self.pid, self.tier, self.seed, self.level = pid, tier, seed, level
        self.t0 = time.time()
        self.fails = {}          # key -> dict(record, exe, args, count)
        self.cov = {}
        self.samples = []
        self.assumptions = []
        self.parts = []
        self.broken = None
        os.makedirs(OUT, exist_ok=True)
        os.makedirs(os.path.join(ARTEFACTS, "evidence"), exist_ok=True)

    # ---------------------------------------------------------------- building
    def harness(self, name, sources, profile="asan", **kw):
        kw.setdefault("wraps", STD_WRAPS)
        kw.setdefault("ldflags", ["-rdynamic"])
        return B.build_harness(name, VX + list(sources), profile=profile, **kw)

    # ---------------------------------------------------------------- running
    def _run(self, exe, args, tag, mode, timeout):
        out = os.path.join(OUT, "%s-%s.jsonl" % (self.pid, tag))
        if os.path.exists(out):
            os.unlink(out)
        cmd = [exe] + list(args) + [mode, "--out=" + out]
        t0 = time.time()
        try:
            r = subprocess.run(cmd, env=env(), stdout=subprocess.PIPE, stderr=subprocess.PIPE, timeout=timeout)
        except subprocess.TimeoutExpired:
            self.broken = "harness %s exceeded the hard timeout of %ds" % (tag, timeout)
            return None
        if r.returncode != 0:
            self.broken = "harness %s exited %d: %s" % (tag, r.returncode, r.stderr.decode(errors="replace")[-2000:])
            return None
        summary = None
        budgets = []
        for line in open(out, errors="replace"):
            try:
                rec = json.loads(line)
            except Exception:
                continue
            t = rec.get("type")
            if t == "summary":
                summary = rec
            elif t == "budget":
                budgets.append(rec)
            elif t == "sample":
                if len(self.samples) < 6:
                    self.samples.append({"part": tag, "choices": rec.get("choices"), "labels": rec.get("labels"),
                                         "trace": rec.get("obs", "")[:1500]})
            elif t == "fail":
                for f in rec["fails"]:
                    k = f["key"]
                    if k not in self.fails:
                        self.fails[k] = dict(record=rec, fail=f, exe=exe, args=list(args), part=tag, mode=mode)
        if summary is None:
            self.broken = "harness %s wrote no summary" % tag
            return None
        for k, n in summary.get("fail_keys", {}).items():
            if k in self.fails:
                self.fails[k]["count"] = self.fails[k].get("count", 0) + n
        summary["budgets"] = budgets
        summary["wall_s"] = round(time.time() - t0, 1)
        summary["part"] = tag
        summary["args"] = " ".join(args)
        self.parts.append(summary)
        log("%s: %s" % (tag, {k: v for k, v in summary.items() if k in ("executions", "evaluations", "states", "transitions", "budget_completed", "exhaustive", "distinct_outcomes", "wall_s")}))
        return summary

    def explore(self, exe, args, tag, budget=0, deadline_s=0, timeout_ms=20000, jobs=16, min_budget=None):
        a = list(args) + ["--budget=%d" % budget, "--jobs=%d" % jobs, "--timeout-ms=%d" % timeout_ms]
        if min_budget is not None:
            a.append("--min-budget=%d" % min_budget)
        if deadline_s:
            a.append("--deadline-s=%d" % deadline_s)
        return self._run(exe, a, tag, "--explore", (deadline_s or 3000) + 900)

    def enum(self, exe, args, tag, batch=200, deadline_s=0, timeout_ms=10000, jobs=16, rotate=None):
        a = list(args) + ["--batch=%d" % batch, "--jobs=%d" % jobs, "--timeout-ms=%d" % timeout_ms]
        if rotate is None:
            rotate = self.seed * 7919
        a.append("--rotate=%d" % rotate)
        if deadline_s:
            a.append("--deadline-s=%d" % deadline_s)
        return self._run(exe, a, tag, "--enum", (deadline_s or 3000) + 900)

    # ---------------------------------------------------------------- replay
    def replay_cmd(self, info):
        rec = info["record"]
        cmd = [info["exe"]] + [x for x in info["args"] if not x.startswith(("--budget", "--jobs", "--deadline", "--batch", "--rotate", "--min-budget"))]
        if info["mode"] == "--enum":
            cmd.append("--replay-index=%d" % info["fail"]["index"])
        else:
            cmd.append("--replay=" + ",".join(str(c) for c in rec["choices"]))
            if rec.get("labels"):
                cmd.append("--labels=" + ",".join(rec["labels"]))
        return cmd

    def replay_once(self, cmd):
        r = subprocess.run(cmd, env=env(), stdout=subprocess.PIPE, stderr=subprocess.PIPE, timeout=1800)
        txt = r.stdout.decode(errors="replace").strip().splitlines()
        for l in reversed(txt):
            try:
                return r.returncode, json.loads(l)
            except Exception:
                continue
        return r.returncode, None

    def confirm(self, key, info):
        """same choice vector must fail every time: replay twice, compare"""
        cmd = self.replay_cmd(info)
        rc1, r1 = self.replay_once(cmd)
        rc2, r2 = self.replay_once(cmd)
        if r1 is None or r2 is None or rc1 == 2 or rc2 == 2:
            return "diverged"
        k1 = sorted(f["key"] for f in r1["fails"])
        k2 = sorted(f["key"] for f in r2["fails"])
        if k1 != k2 or r1.get("obs") != r2.get("obs"):
            return "nondeterministic"
        if key not in k1:
            return "not-reproduced"
        return "confirmed"

    def write_replay(self, key, info):
        d = os.path.join(ARTEFACTS, "replays", self.pid)
        os.makedirs(d, exist_ok=True)
        digest = hashlib.sha1(key.encode()).hexdigest()[:12]
        path = os.path.join(d, digest + ".json")
        rec = info["record"]
        cmd = self.replay_cmd(info)
        json.dump({"property": self.pid, "key": key, "msg": info["fail"]["msg"], "harness": os.path.basename(info["exe"]),
                   "profile": "asan", "part": info["part"], "args": info["args"], "mode": info["mode"],
                   "choices": rec.get("choices"), "labels": rec.get("labels"), "index": info["fail"].get("index"),
                   "desc": rec.get("desc"), "trace": rec.get("obs"), "stderr": rec.get("stderr", "")[-3000:],
                   "replay_argv": cmd[1:], "count_in_run": info.get("count")},
                  open(path, "w"), indent=1)
        return path

    # ---------------------------------------------------------------- finish
    def finish(self, coverage, assumptions=(), selftest_ok=None):
        wall = round(time.time() - self.t0, 1)
        known = {f["key"]: f for f in load_known() if f.get("property") == self.pid}
        violations, known_hits, lines = [], [], []
        if self.broken:
            print("CHECK-BROKEN property=%s %s" % (self.pid, self.broken))
            sys.exit(2)
        for key, info in sorted(self.fails.items()):
            kf = known.get(key)
            st = self.confirm(key, info) if not os.environ.get("VERIF_NO_CONFIRM") else "confirmed"
            if st in ("nondeterministic", "diverged"):
                print("HARNESS-NONDETERMINISM property=%s key=%s (%s)" % (self.pid, key, st))
                sys.exit(2)
            if st == "not-reproduced":
                # seen in a batch but not alone: history-dependent, keep the batch context in the artefact
                info["fail"]["msg"] += " [not reproduced when replayed alone]"
            path = self.write_replay(key, info)
            if kf and kf.get("status") == "known":
                known_hits.append(key)
                lines.append("KNOWN-FINDING: property=%s %s (%s)" % (self.pid, kf.get("what", key), key))
            else:
                violations.append(key)
                lines.append("VIOLATION property=%s replay=%s key=%s :: %s" % (self.pid, path, key, info["fail"]["msg"][:300]))
        cov = dict(coverage)
        cov.setdefault("samples", self.samples[:6] or [{"note": "no passing sample recorded"}])
        cov["parts"] = self.parts
        cov["known_findings_seen"] = known_hits
        cov["violation_keys"] = violations
        ev = {"property_id": self.pid, "tier": self.tier, "seed": self.seed, "level": self.level,
              "coverage": cov, "assumptions": list(assumptions), "wall_s": wall, "violations": len(violations)}
        json.dump(ev, open(os.path.join(ARTEFACTS, "evidence", self.pid + ".json"), "w"), indent=1)
        for l in lines:
            print(l)
        print("%s property=%s tier=%s wall=%.0fs violations=%d known=%d" % ("FAIL" if violations else "PASS", self.pid, self.tier, wall, len(violations), len(known_hits)))
        sys.exit(1 if violations else 0)


def mc_coverage(parts, rule, extra=None):
    """model_checking coverage from vx explore summaries"""
    cov = {
        "states": max(1, sum(p.get("states", 0) for p in parts)),
        "transitions": max(1, sum(p.get("transitions", 0) for p in parts)),
        "traces_validated_against_impl": sum(p.get("executions", 0) for p in parts),
        "executions": sum(p.get("executions", 0) for p in parts),
        "merged": sum(p.get("merged", 0) for p in parts),
        "max_depth": max([p.get("max_depth", 0) for p in parts] or [0]),
        "distinct_outcomes": sum(p.get("distinct_outcomes", 0) for p in parts),
        "exhaustive": all(p.get("exhaustive") for p in parts) if parts else False,
        "budget_completed": [p.get("budget_completed") for p in parts],
        "rule": rule,
        "explanation": "every explored trace is executed on the implementation in lock-step with the reference model, so traces_validated_against_impl equals the number of executions",
    }
    if extra:
        cov.update(extra)
    return cov


def enum_coverage(parts, rule, nontrivial_counter, extra=None):
    ev = sum(p.get("evaluations", 0) for p in parts)
    nt = sum(p.get("counters", {}).get(nontrivial_counter, 0) for p in parts)
    cov = {"evaluations": max(ev, 1), "distinct_nontrivial": nt, "rule": rule,
           "exhaustive": all(p.get("exhaustive") for p in parts) if parts else False}
    if extra:
        cov.update(extra)
    return cov
