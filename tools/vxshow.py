#!/usr/bin/env python3
"""vxshow.py out.jsonl [key-substring] — print the first failing record per finding key"""
import sys, json
seen = set()
sub = sys.argv[2] if len(sys.argv) > 2 else ""
for l in open(sys.argv[1]):
    r = json.loads(l)
    if r.get("type") != "fail":
        if r.get("type") == "summary": print(json.dumps(r))
        continue
    keys = [f["key"] for f in r["fails"]]
    new = [k for k in keys if k not in seen and sub in k]
    if not new: continue
    seen.update(keys)
    print("=== keys:", keys)
    print("choices:", r.get("choices"), "index:", r.get("index"), "desc:", r.get("desc", "")[:1500])
    for f in r["fails"]: print("  -", f["key"], "::", f["msg"])
    if r.get("obs"): print(r["obs"])
    if "--stderr" in sys.argv and r.get("stderr"): print("stderr:", r["stderr"][-3000:])
