#!/usr/bin/env python3
"""seedstore.py <ID> <A|B> <what> <needs> — copy a confirmed seed from /tmp/seed-<ID>/out/<X> into seeded/<ID>-<X>"""
import json, os, shutil, sys
pid, x, what, needs = sys.argv[1:5]
src = '/tmp/seed-%s/out/%s' % (pid, x)
d = '/verif/seeded/%s-%s' % (pid, x)
os.makedirs(d, exist_ok=True)
shutil.copy(src + '/patch.diff', d)
if os.path.exists(src + '/README.md'): shutil.copy(src + '/README.md', d)
if os.path.exists(d + '/demo'): shutil.rmtree(d + '/demo')
shutil.copytree(src + '/demo', d + '/demo')
json.dump({"property": pid, "name": "%s-%s" % (pid, x), "what": what, "needs": needs,
           "confirmed": "tools/seedconfirm.sh: demo passes unpatched, repo suite 115/115 with patch, demo fails with patch",
           "author": "fresh sub-agent given only the property text"}, open(d + '/meta.json', 'w'), indent=1)
print("stored", d)
