#!/usr/bin/env python3
"""Build /repo (current working tree) into /verif/build/<profile> and link
harness executables against its object files.  Incremental; serialised by flock.

Usage:  build.py repo <profile>
        (harness linking is driven from checks via build_harness())
"""
import fcntl, glob, os, subprocess, sys, hashlib, json, time

VERIF = os.path.dirname(os.path.dirname(os.path.abspath(__file__)))
REPO = os.path.realpath(os.environ.get("VERIF_REPO", "/repo"))
# a different source tree (scratch worktree for triage / seeded changes) gets its own build root
BUILD = os.path.join(VERIF, "build") if REPO == "/repo" else \
    os.path.join(VERIF, "build", "alt-" + hashlib.sha1(REPO.encode()).hexdigest()[:10])
GUARD = "NEOLITH_VERIF"

COMMON = "-g -fno-omit-frame-pointer -DNDEBUG -D%s" % GUARD
PROFILES = {
    # gcc; recover mode so that one listed finding does not hide what follows it
    "asan": dict(cc="gcc", cxx="g++",
                 cflags="-O1 %s -fsanitize=address -fsanitize-recover=address -fsanitize=bounds,null" % COMMON,
                 ldflags="-fsanitize=address -fsanitize=bounds,null"),
    "plain": dict(cc="gcc", cxx="g++", cflags="-O1 %s" % COMMON, ldflags=""),
    "tsan": dict(cc="clang", cxx="clang++", cflags="-O1 %s -fsanitize=thread" % COMMON,
                 ldflags="-fsanitize=thread"),
}


def log(*a):
    print("[build]", *a, file=sys.stderr, flush=True)


def run(cmd, **kw):
    env = dict(os.environ)
    env["ASAN_OPTIONS"] = "detect_leaks=0"      # repo's build-time generator leaks
    env.update(kw.pop("env", {}))
    r = subprocess.run(cmd, env=env, stdout=subprocess.PIPE, stderr=subprocess.STDOUT, text=True, **kw)
    if r.returncode != 0:
        sys.stderr.write(r.stdout[-8000:])
        raise SystemExit("build step failed: %s" % (cmd if isinstance(cmd, str) else " ".join(cmd)))
    return r.stdout


class Lock:
    def __init__(self, name):
        os.makedirs(BUILD, exist_ok=True)
        self.path = os.path.join(BUILD, ".lock-" + name)

    def __enter__(self):
        self.f = open(self.path, "w")
        fcntl.flock(self.f, fcntl.LOCK_EX)
        return self

    def __exit__(self, *a):
        fcntl.flock(self.f, fcntl.LOCK_UN)
        self.f.close()


def repo_dir(profile):
    return os.path.join(BUILD, profile)


def build_repo(profile):
    """configure (once) + ninja (incremental) the current /repo tree."""
    p = PROFILES[profile]
    b = repo_dir(profile)
    with Lock(profile):
        t0 = time.time()
        if not os.path.exists(os.path.join(b, "build.ninja")):
            os.makedirs(b, exist_ok=True)
            run(["cmake", "-G", "Ninja", "-S", REPO, "-B", b, "-DBUILD_TESTING=OFF",
                 "-DCMAKE_BUILD_TYPE=None",
                 "-DCMAKE_C_COMPILER=" + p["cc"], "-DCMAKE_CXX_COMPILER=" + p["cxx"],
                 "-DCMAKE_C_FLAGS=" + p["cflags"], "-DCMAKE_CXX_FLAGS=" + p["cflags"],
                 "-DCMAKE_EXE_LINKER_FLAGS=" + p["ldflags"]])
        run(["cmake", "--build", b, "-j16"])
        log("repo[%s] up to date (%.1fs)" % (profile, time.time() - t0))
    return b


def includes(profile):
    b = repo_dir(profile)
    return ["-I", b, "-I", REPO, "-I", REPO + "/src", "-I", REPO + "/lib", "-I", REPO + "/lib/rc",
            "-I", REPO + "/lib/efuns", "-I", REPO + "/lib/misc", "-I", REPO + "/lib/lpc",
            "-I", b + "/lib/efuns", "-I", b + "/lib/lpc", "-I", VERIF + "/vx", "-I", VERIF + "/h",
            "-I", VERIF + "/env"]


def libs(profile, drop_members=()):
    b = repo_dir(profile)
    L = [b + "/lib/lpc/liblpc.a", b + "/lib/efuns/libefuns.a"]
    L += sorted(glob.glob(b + "/lib/socket/*.a")) + sorted(glob.glob(b + "/lib/rc/*.a"))
    L += [b + "/lib/misc/libmisc.a", b + "/lib/logger/liblogger.a", b + "/lib/async/libasync.a",
          b + "/lib/port/libport.a"]
    return L


def build_harness(name, sources, profile="asan", replace_stem=(), wraps=(), cflags=(), ldflags=(),
                  with_stem=True, cxx_sources=(), wrap_harness=False):
    """Compile `sources` (harness TUs, instrumented like the repo) and link with
    the repo's stem objects (minus those in replace_stem, e.g. 'comm.c') and libs.
    `wraps` are symbols passed as -Wl,--wrap=sym; they apply to every object on
    the link line, so harness TUs that need the real function call __real_sym."""
    p = PROFILES[profile]
    b = build_repo(profile)
    out_dir = os.path.join(BUILD, "h", profile)
    os.makedirs(out_dir, exist_ok=True)
    exe = os.path.join(out_dir, name)
    with Lock("h-" + profile + "-" + name):
        objs = []
        for src in list(sources):
            src = src if os.path.isabs(src) else os.path.join(VERIF, src)
            o = os.path.join(out_dir, name + "-" + os.path.basename(src) + ".o")
            flags = p["cflags"].split()
            if os.path.basename(src).startswith("vx") or "/sched/" in src:
                # explorer/scheduler TUs stay uninstrumented
                flags = ["-O1", "-g", "-fno-omit-frame-pointer"]
            cmd = [p["cc"]] + flags + ["-DHAVE_CONFIG_H", "-D_GNU_SOURCE", "-w"] + list(cflags) + \
                includes(profile) + ["-c", src, "-o", o]
            run(cmd)
            objs.append(o)
        for src in list(cxx_sources):
            src = src if os.path.isabs(src) else os.path.join(VERIF, src)
            o = os.path.join(out_dir, name + "-" + os.path.basename(src) + ".o")
            cmd = [p["cxx"]] + p["cflags"].split() + ["-std=c++17", "-DHAVE_CONFIG_H", "-D_GNU_SOURCE", "-w"] + \
                list(cflags) + includes(profile) + ["-c", src, "-o", o]
            run(cmd)
            objs.append(o)
        stem = []
        if with_stem:
            for o in sorted(glob.glob(b + "/src/CMakeFiles/stem.dir/*.o")):
                base = os.path.basename(o)[:-2]          # e.g. comm.c
                if base in replace_stem:
                    continue
                stem.append(o)
        cmd = [p["cxx"]] + p["ldflags"].split() + objs + stem + ["-Wl,--start-group"] + libs(profile) + \
            ["-Wl,--end-group"] + ["-Wl,--wrap=" + w for w in wraps] + list(ldflags) + \
            ["-lm", "-lcrypt", "-lpthread", "-ldl", "-o", exe]
        run(cmd)
    return exe


if __name__ == "__main__":
    if len(sys.argv) >= 3 and sys.argv[1] == "repo":
        print(build_repo(sys.argv[2]))
    else:
        print(__doc__)
        sys.exit(2)
