#!/usr/bin/env python3
"""applyfix.py --prop <ID> --diff <file> --msg "<fix: ...>" [--body "<text>"] --keys k1,k2,... [--history "<text>"]
Apply one repository repair as ONE unguarded `fix:` commit in /repo: apply the diff, rebuild the baseline tree with the
guard OFF, run the repo's own test suite, commit, and record `fixed:` entries in known_findings.json."""
import argparse, json, os, subprocess, sys

VERIF = os.path.dirname(os.path.dirname(os.path.abspath(__file__)))
ap = argparse.ArgumentParser()
ap.add_argument("--prop", required=True)
ap.add_argument("--diff", required=True)
ap.add_argument("--msg", default=None)
ap.add_argument("--msgfile", default=None)
ap.add_argument("--body", default="")
ap.add_argument("--keys", default="")
ap.add_argument("--keysfile", default=None)
ap.add_argument("--history", default="")
ap.add_argument("--3way", dest="threeway", action="store_true")
a = ap.parse_args()

if a.msgfile:
    txt = open(a.msgfile).read().strip()
    msg, _, body = txt.partition("\n")
    body = body.strip()
else:
    msg, body = a.msg, a.body
assert msg.startswith("fix:"), "commit message must start with fix:"
keys = [k for k in a.keys.split(",") if k]
if a.keysfile and os.path.exists(a.keysfile):
    keys += [l.strip() for l in open(a.keysfile) if l.strip()]

def sh(cmd, **kw):
    return subprocess.run(cmd, shell=isinstance(cmd, str), capture_output=True, text=True, **kw)

st = sh("git -C /repo status --porcelain --untracked-files=no").stdout.strip()
if st:
    sys.exit("refusing: /repo has uncommitted tracked changes:\n" + st)
r = sh(["git", "-C", "/repo", "apply"] + (["--3way"] if a.threeway else []) + [os.path.abspath(a.diff)])
if r.returncode != 0:
    sys.exit("PATCH DOES NOT APPLY:\n" + r.stderr)
for attempt in range(3):     # the suite has timing-sensitive tests that flake under load: retry before giving up
    r = sh([os.path.join(VERIF, "tools", "baseline_off.sh")])
    ok = "100% tests passed" in r.stdout
    if ok:
        break
    print("test suite attempt %d failed:" % (attempt + 1), [l for l in r.stdout.splitlines() if "Failed" in l or "***" in l][:5])
print((r.stdout + r.stderr)[-600:])
if not ok:
    sh("git -C /repo checkout -- .")
    sys.exit("TEST SUITE FAILED with this patch; reverted")
full = msg + ("\n\n" + body if body else "")
r = sh(["git", "-C", "/repo", "commit", "-q", "-a", "-m", full])
if r.returncode != 0:
    sys.exit("commit failed: " + r.stderr)
commit = sh("git -C /repo rev-parse --short HEAD").stdout.strip()
p = os.path.join(VERIF, "known_findings.json")
d = json.load(open(p))
what = msg[len("fix:"):].strip()
for k in keys or ["%s:%s" % (a.prop, os.path.basename(a.diff))]:
    d["findings"] = [f for f in d["findings"] if not (f["key"] == k and f["property"] == a.prop)]
    d["findings"].append({"property": a.prop, "key": k, "status": "fixed", "commit": commit, "what": what,
                          "line": "fixed: property=%s %s %s" % (a.prop, commit, what), "history": a.history})
json.dump(d, open(p, "w"), indent=1)
print("COMMITTED", commit, msg)
