#!/usr/bin/env python3
"""seedindex.py — regenerate seeded/INDEX.md from seeded/*/meta.json (what each seed is, which check caught it)."""
import glob, json, os
VERIF = os.path.dirname(os.path.dirname(os.path.abspath(__file__)))
rows = []
for d in sorted(glob.glob(os.path.join(VERIF, "seeded", "*-[A-Z]"))):
    mp = os.path.join(d, "meta.json")
    if not os.path.exists(mp): continue
    m = json.load(open(mp))
    runs = m.get("runs", {})
    res = "; ".join("%s: %s (%s%s)" % (c, r["status"], r["tier"], ", keys: " + ", ".join(v.split("key=")[1].split(" ")[0] for v in r["violations"][:3] if "key=" in v) if r["violations"] else "") for c, r in sorted(runs.items())) or "not run yet"
    rows.append("| %s | %s | %s | %s | %s |" % (m["name"], m["property"], m["what"].replace("|", "\\|"), m["needs"].replace("|", "\\|"), res.replace("|", "\\|")))
hdr = """# Seeded changes and which check catches them

Each directory holds `patch.diff` (apply with `git -C /repo apply`, undo with `git -C /repo checkout -- .`), the author's
demonstration (`demo/`, `README.md`) and `meta.json` (property, what it needs to manifest, confirmation, recorded runs of our
checks: `python3 tools/seedtest.py seeded/<name> <ID>`, which applies the patch in a scratch worktree and runs the check there).
All changes were written by fresh sub-agents that saw only the property text (never /verif), and were confirmed against the
current /repo HEAD with `tools/seedconfirm.sh` (demo passes unpatched; the repo's test suite passes with the patch; demo fails
with the patch).  Seeds whose patch no longer applied after repository repairs were rebased by hand (noted in meta.json).
One seed (C16-B: restore_svalue() returning before it reset its parser state) could no longer manifest after the repair
f0bd2e1 made every restore start from a clean state, and was dropped; likewise C17-A (load_binary() skipping the
inherited program's .b time check when the parent is already loaded) stopped manifesting after repair 46b1ffa gave every
program a `newest_source` stamp that makes that check redundant; and C13-F (ASCII port: line cursor advanced after
the process_input apply instead of before, visible only when the apply raised an error) stopped manifesting after repair
aff5db5 made that apply a safe_apply (it was DETECTED, under the same keys as the defect itself, before the repair);
C04-D (do_catch() setting the limit flags before a pop_context() that cleared them) after repair cae90b8 stopped
pop_context() from clearing them; and C05-D (vital-object name blanked before the saved names are captured) after repair
831e6b5 moved the failing reload under its own error context, so the unwind handler no longer runs on that path.  Both
had been DETECTED before those repairs.

| seed | property | mechanism | needs | result |
|---|---|---|---|---|
"""
open(os.path.join(VERIF, "seeded", "INDEX.md"), "w").write(hdr + "\n".join(rows) + "\n")
print(len(rows), "seeds")
