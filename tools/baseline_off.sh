#!/bin/sh
# Runs the repository's own test suite with the verification guard OFF (no -DNEOLITH_VERIF),
# configured exactly as the pinned baseline build in /repo/_build.
set -e
B=/repo/_build
if [ ! -f "$B/build.ninja" ]; then
  cmake -G Ninja -S /repo -B "$B" -DCMAKE_BUILD_TYPE=RelWithDebInfo -DCMAKE_C_FLAGS=-Wno-error -DBUILD_TESTING=ON >/dev/null
fi
cmake --build "$B" -j16 >/dev/null
ctest --test-dir "$B" -j8 --timeout 900 "$@"
