#!/bin/sh
# seedconfirm.sh <dir with patch.diff and demo/run.sh>
# Confirms a seeded change in a scratch worktree of /repo HEAD (never in /repo):
#  1. demo passes on the unchanged tree, 2. patch applies, builds, the repo's own test suite passes,
#  3. demo fails with the patch.  Prints CONFIRMED or the step that failed.  Removes the worktree.
S=$(cd "$1" && pwd)
WT=/tmp/wt-confirm-$$
git -C /repo worktree add -q --detach "$WT" HEAD || exit 2
cleanup() { git -C /repo worktree remove --force "$WT" >/dev/null 2>&1; }
trap cleanup EXIT
cfg() { cmake -G Ninja -S "$WT" -B "$WT/_build" -DCMAKE_BUILD_TYPE=RelWithDebInfo -DCMAKE_C_FLAGS=-Wno-error >/dev/null 2>&1 && cmake --build "$WT/_build" -j8 >/dev/null 2>&1; }
cfg || { echo "STEP0 baseline build failed"; exit 1; }
mkdir -p "$WT/out/X" && cp -r "$S/demo" "$WT/out/X/demo"   # run.sh conventions differ: ROOT env, or "three levels up"
( cd "$WT/out/X/demo" && ROOT="$WT" BUILD="$WT/_build" bash ./run.sh ) >"$WT/_demo_without.log" 2>&1
rc0=$?
git -C "$WT" apply "$S/patch.diff" || { echo "STEP2 patch does not apply"; exit 1; }
cfg || { echo "STEP2 patched tree does not build"; exit 1; }
ctest --test-dir "$WT/_build" -j8 --timeout 900 >"$WT/_ctest.log" 2>&1
rct=$?
( cd "$WT/out/X/demo" && ROOT="$WT" BUILD="$WT/_build" bash ./run.sh ) >"$WT/_demo_with.log" 2>&1
rc1=$?
echo "demo without patch: rc=$rc0; test suite with patch: rc=$rct ($(grep -E 'tests passed|tests failed' "$WT/_ctest.log" | head -1)); demo with patch: rc=$rc1"
if [ $rc0 -eq 0 ] && [ $rct -eq 0 ] && [ $rc1 -ne 0 ]; then echo CONFIRMED; exit 0; fi
echo "NOT-CONFIRMED"; tail -5 "$WT/_demo_without.log"; tail -5 "$WT/_demo_with.log"
exit 1
