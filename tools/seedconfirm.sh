#!/bin/sh
# seedconfirm.sh <dir with patch.diff and demo/run.sh>
# Confirms a seeded change in a scratch worktree of /repo HEAD (never in /repo):
#  1. demo passes on the unchanged tree, 2. patch applies, builds, the repo's own test suite passes,
#  3. demo fails with the patch.  Prints CONFIRMED or the step that failed.  Removes the worktree.
S=$(cd "$1" && pwd)
WT=/tmp/wt-confirm-$$
git -C /repo worktree add -q --detach "$WT" HEAD || exit 2
cleanup() { git -C /repo worktree remove --force "$WT" >/dev/null 2>&1; }
trap cleanup EXIT
cfg() { cmake -G Ninja -S "$WT" -B "$WT/_build" -DCMAKE_BUILD_TYPE=RelWithDebInfo -DCMAKE_C_FLAGS=-Wno-error >/dev/null 2>&1 && cmake --build "$WT/_build" -j8 >/dev/null 2>&1; }
cfg || { echo "STEP0 baseline build failed"; exit 1; }
mkdir -p "$WT/out/X" && cp -r "$S/demo" "$WT/out/X/demo"   # run.sh conventions differ: ROOT env, or "three levels up"
# conventions differ between seed authors: ROOT/SRC env, NEOLITH=<binary>, or the tree as first positional argument
ARGS=""
if grep -qE '^(ROOT|SRC|SRC_ROOT|src|root)="?\$\{1:-' "$S/demo/run.sh"; then ARGS="$WT"; fi
rundemo() { ( cd "$WT/out/X/demo" && ROOT="$WT" SRC="$WT" NEOLITH="$WT/_build/src/neolith" bash ./run.sh $ARGS ); }
rundemo >"$WT/_demo_without.log" 2>&1
rc0=$?
git -C "$WT" apply "$S/patch.diff" || { echo "STEP2 patch does not apply"; exit 1; }
cfg || { echo "STEP2 patched tree does not build"; exit 1; }
ctest --test-dir "$WT/_build" -j8 --timeout 900 >"$WT/_ctest.log" 2>&1
rct=$?
rundemo >"$WT/_demo_with.log" 2>&1
rc1=$?
echo "demo without patch: rc=$rc0; test suite with patch: rc=$rct ($(grep -E 'tests passed|tests failed' "$WT/_ctest.log" | head -1)); demo with patch: rc=$rc1"
if [ $rc0 -eq 0 ] && [ $rct -eq 0 ] && [ $rc1 -ne 0 ]; then echo CONFIRMED; exit 0; fi
echo "NOT-CONFIRMED"; tail -5 "$WT/_demo_without.log"; tail -5 "$WT/_demo_with.log"
exit 1
