#!/bin/bash
# seed3.sh <ID> <X> "<what>" "<needs>" [extra check ids...] — store a wave-3 seed from /tmp/seed3-<ID>/out/<X>,
# confirm it against /repo HEAD (tools/seedconfirm.sh) and run the property's quick check on it (tools/seedtest.py).
ID=$1; X=$2; WHAT=$3; NEEDS=$4; shift 4
cd /verif
rm -rf /tmp/seed-$ID-w3; mkdir -p /tmp/seed-$ID-w3/out; cp -r ${SEEDSRC:-/tmp/seed3}-$ID/out/$X /tmp/seed-$ID-w3/out/$X
python3 - "$ID" "$X" "$WHAT" "$NEEDS" <<'PY'
import sys, json, os, shutil
pid, x, what, needs = sys.argv[1:5]
src = '/tmp/seed-%s-w3/out/%s' % (pid, x); d = '/verif/seeded/%s-%s' % (pid, x)
os.makedirs(d, exist_ok=True)
shutil.copy(src + '/patch.diff', d)
if os.path.exists(src + '/README.md'): shutil.copy(src + '/README.md', d)
if os.path.exists(d + '/demo'): shutil.rmtree(d + '/demo')
shutil.copytree(src + '/demo', d + '/demo', ignore=shutil.ignore_patterns('_build', '*.o', 'build'))
json.dump({"property": pid, "name": "%s-%s" % (pid, x), "what": what, "needs": needs,
           "confirmed": "pending",
           "author": "fresh sub-agent (wave %s) given only the property text and one-line descriptions of the earlier seeds to avoid" % ("4" if x in "GH" else "3")},
          open(d + '/meta.json', 'w'), indent=1)
PY
rm -rf /tmp/seed-$ID-w3
C=$(tools/seedconfirm.sh seeded/$ID-$X 2>&1 | tail -1)
echo "confirm $ID-$X: $C"
python3 - "$ID-$X" "$C" <<'PY'
import sys, json
p = '/verif/seeded/%s/meta.json' % sys.argv[1]; m = json.load(open(p))
m["confirmed"] = "tools/seedconfirm.sh vs /repo HEAD: " + sys.argv[2]
json.dump(m, open(p, 'w'), indent=1)
PY
case "$C" in CONFIRMED*) python3 tools/seedtest.py seeded/$ID-$X $ID "$@" 2>&1 | grep -E "DETECTED|MISSED|BROKEN" ;; esac
