#!/usr/bin/env python3
"""seedtest.py <seeded/<name>> [<ID> ...] [--tier quick|thorough] [--keep]
Run checks against a seeded property-breaking change WITHOUT touching /repo:
a scratch worktree of /repo HEAD gets the patch, the checks run with
VERIF_REPO=<worktree> (own build root build/alt-*), everything is removed again.
Prints DETECTED / MISSED per check and appends the result to the seed's meta.json."""
import json, os, shutil, subprocess, sys, time, hashlib

VERIF = os.path.dirname(os.path.dirname(os.path.abspath(__file__)))

def main():
    args = [a for a in sys.argv[1:] if not a.startswith("--")]
    tier = "quick"
    if "--tier" in sys.argv:
        tier = sys.argv[sys.argv.index("--tier") + 1]
        args = [a for a in args if a != tier]
    keep = "--keep" in sys.argv
    seed = os.path.abspath(args[0])
    meta_p = os.path.join(seed, "meta.json")
    meta = json.load(open(meta_p)) if os.path.exists(meta_p) else {}
    ids = args[1:] or ([meta["property"]] if "property" in meta else [])
    if not ids:
        print("no check ids"); sys.exit(2)
    wt = "/tmp/wt-seed-" + hashlib.sha1(seed.encode()).hexdigest()[:8] + "-%d" % os.getpid()   # per run: two parties may test one seed at once
    subprocess.run(["git", "-C", "/repo", "worktree", "remove", "--force", wt], stderr=subprocess.DEVNULL)
    subprocess.run(["git", "-C", "/repo", "worktree", "add", "-q", "--detach", wt, "HEAD"], check=True)
    alt = os.path.join(VERIF, "build", "alt-" + hashlib.sha1(os.path.realpath(wt).encode()).hexdigest()[:10])
    results = {}
    try:
        r = subprocess.run(["git", "-C", wt, "apply", os.path.join(seed, "patch.diff")], capture_output=True, text=True)
        if r.returncode != 0:
            print("PATCH-DOES-NOT-APPLY", r.stderr[:500]); sys.exit(3)
        env = dict(os.environ, VERIF_REPO=wt, VERIF_TIER=tier)
        for pid in ids:
            t0 = time.time()
            r = subprocess.run([os.path.join(VERIF, "check"), pid, "--tier", tier], env=env, capture_output=True, text=True, cwd=VERIF)
            viol = [l for l in r.stdout.splitlines() if l.startswith("VIOLATION")]
            status = "DETECTED" if (r.returncode == 1 and viol) else ("BROKEN(rc=%d)" % r.returncode if r.returncode not in (0, 1) else "MISSED")
            results[pid] = {"status": status, "tier": tier, "wall_s": round(time.time() - t0), "violations": [v[:300] for v in viol[:6]],
                            "repo_head": subprocess.run(["git", "-C", "/repo", "rev-parse", "--short", "HEAD"], capture_output=True, text=True).stdout.strip()}
            print("%s %s by check %s (%s, %ds)" % (os.path.basename(seed), status, pid, tier, time.time() - t0))
            for v in viol[:4]:
                print("   ", v[:240])
            if status.startswith("BROKEN"):
                print(r.stdout[-1500:], r.stderr[-1500:])
    finally:
        if not keep:
            subprocess.run(["git", "-C", "/repo", "worktree", "remove", "--force", wt])
            shutil.rmtree(alt, ignore_errors=True)
    # (evidence and replays of these runs went to build/alt-*/ — see vlib.ARTEFACTS — and are gone with it)
    meta.setdefault("runs", {}).update(results)
    json.dump(meta, open(meta_p, "w"), indent=1)

main()
