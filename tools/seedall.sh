#!/bin/bash
# seedall.sh <streams> — re-run every stored seed against the current /repo HEAD with its property's quick check,
# in <streams> parallel streams; results go to seeded/*/meta.json (runs) and build/out/seedall-<k>.log
cd /verif
N=${1:-4}
ls -d seeded/C*-[A-Z] | sort > /tmp/seedall.list
for k in $(seq 0 $((N-1))); do
  ( awk -v n=$N -v k=$k 'NR%n==k' /tmp/seedall.list | while read s; do
      id=$(basename $s | cut -d- -f1)
      python3 tools/seedtest.py $s $id 2>&1 | grep -E "DETECTED|MISSED|BROKEN|apply" | head -3
    done ) > build/out/seedall-$k.log 2>&1 &
done
wait
cat build/out/seedall-*.log | sort
