#!/usr/bin/env python3
"""gen_sizes.py — rewrite the 'measured size of the last run' table in DESIGN.md (between the SIZES markers) from evidence/*.json"""
import json, glob, os, re
V = os.path.dirname(os.path.dirname(os.path.abspath(__file__)))
rows = []
for f in sorted(glob.glob(os.path.join(V, "evidence", "C*.json"))):
    e = json.load(open(f)); c = e["coverage"]
    size = []
    for k in ("evaluations", "executions", "states", "transitions", "traces_validated_against_impl", "distinct_outcomes", "distinct_nontrivial"):
        if k in c: size.append("%s %s" % (k.replace("_", " "), format(c[k], ",")))
    rows.append("| %s | %s | %s | %s | %s s | %d |" % (e["property_id"], e["tier"], "; ".join(size), "yes" if c.get("exhaustive") else "no (a part reached its deadline; see the evidence file)", e.get("wall_s", "?"), (e.get("violations") if isinstance(e.get("violations"), int) else len(e.get("violations", [])))))
tab = ("<!-- SIZES:BEGIN -->\nSizes of the last run of each check on the final tree (generated from `evidence/*.json` by `tools/gen_sizes.py`):\n\n"
       "| id | tier | measured | exhaustive within the stated bounds | wall | violations |\n|---|---|---|---|---|---|\n" + "\n".join(rows) + "\n<!-- SIZES:END -->")
p = os.path.join(V, "DESIGN.md"); s = open(p).read()
if "<!-- SIZES:BEGIN -->" in s:
    s = re.sub(r"<!-- SIZES:BEGIN -->.*?<!-- SIZES:END -->", lambda m: tab, s, flags=re.S)
else:
    a = "Differences from the plan worth knowing: (1) the explorer is a fork *server*"
    s = s.replace(a, tab + "\n\n" + a, 1)
open(p, "w").write(s); print(len(rows), "rows")
