/* env/fs.c — interposed libc file layer (see fs.h).  Wrapped symbols: env/fs.wraps. */
#define _GNU_SOURCE
#include "fs.h"
#include <dirent.h>
#include <errno.h>
#include <fcntl.h>
#include <stdarg.h>
#include <stdint.h>
#include <stdio.h>
#include <stdlib.h>
#include <string.h>
#include <sys/mman.h>
#include <sys/stat.h>
#include <sys/types.h>
#include <unistd.h>
#include <utime.h>

int fs_active;
fs_rec fs_log[FS_LOGMAX];
int fs_nlog;
int fs_fail_at = -1, fs_fail_errno = EIO;
int fs_fail2_at = -1, fs_fail2_errno = EIO;
int (*fs_fail_filter) (const char *fn);
int (*fs_path_guard) (const char *path);
static int guard_hit;
int fs_crash_at = -1, fs_crash_after;
void (*fs_crash_hook) (void);
long (*fs_seq_hook) (void);
int fs_mutated;

static fs_rec overflow_rec;

/* ------------------------------------------------------------------ real functions */
int __real_open (const char *, int, ...);
int __real_openat (int, const char *, int, ...);
int __real_creat (const char *, mode_t);
FILE *__real_fopen (const char *, const char *);
FILE *__real_freopen (const char *, const char *, FILE *);
FILE *__real_fdopen (int, const char *);
int __real_stat (const char *, struct stat *);
int __real_lstat (const char *, struct stat *);
int __real_fstat (int, struct stat *);
int __real_access (const char *, int);
int __real_unlink (const char *);
int __real_remove (const char *);
int __real_rename (const char *, const char *);
int __real_link (const char *, const char *);
int __real_symlink (const char *, const char *);
int __real_mkdir (const char *, mode_t);
int __real_rmdir (const char *);
DIR *__real_opendir (const char *);
int __real_chdir (const char *);
int __real_truncate (const char *, off_t);
int __real_chmod (const char *, mode_t);
int __real_fchmod (int, mode_t);
int __real_chown (const char *, uid_t, gid_t);
ssize_t __real_readlink (const char *, char *, size_t);
char *__real_realpath (const char *, char *);
int __real_utime (const char *, const struct utimbuf *);
int __real_mkstemp (char *);
FILE *__real_tmpfile (void);
FILE *__real_popen (const char *, const char *);
int __real_system (const char *);
int __real_fclose (FILE *);
int __real_close (int);
ssize_t __real_read (int, void *, size_t);
ssize_t __real_write (int, const void *, size_t);
size_t __real_fread (void *, size_t, size_t, FILE *);
size_t __real_fwrite (const void *, size_t, size_t, FILE *);
int __real_vfprintf (FILE *, const char *, va_list);
int __real_fputs (const char *, FILE *);
int __real_fputc (int, FILE *);
char *__real_fgets (char *, int, FILE *);
int __real_getc (FILE *);
int __real_fseek (FILE *, long, int);
int __real_fflush (FILE *);
struct dirent *__real_readdir (DIR *);
int __real_closedir (DIR *);
void __real_rewinddir (DIR *);
void __real__exit (int) __attribute__ ((noreturn));

/* ------------------------------------------------------------------ call sites */
#define NSITE 1024
typedef struct { void *site; const char *fn; } site_ent;
static site_ent site_local[NSITE];
static site_ent *site_tab = site_local;

void fs_sites_share (void) {
  site_ent *t = mmap (0, sizeof (site_ent) * NSITE, PROT_READ | PROT_WRITE, MAP_SHARED | MAP_ANONYMOUS, -1, 0);
  if (t == MAP_FAILED) return;
  memcpy (t, site_tab, sizeof (site_ent) * NSITE);
  site_tab = t;
}
static void site_mark (void *site, const char *fn) {
  uintptr_t h = ((uintptr_t) site * 0x9E3779B97F4A7C15ull) >> 40;
  for (int i = 0; i < NSITE; i++) {
    site_ent *e = &site_tab[(h + (uintptr_t) i) % NSITE];
    if (e->site == site) return;
    if (!e->site) {
      void *expect = 0;
      if (__atomic_compare_exchange_n (&e->site, &expect, site, 0, __ATOMIC_SEQ_CST, __ATOMIC_SEQ_CST)) { e->fn = fn; return; }
      if (e->site == site) return;
    }
  }
}
int fs_sites (void **out, const char **fn, int max) {
  int n = 0;
  for (int i = 0; i < NSITE && n < max; i++)
    if (site_tab[i].site) { out[n] = site_tab[i].site; if (fn) fn[n] = site_tab[i].fn ? site_tab[i].fn : "?"; n++; }
  return n;
}

/* ------------------------------------------------------------------ tracked streams / descriptors */
#define NTRK 32
static struct { void *stream; int fd; int used; } trk[NTRK];

static void track (void *stream, int fd) {
  for (int i = 0; i < NTRK; i++)
    if (!trk[i].used) { trk[i].used = 1; trk[i].stream = stream; trk[i].fd = fd; return; }
}
static int tracked_stream (void *s) {
  if (!s) return 0;
  for (int i = 0; i < NTRK; i++) if (trk[i].used && trk[i].stream == s) return 1;
  return 0;
}
static int tracked_fd (int fd) {
  if (fd < 0) return 0;
  for (int i = 0; i < NTRK; i++) if (trk[i].used && trk[i].fd == fd) return 1;
  return 0;
}
static void untrack_stream (void *s) { for (int i = 0; i < NTRK; i++) if (trk[i].used && trk[i].stream == s) trk[i].used = 0; }
static void untrack_fd (int fd) { for (int i = 0; i < NTRK; i++) if (trk[i].used && trk[i].fd == fd && !trk[i].stream) trk[i].used = 0; }
static void attach_stream (int fd, void *s) {
  for (int i = 0; i < NTRK; i++) if (trk[i].used && trk[i].fd == fd) { trk[i].stream = s; return; }
  track (s, fd);
}

void fs_reset (void) {
  fs_nlog = 0;
  fs_fail_at = -1; fs_fail_errno = EIO;
  fs_fail2_at = -1; fs_fail2_errno = EIO;
  fs_fail_filter = 0;
  fs_crash_at = -1; fs_crash_after = 0;
  fs_mutated = 0;
  memset (trk, 0, sizeof trk);
}

/* ------------------------------------------------------------------ logging core */
static void crash_now (fs_rec *r) {
  r->injected = 2;
  if (fs_crash_hook) fs_crash_hook ();
  __real__exit (0);
}

/* returns 1 when the call must fail (errno already set) */
static int pre (fs_rec **rp, int *idxp, const char *fn, void *site) {
  int idx = fs_nlog++;
  fs_rec *r = idx < FS_LOGMAX ? &fs_log[idx] : &overflow_rec;
  r->fn = fn; r->path[0] = r->path2[0] = 0; r->has_path = r->has_path2 = r->path_trunc = 0;
  r->flags = 0; r->mode[0] = 0; r->wr = 0; r->fd = -1; r->stream = 0; r->ret = 0; r->err = 0;
  r->nbytes = 0; r->site = site; r->injected = 0;
  r->seq = fs_seq_hook ? fs_seq_hook () : 0;
  site_mark (site, fn);
  guard_hit = 0;
  *rp = r; *idxp = idx;
  if (idx == fs_crash_at && !fs_crash_after) crash_now (r);
  if ((idx == fs_fail_at || idx == fs_fail2_at) && !(fs_fail_filter && !fs_fail_filter (fn))) {
    int e = idx == fs_fail_at ? fs_fail_errno : fs_fail2_errno;
    r->injected = 1; r->err = e; r->ret = -1; errno = e;
    return 1;
  }
  return 0;
}
static void post (fs_rec *r, int idx, long ret, int ok) {
  int e = errno;
  r->ret = ret;
  if (!ok) r->err = e;
  else if (r->wr && r->has_path) fs_mutated = 1;
  if (idx == fs_crash_at && fs_crash_after) crash_now (r);
  errno = e;
}
static void setp (fs_rec *r, int which, const char *p) {
  char *d = which ? r->path2 : r->path;
  if (which) r->has_path2 = 1; else r->has_path = 1;
  if (!p) { strcpy (d, "(null)"); return; }
  if (fs_path_guard && fs_path_guard (p)) guard_hit = 1;
  size_t l = strlen (p);
  if (l >= FS_PATHMAX) { l = FS_PATHMAX - 1; r->path_trunc = 1; }
  memcpy (d, p, l); d[l] = 0;
}
/* the harness's guard refused a path of this call: the call is logged but never made (EACCES) */
static int guard_fail (fs_rec *r) {
  if (!guard_hit) return 0;
  guard_hit = 0;
  r->injected = 3; r->err = EACCES; r->ret = -1; errno = EACCES;
  return 1;
}
static int mode_writes (const char *m) { return m && (strchr (m, 'w') || strchr (m, 'a') || strchr (m, '+')); }
static int flags_write (int fl) { return (fl & O_ACCMODE) != O_RDONLY || (fl & (O_CREAT | O_TRUNC | O_APPEND)); }
int fs_is_write_open (const fs_rec *r) { return r->wr; }

const char *fs_describe (const fs_rec *r, char *buf, size_t len) {
  char p1[80], p2[80];
  size_t l1 = strlen (r->path), l2 = strlen (r->path2);
  if (l1 > 60) snprintf (p1, sizeof p1, "%.24s..(%zu)..%s", r->path, l1, r->path + l1 - 24); else snprintf (p1, sizeof p1, "%s", r->path);
  if (l2 > 60) snprintf (p2, sizeof p2, "%.24s..(%zu)..%s", r->path2, l2, r->path2 + l2 - 24); else snprintf (p2, sizeof p2, "%s", r->path2);
  if (r->has_path2) snprintf (buf, len, "%s(\"%s\",\"%s\")=%ld", r->fn, p1, p2, r->ret);
  else if (r->has_path && r->mode[0]) snprintf (buf, len, "%s(\"%s\",\"%s\")=%ld", r->fn, p1, r->mode, r->ret);
  else if (r->has_path) snprintf (buf, len, "%s(\"%s\",0x%x)=%ld", r->fn, p1, r->flags, r->ret);
  else snprintf (buf, len, "%s(fd=%d n=%ld)=%ld", r->fn, r->fd, r->nbytes, r->ret);
  if (r->err) { size_t k = strlen (buf); snprintf (buf + k, len - k, " errno=%d%s", r->err, r->injected == 1 ? " [injected]" : r->injected == 3 ? " [refused by the harness guard, not executed]" : ""); }
  return buf;
}

#define SITE __builtin_return_address (0)

/* ------------------------------------------------------------------ path calls */
int __wrap_open (const char *path, int flags, ...) {
  mode_t mode = 0;
  if (flags & (O_CREAT | O_TMPFILE)) { va_list ap; va_start (ap, flags); mode = (mode_t) va_arg (ap, int); va_end (ap); }
  if (!fs_active) return __real_open (path, flags, mode);
  fs_rec *r; int idx;
  int fail = pre (&r, &idx, "open", SITE);
  setp (r, 0, path); r->flags = flags; r->wr = flags_write (flags);
  if (fail || guard_fail (r)) return -1;
  int fd = __real_open (path, flags, mode);
  r->fd = fd;
  if (fd >= 0) track (0, fd);
  post (r, idx, fd, fd >= 0);
  return fd;
}
int __wrap_openat (int dirfd, const char *path, int flags, ...) {
  mode_t mode = 0;
  if (flags & (O_CREAT | O_TMPFILE)) { va_list ap; va_start (ap, flags); mode = (mode_t) va_arg (ap, int); va_end (ap); }
  if (!fs_active) return __real_openat (dirfd, path, flags, mode);
  fs_rec *r; int idx;
  int fail = pre (&r, &idx, "openat", SITE);
  setp (r, 0, path); r->flags = flags; r->wr = flags_write (flags);
  if (fail || guard_fail (r)) return -1;
  int fd = __real_openat (dirfd, path, flags, mode);
  r->fd = fd;
  if (fd >= 0) track (0, fd);
  post (r, idx, fd, fd >= 0);
  return fd;
}
int __wrap_creat (const char *path, mode_t mode) {
  if (!fs_active) return __real_creat (path, mode);
  fs_rec *r; int idx;
  int fail = pre (&r, &idx, "creat", SITE);
  setp (r, 0, path); r->wr = 1;
  if (fail || guard_fail (r)) return -1;
  int fd = __real_creat (path, mode);
  r->fd = fd;
  if (fd >= 0) track (0, fd);
  post (r, idx, fd, fd >= 0);
  return fd;
}
FILE *__wrap_fopen (const char *path, const char *mode) {
  if (!fs_active) return __real_fopen (path, mode);
  fs_rec *r; int idx;
  int fail = pre (&r, &idx, "fopen", SITE);
  setp (r, 0, path); snprintf (r->mode, sizeof r->mode, "%s", mode ? mode : ""); r->wr = mode_writes (mode);
  if (fail || guard_fail (r)) { r->ret = 0; return 0; }
  FILE *f = __real_fopen (path, mode);
  r->stream = f;
  if (f) { r->fd = fileno (f); track (f, r->fd); }
  post (r, idx, f != 0, f != 0);
  return f;
}
FILE *__wrap_freopen (const char *path, const char *mode, FILE *old) {
  if (!fs_active) return __real_freopen (path, mode, old);
  fs_rec *r; int idx;
  int fail = pre (&r, &idx, "freopen", SITE);
  setp (r, 0, path); snprintf (r->mode, sizeof r->mode, "%s", mode ? mode : ""); r->wr = mode_writes (mode);
  if (fail || guard_fail (r)) { r->ret = 0; return 0; }
  FILE *f = __real_freopen (path, mode, old);
  r->stream = f;
  if (f) { r->fd = fileno (f); track (f, r->fd); }
  post (r, idx, f != 0, f != 0);
  return f;
}
#define PATH1(NAME, WR, CALL, OKCOND)                                         \
  fs_rec *r; int idx;                                                         \
  int fail = pre (&r, &idx, NAME, SITE);                                      \
  setp (r, 0, path); r->wr = (WR);                                            \
  if (fail || guard_fail (r)) return -1;                                                        \
  long rc = (CALL);                                                           \
  post (r, idx, rc, OKCOND);                                                  \
  return (int) rc;

int __wrap_stat (const char *path, struct stat *st) { if (!fs_active) return __real_stat (path, st); PATH1 ("stat", 0, __real_stat (path, st), rc == 0) }
int __wrap_lstat (const char *path, struct stat *st) { if (!fs_active) return __real_lstat (path, st); PATH1 ("lstat", 0, __real_lstat (path, st), rc == 0) }
int __wrap_access (const char *path, int m) { if (!fs_active) return __real_access (path, m); PATH1 ("access", 0, __real_access (path, m), rc == 0) }
int __wrap_unlink (const char *path) { if (!fs_active) return __real_unlink (path); PATH1 ("unlink", 1, __real_unlink (path), rc == 0) }
int __wrap_remove (const char *path) { if (!fs_active) return __real_remove (path); PATH1 ("remove", 1, __real_remove (path), rc == 0) }
int __wrap_mkdir (const char *path, mode_t m) { if (!fs_active) return __real_mkdir (path, m); PATH1 ("mkdir", 1, __real_mkdir (path, m), rc == 0) }
int __wrap_rmdir (const char *path) { if (!fs_active) return __real_rmdir (path); PATH1 ("rmdir", 1, __real_rmdir (path), rc == 0) }
int __wrap_chdir (const char *path) { if (!fs_active) return __real_chdir (path); PATH1 ("chdir", 1, __real_chdir (path), rc == 0) }
int __wrap_truncate (const char *path, off_t l) { if (!fs_active) return __real_truncate (path, l); PATH1 ("truncate", 1, __real_truncate (path, l), rc == 0) }
int __wrap_chmod (const char *path, mode_t m) { if (!fs_active) return __real_chmod (path, m); PATH1 ("chmod", 1, __real_chmod (path, m), rc == 0) }
int __wrap_chown (const char *path, uid_t u, gid_t g) { if (!fs_active) return __real_chown (path, u, g); PATH1 ("chown", 1, __real_chown (path, u, g), rc == 0) }
int __wrap_utime (const char *path, const struct utimbuf *t) { if (!fs_active) return __real_utime (path, t); PATH1 ("utime", 1, __real_utime (path, t), rc == 0) }
int __wrap_system (const char *path) { if (!fs_active) return __real_system (path); PATH1 ("system", 1, __real_system (path), rc == 0) }
ssize_t __wrap_readlink (const char *path, char *b, size_t n) {
  if (!fs_active) return __real_readlink (path, b, n);
  fs_rec *r; int idx;
  int fail = pre (&r, &idx, "readlink", SITE);
  setp (r, 0, path);
  if (fail || guard_fail (r)) return -1;
  ssize_t rc = __real_readlink (path, b, n);
  post (r, idx, rc, rc >= 0);
  return rc;
}
char *__wrap_realpath (const char *path, char *res) {
  if (!fs_active) return __real_realpath (path, res);
  fs_rec *r; int idx;
  int fail = pre (&r, &idx, "realpath", SITE);
  setp (r, 0, path);
  if (fail || guard_fail (r)) return 0;
  char *p = __real_realpath (path, res);
  post (r, idx, p != 0, p != 0);
  return p;
}
int __wrap_mkstemp (char *path) {
  if (!fs_active) return __real_mkstemp (path);
  fs_rec *r; int idx;
  int fail = pre (&r, &idx, "mkstemp", SITE);
  setp (r, 0, path); r->wr = 1;
  if (fail || guard_fail (r)) return -1;
  int fd = __real_mkstemp (path);
  r->fd = fd;
  if (fd >= 0) track (0, fd);
  post (r, idx, fd, fd >= 0);
  return fd;
}
FILE *__wrap_tmpfile (void) {
  if (!fs_active) return __real_tmpfile ();
  fs_rec *r; int idx;
  int fail = pre (&r, &idx, "tmpfile", SITE);
  setp (r, 0, "(tmpfile)"); r->wr = 1;
  if (fail || guard_fail (r)) return 0;
  FILE *f = __real_tmpfile ();
  if (f) track (f, fileno (f));
  post (r, idx, f != 0, f != 0);
  return f;
}
FILE *__wrap_popen (const char *path, const char *mode) {
  if (!fs_active) return __real_popen (path, mode);
  fs_rec *r; int idx;
  int fail = pre (&r, &idx, "popen", SITE);
  setp (r, 0, path); r->wr = 1;
  if (fail || guard_fail (r)) return 0;
  FILE *f = __real_popen (path, mode);
  post (r, idx, f != 0, f != 0);
  return f;
}
DIR *__wrap_opendir (const char *path) {
  if (!fs_active) return __real_opendir (path);
  fs_rec *r; int idx;
  int fail = pre (&r, &idx, "opendir", SITE);
  setp (r, 0, path);
  if (fail || guard_fail (r)) { r->ret = 0; return 0; }
  DIR *d = __real_opendir (path);
  r->stream = d;
  if (d) track (d, -2);
  post (r, idx, d != 0, d != 0);
  return d;
}
#define PATH2(NAME, CALL)                                                     \
  fs_rec *r; int idx;                                                         \
  int fail = pre (&r, &idx, NAME, SITE);                                      \
  setp (r, 0, a); setp (r, 1, b); r->wr = 1;                                  \
  if (fail || guard_fail (r)) return -1;                                                        \
  long rc = (CALL);                                                           \
  post (r, idx, rc, rc == 0);                                                 \
  return (int) rc;
int __wrap_rename (const char *a, const char *b) { if (!fs_active) return __real_rename (a, b); PATH2 ("rename", __real_rename (a, b)) }
int __wrap_link (const char *a, const char *b) { if (!fs_active) return __real_link (a, b); PATH2 ("link", __real_link (a, b)) }
int __wrap_symlink (const char *a, const char *b) { if (!fs_active) return __real_symlink (a, b); PATH2 ("symlink", __real_symlink (a, b)) }

/* ------------------------------------------------------------------ descriptor / stream calls */
FILE *__wrap_fdopen (int fd, const char *mode) {
  if (!fs_active || !tracked_fd (fd)) return __real_fdopen (fd, mode);
  fs_rec *r; int idx;
  int fail = pre (&r, &idx, "fdopen", SITE);
  r->fd = fd; snprintf (r->mode, sizeof r->mode, "%s", mode ? mode : "");
  if (fail || guard_fail (r)) { r->ret = 0; return 0; }
  FILE *f = __real_fdopen (fd, mode);
  r->stream = f;
  if (f) attach_stream (fd, f);
  post (r, idx, f != 0, f != 0);
  return f;
}
int __wrap_fstat (int fd, struct stat *st) {
  if (!fs_active || !tracked_fd (fd)) return __real_fstat (fd, st);
  fs_rec *r; int idx;
  int fail = pre (&r, &idx, "fstat", SITE);
  r->fd = fd;
  if (fail || guard_fail (r)) return -1;
  int rc = __real_fstat (fd, st);
  post (r, idx, rc, rc == 0);
  return rc;
}
int __wrap_fchmod (int fd, mode_t m) {
  if (!fs_active || !tracked_fd (fd)) return __real_fchmod (fd, m);
  fs_rec *r; int idx;
  int fail = pre (&r, &idx, "fchmod", SITE);
  r->fd = fd;
  if (fail || guard_fail (r)) return -1;
  int rc = __real_fchmod (fd, m);
  post (r, idx, rc, rc == 0);
  return rc;
}
int __wrap_fclose (FILE *f) {
  if (!fs_active || !tracked_stream (f)) return __real_fclose (f);
  fs_rec *r; int idx;
  int fail = pre (&r, &idx, "fclose", SITE);
  r->stream = f; r->fd = fileno (f);
  untrack_stream (f);
  if (fail || guard_fail (r)) {                   /* the final flush fails: what was still buffered never reaches the file, the stream is gone */
    int e = errno;
    struct stat st;
    int fd = fileno (f), keep = fd >= 0 ? dup (fd) : -1;
    int have = keep >= 0 && __real_fstat (keep, &st) == 0 && S_ISREG (st.st_mode);
    __real_fclose (f);
    if (have && ftruncate (keep, st.st_size)) {}
    if (keep >= 0) __real_close (keep);
    if (idx == fs_crash_at && fs_crash_after) crash_now (r);
    errno = e;
    return EOF;
  }
  int rc = __real_fclose (f);
  post (r, idx, rc, rc == 0);
  return rc;
}
size_t __wrap_fread (void *p, size_t sz, size_t n, FILE *f) {
  if (!fs_active || !tracked_stream (f)) return __real_fread (p, sz, n, f);
  fs_rec *r; int idx;
  int fail = pre (&r, &idx, "fread", SITE);
  r->stream = f; r->nbytes = (long) (sz * n);
  if (fail || guard_fail (r)) { r->ret = 0; return 0; }
  size_t rc = __real_fread (p, sz, n, f);
  post (r, idx, (long) rc, 1);
  return rc;
}
size_t __wrap_fwrite (const void *p, size_t sz, size_t n, FILE *f) {
  if (!fs_active || !tracked_stream (f)) return __real_fwrite (p, sz, n, f);
  fs_rec *r; int idx;
  int fail = pre (&r, &idx, "fwrite", SITE);
  r->stream = f; r->nbytes = (long) (sz * n);
  if (fail || guard_fail (r)) { r->ret = 0; return 0; }
  size_t rc = __real_fwrite (p, sz, n, f);
  post (r, idx, (long) rc, 1);
  return rc;
}
int __wrap_vfprintf (FILE *f, const char *fmt, va_list ap) {
  if (!fs_active || !tracked_stream (f)) return __real_vfprintf (f, fmt, ap);
  fs_rec *r; int idx;
  int fail = pre (&r, &idx, "fprintf", SITE);
  r->stream = f;
  if (fail || guard_fail (r)) return -1;
  int rc = __real_vfprintf (f, fmt, ap);
  r->nbytes = rc;
  post (r, idx, rc, rc >= 0);
  return rc;
}
int __wrap_fprintf (FILE *f, const char *fmt, ...) {
  va_list ap;
  int rc;
  va_start (ap, fmt);
  if (!fs_active || !tracked_stream (f)) rc = __real_vfprintf (f, fmt, ap);
  else {
    fs_rec *r; int idx;
    int fail = pre (&r, &idx, "fprintf", SITE);
    r->stream = f;
    if (fail || guard_fail (r)) rc = -1;
    else {
      rc = __real_vfprintf (f, fmt, ap);
      r->nbytes = rc;
      post (r, idx, rc, rc >= 0);
    }
  }
  va_end (ap);
  return rc;
}
int __wrap_fputs (const char *s, FILE *f) {
  if (!fs_active || !tracked_stream (f)) return __real_fputs (s, f);
  fs_rec *r; int idx;
  int fail = pre (&r, &idx, "fputs", SITE);
  r->stream = f; r->nbytes = (long) strlen (s);
  if (fail || guard_fail (r)) return EOF;
  int rc = __real_fputs (s, f);
  post (r, idx, rc, rc >= 0);
  return rc;
}
int __wrap_fputc (int c, FILE *f) {
  if (!fs_active || !tracked_stream (f)) return __real_fputc (c, f);
  fs_rec *r; int idx;
  int fail = pre (&r, &idx, "fputc", SITE);
  r->stream = f; r->nbytes = 1;
  if (fail || guard_fail (r)) return EOF;
  int rc = __real_fputc (c, f);
  post (r, idx, rc, rc != EOF);
  return rc;
}
char *__wrap_fgets (char *b, int n, FILE *f) {
  if (!fs_active || !tracked_stream (f)) return __real_fgets (b, n, f);
  fs_rec *r; int idx;
  int fail = pre (&r, &idx, "fgets", SITE);
  r->stream = f; r->nbytes = n;
  if (fail || guard_fail (r)) { r->ret = 0; return 0; }
  char *p = __real_fgets (b, n, f);
  post (r, idx, p != 0, 1);
  return p;
}
int __wrap_getc (FILE *f) {
  if (!fs_active || !tracked_stream (f)) return __real_getc (f);
  /* not logged per character (ed reads whole files this way); counted on the opening record */
  return __real_getc (f);
}
int __wrap_fseek (FILE *f, long off, int wh) {
  if (!fs_active || !tracked_stream (f)) return __real_fseek (f, off, wh);
  fs_rec *r; int idx;
  int fail = pre (&r, &idx, "fseek", SITE);
  r->stream = f; r->nbytes = off;
  if (fail || guard_fail (r)) return -1;
  int rc = __real_fseek (f, off, wh);
  post (r, idx, rc, rc == 0);
  return rc;
}
int __wrap_fflush (FILE *f) {
  if (!fs_active || !tracked_stream (f)) return __real_fflush (f);
  fs_rec *r; int idx;
  int fail = pre (&r, &idx, "fflush", SITE);
  r->stream = f;
  if (fail || guard_fail (r)) return EOF;
  int rc = __real_fflush (f);
  post (r, idx, rc, rc == 0);
  return rc;
}
struct dirent *__wrap_readdir (DIR *d) { return __real_readdir (d); }
void __wrap_rewinddir (DIR *d) { __real_rewinddir (d); }
int __wrap_closedir (DIR *d) {
  if (!fs_active || !tracked_stream (d)) return __real_closedir (d);
  fs_rec *r; int idx;
  int fail = pre (&r, &idx, "closedir", SITE);
  r->stream = d;
  untrack_stream (d);
  if (fail || guard_fail (r)) { int e = errno; __real_closedir (d); errno = e; return -1; }
  int rc = __real_closedir (d);
  post (r, idx, rc, rc == 0);
  return rc;
}
ssize_t __wrap_read (int fd, void *b, size_t n) {
  if (!fs_active || !tracked_fd (fd)) return __real_read (fd, b, n);
  fs_rec *r; int idx;
  int fail = pre (&r, &idx, "read", SITE);
  r->fd = fd; r->nbytes = (long) n;
  if (fail || guard_fail (r)) return -1;
  ssize_t rc = __real_read (fd, b, n);
  post (r, idx, rc, rc >= 0);
  return rc;
}
#ifndef FS_NO_CLOSE_WRITE
ssize_t __wrap_write (int fd, const void *b, size_t n) {
  if (!fs_active || !tracked_fd (fd)) return __real_write (fd, b, n);
  fs_rec *r; int idx;
  int fail = pre (&r, &idx, "write", SITE);
  r->fd = fd; r->nbytes = (long) n;
  if (fail || guard_fail (r)) return -1;
  ssize_t rc = __real_write (fd, b, n);
  post (r, idx, rc, rc >= 0);
  return rc;
}
int __wrap_close (int fd) {
  if (!fs_active || !tracked_fd (fd)) return __real_close (fd);
  fs_rec *r; int idx;
  int fail = pre (&r, &idx, "close", SITE);
  r->fd = fd;
  untrack_fd (fd);
  if (fail || guard_fail (r)) { int e = errno; __real_close (fd); errno = e; return -1; }
  int rc = __real_close (fd);
  post (r, idx, rc, rc == 0);
  return rc;
}
#endif

/* ------------------------------------------------------------------ harness helpers (never logged) */
int fs_rm_rf (const char *path) {
  struct stat st;
  if (__real_lstat (path, &st) == -1) return errno == ENOENT ? 0 : -1;
  if (S_ISDIR (st.st_mode)) {
    DIR *d = __real_opendir (path);
    if (d) {
      struct dirent *de;
      while ((de = __real_readdir (d))) {
        if (!strcmp (de->d_name, ".") || !strcmp (de->d_name, "..")) continue;
        char sub[4096];
        if (snprintf (sub, sizeof sub, "%s/%s", path, de->d_name) < (int) sizeof sub) fs_rm_rf (sub);
      }
      __real_closedir (d);
    } else {
      __real_chmod (path, 0700);
      if ((d = __real_opendir (path))) { __real_closedir (d); return fs_rm_rf (path); }
    }
    return __real_rmdir (path);
  }
  return __real_unlink (path);
}
int fs_rm_children (const char *dir, const char *const *keep) {
  DIR *d = __real_opendir (dir);
  if (!d) return -1;
  struct dirent *de;
  while ((de = __real_readdir (d))) {
    if (!strcmp (de->d_name, ".") || !strcmp (de->d_name, "..")) continue;
    int k = 0;
    for (const char *const *p = keep; p && *p; p++) if (!strcmp (*p, de->d_name)) k = 1;
    if (k) continue;
    char sub[4096];
    if (snprintf (sub, sizeof sub, "%s/%s", dir, de->d_name) < (int) sizeof sub) fs_rm_rf (sub);
  }
  __real_closedir (d);
  return 0;
}
char *fs_slurp (const char *path, size_t *len) {
  int fd = __real_open (path, O_RDONLY);
  if (fd < 0) return 0;
  struct stat st;
  if (__real_fstat (fd, &st) == -1 || !S_ISREG (st.st_mode)) { __real_close (fd); return 0; }
  char *b = malloc ((size_t) st.st_size + 1);
  size_t got = 0;
  while (got < (size_t) st.st_size) {
    ssize_t k = __real_read (fd, b + got, (size_t) st.st_size - got);
    if (k <= 0) break;
    got += (size_t) k;
  }
  __real_close (fd);
  b[got] = 0;
  if (len) *len = got;
  return b;
}
int fs_spit (const char *path, const void *data, size_t len) {
  int fd = __real_open (path, O_WRONLY | O_CREAT | O_TRUNC, 0644);
  if (fd < 0) return -1;
  size_t done = 0;
  while (done < len) {
    ssize_t k = __real_write (fd, (const char *) data + done, len - done);
    if (k <= 0) { __real_close (fd); return -1; }
    done += (size_t) k;
  }
  return __real_close (fd);
}
int fs_copy_tree (const char *from, const char *to) {
  struct stat st;
  if (__real_lstat (from, &st) == -1) return -1;
  if (S_ISDIR (st.st_mode)) {
    if (__real_mkdir (to, 0755) == -1 && errno != EEXIST) return -1;
    DIR *d = __real_opendir (from);
    if (!d) return -1;
    struct dirent *de;
    int rc = 0;
    while ((de = __real_readdir (d))) {
      if (!strcmp (de->d_name, ".") || !strcmp (de->d_name, "..")) continue;
      char a[4096], b[4096];
      snprintf (a, sizeof a, "%s/%s", from, de->d_name);
      snprintf (b, sizeof b, "%s/%s", to, de->d_name);
      if (fs_copy_tree (a, b)) rc = -1;
    }
    __real_closedir (d);
    return rc;
  }
  if (S_ISREG (st.st_mode)) {
    size_t n; char *b = fs_slurp (from, &n);
    if (!b) return -1;
    int rc = fs_spit (to, b, n);
    free (b);
    return rc;
  }
  return 0;
}
