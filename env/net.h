/* env/net — E4: scripted async runtime, sockets, timer and console worker.
 * The real backend()/comm.c run unchanged on top of this; every environment
 * answer is decided by the harness (usually through vx_choose). */
#pragma once
#include <stddef.h>
#include <stdint.h>
#include <sys/time.h>
#include "async/async_runtime.h"

#define ENV_MAXCLI 8
#define ENV_INMAX 16384
#define ENV_OUTMAX (1 << 17)

typedef struct env_cli {
  int used, id;
  int fd;                       /* placeholder descriptor handed to the driver by accept() (-1 until accepted) */
  int port_index;
  int accepted;                 /* driver has accept()ed it */
  int peer_closed;              /* client hung up */
  int driver_closed;            /* driver close()d the fd */
  unsigned char in[ENV_INMAX];  /* client -> driver bytes not yet consumed by recv() */
  size_t in_len, in_pos;
  unsigned char *out;           /* bytes accepted by send(), in order */
  size_t out_len;
  int registered;               /* async_runtime_add() done and not removed */
  uint32_t interest;            /* EVENT_READ / EVENT_WRITE as last set by add/modify */
  void *ctx;
  long n_send, n_recv;
  int send_after_close;         /* send() attempted after EPIPE / close */
  int epipe;                    /* environment answered EPIPE once */
} env_cli;

extern env_cli env_clients[ENV_MAXCLI];
extern void *env_listen_ctx[5];         /* context registered for each listening port */
extern int env_listen_fd[5];
extern int env_wait_calls;
extern int env_posted_completions;         /* bumped by async_runtime_post_completion() called from driver code */
extern uintptr_t env_posted_key;

/* hooks (set by the harness; defaults: no event + shutdown, full read, full send) */
extern int (*env_wait_hook) (io_event_t *ev, int max, struct timeval *tmo);
extern long (*env_recv_hook) (env_cli *c, size_t avail, size_t want);   /* >0 bytes to deliver, 0 EOF, <0 -errno */
extern long (*env_send_hook) (env_cli *c, const void *buf, size_t len); /* >=0 bytes accepted, <0 -errno */

env_cli *env_connect (int port_index);                  /* a client connects (pending until the driver accept()s) */
void env_client_send (env_cli *c, const void *data, size_t n);
void env_client_close (env_cli *c);
env_cli *env_cli_by_fd (int fd);
int env_pending_connections (int port_index);

/* event builders for the wait hook */
int env_ev_listen (io_event_t *ev, int n, int port_index);
int env_ev_cli (io_event_t *ev, int n, env_cli *c, uint32_t type);
int env_ev_console (io_event_t *ev, int n);
int env_ev_wakeup (io_event_t *ev, int n);              /* the event a timer wake-up produces in the epoll runtime */
void env_tick (int seconds);                            /* advance the virtual clock and raise heart_beat_flag */
void env_shutdown (void);                               /* make backend() leave through its own exit path */
void env_console_line (const char *line);               /* what the console worker would enqueue */

/* console output captured from write(1, …) while console mode is on */
extern unsigned char *env_console_out;
extern size_t env_console_out_len;
extern int env_console_capture;
extern int env_isatty_value;            /* answer of the wrapped isatty() (default 0: stdin is a pipe; 1: a real tty) */
