/* env/net.c — scripted environment under the real backend()/comm.c (see net.h).
 * Link with: -Wl,--wrap=socket,--wrap=bind,--wrap=listen,--wrap=setsockopt,--wrap=getsockname,
 *   --wrap=accept,--wrap=recv,--wrap=send,--wrap=close,--wrap=write,--wrap=isatty,--wrap=tcgetattr,--wrap=tcsetattr
 * and do not pull async_runtime_*.o, console_worker.o (libasync) or timer.o (libport): every symbol of
 * those members is defined here. */
#include <config.h>
#include "std.h"
#include "rc.h"
#include "src/backend.h"
#include "src/comm.h"
#include "async/async_queue.h"
#include "async/console_worker.h"
#include "port/timer.h"
#include "net.h"
#include <sys/socket.h>
#include <netinet/in.h>
#include <termios.h>

extern time_t hx_clock;

env_cli env_clients[ENV_MAXCLI];
void *env_listen_ctx[5];
int env_listen_fd[5] = { -1, -1, -1, -1, -1 };
int env_wait_calls;
unsigned char *env_console_out;
size_t env_console_out_len;
int env_console_capture;
int env_isatty_value;              /* what isatty() answers to driver objects (default 0 = pipe) */

int (*env_wait_hook) (io_event_t *ev, int max, struct timeval *tmo);
long (*env_recv_hook) (env_cli *c, size_t avail, size_t want);
long (*env_send_hook) (env_cli *c, const void *buf, size_t len);

struct async_runtime_s { int dummy; console_type_t ctype; };
static struct async_runtime_s the_runtime;

int __real_close (int fd);
ssize_t __real_write (int fd, const void *buf, size_t n);

static int placeholder_fd (void) { return open ("/dev/null", O_RDWR); }

/* ------------------------------------------------------------------ harness-side API */
env_cli *env_connect (int port_index) {
  for (int i = 0; i < ENV_MAXCLI; i++)
    if (!env_clients[i].used) {
      env_cli *c = &env_clients[i];
      unsigned char *keep = c->out;
      memset (c, 0, sizeof *c);
      c->out = keep ? keep : malloc (ENV_OUTMAX);
      c->used = 1; c->id = i; c->fd = -1; c->port_index = port_index;
      return c;
    }
  return 0;
}
void env_client_send (env_cli *c, const void *data, size_t n) {
  if (c->in_pos == c->in_len) c->in_pos = c->in_len = 0;
  if (c->in_len + n > ENV_INMAX) n = ENV_INMAX - c->in_len;
  memcpy (c->in + c->in_len, data, n);
  c->in_len += n;
}
void env_client_close (env_cli *c) { c->peer_closed = 1; }
env_cli *env_cli_by_fd (int fd) {
  if (fd < 0) return 0;
  for (int i = 0; i < ENV_MAXCLI; i++) if (env_clients[i].used && env_clients[i].accepted && !env_clients[i].driver_closed && env_clients[i].fd == fd) return &env_clients[i];
  return 0;
}
int env_pending_connections (int port_index) {
  int n = 0;
  for (int i = 0; i < ENV_MAXCLI; i++) if (env_clients[i].used && !env_clients[i].accepted && env_clients[i].port_index == port_index) n++;
  return n;
}
int env_ev_listen (io_event_t *ev, int n, int port_index) {
  memset (&ev[n], 0, sizeof ev[n]);
  ev[n].fd = env_listen_fd[port_index]; ev[n].event_type = EVENT_READ; ev[n].context = env_listen_ctx[port_index];
  return n + 1;
}
int env_ev_cli (io_event_t *ev, int n, env_cli *c, uint32_t type) {
  memset (&ev[n], 0, sizeof ev[n]);
  ev[n].fd = c->fd; ev[n].event_type = type; ev[n].context = c->ctx;
  return n + 1;
}
int env_ev_console (io_event_t *ev, int n) {
  memset (&ev[n], 0, sizeof ev[n]);
  ev[n].fd = -1; ev[n].completion_key = CONSOLE_COMPLETION_KEY; ev[n].event_type = EVENT_READ;
  return n + 1;
}
/* what async_runtime_wait() of lib/async/async_runtime_epoll.c reports when the heart-beat timer thread called
 * async_runtime_wakeup(): the notification record 1 decodes to completion_key 0, data 1, no context */
int env_ev_wakeup (io_event_t *ev, int n) {
  memset (&ev[n], 0, sizeof ev[n]);
  ev[n].fd = -1; ev[n].completion_key = 0; ev[n].event_type = EVENT_READ; ev[n].bytes_transferred = 1;
  return n + 1;
}
void env_tick (int seconds) { hx_clock += seconds; heart_beat_flag = 1; }
void env_shutdown (void) { g_proceeding_shutdown = 1; }
void env_console_line (const char *line) {
  if (g_console_queue) async_queue_enqueue (g_console_queue, line, strlen (line) + 1);
}

/* ------------------------------------------------------------------ async runtime (whole API) */
async_runtime_t *async_runtime_init (void) { return &the_runtime; }
void async_runtime_deinit (async_runtime_t *rt) { (void) rt; }
int async_runtime_add (async_runtime_t *rt, socket_fd_t fd, uint32_t events, void *context) {
  (void) rt;
  for (int i = 0; i < 5; i++) if (env_listen_fd[i] == fd && fd >= 0) { env_listen_ctx[i] = context; return 0; }
  env_cli *c = env_cli_by_fd (fd);
  if (c) { c->registered = 1; c->interest = events; c->ctx = context; }
  return 0;
}
int async_runtime_modify (async_runtime_t *rt, socket_fd_t fd, uint32_t events, void *context) {
  (void) rt;
  env_cli *c = env_cli_by_fd (fd);
  if (c) { c->interest = events; c->ctx = context; }
  return 0;
}
int async_runtime_remove (async_runtime_t *rt, socket_fd_t fd) {
  (void) rt;
  env_cli *c = env_cli_by_fd (fd);
  if (c) c->registered = 0;
  return 0;
}
int async_runtime_wakeup (async_runtime_t *rt) { (void) rt; return 0; }
int async_runtime_wait (async_runtime_t *rt, io_event_t *events, int max_events, struct timeval *timeout) {
  (void) rt;
  env_wait_calls++;
  if (env_wait_hook) return env_wait_hook (events, max_events, timeout);
  env_shutdown ();
  return 0;
}
int env_posted_completions;       /* completions posted by the driver itself (async_runtime_post_completion); the harness decides when they are delivered */
uintptr_t env_posted_key;
int async_runtime_post_completion (async_runtime_t *rt, uintptr_t key, uintptr_t data) { (void) rt; (void) data; env_posted_completions++; env_posted_key = key; return 0; }
int async_runtime_post_read (async_runtime_t *rt, socket_fd_t fd, void *buffer, size_t len) { (void) rt; (void) fd; (void) buffer; (void) len; return 0; }
int async_runtime_post_write (async_runtime_t *rt, socket_fd_t fd, void *buffer, size_t len) { (void) rt; (void) fd; (void) buffer; (void) len; return 0; }
int async_runtime_add_console (async_runtime_t *rt, void *context) { (void) context; rt->ctype = CONSOLE_TYPE_PIPE; return 0; }
console_type_t async_runtime_get_console_type (async_runtime_t *rt) { return rt->ctype; }
int async_runtime_get_event_loop_handle (async_runtime_t *rt) { (void) rt; return -1; }

/* ------------------------------------------------------------------ console worker (whole API) */
static console_worker_context_t the_cw;
console_type_t console_detect_type (void) { return CONSOLE_TYPE_PIPE; }
console_worker_context_t *console_worker_init (async_runtime_t *rt, async_queue_t *q, uintptr_t key) {
  the_cw.line_queue = q; the_cw.runtime = rt; the_cw.worker = 0; the_cw.console_type = CONSOLE_TYPE_PIPE; the_cw.completion_key = key;
  return &the_cw;
}
bool console_worker_shutdown (console_worker_context_t *ctx, int timeout_ms) { (void) ctx; (void) timeout_ms; return true; }
void console_worker_destroy (console_worker_context_t *ctx) { (void) ctx; }
const char *console_type_str (console_type_t t) { (void) t; return "scripted"; }

/* ------------------------------------------------------------------ timer (whole API) */
static int timer_active;
timer_error_t platform_timer_init (platform_timer_t *t) { if (!t) return TIMER_ERR_NULL_PARAM; t->internal = 0; return TIMER_OK; }
timer_error_t platform_timer_start (platform_timer_t *t, unsigned long us, timer_callback_t cb) { (void) t; (void) us; (void) cb; timer_active = 1; return TIMER_OK; }
timer_error_t platform_timer_stop (platform_timer_t *t) { (void) t; timer_active = 0; return TIMER_OK; }
void platform_timer_cleanup (platform_timer_t *t) { (void) t; timer_active = 0; }
int platform_timer_is_active (const platform_timer_t *t) { (void) t; return timer_active; }
const char *timer_error_string (timer_error_t e) { (void) e; return "scripted timer"; }

/* ------------------------------------------------------------------ wrapped libc (driver objects only see these) */
int __wrap_socket (int d, int t, int p) { (void) d; (void) t; (void) p; return placeholder_fd (); }
int __wrap_bind (int fd, const struct sockaddr *a, socklen_t l) {
  (void) l;
  int port = ntohs (((const struct sockaddr_in *) a)->sin_port);
  for (int i = 0; i < 5; i++) if (external_port[i].port == port && external_port[i].fd == fd) env_listen_fd[i] = fd;
  return 0;
}
int __wrap_listen (int fd, int n) { (void) fd; (void) n; return 0; }
int __wrap_setsockopt (int fd, int l, int o, const void *v, socklen_t n) { (void) fd; (void) l; (void) o; (void) v; (void) n; return 0; }
int __wrap_getsockname (int fd, struct sockaddr *a, socklen_t *l) {
  (void) fd;
  struct sockaddr_in *sin = (struct sockaddr_in *) a;
  memset (sin, 0, sizeof *sin); sin->sin_family = AF_INET; sin->sin_addr.s_addr = htonl (INADDR_LOOPBACK);
  if (l) *l = sizeof *sin;
  return 0;
}
int __wrap_accept (int fd, struct sockaddr *a, socklen_t *l) {
  int pi = -1;
  for (int i = 0; i < 5; i++) if (env_listen_fd[i] == fd) pi = i;
  for (int i = 0; i < ENV_MAXCLI && pi >= 0; i++) {
    env_cli *c = &env_clients[i];
    if (c->used && !c->accepted && c->port_index == pi) {
      c->accepted = 1; c->fd = placeholder_fd ();
      struct sockaddr_in *sin = (struct sockaddr_in *) a;
      if (sin) { memset (sin, 0, sizeof *sin); sin->sin_family = AF_INET; sin->sin_addr.s_addr = htonl (0x0a000001 + (unsigned) i); sin->sin_port = htons (40000 + i); }
      if (l) *l = sizeof *sin;
      return c->fd;
    }
  }
  errno = EWOULDBLOCK;
  return -1;
}
ssize_t __wrap_recv (int fd, void *buf, size_t len, int flags) {
  (void) flags;
  env_cli *c = env_cli_by_fd (fd);
  if (!c) { errno = EBADF; return -1; }
  c->n_recv++;
  size_t avail = c->in_len - c->in_pos;
  long n;
  if (env_recv_hook) n = env_recv_hook (c, avail, len);
  else n = avail ? (long) (avail < len ? avail : len) : (c->peer_closed ? 0 : -EWOULDBLOCK);
  if (n < 0) { errno = (int) -n; return -1; }
  if ((size_t) n > avail) n = (long) avail;
  if ((size_t) n > len) n = (long) len;
  memcpy (buf, c->in + c->in_pos, (size_t) n);
  c->in_pos += (size_t) n;
  return n;
}
ssize_t __wrap_send (int fd, const void *buf, size_t len, int flags) {
  (void) flags;
  env_cli *c = env_cli_by_fd (fd);
  if (!c) { errno = EBADF; return -1; }
  c->n_send++;
  if (c->epipe) c->send_after_close++;
  long n = env_send_hook ? env_send_hook (c, buf, len) : (long) len;
  if (n < 0) { if (-n == EPIPE) c->epipe = 1; errno = (int) -n; return -1; }
  if ((size_t) n > len) n = (long) len;
  if (c->out_len + (size_t) n <= ENV_OUTMAX) { memcpy (c->out + c->out_len, buf, (size_t) n); c->out_len += (size_t) n; }
  return n;
}
int __wrap_close (int fd) {
  env_cli *c = env_cli_by_fd (fd);
  if (c) { c->driver_closed = 1; c->registered = 0; }
  return __real_close (fd);
}
ssize_t __wrap_write (int fd, const void *buf, size_t n) {
  if (fd == STDOUT_FILENO && env_console_capture) {
    if (!env_console_out) env_console_out = malloc (ENV_OUTMAX);
    if (env_console_out_len + n <= ENV_OUTMAX) { memcpy (env_console_out + env_console_out_len, buf, n); env_console_out_len += n; }
    return (ssize_t) n;
  }
  return __real_write (fd, buf, n);
}
int __wrap_isatty (int fd) { (void) fd; return env_isatty_value; }
int __wrap_tcgetattr (int fd, struct termios *t) { (void) fd; memset (t, 0, sizeof *t); return 0; }
int __wrap_tcsetattr (int fd, int a, const struct termios *t) { (void) fd; (void) a; (void) t; return 0; }
