/* env/fs — E4: interposed libc file layer for driver objects (C15, C16).
 *
 * Link the harness with -Wl,--wrap=<sym> for every symbol listed in env/fs.wraps
 * (one per line; checks read that file).  --wrap rewrites the references of every
 * object on the link line (driver objects and harness TUs alike); the wrappers
 * pass straight through to __real_<sym> unless `fs_active` is set, so harness
 * code outside an evaluation is unaffected.
 *
 * While fs_active != 0 every wrapped call is
 *   - logged (fs_log[0..fs_nlog)): name, path argument(s), flags/mode, result, errno, call site,
 *     and the value of fs_seq_hook() at the time of the call (harnesses return the length of the
 *     master's apply log, which orders libc calls against valid_read/valid_write applies);
 *   - optionally made to fail   (fs_fail_at  = index of the logged call, fs_fail_errno): the call is not made and the
 *     caller sees the error; a failing fclose()/close()/closedir() still releases the stream, and for fclose() the
 *     data that was still buffered is dropped (the file keeps only what earlier flushes wrote), as when the final
 *     flush hits a full disk;
 *   - optionally a crash point  (fs_crash_at = index, fs_crash_after = 0 before / 1 after the call):
 *     fs_crash_hook() is called, default is _exit(0) without flushing stdio (what a killed
 *     process leaves behind).
 * Stream/descriptor calls (fclose, fprintf, fwrite, read, write, fstat, ...) are logged only for
 * streams/descriptors that were opened by a logged call, so stderr chatter is not in the log.
 *
 * Define FS_NO_CLOSE_WRITE when env/net.c (which wraps close/write itself) is linked too.
 */
#pragma once
#include <stddef.h>

#define FS_LOGMAX 192
#define FS_PATHMAX 1536

typedef struct fs_rec {
  const char *fn;               /* libc function name */
  char path[FS_PATHMAX];        /* first path argument ("" if none) */
  char path2[FS_PATHMAX];       /* second path argument (rename/link/symlink) */
  int has_path, has_path2;
  int path_trunc;               /* a path argument did not fit FS_PATHMAX */
  int flags;                    /* open flags / mkdir mode / access mode */
  char mode[8];                 /* fopen/fdopen/freopen mode */
  int wr;                       /* write-class call (creates/changes/removes something) */
  int fd;                       /* descriptor involved, -1 if unknown */
  void *stream;                 /* FILE* / DIR* involved */
  long ret;                     /* result (pointer results: 1 = non-NULL, 0 = NULL) */
  int err;                      /* errno after a failing call */
  long seq;                     /* fs_seq_hook() when the call was made */
  long nbytes;                  /* byte count for read/write-class stream calls */
  void *site;                   /* return address of the call */
  int injected;                 /* 1 = failure injected here, 2 = crash point hit here, 3 = refused by fs_path_guard */
} fs_rec;

extern int fs_active;
extern fs_rec fs_log[FS_LOGMAX];
extern int fs_nlog;             /* number of calls logged (may exceed FS_LOGMAX: only the first are kept) */
extern int fs_fail_at, fs_fail_errno;
extern int fs_fail2_at, fs_fail2_errno;          /* a second, independent failure (e.g. EXDEV on rename, then EIO inside the fallback) */
extern int (*fs_fail_filter) (const char *fn);  /* when set: return 0 to let call `fn` through although its index is due to fail */
extern int (*fs_path_guard) (const char *path); /* when set: a call with a path argument for which it returns non-zero is logged
                                                   (injected = 3) but not executed; the caller sees EACCES.  Lets a check
                                                   judge an escaping path without the escape happening on the host */
extern int fs_crash_at, fs_crash_after;
extern void (*fs_crash_hook) (void);
extern long (*fs_seq_hook) (void);
extern int fs_mutated;          /* a write-class call succeeded since the last fs_reset() */

void fs_reset (void);           /* clear the log, the fault plan and the tracked streams */
int fs_is_write_open (const fs_rec *r);  /* fopen mode / open flags ask for writing */
const char *fs_describe (const fs_rec *r, char *buf, size_t len);

/* call-site coverage: distinct return addresses seen while active (shared between forks when
   fs_sites_share() was called before forking) */
void fs_sites_share (void);
int fs_sites (void **out, const char **fn, int max);

/* helpers for harnesses (never logged): recursive remove / copy, file slurp / spit */
int fs_rm_rf (const char *path);                 /* removes path and everything below */
int fs_rm_children (const char *dir, const char *const *keep);   /* empties dir except names in keep (NULL-terminated) */
int fs_copy_tree (const char *from, const char *to);
char *fs_slurp (const char *path, size_t *len);  /* malloc'ed, NUL-terminated; NULL if absent */
int fs_spit (const char *path, const void *data, size_t len);
