"""C14 — output reaches the client in order, exactly once, under any write pattern (DESIGN §3 C14)."""
import vlib
LEVEL = "model_checking"
NETWRAPS = ["socket", "bind", "listen", "setsockopt", "getsockname", "accept", "recv", "send", "close", "write",
            "isatty", "tcgetattr", "tcsetattr"]
SRC = ["h/h_c14.c", "env/net.c", "wrap/w_comm_scaled.c"]


def build(ck):
    kw = dict(wraps=vlib.STD_WRAPS + NETWRAPS, replace_stem=["comm.c"])
    ex = {}
    for name, flags in (("h_c14", []), ("h_c14s8", ["-DVW_MSG_SIZE=8"]), ("h_c14s16", ["-DVW_MSG_SIZE=16"])):
        ex[name] = ck.harness(name, SRC, cflags=flags, **kw)                        # ASan + UBSan
        ex[name + "p"] = ck.harness(name + "p", SRC, profile="plain", cflags=flags, **kw)   # 5x cheaper executions for the deep parts
    return ex


RULE = ("real add_message()/add_vmessage()/flush_message()/process_io()/get_user_command()/remove_interactive() on a scripted "
        "runtime; one execution = a fresh connection, a scenario, and an answer chosen at EVERY send(): all | each partial count "
        "1..len-1 (ring 8/16; {1, len/2, len-1} at 4096) | EWOULDBLOCK | EINTR | EPIPE, all answer vectors with <= B non-default "
        "answers. Scenario = ring start offset x N writes (length 0..2*size+1; LF at every position for lengths <= 6, else none/"
        "first/last/at size-1; at 4096: 12 boundary lengths x 5 LF positions, 6 start offsets) issued from LPC receive() or by "
        "add_vmessage() x what follows each write {next write at once | flush_messages() efun | end of cycle (per-cycle flush in "
        "get_user_command) | cycle with EVENT_WRITE} x {drain then hang-up | hang-up at once (flush in remove_interactive)}. "
        "Logical ring size 8 and 16 (wrap/w_comm_scaled.c, struct layout unchanged, rest of message_buf[] is a canary) and the real "
        "4096. Oracle: reference FIFO of the LF->CRLF expansion: every send() must offer exactly the next pending bytes; after every "
        "write and at every poll the ring content must equal the FIFO minus a dropped tail of the message just added; a tail may be "
        "dropped only if the ring could not take the next unit while the socket refused data (or the connection is dead), never "
        "between CR and LF; no send() after EPIPE; producer/consumer/length consistent; bytes pending at a poll => EVENT_WRITE "
        "requested; with an accepting socket everything drains")

ASSUME = ["connections are made on the ASCII port so that the driver itself writes nothing (the telnet port's own negotiation strings "
          "go through the same add_message/flush_message)",
          "send() never returns 0 for a non-empty buffer (a stream socket does not)",
          "'write interest on iff bytes pending' is checked in the direction that matters for delivery (pending => interest); interest "
          "without pending bytes (one spurious wake-up after each write) is counted, not failed",
          "the console user (write() to stdout, always accepts) is not covered",
          "scaled ring sizes are logical sizes inside comm.c only; every scaled part is paired with a part at 4096"]


def parts(ck):
    ex = build(ck)
    q = ck.tier == "quick"
    P = []
    def enum(exe, args, tag, batch=50, deadline=200):
        P.append(("enum", ex[exe], args, tag, batch, deadline))
    def explore(exe, args, tag, budget, deadline):
        P.append(("explore", ex[exe], args, tag, budget, deadline))
    if q:
        enum("h_c14s8", ["--nw=1", "--budget=2", "--pre=all"], "r8-1w-b2", 50, 100)
        enum("h_c14s8p", ["--nw=2", "--budget=1", "--pre=none"], "r8-2w-b1", 200, 150)
        enum("h_c14s16", ["--nw=1", "--budget=1", "--pre=two"], "r16-1w-b1", 50, 100)
        enum("h_c14", ["--nw=1", "--budget=1"], "r4096-1w-b1", 20, 100)
        explore("h_c14s8p", ["--nw=1"], "x-r8-1w", 1, 100)
    else:
        enum("h_c14s8", ["--nw=1", "--budget=2", "--pre=all"], "r8-1w-b2", 50, 300)
        enum("h_c14s8p", ["--nw=1", "--budget=3", "--pre=all"], "r8-1w-b3", 20, 600)
        enum("h_c14s8", ["--nw=2", "--budget=1", "--pre=none"], "r8-2w-b1-asan", 200, 500)
        enum("h_c14s8p", ["--nw=2", "--budget=2", "--pre=none", "--maxlen=9", "--lfeach=2", "--longlf=2"], "r8-2w-b2", 50, 600)
        enum("h_c14s8p", ["--nw=3", "--budget=0", "--pre=none", "--lfeach=2", "--longlf=2", "--kinds=1"], "r8-3w-b0", 2000, 400)
        enum("h_c14s8p", ["--nw=3", "--budget=1", "--pre=none", "--lfeach=0", "--longlf=2", "--maxlen=9", "--kinds=1"], "r8-3w-b1", 500, 700)
        enum("h_c14s16", ["--nw=1", "--budget=1", "--pre=all"], "r16-1w-b1-asan", 50, 300)
        enum("h_c14s16p", ["--nw=1", "--budget=2", "--pre=two"], "r16-1w-b2", 20, 600)
        enum("h_c14s16p", ["--nw=2", "--budget=1", "--pre=none", "--maxlen=18", "--lfeach=0", "--longlf=2"], "r16-2w-b1", 100, 600)
        enum("h_c14", ["--nw=1", "--budget=2"], "r4096-1w-b2", 10, 600)
        enum("h_c14p", ["--nw=2", "--budget=1", "--kinds=1"], "r4096-2w-b1", 50, 600)
        explore("h_c14s8p", ["--nw=1"], "x-r8-1w", 2, 400)
        explore("h_c14s8", ["--nw=1"], "x-r8-1w-asan", 1, 300)
    import os
    only = os.environ.get("VERIF_PARTS")      # development aid: run a subset of the parts (the delivered tiers run all of them)
    if only:
        P = [p for p in P if (p[2] if len(p) == 5 else p[3]) in only.split(",")]
    return P


def run(ck):
    for kind, exe, args, tag, a, deadline in parts(ck):
        if kind == "enum":
            ck.enum(exe, args, tag, batch=a, deadline_s=deadline, timeout_ms=5000)
        else:
            ck.explore(exe, args, tag, budget=a, deadline_s=deadline)
    tot = lambda name: sum(p.get("counters", {}).get(name, 0) for p in ck.parts)
    execs = tot("executions")
    cov = {
        "states": max(1, sum(p.get("states", 0) for p in ck.parts if p.get("mode") == "explore")),
        "transitions": max(1, tot("send_calls")),
        "traces_validated_against_impl": execs, "executions": execs,
        "scenarios": sum(p.get("evaluations", 0) for p in ck.parts),
        "send_deviations": tot("send_deviations"), "tails_dropped": tot("tails_dropped"),
        "executions_with_wrapped_pending_data": tot("executions_with_wrapped_pending_data"),
        "nontrivial_executions": tot("nontrivial"),
        "exhaustive": all(p.get("exhaustive") for p in ck.parts) if ck.parts else False,
        "budget_completed": {p["part"]: p.get("budget_completed", p.get("args")) for p in ck.parts},
        "rule": RULE,
        "explanation": "every execution runs the real code in lock-step with the reference FIFO; transitions = send() calls answered by "
                       "the environment; 'states' counts only the vx --explore parts (the --enum parts enumerate answer vectors in-process)",
    }
    ck.finish(cov, assumptions=ASSUME)


def selftest(ck):
    """break the environment (not the repo): the oracle must fire"""
    ex = build(ck)
    bad = 0
    cases = [(1, "the scripted socket reports one byte less than it took (a byte would be sent twice)", "sent-bytes-are-not-the-next-pending-bytes"),
             (2, "a pending byte in the ring flips after a write", "ring-content-differs-from-pending-bytes")]
    for st, what, expect in cases:
        ck2 = vlib.Check("C14", "quick", 0, LEVEL)
        ck2.enum(ex["h_c14s8"], ["--nw=1", "--budget=1", "--pre=none", "--selftest=%d" % st], "selftest%d" % st, batch=100)
        hit = [k for k in ck2.fails if expect in k]
        if not hit:
            print("SELFTEST-FAILED C14 variant %d (%s) raised %s" % (st, what, sorted(ck2.fails)[:4])); bad = 1
        else:
            print("selftest %d ok (%s): %s" % (st, what, hit[:2]))
    return bad
