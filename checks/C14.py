"""C14 — output reaches the client in order, exactly once, under any write pattern (DESIGN §3 C14)."""
import vlib
LEVEL = "model_checking"
NETWRAPS = ["socket", "bind", "listen", "setsockopt", "getsockname", "accept", "recv", "send", "close", "write",
            "isatty", "tcgetattr", "tcsetattr"]
SRC = ["h/h_c14.c", "env/net.c", "wrap/w_comm_scaled.c"]


def build(ck):
    kw = dict(wraps=vlib.STD_WRAPS + NETWRAPS, replace_stem=["comm.c"])
    return {"h_c14": ck.harness("h_c14", SRC, **kw),
            "h_c14s8": ck.harness("h_c14s8", SRC, cflags=["-DVW_MSG_SIZE=8"], **kw),
            "h_c14s16": ck.harness("h_c14s16", SRC, cflags=["-DVW_MSG_SIZE=16"], **kw)}
