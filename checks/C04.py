"""C04 — every evaluation is bounded by the configured limits (DESIGN §3 C04)."""
import os
import vlib
LEVEL = "exploration"
SRC = ["h/h_c04.c", "h/h_vmerr.c", "wrap/w_vmerr_simulate.c", "wrap/w_vmerr_errctx.c"]
STEM = ["simulate.c", "error_context.c"]
JOBS = int(os.environ.get("VERIF_JOBS", "16"))

def build(ck):
    return {"h_c04": ck.harness("h_c04", SRC, profile="asan", replace_stem=STEM)}

def run(ck):
    ck.finish({})
