"""C04 — every evaluation is bounded by the configured limits (DESIGN §3 C04).

E2 + hook H1.  One harness boot per limit configuration (the limits are read when the driver starts); every program of
the corpus is run once per configuration under a monitor that looks at every instruction boundary."""
import itertools, os
import vlib
LEVEL = "exploration"
SRC = ["h/h_c04.c", "h/h_vmerr.c", "wrap/w_vmerr_simulate.c", "wrap/w_vmerr_errctx.c"]
STEM = ["simulate.c", "error_context.c"]
JOBS = int(os.environ.get("VERIF_JOBS", "16"))

# MaxEvaluationCost, MaxCallDepth, StackSize, MaxArraySize=MaxMappingSize, MaxStringLength, MaxBufferSize
GRID = [(400, 60), (12, 6), (80, 40), (64, 8), (200, 32), (64, 16)]


def configs(tier):
    base = tuple(g[0] for g in GRID)
    if tier == "quick":
        out = [base]
        for i in range(len(GRID)):
            c = list(base); c[i] = GRID[i][1]; out.append(tuple(c))
        return out
    return [tuple(c) for c in itertools.product(*GRID)]


def build(ck):
    return {"h_c04": ck.harness("h_c04", SRC, profile="asan", replace_stem=STEM)}


RULE = ("configurations = MaxEvaluationCost {60,400} x MaxCallDepth {6,12} x StackSize {40,80} x MaxArraySize=MaxMappingSize {8,64} x "
        "MaxStringLength {32,200} x MaxBufferSize {16,64} (quick: the base configuration and the 6 one-factor changes; thorough: all 64), "
        "each a separate boot; programs (288 per configuration): 8 loop forms (while(1), for(;;), do-while, while(i--), for with constant / "
        "local bound, nested foreach over array / mapping) x 7 bodies (empty, call, catch(expr), catch{block}, efun with callback, "
        "catch of an endless loop, call_other); catch nestings 1..3 around an endless loop, a loop after a caught one, while(1) around "
        "catch(catch(loop)); endless recursion: direct, mutual, 3-cycle, through local/functional/anonymous/efun/bound function pointers, "
        "call_other, simul_efun, filter (funptr, by name, mapping), map (array, mapping, string), sort_array, unique_array, unique_mapping, "
        "implode with function, catch nestings 1..3, catch inside a loop, create() of a clone, wide frames, 12 arguments, varargs spread; "
        "wide expressions (aggregates and calls with 30/60/120 locals, globals, strings, numbers); 78 value builders (17 of them self-append / self-add with the variable as the only holder: local, global, array element, mapping value) (+, +=, int/float "
        "conversion, repeat_string, replace_string, sprintf padding, implode, range assignment, read_bytes/read_file/read_buffer, "
        "save/restore_variable, allocate*, explode, map/filter/sort/unique, keys/values, call_other on an array, all_inventory, children, "
        "mapping insert by index, m+m, m+=m, m*m, buffer +, literal aggregates of 70) each in a 9-step doubling or +1 loop that crosses "
        "the limit, once plain and once with every step inside a catch; refused mapping insert / array append repeated 1,2,3,4,8,16,32 "
        "times inside catch followed by a full consistency check of the container.  Monitor (hook H1) at EVERY instruction boundary: "
        "instructions <= 3 x MaxEvaluationCost, control frames <= MaxCallDepth, sp inside the configured StackSize, size of the value on top of the stack; "
        "at the end every value reachable from the object's variables and the return value; a limit error raised (recorded inside "
        "error_handler()) while code after the outermost catch still runs = catch swallowed it; abort at 20 x the bound = runaway")

ASSUME = ["the program under test is compiled and create()d with a large budget; the monitored evaluation is run() entered through a driver-style apply",
          "value builders and refused-then-used programs run with MaxEvaluationCost 200000 (they are about the size limits)",
          "sizes are checked for the value on top of the stack at every instruction boundary and for everything reachable at the end of "
          "the evaluation, not for values buried deeper in the stack in between",
          "class instances have no configured size limit",
          "on the stack only values of the running function's own frame are judged: scratch buffers an efun parks below its callback's frame "
          "(filter()'s flag string) are not LPC values",
          "the text of a driver error message (the value catch yields) is not judged against MaxStringLength: it is not built by an operator or efun"]


def fix_replays(ck):
    for key, info in ck.fails.items():
        lines = (info["record"].get("desc") or "").split("\n")
        if len(lines) >= 2 and lines[0].startswith("prog=") and lines[1].startswith("conf="):
            info["args"] = ["--" + lines[1], "--" + lines[0]]
            info["fail"]["index"] = 0


def run(ck):
    exe = build(ck)["h_c04"]
    cs = configs(ck.tier)
    per = 20 if ck.tier == "quick" else 30
    for c in cs:
        tag = "c" + "-".join(str(x) for x in c)
        ck.enum(exe, ["--conf=" + ",".join(str(x) for x in c)], tag, batch=8, deadline_s=per, jobs=JOBS, timeout_ms=60000)
    fix_replays(ck)
    cov = vlib.enum_coverage(ck.parts, RULE, "evaluations_run",
                             extra={"configurations": len(cs),
                                    "limit_error_raised": sum(p.get("counters", {}).get("limit_error_raised", 0) for p in ck.parts),
                                    "any_error_raised": sum(p.get("counters", {}).get("any_error_raised", 0) for p in ck.parts)})
    ck.finish(cov, assumptions=ASSUME)


def selftest(ck):
    """break the observation (not the repo): the instruction bound and the swallowed-limit-error oracle must fire"""
    exe = build(ck)["h_c04"]
    bad = 0
    for st, sub in ((1, "C04:instructions-exceed-3x-MaxEvaluationCost"), (2, "C04:catch-swallowed-limit-error")):
        ck2 = vlib.Check("C04", "quick", 0, LEVEL)
        ck2.enum(exe, ["--conf=400,12,80,64,200,64", "--selftest=%d" % st, "--prog=build:array:v+=v:each-step-in-catch"], "selftest%d" % st, batch=8, jobs=JOBS)
        hit = [k for k in ck2.fails if sub in k]
        if ck2.broken or not hit:
            print("SELFTEST-FAILED C04 variant %d: no key containing %r (%s)" % (st, sub, ck2.broken or sorted(ck2.fails)[:5])); bad = 1
        else:
            print("selftest %d ok: %s" % (st, hit[:2]))
    return bad
