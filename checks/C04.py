"""C04 — every evaluation is bounded by the configured limits (DESIGN §3 C04).

E2 + hook H1.  One harness boot per limit configuration (the limits are read when the driver starts); every program of
the corpus is run once per configuration under a monitor that looks at every instruction boundary."""
import itertools, os
import vlib
LEVEL = "exploration"
SRC = ["h/h_c04.c", "h/h_vmerr.c", "wrap/w_vmerr_simulate.c", "wrap/w_vmerr_errctx.c"]
STEM = ["simulate.c", "error_context.c"]
JOBS = int(os.environ.get("VERIF_JOBS", "16"))

# MaxEvaluationCost, MaxCallDepth, StackSize, MaxArraySize, MaxStringLength, MaxBufferSize, MaxMappingSize
GRID = [(400, 60), (12, 6), (80, 40), (64, 8), (200, 32), (64, 16), (64, 8)]
# behaviour of the master's error_handler(): plain log | evaluates a catch that catches nothing | catch(error()) + a successful catch |
# sprintf("%O") (the driver safe_apply()s object_name())
MASTERS = ["catchok", "catch", "objname"]


def configs(tier):
    """list of (limits tuple, master mode)"""
    base = tuple(g[0] for g in GRID)
    out = []
    if tier == "quick":
        out.append((base, "plain"))
        for i in range(len(GRID)):
            c = list(base); c[i] = GRID[i][1]
            if i == 3: c[6] = min(c[6], c[3])        # a mapping limit above the array limit adds nothing
            out.append((tuple(c), "plain"))
        for m in MASTERS:
            out.append((base, m))
        c = list(base); c[1] = GRID[1][1]; c[2] = GRID[2][1]
        out.append((tuple(c), "catchok"))
        return out
    for c in itertools.product(*GRID):
        if c[6] > c[3]: continue
        out.append((tuple(c), "plain"))
    for m in MASTERS:
        for e in GRID[0]:
            for d in GRID[1]:
                for k in GRID[2]:
                    out.append(((e, d, k) + base[3:], m))
    return out


def build(ck):
    return {"h_c04": ck.harness("h_c04", SRC, profile="asan", replace_stem=STEM)}


RULE = ("configurations = MaxEvaluationCost {60,400} x MaxCallDepth {6,12} x StackSize {40,80} x MaxArraySize {8,64} x MaxStringLength {32,200} x "
        "MaxBufferSize {16,64} x MaxMappingSize {8,64} (<= MaxArraySize) with a plainly logging master, plus master error_handler() behaviours "
        "{evaluates a catch that catches nothing, catch(error()) and a successful catch, sprintf(\"%O\") = safe_apply of object_name()} x "
        "MaxEvaluationCost x MaxCallDepth x StackSize (quick: base, the 7 one-factor changes, the 3 master behaviours on the base and one on "
        "the small stacks = 12 boots; thorough: 96 + 24 = 120 boots), "
        "each a separate boot; programs (about 2760 per configuration): 8 loop forms (while(1), for(;;), do-while, while(i--), for with constant / "
        "local bound, nested foreach over array / mapping) x 18 bodies (empty, call, catch(expr), catch{block}, efun with callback, "
        "catch of an endless loop, call_other, and a REAL run-time error caught in every iteration: division by zero, error(), index out of "
        "bounds, call_other on 0, error in a callee, bad operand in a catch block, sprintf error, throw, catch(catch(1/0)), error inside an "
        "efun callback, load of a missing file); catch nestings 1..3 around an endless loop, a loop after a caught one, while(1) around "
        "catch(catch(loop)); endless recursion: direct, mutual, 3-cycle, through local/functional/anonymous/efun/bound function pointers, "
        "call_other, simul_efun, filter (funptr, by name, mapping), map (array, mapping, string), sort_array, unique_array, unique_mapping, "
        "implode with function, catch nestings 1..3, catch inside a loop, create() of a clone, wide frames, 12 arguments, varargs spread; "
        "wide expressions (aggregates and calls with 30/60/120 locals, globals, strings, numbers); 78 value builders (17 of them self-append / self-add with the variable as the only holder: local, global, array element, mapping value) (+, +=, int/float "
        "conversion, repeat_string, replace_string, sprintf padding, implode, range assignment, read_bytes/read_file/read_buffer, "
        "save/restore_variable, allocate*, explode, map/filter/sort/unique, keys/values, call_other on an array, all_inventory, children, "
        "mapping insert by index, m+m, m+=m, m*m, buffer +, literal aggregates of 70) each in a 9-step doubling or +1 loop that crosses "
        "the limit, once plain and once with every step inside a catch; refused mapping insert / array append repeated 1,2,3,4,8,16,32 "
        "times inside catch followed by a full consistency check of the container; further builders: int/float += string (local, global, array "
        "element), read_buffer() of a buffer, set_bit, strwrap, restore_variable() of a generated array / mapping text, unique_mapping() "
        "and unique_array() of an array with 2n distinct elements, map/filter/copy of a mapping; argument lists merged by the driver "
        "(call_other(ob, ({fn, args...})) on an object and on an array, local and efun funptrs with 15..120 bound args); family "
        "'stack-edge': the value stack is filled by the arguments of one call to every distance -12..+16 slots around StackSize and then "
        "one of 10 sites pushes/reserves 10 values at once (callee with 10 locals, F_PUSH, spread, call_other array args, bound funptr "
        "args, efun callback extra args, call_other on an array, aggregate, catch of the first two); family 'pair' (binary operations for every size relation of the operands): container {mapping, array, string, buffer} x "
        "operation {a+b, a+=b, temporary+b, a+temporary; mapping/array also global+=b, element+=b; array a|b, a&b, a-b; mapping a*b; string "
        "sprintf(\"%s%s\"), implode} x |a| in {1, L/6, L/2-1, half of the result, L/2+1, L-1, L} x result size {L, L+1, L+9} (|b| follows, so "
        "|a|<|b|, |a|=|b| and |a|>|b| all occur) x {disjoint, half-overlapping contents where equal keys / elements merge} x {plain, inside "
        "catch}, L = the limit of that container kind; string (+) number: {a+n, a+=n, n+a, global+=n} x n in {1-digit, 7-digit, 20-character int, short float, "
        "float with 300 digits} x strlen(a) = L-k for k in {0,1,2,3,5,8,12,19,20,21,25} x {plain, inside catch}; family 'master-burn': a master apply "
        "made by an efun {object_name via sprintf(\"%O\"), valid_read, valid_write, valid_seteuid, creator_file, valid_object, valid_bind} spends the whole "
        "budget x {in a loop, in a loop of catch, once then an endless loop, once inside catch then an endless loop} x the calling code runs in {the "
        "function the driver calls itself = first control frame, one call deeper, below run()'s catch}; catch-recursion started 0/1/2 frames "
        "deeper (parity of the depth limit), wide frames / spread recursion inside catch, catch(f(allocate(N)...)).  Monitor (hook H1) at EVERY instruction boundary: "
        "instructions <= 3 x MaxEvaluationCost, control frames <= MaxCallDepth, sp inside the configured StackSize, size of the value on top of the stack; "
        "at the end every value reachable from the object's variables and the return value; a limit error raised (recorded inside "
        "error_handler()) while code after the outermost catch still runs = catch swallowed it; abort at 20 x the bound = runaway")

ASSUME = ["the value-builder programs (sizes of strings, arrays, mappings, buffers; about 2000 of the 2760) run with a fixed budget of 200000 and "
          "do not recurse: they are run for every combination of the four size limits but only with the base MaxEvaluationCost / MaxCallDepth / "
          "StackSize and the plainly logging master; all other programs run in every configuration",
          "the program under test is compiled and create()d with a large budget; the monitored evaluation is run() entered through a driver-style apply",
          "value builders and refused-then-used programs run with MaxEvaluationCost 200000 (they are about the size limits)",
          "sizes are checked for the value on top of the stack at every instruction boundary and for everything reachable at the end of "
          "the evaluation, not for values buried deeper in the stack in between",
          "class instances have no configured size limit",
          "the instruction bound counts the program's instructions; what the master's error_handler() executes while an error is reported "
          "is paid from the budgets the driver re-arms for it (the 20x runaway stop counts everything)",
          "a limit error raised while the innermost error context is one of the driver's own safe_apply() calls (the master's object_name() "
          "under sprintf(\"%O\") in the master's error_handler()) is contained by that call by design and does not count as swallowed by catch",
          "on the stack only values of the running function's own frame are judged: scratch buffers an efun parks below its callback's frame "
          "(filter()'s flag string) are not LPC values",
          "the text of a driver error message (the value catch yields) is not judged against MaxStringLength: it is not built by an operator or efun"]


def fix_replays(ck):
    for key, info in ck.fails.items():
        lines = (info["record"].get("desc") or "").split("\n")
        if len(lines) >= 3 and lines[0].startswith("prog=") and lines[1].startswith("conf=") and lines[2].startswith("master="):
            info["args"] = ["--" + lines[1], "--" + lines[2], "--" + lines[0]]
            info["fail"]["index"] = 0


def run(ck):
    exe = build(ck)["h_c04"]
    cs = configs(ck.tier)
    per = 30 if ck.tier == "quick" else 40
    base = tuple(g[0] for g in GRID)
    for c, m in cs:
        tag = "c" + "-".join(str(x) for x in c) + ("" if m == "plain" else "-master-" + m)
        args = ["--conf=" + ",".join(str(x) for x in c), "--master=" + m]
        # the value builders (kind V: sizes of strings / arrays / mappings / buffers, run with their own fixed budget) are run once per
        # combination of the four size limits: with the base evaluation limits and the plainly logging master
        if not (m == "plain" and c[:3] == base[:3]):
            args.append("--progkinds=LR")
        ck.enum(exe, args, tag, batch=16, deadline_s=per, jobs=JOBS, timeout_ms=60000)
    fix_replays(ck)
    cov = vlib.enum_coverage(ck.parts, RULE, "evaluations_run",
                             extra={"configurations": len(cs),
                                    "limit_error_raised": sum(p.get("counters", {}).get("limit_error_raised", 0) for p in ck.parts),
                                    "any_error_raised": sum(p.get("counters", {}).get("any_error_raised", 0) for p in ck.parts)})
    ck.finish(cov, assumptions=ASSUME)


def selftest(ck):
    """break the observation (not the repo): the instruction bound and the swallowed-limit-error oracle must fire"""
    exe = build(ck)["h_c04"]
    bad = 0
    for st, sub in ((1, "C04:instructions-exceed-3x-MaxEvaluationCost"), (2, "C04:catch-swallowed-limit-error")):
        ck2 = vlib.Check("C04", "quick", 0, LEVEL)
        ck2.enum(exe, ["--conf=400,12,80,64,200,64", "--selftest=%d" % st, "--prog=build:array:v+=v:each-step-in-catch"], "selftest%d" % st, batch=8, jobs=JOBS)
        hit = [k for k in ck2.fails if sub in k]
        if ck2.broken or not hit:
            print("SELFTEST-FAILED C04 variant %d: no key containing %r (%s)" % (st, sub, ck2.broken or sorted(ck2.fails)[:5])); bad = 1
        else:
            print("selftest %d ok: %s" % (st, hit[:2]))
    return bad
