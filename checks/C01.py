"""C01 — running any LPC program is memory-safe; the worst outcome is an LPC error (DESIGN §3 C01)."""
import json, os, subprocess, sys
import vlib
import build as B
LEVEL = "exploration"
SRC = ["h/h_c01.c", "wrap/w_c01_errctx.c"]
FMT_WRAPS = ["vsnprintf", "vsprintf", "vfprintf", "vprintf", "vasprintf", "vdprintf", "vsyslog", "strftime",
             "snprintf", "sprintf", "fprintf", "printf", "asprintf", "dprintf", "sscanf", "__isoc99_sscanf",
             "fscanf", "__isoc99_fscanf", "syslog"]


def gen_dir():
    return os.path.join(B.BUILD, "gen", "c01")


def build(ck):
    exe = ck.harness("h_c01", SRC, replace_stem=["error_context.c"], wraps=vlib.STD_WRAPS + FMT_WRAPS)
    defs = os.path.join(B.repo_dir("asan"), "lib", "efuns", "efuns_definition.h")
    with B.Lock("gen-c01"):
        r = subprocess.run([sys.executable, os.path.join(vlib.VERIF, "gen", "c01_gen.py"), defs,
                            os.path.join(vlib.VERIF, "mudlib", "base"), gen_dir()],
                           stdout=subprocess.PIPE, stderr=subprocess.STDOUT, text=True)
        if r.returncode:
            sys.stderr.write(r.stdout)
            raise SystemExit("c01_gen failed")
    return {"h_c01": exe}
