"""C01 — running any LPC program is memory-safe; the worst outcome is an LPC error (DESIGN §3 C01).

E2 enumeration with h_c01: element = (form, argument tuple); forms = 240-odd operator forms + one wrapper per
efun x argument count generated from the efuns_definition.h of the build under test; tuples = full Cartesian power
of a value alphabet per kind x arity.  Every element runs in its own forked copy of the initialised driver."""
import json, os, subprocess, sys
import vlib
import build as B
LEVEL = "exploration"
SRC = ["h/h_c01.c", "wrap/w_c01_errctx.c"]
FMT_WRAPS = ["vsnprintf", "vsprintf", "vfprintf", "vprintf", "vasprintf", "vdprintf", "vsyslog", "strftime",
             "snprintf", "sprintf", "fprintf", "printf", "asprintf", "dprintf", "sscanf", "__isoc99_sscanf",
             "fscanf", "__isoc99_fscanf", "syslog"]
V_TEXT = ("V (37 values) = {0, 1, -1, 2^31-1, 2^31, -2^31, 2^32, 2^32+1, 2^63-1, -2^63, 0.0, -1.5, 1e308, \"\", \"a\", "
          "shared \"abc\", malloc'd \"abc\", \"ZQ%nZQ%sZQ%x\", a 65600-byte string, ({}), ({1,\"a\"}), self-containing array, "
          "array with two holders, ([]), ([\"a\":1]), 0-byte buffer, 4-byte buffer, class instance, efun/local/functional "
          "function pointer, this_object(), an object destructed after the arguments were pushed, undefined, ({destructed object}), a second live object (fresh clone), the multi-line string \"ab cd\\nef gh\\nij\"}; "
          "nolong = V minus the 65600-byte string; l4 = {0,\"a\",65600-byte string,({1,\"a\"})}; "
          "s17 = s16 + the multi-line string; s16 = {0,second live object,-1,2^31,2^63-1,-2^63,-1.5,\"a\",taint,65600-byte,({1,\"a\"}),([\"a\":1]),4-byte buffer,class,local funptr,this_object()}; "
          "s12 = {0,1,-1,2^31,2^63-1,-2^63,\"a\",taint,65600-byte,({1,\"a\"}),([\"a\":1]),this_object()}; s8 = {0,-1,2^63-1,\"a\",taint,({1,\"a\"}),([\"a\":1]),this_object()}; "
          "s6 = {0,-1,2^63-1,malloc'd \"abc\",({1,\"a\"}),4-byte buffer}; s6o = s6 with this_object() instead of the buffer")

# alphabets per kind (op/ef) and arity 0..4
TIERS = {
    "quick": [
        # arity 2 = (V minus the 65600-byte string)^2  U  {0,"a",65600-byte string,({1,"a"})}^2 : printing that string in a
        # "Bad argument" message costs 0.2-0.5 s of CPU under ASan (the driver grows its outbuf one byte at a time)
        ("main", dict(op0="full", op1="full", op2="nolong", op3="s12", op4="s6",
                      ck0="full", ck1="full", ck2="s17", ck3="s12", ck4="s6", sp2="s17", sp3="s12", nc2="s12",
                      ef0="full", ef1="full", ef2="nolong", ef3="s8", ef4="s6o")),
        ("long2", dict(op0="none", op1="none", op2="l4", op3="none", op4="none",
                       ck0="none", ck1="none", ck2="none", ck3="none", ck4="none", sp2="none", sp3="none", nc2="none",
                       ef0="none", ef1="none", ef2="l4", ef3="none", ef4="none")),
        # small-MaxStringLength configuration (300) with a string 20 bytes short of the limit in the alphabet
        # n9 = {0,1,-1,2^63-1,"a","abc",taint,<MaxStringLength-20 bytes>,({1,"a"})}, n6 = {0,1,2^63-1,"abc",taint,<near>}:
        # results that grow past the limit (replace_string, +, sprintf, implode, repeat_string, ...)
        ("nearmax", dict(op0="none", op1="n9", op2="n9", op3="none", op4="n6", ck0="none", ck1="none", ck2="none", ck3="none", ck4="none", sp2="none", sp3="none", nc2="none",
                         ef0="none", ef1="n9", ef2="n9", ef3="n9", ef4="n6", **{"max-string": "300"})),
    ],
    "thorough": [
        ("main", dict(op0="full", op1="full", op2="full", op3="full", op4="s8",
                      ck0="full", ck1="full", ck2="nolong", ck3="s16", ck4="s8", sp2="full", sp3="s16", nc2="s17",
                      ef0="full", ef1="full", ef2="full", ef3="s12", ef4="s8")),
        # the same calls with ArgumentsInTrace / LocalVariablesInTrace switched on: every LPC error then renders the
        # arguments and locals of every frame into the trace
        ("trace", dict(op0="full", op1="full", op2="s16", op3="none", op4="none",
                       ck0="none", ck1="full", ck2="s12", ck3="none", ck4="none", sp2="s12", sp3="none", nc2="s12",
                       ef0="full", ef1="full", ef2="s12", ef3="none", ef4="none", **{"trace-args": "1"})),
        ("nearmax", dict(op0="none", op1="n9", op2="n9", op3="n9", op4="n6", ck0="none", ck1="none", ck2="none", ck3="none", ck4="none", sp2="none", sp3="none", nc2="none",
                         ef0="none", ef1="n9", ef2="n9", ef3="n9", ef4="n6", **{"max-string": "300"})),
        ("nearmax64", dict(op0="none", op1="n9", op2="n9", op3="n9", op4="n6", ck0="none", ck1="none", ck2="none", ck3="none", ck4="none", sp2="none", sp3="none", nc2="none",
                           ef0="none", ef1="n9", ef2="n9", ef3="n9", ef4="n6", **{"max-string": "64"})),
    ],
}
DEADLINE = {"quick": 185, "thorough": 2100}


def gen_dir():
    return os.path.join(B.BUILD, "gen", "c01")


def build(ck):
    exe = ck.harness("h_c01", SRC, replace_stem=["error_context.c"], wraps=vlib.STD_WRAPS + FMT_WRAPS)
    defs = os.path.join(B.repo_dir("asan"), "lib", "efuns", "efuns_definition.h")
    with B.Lock("gen-c01"):
        r = subprocess.run([sys.executable, os.path.join(vlib.VERIF, "gen", "c01_gen.py"), defs,
                            os.path.join(vlib.VERIF, "mudlib", "base"), gen_dir()],
                           stdout=subprocess.PIPE, stderr=subprocess.STDOUT, text=True)
        if r.returncode:
            sys.stderr.write(r.stdout)
            raise SystemExit("c01_gen failed")
    return {"h_c01": exe}


def part_args(alpha, tag, extra=()):
    a = ["--mudlib=" + gen_dir(), "--stats=" + os.path.join(vlib.OUT, "C01-%s-stats.json" % tag)]
    a += ["--%s=%s" % kv for kv in sorted(alpha.items())]
    return a + list(extra)


def run(ck):
    exe = build(ck)["h_c01"]
    jobs = int(os.environ.get("VERIF_JOBS", "16"))
    stats = {}
    budget = int(os.environ.get("VERIF_C01_DEADLINE", DEADLINE[ck.tier]))    # override for heavily loaded machines
    for tag, alpha in TIERS[ck.tier]:
        left = max(30, int(budget - (vlib.time.time() - ck.t0)))
        ck.enum(exe, part_args(alpha, tag), tag, batch=120, deadline_s=left, timeout_ms=120000, jobs=jobs)
        sp = os.path.join(vlib.OUT, "C01-%s-stats.json" % tag)
        if os.path.exists(sp):
            for f in json.load(open(sp))["forms"]:
                s = stats.setdefault(f["name"], dict(f, elements=0, calls=0, values=0, badarg=0, othererr=0, nonreturn=0, alphabets=[]))
                for k in ("elements", "calls", "values", "badarg", "othererr", "nonreturn"):
                    s[k] += f[k]
                if f["elements"]:
                    s["alphabets"].append(f["alphabet"])
    # per-efun non-trivial = calls that got past the run-time type check into the efun body
    efuns = {}
    for f in stats.values():
        if f["kind"] != "efun":
            continue
        e = efuns.setdefault(f["efun"], dict(calls=0, nontrivial=0, arities=[]))
        e["calls"] += f["calls"] + f["nonreturn"]
        e["nontrivial"] += f["values"] + f["othererr"] + f["nonreturn"]
        e["arities"].append(f["arity"])
    excluded = [l.rstrip("\n").split("\t") for l in open(os.path.join(gen_dir(), "excluded.txt"))]
    all_efuns = [l.split("\t")[0] for l in open(os.path.join(gen_dir(), "efuns.txt"))]
    uncompiled = sorted("%s: %s" % (f["name"], f["cerr"]) for f in stats.values() if not f["compiled"])
    ops = [f for f in stats.values() if f["kind"] in ("op", "ck", "sp", "nc")]
    rule = ("every element of  U_forms  A(kind,arity)^arity : forms = %d operator forms (binary/unary/assignment operators on local, global, "
            "indexed, reverse-indexed, class-member, char targets; index/rindex; 6 range + 6 range-lvalue forms; foreach; loops; casts; "
            "function pointers; calls; aggregates/varargs expansion; catch; switch; sscanf; parse_command) + %d efun wrappers (every efun of "
            "the generated efuns_definition.h x every argument count min..min(max,3), varargs and 4-argument efuns up to 4); alphabets %s; %s"
            % (len(ops), len(stats) - len(ops), json.dumps(dict(TIERS[ck.tier])), V_TEXT))
    extra = {
        "forms": len(stats), "operator_forms": len(ops), "efun_forms": len(stats) - len(ops),
        "efuns_in_build": len(all_efuns), "efuns_called": len(efuns),
        "efuns_excluded": ["%s (%s)" % tuple(x) for x in excluded],
        "efuns_with_zero_nontrivial_calls": sorted(e for e, v in efuns.items() if v["nontrivial"] == 0),
        "forms_not_compilable": uncompiled,
        "operator_forms_with_zero_nontrivial_calls": sorted(f["name"] for f in ops if f["values"] + f["othererr"] + f["nonreturn"] == 0),
        "per_efun_nontrivial": {e: v["nontrivial"] for e, v in sorted(efuns.items())},
        "counters": {k: sum(p.get("counters", {}).get(k, 0) for p in ck.parts) for k in
                     ("calls", "returned_value", "lpc_error", "bad_argument_error", "eval_cost_error", "mudlib_root_restored",
                      "instructions", "late_destruct_calls")},
        "explanation": "distinct_nontrivial counts calls that returned a value or raised an error other than the run-time type check's 'Bad argument' "
                       "(i.e. reached the opcode/efun body); calls that killed the process are counted as non-trivial too",
    }
    ck.finish(vlib.enum_coverage(ck.parts, rule, "nontrivial", extra),
              assumptions=[
                  "each call runs in a fork()ed copy of the initialised driver with its own scratch mudlib root (copy of fx/: a.c abc.c a.o abc master.c ...); nothing under /verif/mudlib is written",
                  "master: valid_read/valid_write/valid_seteuid allow, valid_socket refuses; no interactive user exists; MaxEvaluationCost 200000; ArgumentsInTrace/LocalVariablesInTrace off except in the thorough part 'trace'",
                  "efuns not called: " + ", ".join(x[0] for x in excluded),
                  "signed-overflow / shift UBSan checks are off (the property does not list them); SIGFPE from integer division is reported because it terminates the driver",
                  "a single allocation above 1 GiB is refused by the sanitizer allocator (max_allocation_size_mb=1024): the driver then exits through xalloc()/fatal(), which is reported as driver-exit:...:xalloc (a one-line LPC that makes the driver request > 1 GiB); quarantine is 16 MiB per process",
                  "the destructed-object value is a live object that the H1 hook destructs after the arguments were pushed (simple forms) or that is destructed before the call (other forms)",
              ])


def selftest(ck):
    """break the harness model / the environment (never the repo): every oracle channel must fire"""
    exe = build(ck)["h_c01"]
    want = {1: "asan:heap-buffer-overflow:READ", 2: "vm-imbalance:sp:", 3: "format-taint:snprintf:", 4: "pc-outside-program:", 5: "driver-exit:exit(3)", 6: "after-call-probe:wrong-result:"}
    bad = 0
    alpha = dict(op0="none", op1="none", op2="s6", op3="none", op4="none", ck0="none", ck1="none", ck2="none", ck3="none", ck4="none", sp2="none", sp3="none", nc2="none", ef0="none", ef1="none", ef2="none", ef3="none", ef4="none")
    for st, key in want.items():
        ck2 = vlib.Check("C01", "quick", 0, LEVEL)
        tag = "selftest%d" % st
        ck2.enum(exe, part_args(alpha, tag, ["--only=bin_eq", "--selftest=%d" % st]), tag, batch=50, jobs=4)
        hit = [k for k in ck2.fails if k.startswith(key)]
        if ck2.broken or not hit:
            print("SELFTEST-FAILED C01 variant %d: expected a key starting with %s, got %s %s" % (st, key, sorted(ck2.fails)[:5], ck2.broken or ""))
            bad = 1
        else:
            print("selftest %d ok: %s" % (st, hit[0]))
    return bad
