"""C03 — compiled bytecode computes exactly what LPC semantics define (DESIGN §3 C03).

E2 enumeration: gen/lpcgen.py writes every program of the typed expression/statement grammar (all
sibling spellings of every computation) into unit files; h/h_c03.c compiles and calls every function on
the real compiler + interpreter; this module computes both verdicts from the per-function output:
  (i)  sibling agreement   C03:sibling:<family>:<construct>:<types>:<spelling>-vs-<base spelling>
  (ii) reference evaluator C03:ref:<family>:<construct>:<types>:<spelling>      (gen/lpcref.py)
A replay artefact carries the source of the functions involved; `./check C03 --replay f` re-runs only them.
"""
import binascii, json, os, re, shutil, subprocess, sys, tempfile, time

HERE = os.path.dirname(os.path.abspath(__file__))
VERIF = os.path.dirname(HERE)
sys.path.insert(0, os.path.join(VERIF, "tools"))
sys.path.insert(0, os.path.join(VERIF, "gen"))
import vlib
import build as B

LEVEL = "exploration"
PROFILE = os.environ.get("C03_PROFILE", "plain")
RULE = ("every program of the typed LPC grammar of gen/lpcgen.py (families: literal encodings, unary, binary operators over "
        "int/float/string/array/mapping/buffer pairs incl. mismatches, all assignment operators on local/global/index/mapping "
        "lvalues, ++/-- incl. char lvalues, depth-2 expressions, indexing and ranging (rvalue and lvalue, all '<' forms), "
        "conditions, if/switch (direct, sorted, range, string tables; every table size 1..20 [thorough: ..40] x every probe position), "
        "for/while/do/foreach loop shapes incl. F_LOOP_COND_*/F_WHILE_DEC, local/inherited/function-pointer calls, macros and #if, "
        "class members, catch, sscanf lvalues; thorough adds depth-3 expressions (5 tree shapes, 3-value alphabets)) over the boundary "
        "leaf alphabets, each computation in all "
        "its sibling spellings; every function is compiled and called on the real compiler/interpreter; verdict (i) sibling "
        "agreement, (ii) independent reference evaluator (silent where the manual is)")


# ------------------------------------------------------------------ outcome classification
def classify_error(msg):
    m = msg.lower()
    if "division by" in m or "divide by zero" in m or "modulus by zero" in m or "modulo by" in m:
        return "div0"
    if "too long evaluation" in m:
        return "evalcost"
    if ("out of bounds" in m or "must be positive or zero" in m or "index to range lvalue must be" in m
            or "illegal index to array constant" in m):
        return "index"
    if "cannot contain" in m:
        return "other"
    for pat in ("bad type", "bad argument", "bad left", "bad right", "bad 1st", "numeric", "is not a number", "not a number",
                "illegal type of index", "must be integers", "must be a number", "cannot index", "being indexed is zero",
                "illegal rhs", "illegal to assign", "not compatible", "compatible types", "do not match", "illegal 1st index",
                "illegal 2nd index", "with an illegal type", "on illegal type", "is not string", "bad right type",
                "non-numeric", "illegal lhs", "not an array", "isn't a class", "illegal index for mapping", "indexes must",
                "right side of <", "illegal to make char lvalue"):
        if pat in m:
            return "type"
    return "other"


def outcome(kind, text):
    """-> comparable outcome tuple, or None when the spelling was rejected by the type checker"""
    import lpcref
    if kind == b"V":
        return ("V", lpcref.normalise(text))
    if kind == b"E":
        return ("E", classify_error(text.decode("latin-1")))
    if kind == b"C":
        msg = text.decode("latin-1")
        cls = classify_error(msg)
        if cls in ("div0", "index"):
            return ("E", cls)          # raised by constant folding: the same error, earlier
        m = re.sub(r"^.*? line \d+: ", "", msg)
        if re.match(r"(Bad |Invalid |Incompatible |Cannot cast|Types in|== always|!= always|Arguments to|Illegal index for mapping|"
                    r"Value indexed has|Type of returned|Illegal to use|Must return|Return type)", m):
            return None                # strict type checker: this spelling is not a program of the typed core
        return ("CE", re.sub(r"[^A-Za-z ]", "", m)[:40].strip())
    if kind == b"X":
        return ("X", text.decode("latin-1"))
    return ("?", text.decode("latin-1"))


def relclass(rel):
    return rel.split("-")[0]


def show(o):
    if o is None:
        return "rejected-at-compile-time"
    k, t = o
    if isinstance(t, bytes):
        t = t.decode("utf-8", "replace")
    return {"V": "value ", "E": "ERR:", "X": "CRASH:", "?": "?", "CE": "COMPILE-ERROR:"}[k] + t


def judge_group(g, results):
    """results: name -> (kind, text).  -> list of (key, kind, a_index, b_index_or_None, msg)"""
    outs = []
    for name in g.names:
        r = results.get(name)
        outs.append(outcome(*r) if r else ("?", "no output"))
    fails = []
    ref = (g.ref[0], g.ref[1]) if g.ref else None
    base = None
    for k, o in enumerate(outs):
        if o is not None and o[0] != "X":
            base = k
            break
    tag = "%s:%s:%s" % (g.fam, g.cons, g.types)
    for k, o in enumerate(outs):
        rel = g.members[k][0]
        if o is None:
            continue
        if o[0] == "X":
            fails.append(("C03:crash:%s:%s" % (tag, o[1]), "crash", k, None,
                          "%s [%s] kills the driver process (%s)" % (g.note.decode("utf-8", "replace"), rel, o[1])))
            continue
        if o[0] == "?":
            fails.append(("C03:harness:no-output", "crash", k, None, "no output line for %s" % g.names[k].decode()))
            continue
        if base is not None and k != base and o != outs[base]:
            brel = g.members[base][0]
            fails.append(("C03:sibling:%s:%s-vs-%s" % (tag, relclass(rel), relclass(brel)), "sibling", k, base,
                          "%s: spelling '%s' gives %s but spelling '%s' gives %s" %
                          (g.note.decode("utf-8", "replace"), rel, show(o), brel, show(outs[base]))))
        if ref is not None and o != ref:
            # one key per construct when every spelling deviates the same way; a spelling that deviates on its own is named
            if base is not None and outs[base] != ref and o == outs[base]:
                rkey = "C03:ref:%s" % tag
            else:
                rkey = "C03:ref:%s:%s" % (tag, relclass(rel))
            fails.append((rkey, "ref", k, None,
                          "%s: spelling '%s' gives %s, reference semantics give %s" %
                          (g.note.decode("utf-8", "replace"), rel, show(o), show(ref))))
    return fails, outs


# ------------------------------------------------------------------ running units
def parse_out(path):
    res, done = {}, False
    order = []
    if not os.path.exists(path):
        return res, order, False
    for line in open(path, "rb").read().split(b"\n"):
        if line == b"#done":
            done = True
        elif line == b"#compiling":
            done = "compiler-crash"
        elif line == b"#compiled":
            done = False
        elif line:
            p = line.split(b"\t", 2)
            if len(p) == 3:
                res[p[0]] = (p[1], p[2])
                order.append(p[0])
    return res, order, done


def run_harness(exe, d, nfiles, jobs, tag, extra=(), deadline_s=0):
    out = os.path.join(vlib.OUT, "C03-%s.jsonl" % tag)
    cmd = [exe, "--dir=" + d, "--nfiles=%d" % nfiles, "--enum", "--jobs=%d" % jobs, "--batch=4", "--timeout-ms=60000",
           "--out=" + out] + list(extra)
    if deadline_s:
        cmd.append("--deadline-s=%d" % deadline_s)
    r = subprocess.run(cmd, env=vlib.env(), stdout=subprocess.PIPE, stderr=subprocess.PIPE)
    summary, died = None, {}
    if os.path.exists(out):
        for line in open(out, errors="replace"):
            try:
                rec = json.loads(line)
            except Exception:
                continue
            if rec.get("type") == "summary":
                summary = rec
            elif rec.get("type") == "fail":
                for f in rec["fails"]:
                    died[f.get("index", rec.get("index"))] = f["key"]
    return r.returncode, summary, died, r.stderr.decode(errors="replace")[-1500:]


def entries_of(path):
    names = []
    for line in open(path, "rb"):
        if line.startswith(b"//@ "):
            names.append(line[4:].split()[0])
    return names


def run_units(exe, d, nfiles, jobs, tag, deadline_s=0):
    """run all units, recover from driver crashes function by function.  -> (results by name, summary, crashes)"""
    t0 = time.time()
    rc, summary, died, err = run_harness(exe, d, nfiles, jobs, tag, deadline_s=deadline_s)
    if summary is None:
        raise SystemExit("CHECK-BROKEN property=C03 harness wrote no summary: rc=%d %s" % (rc, err))
    results = {}
    crashes = {}
    funcs = summary.get("counters", {}).get("functions_called", 0)
    for i in range(nfiles):
        op = os.path.join(d, "u%05d.out" % i)
        res, order, done = parse_out(op)
        guard = 0
        split = False
        while done is not True and guard < 400:
            guard += 1
            names = entries_of(os.path.join(d, "u%05d.c" % i))
            if len(order) >= len(names):
                break
            if not os.path.exists(op) and i not in died and summary.get("exhaustive") is False:
                break                   # never started (deadline)
            if i not in died and not (done == "compiler-crash" and not split):
                # vx lists only the first records of a key: run again from here to learn how this one dies
                rc2, s2, d2, e2 = run_harness(exe, d, nfiles, 1, tag + "-resume", extra=["--from=%d" % i, "--to=%d" % (i + 1),
                                                                                          "--start=%d" % len(order)] + (["--split=1"] if split else []))
                died[i] = d2.get(i, "died:unknown")
                res, order, done = parse_out(op)
                continue
            if done == "compiler-crash" and not split:
                split = True            # the compiler died on the whole unit: go entry by entry
                with open(op, "ab") as f:
                    f.write(b"#compiled\n")
            else:
                bad = names[len(order)]
                sig = died.get(i, "died:unknown")
                with open(op, "ab") as f:
                    f.write(bad + b"\tX\t" + sig.split(":")[1].encode() + b"\n")
                crashes[bad] = sig
                order.append(bad)
            rc2, s2, d2, e2 = run_harness(exe, d, nfiles, 1, tag + "-resume", extra=["--from=%d" % i, "--to=%d" % (i + 1),
                                                                                      "--start=%d" % len(order)] + (["--split=1"] if split else []))
            if s2:
                funcs += s2.get("counters", {}).get("functions_called", 0)
            if i in d2:
                died[i] = d2[i]
            else:
                died.pop(i, None)
            res, order, done = parse_out(op)
        results.update(res)
    summary["wall_s"] = round(time.time() - t0, 1)
    summary["counters"]["functions_called"] = funcs
    return results, summary, crashes


# ------------------------------------------------------------------ replay artefacts
def group_artefact(g, d, key, kind, a, b, outs):
    import lpcgen
    prelude, blocks = lpcgen.read_unit_blocks(os.path.join(d, "u%05d.c" % g.unit))
    names = [g.names[a]] + ([g.names[b]] if b is not None else [])
    src = prelude + b"".join(blocks[n][1] for n in names)
    return {"key": key, "kind": kind, "family": g.fam, "construct": g.cons, "types": g.types,
            "computation": g.note.decode("utf-8", "replace"),
            "a": names[0].decode(), "a_spelling": g.members[a][0],
            "b": names[1].decode() if b is not None else None, "b_spelling": g.members[b][0] if b is not None else None,
            "ref": [g.ref[0], g.ref[1].decode("latin-1") if isinstance(g.ref[1], bytes) else g.ref[1]] if g.ref else None,
            "unit": src.decode("latin-1")}


def replay_group(art, exe):
    """re-run only the functions of the artefact; -> (fails, obs)"""
    d = tempfile.mkdtemp(prefix="c03r-", dir=os.path.join(B.BUILD))
    try:
        open(os.path.join(d, "u00000.c"), "wb").write(art["unit"].encode("latin-1"))
        for f in ("master.c", "simul_efun.c", "base.c"):
            shutil.copy(os.path.join(VERIF, "mudlib", "c03", f), d)
        tag = "replay-%d" % os.getpid()
        res, summary, crashes = run_units(exe, d, 1, 1, tag)
        for t in (tag, tag + "-resume"):
            try:
                os.unlink(os.path.join(vlib.OUT, "C03-%s.jsonl" % t))
            except OSError:
                pass
        names = [art["a"].encode()] + ([art["b"].encode()] if art["b"] else [])
        outs = [outcome(*res[n]) if n in res else ("?", "no output") for n in names]
        obs = "\n".join("%s [%s] -> %s" % (n.decode(), s, show(o)) for n, s, o in
                        zip(names, [art["a_spelling"], art["b_spelling"]], outs))
        fails = []
        kind = art["kind"]
        if kind == "sibling":
            if outs[0] is not None and outs[1] is not None and outs[0] != outs[1]:
                fails.append({"key": art["key"], "msg": "%s: %s gives %s, %s gives %s" % (art["computation"], art["a_spelling"],
                                                                                         show(outs[0]), art["b_spelling"], show(outs[1]))})
        elif kind == "ref":
            ref = (art["ref"][0], art["ref"][1].encode("latin-1") if art["ref"][0] == "V" else art["ref"][1])
            if outs[0] is not None and outs[0] != ref:
                fails.append({"key": art["key"], "msg": "%s: %s gives %s, reference %s" % (art["computation"], art["a_spelling"],
                                                                                          show(outs[0]), show(ref))})
            obs += "\nreference -> " + show(ref)
        elif kind == "crash":
            if outs[0] is not None and outs[0][0] == "X":
                fails.append({"key": art["key"], "msg": "%s: %s kills the driver process" % (art["computation"], art["a_spelling"])})
        return fails, obs
    finally:
        shutil.rmtree(d, ignore_errors=True)


def build(ck):
    exe = ck.harness("h_c03", ["h/h_c03.c"], profile=PROFILE)
    wrapper = os.path.join(os.path.dirname(exe), "c03_replay")
    with open(wrapper, "w") as f:
        f.write("#!/bin/sh\nC03_EXE='%s' exec python3 '%s' \"$@\"\n" % (exe, os.path.abspath(__file__)))
    os.chmod(wrapper, 0o755)
    return {"h_c03": exe, "c03_replay": wrapper}


# ------------------------------------------------------------------ the check
def evaluate(ck, d, tier, tag, only=None, jobs=16, deadline_s=0, selftest=None):
    import lpcgen
    exes = build(ck)
    shutil.rmtree(d, ignore_errors=True)
    t0 = time.time()
    w, per_family = lpcgen.generate(d, tier, only)
    tgen = time.time() - t0
    if selftest:
        selftest(w, d)
    results, summary, crashes = run_units(exes["h_c03"], d, w.units, jobs, tag, deadline_s)
    stats = {"groups": len(w.groups), "functions": w.nfunc, "units": w.units, "reference_undefined": 0, "reference_compared": 0,
             "sibling_pairs_compared": 0, "compile_rejected_spellings": 0, "generation_s": round(tgen, 1),
             "per_family": {k: {"groups": v[0], "functions": v[1]} for k, v in per_family.items()}}
    found = {}
    distinct = set()
    for g in w.groups:
        if not all(n in results for n in g.names) and summary.get("exhaustive") is False:
            continue
        fails, outs = judge_group(g, results)
        live = [o for o in outs if o is not None]
        stats["compile_rejected_spellings"] += len(outs) - len(live)
        stats["sibling_pairs_compared"] += max(0, len(live) - 1)
        if g.ref is None:
            stats["reference_undefined"] += 1
        else:
            stats["reference_compared"] += len(live)
        for o in live:
            distinct.add(o)
        for key, kind, a, b, msg in fails:
            e = found.get(key)
            size = len(g.note)
            if e is None:
                found[key] = [1, size, g, kind, a, b, msg]
            else:
                e[0] += 1
                if size < e[1]:
                    e[1:] = [size, g, kind, a, b, msg]
    stats["distinct_outcomes"] = len(distinct)
    seen_fam = set()
    for g in w.groups:
        if g.fam in seen_fam or len(ck.samples) >= 6 or not all(n in results for n in g.names):
            continue
        seen_fam.add(g.fam)
        prelude, blocks = lpcgen.read_unit_blocks(os.path.join(d, "u%05d.c" % g.unit))
        ck.samples.append({"part": tag, "computation": g.note.decode("utf-8", "replace"),
                           "reference": show((g.ref[0], g.ref[1])) if g.ref else "undefined (manual silent)",
                           "spellings": [{"spelling": g.members[k][0], "source": blocks[n][1].decode("utf-8", "replace")[:400],
                                          "outcome": show(outcome(*results[n]))} for k, n in enumerate(g.names)][:4]})
    # ':i64' marks computations with an operand outside int32: keep the mark only when the plain class does not fail too
    for key in [k for k in found if ":i64" in k]:
        plain = key.replace(":i64", "")
        if plain in found:
            found[plain][0] += found[key][0]
            del found[key]
    for key, (count, size, g, kind, a, b, msg) in found.items():
        art = group_artefact(g, d, key, kind, a, b, None)
        hexed = binascii.hexlify(json.dumps(art).encode()).decode()
        src = art["unit"][art["unit"].index("//@ "):]
        ck.fails[key] = dict(record={"choices": None, "labels": None, "desc": src, "obs": msg}, fail={"key": key, "msg": msg, "index": 0},
                             exe=exes["c03_replay"], args=["--group=" + hexed], part=tag, mode="--enum", count=count)
    summary["part"] = tag
    summary["args"] = "tier=%s" % tier
    summary["distinct_outcomes"] = len(distinct)
    ck.parts.append(summary)
    vlib.log("%s: %s" % (tag, {k: stats[k] for k in ("groups", "functions", "units", "reference_compared", "reference_undefined",
                                                       "compile_rejected_spellings", "distinct_outcomes", "generation_s")}),
             "wall_s", summary["wall_s"], "finding keys", len(found))
    return stats


def run(ck):
    d = os.path.join(B.BUILD, "c03", ck.tier)
    stats = evaluate(ck, d, ck.tier, ck.tier, jobs=16, deadline_s=2100 if ck.tier == "thorough" else 220)
    if not os.environ.get("C03_KEEP"):
        shutil.rmtree(d, ignore_errors=True)          # replay artefacts carry their own source
    stats["evaluations"] = stats["functions"]        # one evaluation = one generated function compiled and called
    cov = vlib.enum_coverage(ck.parts, RULE, "functions_called", extra=stats)
    ck.finish(cov, assumptions=[
        "a spelling rejected by the strict type checker is not compared (counted in compile_rejected_spellings); a division "
        "by zero / array-constant index error raised by constant folding counts as the same error as at run time",
        "errors are compared by class (division by zero, type, index, other), not by message text",
        "the undefined-ness tag of a 0 read from a missing mapping key is not compared",
        "the reference is silent (reference_undefined) on: float formatting in string+float, INT64_MIN / -1 and % -1, shift "
        "counts <0 or >=64, truth value of 0.0, str[strlen(str)], mapping + with overlapping keys, mapping *, array &",
        "driver configuration: defaults of lib/rc plus MaxArraySize/MaxMappingSize 70000; OLD_RANGE_BEHAVIOR as compiled",
        "profile '%s' build of the repo (value semantics; memory-safety of the same corpus is C01/C06's subject)" % PROFILE])


def selftest(ck):
    """break the model / the environment, the oracles must fire"""
    import lpcref
    bad = 0
    d = os.path.join(B.BUILD, "c03", "selftest")
    # 1: break the reference evaluator (int + wraps at 32 bits) -> ref verdicts must fire
    orig = lpcref.wrap
    lpcref.wrap = lambda x: ((x + (1 << 31)) & 0xffffffff) - (1 << 31)
    ck1 = vlib.Check("C03", "quick", 0, LEVEL)
    evaluate(ck1, d, "small", "selftest1", only={"literal", "unary"}, jobs=8)
    lpcref.wrap = orig
    hits = [k for k in ck1.fails if k.startswith("C03:ref:unop:neg")]
    print("selftest 1 (reference wraps at 32 bit): %s" % (sorted(hits)[:3] or "NOTHING"))
    bad |= not hits

    # 2: break one spelling in the generated corpus (environment): a folded literal gets +1 -> sibling verdict must fire
    def corrupt(w, dd):
        for k in range(w.units):
            p = os.path.join(dd, "u%05d.c" % k)
            s = open(p, "rb").read()
            s2 = re.sub(rb"\{ return (\d+); \}", lambda m: b"{ return %d; }" % (int(m.group(1)) + 1), s, count=3)
            if s2 != s:
                open(p, "wb").write(s2)
                return
        raise AssertionError("nothing to corrupt")
    ck2 = vlib.Check("C03", "quick", 0, LEVEL)
    evaluate(ck2, d, "small", "selftest2", only={"literal"}, jobs=8, selftest=corrupt)
    hits = [k for k in ck2.fails if k.startswith("C03:sibling:literal")]
    print("selftest 2 (one spelling corrupted): %s" % (sorted(hits)[:3] or "NOTHING"))
    bad |= not hits
    shutil.rmtree(d, ignore_errors=True)
    if bad:
        print("SELFTEST-FAILED C03")
    return int(bad)


if __name__ == "__main__":
    # replay wrapper entry: --group=<hex json> [--replay-index=0]
    grp = [a for a in sys.argv[1:] if a.startswith("--group=")]
    if not grp:
        print("usage: C03.py --group=<hex>")
        sys.exit(2)
    art = json.loads(binascii.unhexlify(grp[0][8:]))
    fails, obs = replay_group(art, os.environ["C03_EXE"])
    print(json.dumps({"type": "replay", "fails": fails, "obs": obs}))
    sys.exit(1 if fails else 0)
