"""C02 — compiling any source text is safe and leaves the compiler reusable (DESIGN §3 C02)."""
import vlib
LEVEL = "exploration"
SRC = ["h/h_c02.c", "h/h_c02_sweep.c", "h/progdump.c", "wrap/w_c02_compiler.c", "wrap/w_c02_lex.c", "wrap/w_c02_ident.c", "wrap/w_c02_scratch.c",
       "wrap/w_c02_icode.c", "wrap/w_c02_ptrees.c", "wrap/w_c02_generate.c"]

def build(ck):
    return {"h_c02": ck.harness("h_c02", SRC, wraps=vlib.STD_WRAPS + ["smart_log"])}
