"""C02 — compiling any source text is safe and leaves the compiler reusable (DESIGN §3 C02).

vx --enum over inputs; every input is compiled by the real compile_file() in a forked child of the booted driver
(source read through a file descriptor, as load_object() does; the byte part also through the pre_text path).
Per input: compile returns (per-input timeout, re-run alone x20 before it is a hang); prog != 0 or num_parse_error > 0;
no sanitizer report; no exit; canonical residual state of the compiler == fresh-driver state s0; and the fixed
probe program compiled right after the input dumps (h/progdump.c, address independent) to the fresh-driver dump.
"""
import time
import vlib
LEVEL = "exploration"
SRC = ["h/h_c02.c", "h/h_c02_sweep.c", "h/progdump.c", "wrap/w_c02_compiler.c", "wrap/w_c02_lex.c", "wrap/w_c02_ident.c", "wrap/w_c02_scratch.c",
       "wrap/w_c02_icode.c", "wrap/w_c02_ptrees.c", "wrap/w_c02_generate.c"]


def build(ck):
    return {"h_c02": ck.harness("h_c02", SRC, wraps=vlib.STD_WRAPS + ["smart_log"])}


RULE = ("every input of: (bytes) all byte strings of length <= 2 over all 256 values, through a file descriptor and through pre_text; "
        "(class) all strings of length 3..L over a 45-symbol class alphabet with one representative per arm of the lexer's character switches "
        "(letter, L, x, e, _, 0, 1, 9, blank, tab, newline, CR, every punctuator, quote, apostrophe, backslash, #, $, @, NUL, 0x80, 0xFF); "
        "(tok) all token strings of length <= n over the 26-token alphabet {int string mixed x f ( ) { } ; , = 1 \"s\" return (: :) [ ] .. #define-x #if #endif "
        "#include-a.h @TXT-block newline}, bare and inside a fixed well-formed prologue/epilogue; "
        "(edit) every single-token deletion, duplication and substitution by each of the 26 tokens at every position of a corpus of 40 valid programs "
        "that together use every grammar production; (sweep) generated programs crossing every bounded table by limit-2..limit+2: locals/arguments per "
        "function, locals in sequential blocks/for/foreach, nested function literals (k outer x m x n locals, as locals / arguments / mixed, nesting 1..11: the full "
        "0..7 grid with MaxLocalVariables 6, the boundary planes at the default 25), strings, functions, globals, inherits, classes, class members, switch cases "
        "(direct / sparse / range / string / default encodings), include depth, #if depth, macro expansions (EXPANDMAX), line length around MAXLINE and "
        "NSIZE (12 line kinds), nesting depth of 10 constructs around YYINITDEPTH/YYMAXDEPTH, 84 numeric/character literals in 3 contexts, total code size "
        "around 32768 and 65536 bytes in 5 placements, 253..259 overridden inherited functions, 65535 function literals beside efun-named locals, string-switch labels of very "
        "different lengths, 4 ways of leaving the compile early x 10 open constructs, and 5 names (3 efuns, a simul_efun, a plain name) x every non-empty subset of the roles "
        "{inherited function, prototype, global, class, function, argument, local} in one program; (outer function: k variables + 0..2 variables of a block that is closed again) x "
        "function-literal nesting 0..3 x (variables of each literal, 0..1 in a closed block), as locals and as arguments, every case starting from the locals tables of a freshly "
        "booted driver, so that the enclosing functions' totals cross each size the tables grow by (full grid with MaxLocalVariables 6, values around 0, N/2, N at 25); "
        "file termination: 3 bodies x 52 ways a file can end (newline / none / blanks; // and /* comments closed, open, after code; every directive, #define continuation, "
        "conditionals open and closed; string, character constant, text and array block open or just terminated; macro call open; backslash; CR; and code after an escaped newline) "
        "plus 11 endings of an included file x {text follows the #include, #include is the last line}, read from a file and handed over as pre_text, each after 6 previously "
        "compiled files (nothing, short, long valid, long ending in a // comment, long with a syntax error, long ending inside a text block) and compared with the outcome after nothing; "
        "text and array blocks whose lines put a quote, backslash, backslash-quote, two quotes or a plain character on each of 91 positions around the end of the first and of the "
        "second 4096-byte collection chunk; tokens of 200, 250..260, 300, 600, 1000 bytes in 24 places (pending at a syntax error, at an inherit of an unloaded program, at the end "
        "of the file; quoted by each kind of compile message); "
        "(hist) all ordered tuples over 25 state-leaving "
        "candidates loaded with load_object() as genuine histories, each step compared with its fresh-driver outcome; (histpol) the same histories over 30 candidates "
        "under master policies: each apply the driver makes during a compile (log_error, valid_override, valid_save_binary, error_handler) plain / calling a loaded object / "
        "calling an object that must be compiled first / raising an error - all 256 combinations for single loads, one apply at a time for ordered pairs and triples (quick: pairs under the 6 policies "
        "{log_error, valid_override, valid_save_binary} x {loads an object, raises an error}; thorough: pairs under all 12, triples under those 6). "
        "Oracle after every input: terminates; program or >= 1 compile error; no sanitizer report; no exit; residual compiler state == s0; probe dump == fresh dump")

ASSUMPTIONS = [
    "the residual state covers the statics of compiler.c, lex.c/preprocess.c, identifier.c, scratchpad.c, icode.c, parse_trees.c, generate.c, grammar's "
    "context and simulate's inherit_file; compile_file()'s function-local 'guard' and the malloc arena are not readable and are covered only by the probe differential",
    "capacities that only grow (locals_size, type_of_locals_size) are compared as >= fresh value; sem_value counters are compared exactly",
    "the locals tables only ever grow, so in a running driver their size depends on everything compiled before: the sweep parts start from the size init_locals() "
    "gives them at boot (harness calls deinit_locals()+init_locals() after its own baseline compile), and the locals / function-literal families reset them before every case",
    "'fresh driver' for the file-termination and history comparisons is the state every child starts from: booted, simul_efun and master compiled, the probe compiled twice",
    "histpol installs mudlib/base/c02/master_policy.c (inherits the shared base master) as the master of its scratch mudlib; the policy is switched off again before the probe is compiled",
    "an input that leaves a detected leftover ends its child (vx_enum_restart) so that later inputs of the batch are judged from the fresh state",
    "hang = no return within the per-input timeout and again within 20x when re-run alone",
    "token = whitespace-separated lexeme, string/char literal, text block, newline, or a whole # directive line (corpus edits)",
]


def _left(ck, budget):
    return max(12, int(budget - (time.time() - ck.t0)))


def run(ck):
    exe = build(ck)["h_c02"]
    quick = ck.tier == "quick"
    budget = 175 if quick else 2250          # seconds for the enumeration parts (build and replays come on top)
    J = 16
    if quick:
        # most valuable first; every part has a deadline, so the tier ends in time and says what was completed
        ck.enum(exe, ["--part=sweep", "--maxlocals=6"], "sweep-locals6", batch=150, deadline_s=_left(ck, budget), timeout_ms=20000, jobs=J)
        ck.enum(exe, ["--part=sweep"], "sweep", batch=100, deadline_s=_left(ck, budget), timeout_ms=20000, jobs=J)
        ck.enum(exe, ["--part=hist", "--hist-len=2"], "hist2", batch=25, deadline_s=_left(ck, budget), timeout_ms=20000, jobs=J)
        ck.enum(exe, ["--part=histpol", "--hist-len=1"], "histpol1", batch=30, deadline_s=_left(ck, budget), timeout_ms=20000, jobs=J)
        ck.enum(exe, ["--part=histpol", "--hist-len=2", "--pol-small=1"], "histpol2", batch=30, deadline_s=_left(ck, budget), timeout_ms=20000, jobs=J)
        ck.enum(exe, ["--part=edit", "--edit-subst-progs=12"], "edit-d40-s12", batch=300, deadline_s=_left(ck, budget), timeout_ms=10000, jobs=J)
        ck.enum(exe, ["--part=tok", "--tok-len=3"], "tok3", batch=400, deadline_s=_left(ck, budget), timeout_ms=10000, jobs=J)
        ck.enum(exe, ["--part=bytes2", "--to=65793"], "bytes2-fd", batch=400, deadline_s=_left(ck, budget), timeout_ms=10000, jobs=J)
        ck.enum(exe, ["--part=class", "--class-len=3"], "class3", batch=400, deadline_s=_left(ck, budget), timeout_ms=10000, jobs=J)
        # largest bound last: completes if time allows, otherwise reports how far it got (exhaustive:false for this part only)
        ck.enum(exe, ["--part=tok", "--tok-len=4", "--tok-min=4"], "tok4", batch=500, deadline_s=_left(ck, budget), timeout_ms=10000, jobs=J)
    else:
        ck.enum(exe, ["--part=bytes2"], "bytes2", batch=400, deadline_s=_left(ck, budget), timeout_ms=10000, jobs=J)
        ck.enum(exe, ["--part=sweep", "--maxlocals=6"], "sweep-locals6", batch=150, deadline_s=_left(ck, budget), timeout_ms=20000, jobs=J)
        ck.enum(exe, ["--part=sweep", "--thorough=1"], "sweep", batch=60, deadline_s=_left(ck, budget), timeout_ms=60000, jobs=J)
        ck.enum(exe, ["--part=hist", "--hist-len=3"], "hist3", batch=25, deadline_s=_left(ck, budget), timeout_ms=20000, jobs=J)
        ck.enum(exe, ["--part=histpol", "--hist-len=1"], "histpol1", batch=30, deadline_s=_left(ck, budget), timeout_ms=20000, jobs=J)
        ck.enum(exe, ["--part=histpol", "--hist-len=2"], "histpol2", batch=30, deadline_s=_left(ck, budget), timeout_ms=20000, jobs=J)
        ck.enum(exe, ["--part=histpol", "--hist-len=3", "--pol-small=1"], "histpol3", batch=30, deadline_s=_left(ck, budget), timeout_ms=20000, jobs=J)
        ck.enum(exe, ["--part=edit"], "edit", batch=300, deadline_s=_left(ck, budget), timeout_ms=10000, jobs=J)
        ck.enum(exe, ["--part=tok", "--tok-len=4"], "tok4", batch=500, deadline_s=_left(ck, budget), timeout_ms=10000, jobs=J)
        ck.enum(exe, ["--part=class", "--class-len=3"], "class3", batch=400, deadline_s=_left(ck, budget), timeout_ms=10000, jobs=J)
        ck.enum(exe, ["--part=class", "--class-len=4", "--class-min=4"], "class4", batch=600, deadline_s=min(_left(ck, budget), 1250), timeout_ms=10000, jobs=J)
        ck.enum(exe, ["--part=tok", "--tok-len=5", "--tok-min=5"], "tok5", batch=600, deadline_s=_left(ck, budget), timeout_ms=10000, jobs=J)
    done = {p["part"]: (p.get("evaluations"), p.get("total"), p.get("exhaustive")) for p in ck.parts}
    ck.finish(vlib.enum_coverage(ck.parts, RULE, "nontrivial",
                                 extra={"parts_completed": {k: {"evaluated": v[0], "of": v[1], "complete": bool(v[2])} for k, v in done.items()},
                                        "programs_yielded": sum(p.get("counters", {}).get("programs", 0) for p in ck.parts),
                                        "inputs_rejected_with_errors": sum(p.get("counters", {}).get("rejected", 0) for p in ck.parts),
                                        "probe_compiles_compared": sum(p.get("counters", {}).get("probe_compiles", 0) for p in ck.parts)}),
              assumptions=ASSUMPTIONS)


def selftest(ck):
    """break the model / the environment (not the repo): the oracle must fire"""
    exe = build(ck)["h_c02"]
    bad = 0
    for st, what in ((1, "baseline probe dump treated as different"), (2, "a leftover local is injected into the observed residual state"),
                     (3, "an input that never returns (harness spins)")):
        ck2 = vlib.Check("C02", "quick", 0, LEVEL)
        ck2.enum(exe, ["--part=tok", "--tok-len=1", "--selftest=%d" % st], "selftest%d" % st, batch=10, timeout_ms=300, jobs=4)
        want = {1: "C02:probe-differs:dump", 2: "C02:residual:compiler.current_number_of_locals", 3: "hang:element"}[st]
        if want not in ck2.fails:
            print("SELFTEST-FAILED C02 variant %d (%s): expected %s, got %s" % (st, what, want, sorted(ck2.fails)[:5])); bad = 1
        else:
            print("selftest %d ok (%s): %s" % (st, what, want))
    return bad
