"""C18 — runtime errors are reported at the right file and line with a correct trace (DESIGN §3 C18).

gen/c18.py places a failing statement (error(), index out of bounds, division by zero) and records every active frame;
h/h_c18.c runs each case on the real driver and compares the record with what the master's error_handler receives
(file, line, object, program, trace) and — second pass, master without error_handler — with what dump_trace() prints."""
import os, subprocess, sys
import vlib
LEVEL = "exploration"
SRC = ["h/h_c18.c"]


def build(ck):
    exe = ck.harness("h_c18", SRC)
    cases_file("quick")          # replay files refer to the case list by path
    if ck.tier != "quick":
        cases_file(ck.tier)
    return {"h_c18": exe}


def cases_file(tier):
    """the case list of a tier, (re)generated when missing or older than the generator; kept, because replay files name it"""
    d = os.path.join(vlib.B.BUILD, "scratch")
    os.makedirs(d, exist_ok=True)
    path = os.path.join(d, "c18-cases-%s.txt" % tier)
    gen = os.path.join(vlib.VERIF, "gen", "c18.py")
    if os.path.exists(path) and os.path.getmtime(path) >= os.path.getmtime(gen):
        return path
    tmp = path + ".%d.tmp" % os.getpid()
    with open(tmp, "w") as f:
        r = subprocess.run([sys.executable, gen, tier], stdout=f, stderr=subprocess.PIPE, text=True)
    if r.returncode:
        os.unlink(tmp)
        raise SystemExit("gen/c18.py failed: " + r.stderr[-2000:])
    os.replace(tmp, path)
    vlib.log(r.stderr.strip())
    return path


RULE = ("every case of gen/c18.py: failing statement {error(), array index out of bounds, division by zero} x "
        "(line) at every line 1..40 and 254..258, 510..514, 32766..32769 of the main file with blank / comment / code filler; "
        "(include) preceded by 0..3 includes, each of 0/1/300 lines at nesting 0..3 (quick: the first two of three includes at nesting 0 and 3 only), statement after the includes, "
        "inside a function defined in the innermost file of the last include, and inside a statement-level include; "
        "(codelen) preceded in the same function by one or two source lines generating exactly 240..270, 509..513, 764..768 bytes of code (lengths verified against the program's line table), "
        "statement on the next / the same line; (context) inherited program (direct and ::), anonymous function, expression functional, global initialiser, foreach/switch/while/for/if/else body, "
        "after a multi-line macro definition / macro call / string / text block / comment, inside catch, and after reloading the program (plain; include+inherit) from its saved binary; "
        "(depth) call depth 1..4 over all hop sequences of {local call, call_other, function pointer, efun callback (map)}; "
        "(termination) every file of the case (main, include levels 1..3, inherited, statement-level include) ending with newline / without newline / with a block comment without newline / "
        "with blank lines - for all files, only the failing file, only the main file - with the failing statement or the call site on the last code line; "
        "(history) the context, saved-binary and a set of include cases again after each prelude compile {valid file with initialisers, initialisers then syntax error, syntax error inside an "
        "include, aborted by a missing inherit}; every case is raised twice, the second time through the apply cache after another call chain used the same control-stack slots. "
        "Oracle: generator's record (file, line, function, object, program per active frame, innermost last) == error_handler mapping and its trace; second pass: == the lines dump_trace() prints")

ASSUMPTIONS = ["frames of anonymous functions / functionals are named <function> (printed as (function)), the catch frame CATCH, the initialiser #global_init#: the driver's own naming is accepted",
               "the line of an outer frame is the line of its call statement; every statement of a case sits on one source line",
               "object names are compared without the leading slash file_name() adds"]


def run(ck):
    exe = build(ck)["h_c18"]
    cf = cases_file(ck.tier)
    dl = 150 if ck.tier == "quick" else 1500
    ck.enum(exe, ["--cases=" + cf], "handler", batch=40, deadline_s=dl, timeout_ms=20000, jobs=16)
    ck.enum(exe, ["--cases=" + cf, "--no-handler=1"], "printed", batch=40, deadline_s=dl // 2, timeout_ms=20000, jobs=16)
    ck.finish(vlib.enum_coverage(ck.parts, RULE, "errors_raised",
                                 extra={"frames_compared": sum(p.get("counters", {}).get("frames_compared", 0) for p in ck.parts),
                                        "loaded_from_binary": sum(p.get("counters", {}).get("loaded_from_binary", 0) for p in ck.parts),
                                        "code_lengths_verified": sum(p.get("counters", {}).get("code_lengths_verified", 0) for p in ck.parts)}),
              assumptions=ASSUMPTIONS)


def selftest(ck):
    exe = build(ck)["h_c18"]
    cf = cases_file("quick")
    bad = 0
    for st, want in ((1, "C18:handler-line-wrong"), (2, "C18:trace-function-wrong")):
        ck2 = vlib.Check("C18", "quick", 0, LEVEL)
        ck2.enum(exe, ["--cases=" + cf, "--selftest=%d" % st, "--from=2700"], "selftest%d" % st, batch=40, timeout_ms=20000, jobs=8)
        if not any(k.startswith(want) for k in ck2.fails):
            print("SELFTEST-FAILED C18 variant %d: expected %s*, got %s" % (st, want, sorted(ck2.fails)[:5])); bad = 1
        else:
            print("selftest %d ok: %s" % (st, [k for k in ck2.fails if k.startswith(want)][:2]))
    return bad
