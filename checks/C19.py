"""C19 — cross-thread notifications are never lost or merged; shutdown terminates (DESIGN §3 C19, engine E3).

Deciding step: stateless DFS over ALL schedules of small multi-threaded bodies running the real
lib/async + lib/port code under the cooperative scheduler sched/sched.c (one thread runs at a time,
every pthread-level synchronisation operation, eventfd read/write, epoll_wait, select, sleep and
clock read is a scheduling point), with iterative preemption bounding: vx's deviation budget is
the preemption bound (forced switches are free choices).  No sampling.
Separate pass (data-race clause only): the same bodies built with -fsanitize=thread, free-running,
a fixed number of iterations per (body, variant); ThreadSanitizer reports become finding keys
named by the pair of access sites."""
import os, sys
import vlib
import build as B

LEVEL = "model_checking"
SCHED_SRC = ["vx/vx.c", "sched/sched.c", "h/h_c19.c"]
FREE_SRC = ["vx/vx.c", "h/h_c19.c"]
INC = ["-I", os.path.join(vlib.VERIF, "sched")]

BODIES = {1: "post", 2: "queue", 3: "worker", 4: "timer", 5: "console", 6: "pileup", 7: "event", 8: "workers"}


def build(ck):
    # shared libstdc++ + -rdynamic: the executable's pthread_* definitions then receive the calls made by
    # std::mutex / std::condition_variable / std::thread (probe result recorded in DESIGN §2.5)
    exe = B.build_harness("h_c19", SCHED_SRC, profile="plain", with_stem=False, wraps=[], cflags=INC, ldflags=["-rdynamic"])
    free = B.build_harness("h_c19_free", FREE_SRC, profile="tsan", with_stem=False, wraps=[], cflags=INC + ["-DC19_FREE"],
                           ldflags=["-rdynamic"])
    # whole-path run for heart_beat_flag: the real backend() loop (driver booted by hx) under ThreadSanitizer
    hb = ck.harness("h_c19_hb", ["h/h_c19_hb.c", "wrap/w_backend_c19.c"], profile="tsan", replace_stem=["backend.c"])
    return {"h_c19": exe, "h_c19_free": free, "h_c19_hb": hb}


RULE = ("every schedule with at most P preemptions (P = budget; switches forced by blocking, yielding or thread exit are free) of: "
        "[post] 6 poster sets over {post_completion(K,5), post_completion(K,9), post_completion(K2,7), wakeup} on 2-3 threads "
        "(one or two ops per thread) against a main thread doing 3 timed async_runtime_wait + a final drain; "
        "[queue] capacity 2 x {fail, DROP_OLDEST, BLOCK_WRITER}, 2 producers x 2 enqueues, 1 consumer (4 dequeues; for BLOCK_WRITER "
        "polls until it has 4), history checked by brute-force linearizability + statistics; "
        "[worker] 16 scripts over {signal_stop, join(20), join(-1), sleep} x 4 worker behaviours (polls should_stop until stopped / returns at once / "
        "returns by itself after two rounds / interruptible sleep: platform_event_wait(stop_event, 5 ms) in a should_stop loop), then destroy; "
        "[timer] 4 scripts (start-ticks-stop-cleanup, stop-at-once + restart + cleanup-without-stop, double start/stop, heart-beat pattern "
        "with async_runtime_wakeup from the callback); "
        "[console] the real console worker reading 2 or 3 lines from a pipe on fd 0, main drains as process_io() does, then shutdown(5000); "
        "[pileup] notification pipe given a logical capacity of 3 records (O_NONBLOCK honoured per descriptor exactly as the code set it: full + blocking "
        "= the writer blocks, full + non-blocking = EAGAIN): a worker posts 5 completions while nobody waits, then signal_stop + join(50) / join(-1) must "
        "return true and the accepted posts are drained exactly once in order; a 1 ms timer whose callback calls async_runtime_wakeup ticks > 3 times "
        "while nobody waits, platform_timer_stop must return, accepted wake-ups == delivered; "
        "[event] platform_event_t with two waiter threads: manual-reset x {timed+timed, timed+infinite, infinite+infinite} with one set(), auto-reset x "
        "{infinite+infinite, timed+infinite} with two set(): every infinite waiter released, a manual-reset event stays signalled until reset, auto-reset "
        "accounting sets == released + still-signalled; "
        "[workers] two workers alive at once, each polling async_worker_should_stop(async_worker_current()) as the console worker does; stop + join(50) of "
        "each in 4 orders: every join true, async_worker_current() on a worker's thread is that worker; "
        "scheduling points (before the operation; additionally after pthread_mutex_unlock and pthread_create, and at the entry of a condition wait "
        "while the mutex is still held): pthread_create/join, mutex lock/trylock/unlock, cond wait/timedwait/clockwait/signal/broadcast, nanosleep/usleep, "
        "clock_gettime, epoll_wait, select, read/write on eventfd and the console pipe; virtual clock; CHESS fairness for yielding threads; "
        "horizon 700 scheduling points per execution; no state merging (plain stateless DFS)")

ASSUME = [
    "sequential consistency: the scheduler serialises threads and switches only at the hooked operations; std::atomic accesses in timer.cpp and plain "
    "shared fields are not scheduling points (data races on them are what the ThreadSanitizer pass is for; weak-memory reorderings are out of scope)",
    "fair schedules only: a thread that sleeps / polls / enters an unsatisfied timed wait gets its timeout only after every thread that was enabled "
    "at that moment has executed one operation, blocked or finished (needed for polling loops to terminate)",
    "condition variables: no spurious wake-ups; a timed wait times out only while its mutex is free (timeout and re-acquisition are one step)",
    "the eventfd, epoll instance and console pipe are the real kernel objects; the console's stdin is a pipe (console type PIPE)",
    "the free-running ThreadSanitizer pass is a fixed-iteration race-detector run; its ordering oracles are counted but never decide; worker script 2 is "
    "left out of that pass because it genuinely hangs when run natively (see finding C19:worker:hang:main-in-async_worker_join(20)-before-stop)",
    "heart_beat_flag: the real backend() loop is run free under ThreadSanitizer with the compile-time heart-beat period lowered from 2 s to 500 us "
    "(wrapper TU) and the users table pre-allocated as after a first connection (on an idle driver the first timer wake-up dereferences all_users == NULL "
    "in process_io(), a C09 finding, which would end the run at once); in the scheduler runs the same pattern is the timer body's script 3",
]


def _tsan_confirm(ck, orig):
    """ThreadSanitizer findings: a replay is a re-run of the same (body, variant) element; the same race
    must be reported again both times.  (The set of *other* races reported in that run may differ: TSan
    reports one race per memory location.)  Everything else goes through the strict double replay."""
    def confirm(key, info):
        if not key.startswith("tsan:"):
            return orig(key, info)
        cmd = ck.replay_cmd(info)
        for _ in range(2):
            rc, r = ck.replay_once(cmd)
            if r is None:
                return "diverged"
            if key not in [f["key"] for f in r["fails"]]:
                # one more attempt with twice the iterations before giving up
                rc, r = ck.replay_once([cmd[0], "--iters=1000"] + cmd[1:])      # vx_opt takes the first match
                if r is None or key not in [f["key"] for f in r["fails"]]:
                    return "not-reproduced"
        return "confirmed"
    return confirm


def run(ck):
    exes = build(ck)
    exe, free, hb = exes["h_c19"], exes["h_c19_free"], exes["h_c19_hb"]
    ck.confirm = _tsan_confirm(ck, ck.confirm)
    if ck.tier == "quick":
        dl, iters, el_ms = 150, 300, 24000
        ck.explore(exe, ["--body=1", "--waits=3"], "post", budget=2, deadline_s=dl)
        ck.explore(exe, ["--body=2"], "queue", budget=2, deadline_s=dl)
        ck.explore(exe, ["--body=3"], "worker", budget=3, deadline_s=dl)
        ck.explore(exe, ["--body=4"], "timer", budget=3, deadline_s=dl)
        ck.explore(exe, ["--body=5", "--waits=6"], "console", budget=2, deadline_s=dl)
        ck.explore(exe, ["--body=6"], "pileup", budget=2, deadline_s=dl)
        ck.explore(exe, ["--body=7"], "event", budget=2, deadline_s=dl)
        ck.explore(exe, ["--body=8"], "workers", budget=2, deadline_s=dl)
    else:
        # bound 3 everywhere (DESIGN), and one more where it is cheap
        dl, iters, el_ms = 1500, 1000, 80000
        ck.explore(exe, ["--body=1", "--waits=3"], "post", budget=4, deadline_s=dl)
        ck.explore(exe, ["--body=2", "--vmask=3"], "queue-fail-drop", budget=3, deadline_s=dl)     # bound 4 = 3.3 M schedules, 15 min: too close to the cap
        ck.explore(exe, ["--body=2", "--vmask=4"], "queue-block", budget=3, deadline_s=dl)
        ck.explore(exe, ["--body=3"], "worker", budget=5, deadline_s=dl)
        ck.explore(exe, ["--body=4"], "timer", budget=5, deadline_s=dl)
        ck.explore(exe, ["--body=5", "--waits=8"], "console", budget=4, deadline_s=dl)
        ck.explore(exe, ["--body=6"], "pileup", budget=4, deadline_s=dl)
        ck.explore(exe, ["--body=7"], "event", budget=4, deadline_s=dl)
        ck.explore(exe, ["--body=8"], "workers", budget=3, deadline_s=dl)
    sched_parts = list(ck.parts)
    ck.enum(free, ["--iters=%d" % iters, "--watchdog-ms=%d" % (el_ms * 3 // 4)], "tsan", batch=1, deadline_s=dl, timeout_ms=el_ms, rotate=0)
    tsan = ck.parts[-1] if len(ck.parts) > len(sched_parts) else {}
    ck.enum(hb, ["--iters=%d" % iters], "tsan-backend", batch=1, deadline_s=dl, timeout_ms=el_ms, rotate=0)
    tsb = ck.parts[-1] if ck.parts and ck.parts[-1].get("part") == "tsan-backend" else {}
    extra = {
        "preemption_bound": {p["part"]: p.get("budget_completed") for p in sched_parts},
        "schedules_per_body": {p["part"]: p.get("executions") for p in sched_parts},
        "distinct_outcomes_per_body": {p["part"]: p.get("distinct_outcomes") for p in sched_parts},
        "pruned": 0,
        "tsan_pass": {"elements": tsan.get("evaluations"), "iterations_each": iters,
                      "iterations_total": tsan.get("counters", {}).get("free_running_iterations"),
                      "elements_ended_by_watchdog": tsan.get("counters", {}).get("free_running_elements_ended_by_watchdog"),
                      "ordering_oracle_hits_not_deciding": tsan.get("counters", {}).get("free_running_oracle_hits_not_deciding"),
                      "race_keys": sorted(k for k in tsan.get("fail_keys", {}) if k.startswith("tsan:"))},
        "tsan_backend_pass": {"what": "real backend() loop with a 500 us heart-beat timer (wrap/w_backend_c19.c changes only HEARTBEAT_INTERVAL), one heart-beat object",
                              "heart_beats": tsb.get("counters", {}).get("heart_beats"),
                              "race_keys": sorted(k for k in tsb.get("fail_keys", {}) if k.startswith("tsan:"))},
    }
    ck.finish(vlib.mc_coverage(sched_parts, RULE, extra), assumptions=ASSUME)


def selftest(ck):
    """break the model / the observation / the environment; every variant must raise something,
    and the scheduler must find a deadlock that needs exactly one preemption (and not find it with none)"""
    exe = build(ck)["h_c19"]
    bad = 0
    # (tag, harness args, preemption bound, finding key that must / must not appear)
    cases = [("abba-p0", ["--body=9"], 0, None),
             ("abba-p1", ["--body=9"], 1, "C19:abba:deadlock:main-in-lock-A-then-B"),
             ("post-model", ["--body=1", "--waits=3", "--vmask=16", "--selftest=1"], 0, "C19:post:completion-lost"),
             ("queue-obs", ["--body=2", "--vmask=1", "--selftest=2"], 0, "C19:queue:not-linearizable"),
             ("worker-obs", ["--body=3", "--vmask=1", "--selftest=3"], 0, "C19:worker:callback-after-join"),
             ("timer-obs", ["--body=4", "--vmask=1", "--selftest=4"], 0, "C19:timer:callback-after-stop"),
             ("console-obs", ["--body=5", "--vmask=1", "--waits=5", "--selftest=5"], 0, "C19:console:line-lost"),
             ("pileup-obs", ["--body=6", "--vmask=1", "--selftest=6"], 0, "C19:pileup:accepted-not-delivered-exactly-once-in-order"),
             ("event-obs", ["--body=7", "--vmask=1", "--selftest=7"], 0, "C19:event:manual-reset-event-consumed-by-a-wait"),
             ("workers-obs", ["--body=8", "--vmask=1", "--selftest=8"], 0, "C19:workers:stop-not-observed-join-times-out")]
    for tag, args, budget, want in cases:
        ck2 = vlib.Check("C19", "quick", 0, LEVEL)
        ck2.explore(exe, args, "selftest-" + tag, budget=budget, jobs=8)
        if ck2.broken:
            print("SELFTEST-FAILED C19 %s: %s" % (tag, ck2.broken)); bad = 1
        elif want is None and ck2.fails:
            print("SELFTEST-FAILED C19 %s: expected no violation, got %s" % (tag, sorted(ck2.fails))); bad = 1
        elif want is not None and want not in ck2.fails:
            print("SELFTEST-FAILED C19 %s: expected %s, got %s" % (tag, want, sorted(ck2.fails))); bad = 1
        else:
            print("selftest %s ok: %s" % (tag, want or "no violation with 0 preemptions"))
    return bad
