"""C17 — a program loaded from a saved binary equals what its source compiles to; stale binaries are never used (DESIGN §3 C17)."""
import vlib
LEVEL = "model_checking"
SRC = ["h/h_c17.c", "h/progdump.c", "wrap/w_c17_binaries.c"]


def build(ck):
    return {"h_c17": ck.harness("h_c17", SRC, wraps=vlib.STD_WRAPS + ["open"])}


RULE = ("all histories of free choices on a private copy of the dependency graph main.c -> a.h -> b.h, main.c inherits base.c (-> c.h) which inherits deep.c [and base2.c], main.c calls a simul_efun; "
        "part A: all 2^6 program variants {string switch, int-range switch, class, function literals, #pragma save_types, second inherit} x histories of depth D over "
        "{load+save, load, reload(main only), failed load of an unrelated file that does not compile, edit(main.c|a.h|b.h|base.c|c.h|deep.c), delete(main.b|base.b)}; part B: variants {all features, none} x histories of depth D over the 40-op alphabet that adds "
        "touch(f), mtime(f) earlier/equal/later than main.b for the five sources, mtime(main.b) far earlier/later, mtime(base.b) earlier/equal/later than main.b, "
        "touch(simul_efun.c)+restart stamp, edit(simul_efun.c) while the driver keeps running, restart (stamps taken again), bump(driver_id); every load starts from an empty object table (as after a restart); explicit utimensat times + virtual clock. "
        "part big-code: variants {all features, string switch only} with a filler function of r expressions in front of run(), every r for which a byte of run() - its switch instruction, "
        "its string-switch table, the function literals - lies at code offset 32767 +- 60 (about 190 / 100 values of r, measured at start-up), history load+save, load; part big-lines: run() behind "
        "33000 blank lines, all histories of depth 2 over the part A alphabet. "
        "Oracle at every load and after every history: reference staleness predicate on what the open() log shows was used; loaded program (and its inherits) dump == dump of a "
        "compile of the current sources with binaries disabled; results of run(a,s) on 6 argument pairs and of two failing calls (error text, file, line, trace) equal. "
        "Canonical state for merging: step, variant, content version and time-stamp rank of every file, existence / rank / built-from versions of every binary, stamp changes, "
        "whether the previous operation was a failed compile, version of the simul_efun file on disk when each binary was written")

ASSUMPTIONS = ["a binary counts as used when its .b file was opened and its source file was not opened during the load",
               "'restart' for the simul_efun stamp is init_binaries() called again (the simul_efun object itself is not reloaded)",
               "time stamps have 1 s granularity as in check_times(); 'equal' is allowed to use the binary (statement: newer)"]


def run(ck):
    exe = build(ck)["h_c17"]
    quick = ck.tier == "quick"
    dA, dB = (3, 3) if quick else (4, 4)
    # large programs first (cheap): run()'s string switch swept across code offset 32767 by a filler function, and run() behind 33000 lines
    for v in (63, 1):
        ck.explore(exe, ["--prog=%d" % v, "--pad-sweep=1"], "big-code-p%02d" % v, budget=0, deadline_s=40 if quick else 120, timeout_ms=30000, jobs=16)
    ck.explore(exe, ["--prog=63", "--pad-lines=33000", "--depth=2", "--ops-full=0"], "big-lines-p63", budget=0, deadline_s=40 if quick else 120, timeout_ms=30000, jobs=16)
    for v in (63, 0):
        ck.explore(exe, ["--prog=%d" % v, "--depth=%d" % dB, "--new-first=1"], "B%d-p%02d" % (dB, v), budget=0, deadline_s=50 if quick else 900, timeout_ms=30000, jobs=16)
    ck.explore(exe, ["--prog=-1", "--depth=%d" % (dA - 1), "--ops-full=0"], "A%d-all64" % (dA - 1), budget=0, deadline_s=45 if quick else 300, timeout_ms=30000, jobs=16)
    # one level deeper for all 64 variants: completes when the machine is free, otherwise reports how far it got
    ck.explore(exe, ["--prog=-1", "--depth=%d" % dA, "--ops-full=0"], "A%d-all64" % dA, budget=0, deadline_s=50 if quick else 1000, timeout_ms=30000, jobs=16)
    ck.finish(vlib.mc_coverage(ck.parts, RULE.replace("depth D", "depth %d complete, %d as far as the deadline allows (part A) / depth %d (part B)" % (dA - 1, dA, dB)),
                               extra={"loads_compared_with_fresh_compile": sum(p.get("counters", {}).get("loads_compared_with_fresh_compile", 0) for p in ck.parts),
                                      "binaries_used": sum(p.get("counters", {}).get("binaries_used", 0) for p in ck.parts)}),
              assumptions=ASSUMPTIONS)


def selftest(ck):
    exe = build(ck)["h_c17"]
    bad = 0
    for st, want in ((1, "C17:stale-binary-used"), (2, "C17:program-differs-from-fresh-compile")):
        ck2 = vlib.Check("C17", "quick", 0, LEVEL)
        ck2.explore(exe, ["--prog=0", "--depth=2", "--ops-full=0", "--selftest=%d" % st], "selftest%d" % st, budget=0, deadline_s=120, timeout_ms=30000, jobs=8)
        if not any(k.startswith(want) for k in ck2.fails):
            print("SELFTEST-FAILED C17 variant %d: expected %s*, got %s" % (st, want, sorted(ck2.fails)[:5])); bad = 1
        else:
            print("selftest %d ok: %s" % (st, [k for k in ck2.fails if k.startswith(want)][:2]))
    return bad
