"""C11 — heart_beat runs once per interval per enabled object; faults stay local (DESIGN §3 C11)."""
import os
import vlib
JOBS = int(os.environ.get("VERIF_JOBS", "16"))   # development runs use 8
LEVEL = "model_checking"
SRC = ["h/h_c11.c", "wrap/w_backend.c"]


def build(ck):
    kw = dict(replace_stem=["backend.c"])
    return {
        # real HEART_BEAT_CHUNK (32); plain profile for the deep runs (5x faster forks), ASan+UBSan for a shallower pass
        "h_c11": ck.harness("h_c11", SRC, profile="plain", **kw),
        "h_c11a": ck.harness("h_c11a", SRC, profile="asan", **kw),
        # HEART_BEAT_CHUNK scaled to 2: heart_beats[] is reallocated while a round is running (ASan sees a stale pointer)
        "h_c11s": ck.harness("h_c11s", SRC, profile="asan", cflags=["-DVW_HB_CHUNK=2"], **kw),
    }


RULE = ("all histories of <= D steps over {stop, tick (<= 4), set_heart_beat(X,0|1|2) for 4 objects, destruct(X), clone a "
        "heart-beat object (2 programs, interval 1|2), an uncaught error raised by a driver-level apply in an unrelated object "
        "without heart beat, a call_out of that object that raises in the call_out phase of the next tick, reload_object(X) whose "
        "create() enables the heart beat again, X destructs itself and then calls set_heart_beat(1) on its destructed self} from each of 27 initial populations (O0..O2 each off/1/2; O0 is a "
        "blueprint, O1 O2 clones, +1 object cloned during the history), on the real src/backend.c driven as backend() does "
        "(call_heart_beat inside save_context/setjmp/restore_context, remove_destructed_objects after each tick); deviations "
        "(budget B) chosen at the moment a heart_beat is invoked inside a round: its script {self off, other->set_heart_beat"
        "(0|1|2) x 3 others, destruct self, destruct other x 3, clone (3 kinds), error(), set_heart_beat(1|2) on itself, reload_object(any of 4), destruct self then set_heart_beat(1|2)} and the timer firing (H1 sets "
        "heart_beat_flag) at the k-th instruction from there (k <= K); 3 undisturbed epilogue ticks; oracle = LPC (tick,object) "
        "log vs lock-step cadence model + query_heart_beat/heart_beats() vs model + round cursor in bounds and pointing at the "
        "called object at every call and every instruction; canonical state at step boundaries = driver list (object, interval, "
        "countdown), cursor statics, capacity, model runs relative to now, step, ticks")

ASSUME = ["a tick is one call of call_heart_beat() from a backend()-style error context; the clock is virtual",
          "a set_heart_beat(n) call on an object (also with an unchanged n) starts a new interval: cadence is checked over "
          "maximal runs of complete ticks in which nobody called set_heart_beat on the object",
          "a tick in which the timer fired inside the round is treated as not complete even if the flag was raised during "
          "the last heart_beat of the round",
          "cloning a program switches off the heart beat of its blueprint (clone_object does so on purpose); the model "
          "contains this rule",
          "index variables are required to be in bounds while a round is running (where they are used), not between ticks"]


def run(ck):
    ex = build(ck)
    P, A, S = ex["h_c11"], ex["h_c11a"], ex["h_c11s"]
    full = ["--init=13"]          # O0 O1 O2 all enabled with interval 1
    grow = ["--init=4"]           # O0 O1 enabled, O2 off: with chunk 2 the next enable reallocates the list
    sub = ["--inits=13,26,5,23"]  # (1,1,1) (2,2,2) (2,1,off) (2,1,2)
    if ck.tier == "quick":
        ck.explore(P, ["--depth=2", "--trunc=1"], "d2-b1", budget=1, deadline_s=40, jobs=JOBS)
        ck.explore(P, ["--depth=3", "--trunc=1"] + sub, "d3-b1-4inits", budget=1, deadline_s=70, jobs=JOBS)
        ck.explore(P, ["--depth=2", "--trunc=1"] + full, "d2-b2-full", budget=2, min_budget=2, deadline_s=40, jobs=JOBS)
        ck.explore(A, ["--depth=2", "--trunc=1"] + sub, "d2-b1-4inits-asan", budget=1, deadline_s=35, jobs=JOBS)
        ck.explore(S, ["--depth=2", "--trunc=1"] + sub, "d2-b1-4inits-chunk2-asan", budget=1, deadline_s=35, jobs=JOBS)
        ck.explore(S, ["--depth=2", "--trunc=1"] + grow, "d2-b2-chunk2-asan-grow", budget=2, min_budget=2, deadline_s=30, jobs=JOBS)
    else:
        # sized for a heavily loaded machine (deadlines sum 40 min); ~10 min on an idle 16-core machine
        ck.explore(P, ["--depth=3", "--trunc=1"], "d3-b1", budget=1, deadline_s=300, jobs=JOBS)
        ck.explore(P, ["--depth=4", "--trunc=1"] + sub, "d4-b1-4inits", budget=1, min_budget=1, deadline_s=500, jobs=JOBS)
        ck.explore(P, ["--depth=3", "--trunc=1"] + full, "d3-b2-full", budget=2, min_budget=2, deadline_s=400, jobs=JOBS)
        ck.explore(P, ["--depth=2", "--trunc=1"], "d2-b2", budget=2, min_budget=2, deadline_s=300, jobs=JOBS)
        ck.explore(P, ["--depth=2", "--trunc=1"] + full, "d2-b3-full", budget=3, min_budget=3, deadline_s=200, jobs=JOBS)
        ck.explore(P, ["--depth=3", "--trunc=40"] + full, "d3-b1-full-every-insn", budget=1, min_budget=1, deadline_s=150, jobs=JOBS)
        ck.explore(A, ["--depth=2", "--trunc=1"], "d2-b1-asan", budget=1, deadline_s=150, jobs=JOBS)
        ck.explore(S, ["--depth=3", "--trunc=1"] + sub, "d3-b1-4inits-chunk2-asan", budget=1, deadline_s=250, jobs=JOBS)
        ck.explore(S, ["--depth=3", "--trunc=1"] + grow, "d3-b1-chunk2-asan-grow", budget=1, deadline_s=150, jobs=JOBS)
    ck.finish(vlib.mc_coverage(ck.parts, RULE), assumptions=ASSUME)


def selftest(ck):
    """break the model / the environment, the oracle must fire"""
    ex = build(ck)
    bad = 0
    for st, what in ((1, "model ignores set_heart_beat(0) on self"), (2, "model forgets that an error switches the object off"),
                     (3, "logger drops one heart_beat record")):
        ck2 = vlib.Check("C11", "quick", 0, LEVEL)
        ck2.explore(ex["h_c11a"], ["--depth=2", "--init=13", "--selftest=%d" % st], "selftest%d" % st, budget=1, jobs=JOBS)
        if not ck2.fails:
            print("SELFTEST-FAILED C11 variant %d (%s) raised nothing" % (st, what)); bad = 1
        else:
            print("selftest %d ok (%s): %s" % (st, what, sorted(ck2.fails)[:3]))
    return bad
