"""C05 — after any LPC error the machine state is what it was before the failed call (DESIGN §3 C05)."""
import vlib
LEVEL = "fault_enumeration"
SRC = ["h/h_c05.c", "h/h_vmerr.c", "wrap/w_vmerr_simulate.c", "wrap/w_vmerr_errctx.c"]
STEM = ["simulate.c", "error_context.c"]

HARNESSES = {"h_c05": (SRC, dict(replace_stem=STEM))}

def build(ck):
    return {"h_c05": ck.harness("h_c05", SRC, replace_stem=STEM)}

def run(ck):
    exe = build(ck)["h_c05"]
    ck.finish({})
