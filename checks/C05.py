"""C05 — after any LPC error the machine state is what it was before the failed call (DESIGN §3 C05).

E2 + hook H1.  Nesting shapes = compositions of frame kinds (h/h_vmerr.c: vm_kinds[]); for every shape P and every
instruction boundary k = 1..N(P) the shape is re-run with a catchable error (second pass: a thrown value) raised
at dispatch k, once uncaught to a driver-style entry and once under a top-level catch (catch is also a frame kind, so
every placement of a catch inside the nesting is a shape of its own).  A third part puts 101 error sites (17 genuine error sites + 84 callback efuns with an unresolvable / wrong callback) at
the leaf of every shape.  Oracles: register snapshot at the driver entry and at every catch point that completes,
the value every catch yields, and a fixed probe evaluation compared with a fresh driver."""
import json, os
import vlib
LEVEL = "fault_enumeration"
SRC = ["h/h_c05.c", "h/h_vmerr.c", "wrap/w_vmerr_simulate.c", "wrap/w_vmerr_errctx.c", "wrap/w_backend.c", "wrap/w_vmerr_array.c"]
STEM = ["simulate.c", "error_context.c", "backend.c"]
JOBS = int(os.environ.get("VERIF_JOBS", "16"))
HARNESSES = {"h_c05": (SRC, dict(replace_stem=STEM))}


def build(ck):
    return {"h_c05": ck.harness("h_c05", SRC, profile="asan", replace_stem=STEM),
            "h_c05p": ck.harness("h_c05p", SRC, profile="plain", replace_stem=STEM)}


RULE = ("nesting shapes = all compositions up to depth D of the frame kinds K (38 kinds: call, inherited call, call_other (object, "
        "array of objects), local/functional/anonymous/efun/bound-argument function pointer, simul_efun, catch, filter (funptr, by name, "
        "mapping), map (array, mapping, string), sort_array (funptr, by name), unique_array, unique_mapping, implode with function, "
        "create() via load, global initializer via load, create() via clone, init() via move, move_or_destruct via destruct of a "
        "container, add_action verb via command() (by name, funptr with carry-over args), catch_tell via tell_object, id() via present, "
        "master applies valid_read/object_name(safe_apply)/creator_file/valid_object/valid_seteuid/valid_bind/valid_override(compile time) "
        "made by efuns); element = (shape P, uncaught | under a top-level catch, k) for EVERY k = 1..N(P) (N measured in a fault-free "
        "run): the hook raises error(\"*verif fault k\") [pass 2: throw(({1,\"t\"}))] at dispatch k; pass 'entry giver' (--giver=1): the same "
        "elements entered while a living P is this_player() (command_giver at the driver's entry and at the top-level catch); the hook destructs P "
        "right before it raises the fault, so every shape that switches the command giver (init() via move, command() verbs, catch_tell, "
        "id()) is unwound with the saved command giver destructed: afterwards command_giver must be P itself or 0, never the object the "
        "failed call had switched to; part 'sites': 101 error sites = 17 genuine error sites "
        "(error(), throw(), division by zero, index out of bounds, bad operand, call_other on 0, efun bad argument, sprintf error, "
        "index error inside foreach, too deep recursion, eval cost, stack overflow, load of a missing / non-compiling file, "
        "destruct(this_object()) then error, error between a varargs spread and its call, destruct of the entry command giver then error) and 84 leaves 'callback efun with an unresolvable / wrong callback' "
        "({filter array/mapping(+extra args), map array/mapping/string, sort_array, unique_array, unique_mapping, implode, call_out, add_action, "
        "input_to} x target {0, destructed object, unloadable file, object without that function, float target, float callback}) as the leaf of every shape; master behaviour "
        "dimension: error_handler() = plain log | evaluates catch(error(...)) and a successful catch before it logs; part 'api': the driver's "
        "own entry points called from C as backend/comm/call_out do -- safe_apply, apply, safe_call_function_pointer, call_function_pointer, "
        "apply_master_ob, safe_apply_master_ob x target {live, destructed just before / funptr whose owner is destructed} x {function "
        "exists, missing, functional funptr} x fault at EVERY dispatch k of the called function (20 scenarios, 231 elements), each followed "
        "by the snapshot comparison (21 registers incl. depth of the error-context chain and of sort_array()'s callback descriptor list, also at the point where the API returns) and the probe; part "
        "'vital': destruct(master()) / destruct(simul_efun) while the reload fails by {syntax error in the file, error in create() of the new "
        "copy, valid_object() refuses, loader without euid} x {caught, uncaught} in a private copy of the mudlib, then the file is repaired and "
        "names, find_object(), a successful destruct(master())+reload and the probe are checked (16 elements); part 'tick': one whole "
        "driver tick call_heart_beat() = heart beats of two objects, then the reset pass, the clean_up pass and the due call_outs, with "
        "the error raised inside {call_out by name, call_out by function pointer, reset(), clean_up()} of a third object: a genuine "
        "error() and a fault at EVERY dispatch k of that callback (77 elements); afterwards current_heart_beat / current_object / the "
        "registers are compared with the state before the tick, the heart beats of the two other objects must still be enabled and must "
        "run exactly once in the next tick, then the probe; part 'stackedge': \"Stack overflow\" raised by a checked one-value push with "
        "sp == end_of_stack - 1: sites {push_number, push_object, push_real, push_undefined, copy_and_push_string, share_and_push_string, "
        "push_constant_string called from C as the driver does for apply arguments (4 start alignments); LPC: push-group literal, negative byte "
        "literal, const0, const1, number literal, float literal, this_object(), efun with constant argument} x {uncaught, inside catch} x EVERY "
        "alignment 0..35 of the expression relative to the end of a 150-slot stack (recursion depth above 125 padding arguments: from 'fits' "
        "to 'overflows in the padding') x the slot at end_of_stack holds a stale {freed local string, array still held by a global} "
        "(1208 elements); afterwards registers as before, the reference count of the held array unchanged, an audit evaluation over the "
        "held values, the probe; one process per element")

ASSUME = ["driver-style entry = save_context/setjmp/restore_context/pop_context around apply(), as backend() and call_out() do",
          "num_objects_this_thread is not compared for the 32 shapes whose fault-free run already changes it (clone_object() inside a "
          "create() that runs during a load zeroes the counter, the load then decrements it to -1): not an error-path effect",
          "the probe evaluation uses its own objects; hooks armed but not consumed by the aborted shape are cleared before it "
          "(legitimate side effects performed before the error)",
          "process_input/input_to/notify_fail-function frames need an interactive connection and are exercised by C09/C12, not here",
          "catch refuses limit errors by design (C04); for those the 'catch yields the raised message' clause is not applied"]


def fix_replays(ck):
    """replay by explicit element (--elem=path/variant/k/leaf/mode) so that a replay file does not depend on the enumeration order"""
    for key, info in ck.fails.items():
        desc = (info["record"].get("desc") or "")
        first = desc.split("\n", 1)[0]
        keep = [x for x in info["args"] if x.startswith("--master=") or x.startswith("--giver=")]
        if first.startswith("elem="):
            info["args"] = ["--" + first] + keep
            info["fail"]["index"] = 0
        elif first.startswith("vital="):
            info["args"] = ["--part=vital", "--" + first] + keep
            info["fail"]["index"] = 0
        elif first.startswith("api="):
            info["args"] = ["--part=api", "--" + first] + keep
            info["fail"]["index"] = 0
        elif first.startswith("se="):
            info["args"] = ["--part=stackedge", "--" + first] + keep
            info["fail"]["index"] = 0
        elif first.startswith("tick="):
            info["args"] = ["--part=tick", "--" + first] + keep
            info["fail"]["index"] = 0


def totals(ck):
    out = {}
    for p in ck.parts:
        f = os.path.join(vlib.OUT, "%s-%s.jsonl.keys" % (ck.pid, p["part"]))
        if os.path.exists(f):
            try:
                for k, n in json.load(open(f)).items():
                    out[k] = out.get(k, 0) + n
            except Exception:
                pass
    return out


def run(ck):
    ex = build(ck)
    a, p = ex["h_c05"], ex["h_c05p"]
    J = JOBS
    if ck.tier == "quick":
        ck.enum(p, ["--depth=2", "--kinds=core", "--mode=error"], "d2-core-error", batch=64, deadline_s=100, jobs=J, timeout_ms=400000)
        ck.enum(p, ["--depth=1", "--kinds=all", "--mode=error"], "d1-all-error", batch=64, deadline_s=40, jobs=J, timeout_ms=400000)
        ck.enum(p, ["--depth=1", "--kinds=all", "--mode=throw"], "d1-all-throw", batch=64, deadline_s=40, jobs=J, timeout_ms=400000)
        ck.enum(p, ["--depth=1", "--kinds=all", "--part=sites"], "d1-sites", batch=64, deadline_s=40, jobs=J, timeout_ms=400000)
        ck.enum(a, ["--depth=1", "--kinds=all", "--mode=error"], "asan-d1-all-error", batch=32, deadline_s=60, jobs=J, timeout_ms=400000)
        ck.enum(p, ["--depth=1", "--kinds=all", "--mode=error", "--master=catch"], "d1-all-error-master-uses-catch", batch=64, deadline_s=40, jobs=J, timeout_ms=400000)
        ck.enum(p, ["--depth=1", "--kinds=all", "--mode=error", "--giver=1"], "d1-all-error-entry-giver-destructed", batch=64, deadline_s=40, jobs=J, timeout_ms=400000)
        ck.enum(p, ["--depth=1", "--kinds=all", "--part=sites", "--giver=1"], "d1-sites-entry-giver", batch=64, deadline_s=40, jobs=J, timeout_ms=400000)
        ck.enum(p, ["--part=api"], "api", batch=16, deadline_s=30, jobs=J, timeout_ms=400000)
        ck.enum(a, ["--part=api", "--master=catch"], "asan-api-master-uses-catch", batch=16, deadline_s=30, jobs=J, timeout_ms=400000)
        ck.enum(a, ["--part=vital"], "asan-vital-object-reload-fails", batch=2, deadline_s=30, jobs=J, timeout_ms=400000)
        ck.enum(p, ["--part=tick"], "tick", batch=16, deadline_s=30, jobs=J, timeout_ms=400000)
        ck.enum(a, ["--part=tick", "--master=catch"], "asan-tick-master-uses-catch", batch=16, deadline_s=30, jobs=J, timeout_ms=400000)
        ck.enum(p, ["--part=stackedge"], "stack-edge", batch=32, deadline_s=30, jobs=J, timeout_ms=400000)
        ck.enum(a, ["--part=stackedge"], "asan-stack-edge", batch=32, deadline_s=40, jobs=J, timeout_ms=400000)
    else:
        ck.enum(p, ["--part=tick"], "tick", batch=16, deadline_s=30, jobs=J, timeout_ms=400000)
        ck.enum(p, ["--part=tick", "--master=catch"], "tick-master-uses-catch", batch=16, deadline_s=30, jobs=J, timeout_ms=400000)
        ck.enum(a, ["--part=tick"], "asan-tick", batch=16, deadline_s=30, jobs=J, timeout_ms=400000)
        ck.enum(p, ["--part=stackedge"], "stack-edge", batch=32, deadline_s=30, jobs=J, timeout_ms=400000)
        ck.enum(a, ["--part=stackedge"], "asan-stack-edge", batch=32, deadline_s=40, jobs=J, timeout_ms=400000)
        ck.enum(p, ["--part=stackedge", "--master=catch"], "stack-edge-master-uses-catch", batch=32, deadline_s=30, jobs=J, timeout_ms=400000)
        ck.enum(p, ["--part=vital"], "vital-object-reload-fails", batch=2, deadline_s=30, jobs=J, timeout_ms=400000)
        ck.enum(a, ["--part=vital"], "asan-vital-object-reload-fails", batch=2, deadline_s=30, jobs=J, timeout_ms=400000)
        ck.enum(p, ["--depth=2", "--kinds=core", "--mode=error", "--master=catch"], "d2-core-error-master-uses-catch", batch=64, deadline_s=200, jobs=J, timeout_ms=400000)
        ck.enum(p, ["--depth=1", "--kinds=all", "--part=sites", "--master=catch"], "d1-sites-master-uses-catch", batch=64, deadline_s=60, jobs=J, timeout_ms=400000)
        ck.enum(p, ["--part=api"], "api", batch=16, deadline_s=30, jobs=J, timeout_ms=400000)
        ck.enum(p, ["--part=api", "--master=catch"], "api-master-uses-catch", batch=16, deadline_s=30, jobs=J, timeout_ms=400000)
        ck.enum(a, ["--part=api"], "asan-api", batch=16, deadline_s=30, jobs=J, timeout_ms=400000)
        ck.enum(p, ["--depth=2", "--kinds=core", "--mode=error", "--giver=1"], "d2-core-error-entry-giver-destructed", batch=64, deadline_s=200, jobs=J, timeout_ms=400000)
        ck.enum(p, ["--depth=1", "--kinds=all", "--mode=throw", "--giver=1"], "d1-all-throw-entry-giver-destructed", batch=64, deadline_s=60, jobs=J, timeout_ms=400000)
        ck.enum(p, ["--depth=1", "--kinds=all", "--part=sites", "--giver=1"], "d1-sites-entry-giver", batch=64, deadline_s=60, jobs=J, timeout_ms=400000)
        ck.enum(a, ["--depth=1", "--kinds=all", "--mode=error", "--giver=1"], "asan-d1-all-error-entry-giver-destructed", batch=32, deadline_s=90, jobs=J, timeout_ms=400000)
        ck.enum(p, ["--depth=2", "--kinds=all", "--mode=error"], "d2-all-error", batch=64, deadline_s=420, jobs=J, timeout_ms=400000)
        ck.enum(p, ["--depth=2", "--kinds=all", "--mode=throw"], "d2-all-throw", batch=64, deadline_s=420, jobs=J, timeout_ms=400000)
        ck.enum(p, ["--depth=3", "--kinds=mini", "--mode=error"], "d3-mini-error", batch=64, deadline_s=300, jobs=J, timeout_ms=400000)
        ck.enum(p, ["--depth=3", "--kinds=mini", "--mode=throw"], "d3-mini-throw", batch=64, deadline_s=300, jobs=J, timeout_ms=400000)
        ck.enum(p, ["--depth=2", "--kinds=all", "--part=sites"], "d2-sites", batch=64, deadline_s=120, jobs=J, timeout_ms=400000)
        ck.enum(a, ["--depth=2", "--kinds=core", "--mode=error"], "asan-d2-core-error", batch=32, deadline_s=420, jobs=J, timeout_ms=400000)
        ck.enum(a, ["--depth=1", "--kinds=all", "--mode=throw"], "asan-d1-all-throw", batch=32, deadline_s=90, jobs=J, timeout_ms=400000)
        ck.enum(a, ["--depth=1", "--kinds=all", "--part=sites"], "asan-d1-sites", batch=32, deadline_s=60, jobs=J, timeout_ms=400000)
    fix_replays(ck)
    cov = vlib.enum_coverage(ck.parts, RULE, "fault_raised",
                             extra={"fault_positions": sum(p_.get("total", 0) for p_ in ck.parts),
                                    "caught_by_catch": sum(p_.get("counters", {}).get("caught_by_catch", 0) for p_ in ck.parts),
                                    "reached_driver": sum(p_.get("counters", {}).get("reached_driver", 0) for p_ in ck.parts),
                                    "swallowed_by_safe_apply": sum(p_.get("counters", {}).get("swallowed_by_safe_apply", 0) for p_ in ck.parts),
                                    "catch_points_checked": sum(p_.get("counters", {}).get("catch_points_checked", 0) for p_ in ck.parts),
                                    "failing_elements_per_key": totals(ck)})
    ck.finish(cov, assumptions=ASSUME)


def selftest(ck):
    """break the observation (not the repo): each oracle must fire with its own key"""
    ex = build(ck)
    want = {1: "C05:sp-not-restored:driver-entry:fault-uncaught", 2: "C05:command_giver-not-restored:catch-point", 3: "C05:probe:",
            4: "C05:error_context_chain-not-restored:api:", 5: "C05:sp-not-restored:vital-reload:", 6: "C05:vital-object-not-as-before:",
            7: "C05:current_heart_beat-not-restored:tick:", 8: "C05:heart-beat-of-another-object-changed:tick:",
            9: "C05:sp-not-restored:stack-edge:", 10: "C05:reference-count-changed-by-stack-overflow:",
            11: "C05:sort_array_descriptor_chain-not-restored:driver-entry"}
    bad = 0
    for st, sub in want.items():
        ck2 = vlib.Check("C05", "quick", 0, LEVEL)
        a2 = ["--part=api"] if st == 4 else ["--part=stackedge"] if st in (9, 10) else ["--part=tick"] if st in (7, 8) else ["--part=vital"] if st in (5, 6) else ["--depth=1", "--kinds=call,catch,call_other", "--mode=error"]
        ck2.enum(ex["h_c05p"], a2 + ["--selftest=%d" % st], "selftest%d" % st, batch=64, jobs=JOBS)
        hit = [k for k in ck2.fails if sub in k]
        if ck2.broken or not hit:
            print("SELFTEST-FAILED C05 variant %d: no key containing %r (%s)" % (st, sub, ck2.broken or sorted(ck2.fails)[:5])); bad = 1
        else:
            print("selftest %d ok: %s" % (st, hit[:2]))
    return bad
