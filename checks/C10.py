"""C10 — call_out fires exactly once, on time, and can be cancelled (DESIGN §3 C10)."""
import vlib
LEVEL = "model_checking"
SRC = ["h/h_c10.c", "wrap/w_call_out.c"]

def build(ck):
    return {"h_c10": ck.harness("h_c10", SRC), "h_c10_plain": ck.harness("h_c10", SRC, profile="plain")}

RULE = ("all histories of depth D over 20 top-level ops {tick spacing 1,2,31,32,33,70; call_out delay 1,-1,2,31,32,33,64 on A; "
        "funptr call_out 1,32; call_out 2,32 on clone B; destruct B; remove by handle/by name; remove all} on the real "
        "lib/efuns/call_out.c; deviations (budget B): a call_out issued after the clock advanced but before the sweep "
        "(7 delays), and a script run inside the callback {error, call_out 1/31/32/33, funptr call_out 32, remove by "
        "handle/by name, find, destruct self}; after every op find_call_out by handle and by name is compared for every "
        "entry; lock-step reference scheduler; canonical state = wheel relative to now + model + step; the same space again with "
        "every string-named call_out of an object using ONE function name (by-name find/remove may pick any pending entry of "
        "that name: exactly one entry must disappear and the value returned must be that entry's time left)")

def run(ck):
    exe = build(ck)["h_c10"]
    if ck.tier == "quick":
        ck.explore(exe, ["--depth=3"], "d3", budget=1, deadline_s=600)
        ck.explore(build(ck)["h_c10_plain"], ["--depth=3", "--shared=1"], "d3-shared-name", budget=1, deadline_s=300)
    else:
        # sanitized build at the quick bound with one more deviation; plain build (5x cheaper fork) one step deeper
        ck.explore(exe, ["--depth=3"], "d3", budget=2, deadline_s=1200)
        ck.explore(build(ck)["h_c10_plain"], ["--depth=4"], "d4-plain", budget=1, deadline_s=1800)
        ck.explore(exe, ["--depth=3", "--shared=1"], "d3-shared-name", budget=2, deadline_s=1200)
        ck.explore(build(ck)["h_c10_plain"], ["--depth=4", "--shared=1"], "d4-shared-name-plain", budget=1, deadline_s=1800)
    ck.finish(vlib.mc_coverage(ck.parts, RULE),
              assumptions=["time is the harness's virtual clock; current_time is set and call_out() called as call_heart_beat() does",
                           "call_outs of a destructed owner are not probed with find/remove (statement only says they are dropped)",
                           "order of callbacks within one second is not constrained"])

def selftest(ck):
    """break the model / the environment, the oracle must fire"""
    import subprocess, json
    exe = build(ck)["h_c10"]
    bad = 0
    for st in (1, 2):
        ck2 = vlib.Check("C10", "quick", 0, LEVEL)
        ck2.explore(exe, ["--depth=2", "--selftest=%d" % st], "selftest%d" % st, budget=0)
        if not ck2.fails:
            print("SELFTEST-FAILED C10 variant %d raised nothing" % st); bad = 1
        else:
            print("selftest %d ok: %s" % (st, sorted(ck2.fails)[:3]))
    return bad
