"""C09 — no event history or failing task takes the driver down (DESIGN §3 C09).

The real backend() of the current tree runs on the scripted runtime of env/net.c.  One execution = one fault plan
(chosen first) + one history of external events (one event per call of async_runtime_wait) + a fixed epilogue.
Every (plan, history) pair within the bounds of a part is executed; nothing is merged or sampled."""
import vlib
LEVEL = "model_checking"
NETWRAPS = ["socket", "bind", "listen", "setsockopt", "getsockname", "accept", "recv", "send", "close", "write",
            "isatty", "tcgetattr", "tcsetattr"]
C09WRAPS = ["longjmp"]
SRC = ["h/h_c09.c", "env/net.c", "wrap/w_backend_nl.c", "wrap/w_errctx_nl.c", "wrap/w_call_out_nl.c"]

def build(ck):
    kw = dict(replace_stem=["backend.c", "error_context.c"], wraps=vlib.STD_WRAPS + NETWRAPS + C09WRAPS)
    # the same harness without sanitizer instrumentation: the explorer's (serial) fork() of an ASan process is the
    # bottleneck, the plain build explores ~5x more histories per second; it sees crashes and every oracle of the
    # harness, but not silent use-after-free
    return {"h_c09": ck.harness("h_c09", SRC, **kw), "h_c09_plain": ck.harness("h_c09_plain", SRC, profile="plain", **kw)}

RULE = ("every pair (plan, history) is executed on the real backend()/comm.c/error_context.c/call_out.c. "
        "plan = {no fault} + {task kind that raises an uncaught error() in {connect (user object's create under master "
        "connect), logon, process_input, verb via add_action, write_prompt, net_dead, heart_beat of object 0/1/2 of three, "
        "call_out chain 0/1/2 of three, reset() of object 0/1/2 of three that are due in the same sweep, clean_up() of object "
        "0/1/2 of three likewise, terminal_type (telnet suboption), input_to callback} x {1st, 2nd "
        "execution} x {once, every time from then on} x master error_handler {logs, itself raises}} + {two faults within one "
        "tick interval: heart-beat object 0/1/2 raises (at the start-up tick / the first tick of the loop), the verb `act` then "
        "switches the lost heart beats back on or destructs that object, and another task raises: the same `act` after that "
        "action, the next `act`, or the next logon} + {one hostile operation "
        "run by the verb `act`: input_to/get_char with an existing and a non-existent function, second input_to, exec() onto a "
        "new object, snoop, destruct of the command giver (verb returns 1 / 0), destruct of another user (1 / 0), "
        "remove_call_out, set_heart_beat(0), ed} x {network mode, console mode}. "
        "history = all sequences of length D over the events enabled at each wait: nothing, timer tick +1 s, timer tick +2 s "
        "(+900 s in the reset/clean_up plans), a client connects (at most M connects), console line `act` (console mode), and "
        "per connected client: data `pi`, data `ng CR LF`, data `act CR LF`, `act CR LF` followed by a silent close (the driver "
        "finds out through EPIPE), hang-up seen as recv()==0, hang-up seen as EVENT_CLOSE, IAC SB TTYPE IS x IAC SE (telnet "
        "plan); starting from a driver on which no connection was ever made (all_users == NULL), with three heart-beat "
        "objects, three call_out chains, one object with reset() and one with clean_up() created before backend() is "
        "entered. A timer tick is reported the way the epoll runtime reports async_runtime_wakeup(): one event, no context. "
        "epilogue: pending close notifications, then `.`, `Q`, `ping` from every still connected user and four more ticks, "
        "with quiet cycles in between until every buffered command is consumed")

ASSUME = ["one external event per wait (plus level-triggered write readiness); the scripted recv() hands over everything the client sent, "
          "send() accepts everything unless the client has closed (then EPIPE)",
          "console mode: stdin is a terminal (isatty()=1), so losing the console user does not stop the driver",
          "uncaught errors are raised with the error() efun; limits (eval cost, stack) are C04's subject",
          "a user whose own connect/logon raised is not expected to be served; a user whose own command raises in the "
          "epilogue (every-time faults) is not expected to get its pong",
          "total output per client stays below the 4096-byte ring (asserted)",
          "timer callbacks arrive between cycles (the timer thread itself is C19's subject)"]

def parts(tier):
    """(tag, harness, args, deadline_s)"""
    core = ["--handlers=1", "--nths=1"]
    hb2q = ["--hb2=1", "--hb2-full=0", "--hb2-modes=1"]      # two-fault family: start-up tick, second fault in `act`, network mode
    if tier == "quick":
        return [("d3-all-plain", "h_c09_plain", ["--depth=3", "--maxconn=2"], 65),
                ("d3-core-asan", "h_c09", ["--depth=3", "--maxconn=2"] + core + hb2q, 60),
                ("d4-core-plain", "h_c09_plain", ["--depth=4", "--maxconn=2", "--hb2=0"] + core, 95)]
    return [("d4-all-plain", "h_c09_plain", ["--depth=4", "--maxconn=2"], 800),
            ("d3-all-asan", "h_c09", ["--depth=3", "--maxconn=2"], 300),
            ("d4-core-asan", "h_c09", ["--depth=4", "--maxconn=2"] + core + hb2q, 650),
            ("d5-core-plain", "h_c09_plain", ["--depth=5", "--maxconn=2", "--hb2=0"] + core, 550)]

def run(ck):
    exes = build(ck)
    for tag, h, args, dl in parts(ck.tier):
        ck.explore(exes[h], args, tag, budget=0, deadline_s=dl, timeout_ms=30000)
    cov = vlib.mc_coverage(ck.parts, RULE, extra={
        "plans": "422 (211 per mode: 1 without fault + 160 single-fault plans + 36 two-fault plans + 14 hostile operations); 'core' parts use error_handler=logs, 1st execution only (110 single-fault/hostile plans) and at most the 12 two-fault plans {start-up tick, second fault in `act`, network mode}",
        "complete_reset_or_clean_up_sweeps": sum(p.get("counters", {}).get("complete_reset_or_clean_up_sweeps", 0) for p in ck.parts),
        "profiles": "parts tagged -asan run the ASan+UBSan build (memory errors of any kind are findings); parts tagged -plain run the same harness uninstrumented (crashes, exits, hangs and all harness oracles, no silent memory errors)",
        "depth_per_part": {p["part"]: p["args"] for p in ck.parts},
        "histories_completed": sum(p.get("counters", {}).get("histories_completed", 0) for p in ck.parts),
        "errors_injected": sum(p.get("counters", {}).get("errors_injected", 0) for p in ck.parts)})
    ck.finish(cov, assumptions=ASSUME)

def selftest(ck):
    """break the environment / the mudlib / the oracle's input; the oracle must fire"""
    exe = build(ck)["h_c09"]
    bad = 0
    want = {1: "C09:user-not-served", 2: "C09:healthy-heart-beat-not-called", 3: "C09:error-not-reported"}
    for st, key in want.items():
        ck2 = vlib.Check("C09", "quick", 0, LEVEL)
        # network mode, error_handler logs; connect first so that the known tick-before-connection crash is not in the way
        args = ["--depth=2", "--modes=1", "--handlers=1", "--nths=1", "--everys=1", "--hostile=0", "--selftest=%d" % st]
        ck2.explore(exe, args, "selftest%d" % st, budget=0, jobs=8)
        hit = [k for k in ck2.fails if k.startswith(key)]
        if not hit:
            print("SELFTEST-FAILED C09 variant %d did not raise %s (got %s)" % (st, key, sorted(ck2.fails)[:6])); bad = 1
        else:
            print("selftest %d ok: %s x%d" % (st, hit[0], sum(ck2.fails[k].get("count", 1) for k in hit)))
    return bad
