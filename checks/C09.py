"""C09 — no event history or failing task takes the driver down (DESIGN §3 C09)."""
import vlib
LEVEL = "model_checking"
NETWRAPS = ["socket", "bind", "listen", "setsockopt", "getsockname", "accept", "recv", "send", "close", "write",
            "isatty", "tcgetattr", "tcsetattr"]
C09WRAPS = ["longjmp"]
SRC = ["h/h_c09.c", "env/net.c", "wrap/w_backend_nl.c", "wrap/w_errctx_nl.c", "wrap/w_call_out_nl.c"]

def build(ck):
    return {"h_c09": ck.harness("h_c09", SRC, replace_stem=["backend.c", "error_context.c"], wraps=vlib.STD_WRAPS + NETWRAPS + C09WRAPS)}

def run(ck):
    exe = build(ck)["h_c09"]
    ck.explore(exe, ["--depth=3"], "d3", budget=0, deadline_s=200)
    ck.finish(vlib.mc_coverage(ck.parts, "wip"), assumptions=[])

def selftest(ck):
    return 1
