"""C13 — input framing ignores packet boundaries and survives any byte stream (DESIGN §3 C13)."""
import vlib
LEVEL = "model_checking"
NETWRAPS = ["socket", "bind", "listen", "setsockopt", "getsockname", "accept", "recv", "send", "close", "write",
            "isatty", "tcgetattr", "tcsetattr"]
SRC = ["h/h_c13.c", "env/net.c", "wrap/w_comm_scaled.c"]


def build(ck):
    kw = dict(wraps=vlib.STD_WRAPS + NETWRAPS, replace_stem=["comm.c"])
    return {"h_c13": ck.harness("h_c13", SRC, **kw),                                    # real MAX_TEXT 2048
            "h_c13s": ck.harness("h_c13s", SRC, cflags=["-DVW_MAX_TEXT=48"], **kw)}     # logical MAX_TEXT 48, same struct layout


RULE = ("real backend()/process_io()/get_user_data()/copy_chars()/get_user_command() on a scripted runtime; one execution = one fresh "
        "connection fed one byte stream cut into reads one way. (a) every stream of length <= L over the 14 symbols {a b CR LF NUL BS "
        "DEL IAC WILL DO SB SE option(NAWS/TTYPE/LINEMODE by position) 0xE4} (L=6: 8-symbol subset) x ALL 2^(len-1) segmentations x "
        "{all reads before any command turn, one command turn per read, all pending commands after each read}, on the telnet, ASCII, "
        "binary ports and the console queue: delivered command lines (and negotiation callbacks) must equal the unsegmented delivery "
        "(telnet, ASCII, binary; the console streams are run for memory safety and the buffer invariants only); "
        "delivered text must be a subsequence of the RFC 854 data bytes (no negotiation byte in a command); 'x BS' / BS at line start "
        "must equal the stream without them (metamorphic, same driver); two different fillings of the never-initialised buffers must "
        "give the same delivery; after every read and every cycle 0<=text_start<=text_end<MAX_TEXT, text[text_end]==0 (telnet, console), "
        "sb_pos<=SB_SIZE, nothing written past the logical MAX_TEXT; single-char mode for safety only. (a') every stream of length <= L' over {a b CR LF} x "
        "user object that on its k-th input line (k=0..2) raises an uncaught error | destructs itself | exec()s the connection to a new "
        "object, the lines arriving through process_input | a re-arming input_to callback | a catch-all command, x all segmentations x "
        "3 placements: lines (logged by a separate object) must equal the unsegmented delivery, and on the ASCII port the LF-separated "
        "lines exactly once in order. (b) long line a^n for every n in "
        "[0,3*MAX_TEXT] at MAX_TEXT=48 (and n within +-4 of 10 boundaries at 2048; thorough: every n) x 11 read sizes x 3 command "
        "placements followed by a short line: pieces delivered are cuts of the line, the short line arrives intact, lines <= MAX_TEXT/2 "
        "arrive whole, the connection survives. (c) bursts of k lines of m characters up to 3*MAX_TEXT bytes x read sizes x placements: "
        "every line arrives, in order. Console (b)(c): buffer invariants, the console user survives, and after everything has been handled an "
        "empty line and then a short line typed by the operator must get through. (d) IAC SB opt payload(0..SB_SIZE+3, plain / IAC IAC quoted) [IAC SE] for 5 options x 3 first "
        "bytes x 4 read sizes. ASan + UBSan(bounds,null) build")

ASSUME = ["BS/DEL editing and 'negotiation bytes never in command text' are checked on the telnet port; on the ASCII and binary ports every "
          "byte is data by definition of those ports",
          "console: the statement's first sentence names the telnet and ASCII ports, so on the console only memory safety, bounded "
          "buffering (buffer invariants), 'over-long input does not stay in the way' and survival of the console user are required",
          "which of CR LF / CR NUL / bare LF / bare NUL ends a line is not judged (the unsegmented delivery is the reference); whether an "
          "empty line is delivered at all is ignored in the BS/DEL rule",
          "binary port: one buffer per read is the interface, the concatenation of the buffers is what must not depend on the reads",
          "a line is required to arrive whole only if it is <= MAX_TEXT/2; between that and MAX_TEXT the driver may cut or discard it",
          "'several reads before a command turn' needs more than one read event per descriptor in one poll (completion-style runtime or the "
          "console queue); findings that need it carry ':only-with-several-reads-per-poll'",
          "MAX_TEXT=48 is a logical scaling inside comm.c only (wrap/w_comm_scaled.c); interactive_t keeps its layout and the unused part "
          "of text[] is a canary; every scaled sweep is paired with a run at the real 2048",
          "connections are ended by a hang-up event; the end of stream seen as recv()==0 is exercised by the small 'eof' part"]


def parts(ck):
    ex = build(ck)
    R, S = ex["h_c13"], ex["h_c13s"]
    q = ck.tier == "quick"
    P = []
    def add(exe, args, tag, batch, deadline):
        P.append((exe, args, tag, batch, deadline))
    # (a) short streams x all segmentations (console: memory safety and buffer invariants only)
    add(R, ["--family=short", "--port=telnet", "--L=%d" % (4 if q else 5)], "short-telnet", 200, 60 if q else 450)
    add(R, ["--family=short", "--port=ascii", "--L=%d" % (4 if q else 5)], "short-ascii", 200, 60 if q else 360)
    add(R, ["--family=short", "--port=binary", "--L=%d" % (3 if q else 4)], "short-binary", 200, 60)
    add(R, ["--family=short", "--port=console", "--L=%d" % (3 if q else 4)], "short-console", 100, 60 if q else 120)
    add(S, ["--family=short", "--port=telnet", "--L=%d" % (3 if q else 4)], "short-telnet-mt48", 200, 60 if q else 90)
    add(R, ["--family=single", "--port=telnet", "--L=%d" % (3 if q else 4)], "single-char", 200, 60 if q else 90)
    if not q:
        add(R, ["--family=short", "--port=telnet", "--L=6", "--alpha=8"], "short-telnet-L6a8", 100, 240)
    # (a') mudlib behaviour: on its k-th line the user object errors / destructs itself / exec()s the connection away
    for port, lq, lt in (("telnet", 5, 6), ("ascii", 5, 6), ("binary", 4, 5), ("console", 4, 5)):
        add(R, ["--family=behave", "--port=" + port, "--L=%d" % (lq if q else lt)], "behave-" + port, 100, 40 if q else 120)
    add(R, ["--family=eof", "--port=telnet", "--L=1"], "eof", 1, 30)
    # (b) long lines, (c) bursts: exhaustive at MAX_TEXT=48, boundaries (quick) / every n (thorough) at 2048
    for port in ("telnet", "ascii", "console"):
        add(S, ["--family=long", "--port=" + port], "long-%s-mt48" % port, 20, 40)
        add(S, ["--family=lines", "--port=" + port], "lines-%s-mt48" % port, 20, 40)
        add(R, ["--family=long", "--port=" + port] + (["--around=1"] if q else []), "long-%s" % port, 4, 40 if q else 240)
        add(R, ["--family=lines", "--port=" + port, "--kstep=%d" % (64 if q else 8)], "lines-%s" % port, 4, 40 if q else 100)
    # (d) sub-negotiations
    add(R, ["--family=sb"], "sb", 50, 60)
    import os
    only = os.environ.get("VERIF_PARTS")      # development aid: run a subset of the parts (the delivered tiers run all of them)
    if only:
        P = [p for p in P if (p[2] if len(p) == 5 else p[3]) in only.split(",")]
    return P


def run(ck):
    for exe, args, tag, batch, deadline in parts(ck):
        ck.enum(exe, args, tag, batch=batch, deadline_s=deadline, timeout_ms=5000)
    tot = lambda name: sum(p.get("counters", {}).get(name, 0) for p in ck.parts)
    cov = vlib.enum_coverage(ck.parts, RULE, "nontrivial", extra={
        "executions": tot("connections"), "transitions": tot("reads"), "traces_validated_against_impl": tot("deliveries_compared"),
        "commands_delivered": tot("commands_delivered"), "long_lines_delivered_whole": tot("long_lines_delivered_whole"),
        "explanation": "evaluations = streams / sweep points; executions = connections run on the real code (each stream is run once per "
                       "segmentation and command placement); transitions = recv() calls / console chunks handled by the driver"})
    ck.finish(cov, assumptions=ASSUME)


def selftest(ck):
    """break the environment (not the repo): the oracles must fire"""
    ex = build(ck)
    bad = 0
    cases = [(1, "the scripted socket loses one byte at the first read boundary", ["--family=short", "--port=telnet", "--L=3"], "commands-depend-on-read-boundaries"),
             (2, "the reference tokenizer forgets that IAC IAC is a data byte", ["--family=short", "--port=telnet", "--L=4", "--alpha=8"], "negotiation-bytes-in-command-text"),
             (3, "the harness corrupts text_end after the second read", ["--family=short", "--port=telnet", "--L=3"], "invariant:text_start<=text_end<MAX_TEXT")]
    for st, what, args, expect in cases:
        ck2 = vlib.Check("C13", "quick", 0, LEVEL)
        ck2.enum(ex["h_c13s"], args + ["--selftest=%d" % st], "selftest%d" % st, batch=200)
        hit = [k for k in ck2.fails if expect in k]
        if not hit:
            print("SELFTEST-FAILED C13 variant %d (%s) raised %s" % (st, what, sorted(ck2.fails)[:4])); bad = 1
        else:
            print("selftest %d ok (%s): %s" % (st, what, hit[:2]))
    return bad
