"""C15 — file access is confined to the mudlib and always mediated by the master (DESIGN §3 C15).

E2 enumeration on the real efuns with an interposed libc file layer (env/fs.c):
  part legal   : legal_path() against a reference on all 1 398 101 strings of length <= 10 over {a . / #}
  part paths   : 59 ops (7 of them with two users in ed at once: the master must be asked with the user who typed the
                 command) x all path strings of length <= 5 (quick) / 7 (thorough) over {a . / #}, each also behind a
                 1100-character component, x {deny, allow} for valid_read and valid_write independently; run on an
                 uninstrumented build of the same harness, and to length 4 / 5 on the sanitizer build
  part reentrant: the 48 mediated ops x 7 paths x 6 masters whose valid_read/valid_write do file I/O of their own before
                 approving with a number (read_file / file_size / get_dir / write_file / read_bytes on another path, and the
                 efun being asked about on the same path); an access must be approved for its own caller
  part faults  : every op x 7 paths x each of its first 20 libc calls failing (EIO; EXDEV on rename; EXDEV then EIO)
  part rewrite : the 49 mediated ops x master answers "rewrite to p'" for all p' of length <= 3 / 4
                 (both applies / only valid_read / only valid_write rewritten) x 3 input paths
plus two static inventories taken from the object files of the tree being checked:
  * every libc file-system entry point the driver objects import must be one that env/fs.c wraps;
  * every call site of a path-taking libc function (relocation) must have been exercised by the enumeration or
    be on the list of sites that are not reachable from LPC (start-up, logger, binaries, cross-device fallback).
"""
import glob, json, os, re, subprocess, sys
import vlib, build as B

LEVEL = "exploration"
SRC = ["h/h_c15.c", "env/fs.c"]
FS_WRAPS = open(os.path.join(B.VERIF, "env", "fs.wraps")).read().split()

# libc entry points that take a path (or run a command): whatever of these the driver imports must be wrapped
CATALOGUE = set("""open open64 openat openat64 creat creat64 fopen fopen64 freopen freopen64 stat stat64 lstat lstat64
fstatat fstatat64 newfstatat statx access faccessat euidaccess unlink unlinkat remove rename renameat renameat2 link linkat
symlink symlinkat mkdir mkdirat rmdir opendir fdopendir scandir nftw ftw chdir fchdir chroot truncate truncate64 chmod fchmodat
chown lchown fchownat readlink readlinkat realpath canonicalize_file_name utime utimes utimensat futimesat mkstemp mkostemp
mkdtemp mktemp tmpfile tmpnam tempnam popen system execl execlp execle execv execvp execve execvpe posix_spawn posix_spawnp
dlopen mkfifo mknod mknodat glob wordexp pathconf statfs statvfs mount umount unlinkat
__xstat __lxstat __xstat64 __lxstat64 __fxstatat __open_2 __open64_2 __openat_2 __realpath_chk __readlink_chk""".split())
PATH_SYMS = [w for w in FS_WRAPS if w in CATALOGUE]

# call sites of path-taking libc functions that no LPC evaluation can reach (file, function, libc symbol)
NOT_REACHABLE_FROM_LPC = {
    ("rc.cpp", "*", "*"): "configuration file, read once at start-up",
    ("logger.c", "log_message", "fopen"): "debug log named by the configuration file (LogDir/DebugLogFile), not by LPC",
    ("binaries.c", "*", "*"): "save-binary cache under the configured SaveBinaryDir; exercised by C17, names derive from program names that passed load_object",
    ("main.c", "*", "*"): "command line",
    ("edit_source.c", "*", "*"): "build-time generator",
}


def build(ck):
    exe = ck.harness("h_c15", SRC, wraps=vlib.STD_WRAPS + FS_WRAPS)
    # the same harness without sanitizer instrumentation (about 6x faster): the path oracle does not need ASan, so the
    # large bound runs on this one and the sanitizer build runs a smaller bound
    exep = ck.harness("h_c15p", SRC, profile="plain", wraps=vlib.STD_WRAPS + FS_WRAPS)
    inventory(exe)          # (re)writes build/out/C15-inventory.txt for the tree just built, so a replay sees the current facts
    return {"h_c15": exe, "h_c15p": exep}


def _objects():
    b = B.repo_dir("asan")
    return sorted(glob.glob(b + "/src/CMakeFiles/stem.dir/*.o")) + B.libs("asan")


def import_inventory():
    """libc file entry points imported by driver objects that env/fs.c does not wrap"""
    missing = {}
    for o in _objects():
        out = subprocess.run(["nm", "-u", o], stdout=subprocess.PIPE, stderr=subprocess.DEVNULL, text=True).stdout
        for line in out.splitlines():
            parts = line.split()
            if len(parts) == 2 and parts[0] == "U":
                sym = parts[1].split("@")[0]
                if sym in CATALOGUE and sym not in FS_WRAPS:
                    missing.setdefault(sym, set()).add(os.path.basename(o))
    return missing


def static_sites():
    """(file, function, symbol) -> number of call sites, from relocations"""
    sites = {}
    want = set(PATH_SYMS)
    for o in _objects():
        out = subprocess.run(["objdump", "-dr", "--no-show-raw-insn", o], stdout=subprocess.PIPE, stderr=subprocess.DEVNULL, text=True).stdout
        cur_file, func = os.path.basename(o), None
        for line in out.splitlines():
            m = re.match(r"^(\S+\.o):\s+file format", line)
            if m:
                cur_file = os.path.basename(m.group(1)); continue
            m = re.match(r"^[0-9a-f]+ <([^>]+)>:$", line)
            if m:
                func = m.group(1); continue
            m = re.search(r"R_X86_64_(?:PLT32|PC32|GOTPCREL\w*)\s+([A-Za-z_0-9]+)(?:[-+]0x[0-9a-f]+)?$", line)
            if m and m.group(1) in want and func:
                f = re.sub(r"\.o$", "", cur_file)           # e.g. file_utils.c
                f = re.sub(r"\.(c|cpp)\..*$", r".\1", f)
                func_clean = re.sub(r"\.(constprop|isra|part|cold)\.\d+", "", func)
                k = (f, func_clean, m.group(1))
                sites[k] = sites.get(k, 0) + 1
    return sites


def dynamic_sites(exe, files):
    """(file, function, symbol) -> number of distinct call sites exercised"""
    addrs = {}
    for fn in files:
        if not os.path.exists(fn):
            continue
        for line in open(fn):
            a, sym = line.split()
            addrs[a] = sym
    if not addrs:
        return {}
    keys = list(addrs)
    out = subprocess.run(["addr2line", "-a", "-i", "-f", "-e", exe] + keys, stdout=subprocess.PIPE, text=True).stdout.splitlines()
    # -a prints "0x..." before each address; -i lists inlined frames innermost first: the last pair is the real symbol
    dyn, cur, frames = {}, None, []
    def flush():
        if cur is None or not frames:
            return
        func, loc = frames[-1]
        f = os.path.basename(loc.split(":")[0])
        func = re.sub(r"\.(constprop|isra|part|cold)\.\d+", "", func)
        sym = "fprintf" if addrs.get(cur) == "vfprintf" else addrs.get(cur)
        if sym in PATH_SYMS:
            k = (f, func, sym)
            dyn[k] = dyn.get(k, 0) + 1
    i = 0
    while i < len(out):
        l = out[i].strip()
        if re.match(r"^0x[0-9a-f]+$", l):
            flush()
            cur = "0x%x" % int(l, 16); frames = []
            i += 1
            continue
        if i + 1 < len(out):
            frames.append((l, out[i + 1].strip()))
        i += 2
    flush()
    return dyn


def allowed_unreached(k):
    f, func, sym = k
    for (af, afn, asym), why in NOT_REACHABLE_FROM_LPC.items():
        if why and af == f and afn in ("*", func) and asym in ("*", sym):
            return why
    return None


INV_FILE = os.path.join(vlib.OUT, "C15-inventory.txt")
SITE_TAGS = ["legal", "rewrite", "reentrant", "faults", "paths"]


def site_files():
    return [os.path.join(vlib.OUT, "C15-%s.sites" % t) for t in SITE_TAGS]


def inventory(exe, with_sites=True):
    """facts about the object files of the tree under check -> (findings {key: msg}, notes); the findings are handed
    to the harness (part 'inventory'), so they are confirmed, replayed and looked up like any other finding"""
    finds, notes = {}, {}
    for sym, objs in sorted(import_inventory().items()):
        finds["C15:inventory:unwrapped-import:%s" % sym] = \
            "driver objects %s import %s(), which env/fs.c does not interpose: calls through it would be invisible to this check" % (sorted(objs), sym)
    st = static_sites()
    notes["path_call_sites_static"] = sum(st.values())
    if with_sites and all(os.path.exists(f) for f in site_files()):
        dy = dynamic_sites(exe, site_files())
        unreached, listed = [], []
        for k, n in sorted(st.items()):
            d = dy.get(k, 0)
            if d >= n:
                continue
            why = allowed_unreached(k)
            (listed if why else unreached).append({"file": k[0], "function": k[1], "libc": k[2], "sites": n, "exercised": d, "why": why})
        for u in unreached:
            finds["C15:inventory:call-site-not-exercised:%s:%s:%s" % (u["file"], u["function"], u["libc"])] = \
                "%d call site(s) of %s() in %s:%s(), %d exercised by the enumeration: a file access this check does not drive" % (u["sites"], u["libc"], u["file"], u["function"], u["exercised"])
        notes["path_call_sites_exercised"] = sum(min(dy.get(k, 0), n) for k, n in st.items())
        notes["path_call_sites_not_reachable_from_lpc"] = listed
        notes["path_call_sites_not_exercised"] = unreached
    os.makedirs(vlib.OUT, exist_ok=True)
    with open(INV_FILE, "w") as f:
        for k, m in sorted(finds.items()):
            f.write("%s\t%s\n" % (k, m.replace("\n", " ")))
    return finds, notes


RULE = ("every op of {read_file(1,3 args), write_file(append, overwrite), read_bytes, write_bytes, read_buffer, write_buffer, rm, mkdir, rmdir, "
        "get_dir(0,-1), stat(0,-1), file_size, file_length, tail, save_object(0,1), restore_object(0,1), dumpallobj, dump_prog(0,3), "
        "rename/cp/link with the enumerated path as source (target an existing directory / a new name) and as target, "
        "ed(file), ed then w, ed + w/W/r/e file, ed + f file + w/x, ed session saved at remove_interactive() under the name "
        "the master returns, load_object, find_object(,1), clone_object, new, call_other(string), #include \"p\" and <p> from a file in "
        "the mudlib root and in a subdirectory, inherit \"p\", the ed file commands again with a second user holding an ed session (caller = the user who typed)} x every string over {a . / #} up to the length bound, plain and behind a "
        "1100-character component, x valid_read/valid_write in {deny, allow}^2; the mediated ops x master rewrites the path to every "
        "p' up to the bound; scratch tree of 28 entries over the same alphabet rebuilt after every mutation; oracle from the log of "
        "47 interposed libc functions ordered against the master's apply log: no path call without a preceding approving apply "
        "with the right kind (write-class calls need valid_write), caller and operation name, path equal to the approved path after "
        "the documented normalisation, never absolute, no '..' component; legal_path() == reference on all strings of length <= 10")


def _run_parts(ck, exes, La, Lp, R, deadline):
    """La: path length bound on the sanitizer build, Lp: on the plain build"""
    out = vlib.OUT
    exe, exep = exes["h_c15"], exes["h_c15p"]
    def sf(tag):
        p = os.path.join(out, "C15-%s.sites" % tag)
        if os.path.exists(p):
            os.unlink(p)
        return "--sites=" + p
    ck.enum(exe, ["--part=legal", sf("legal")], "legal", batch=8, deadline_s=deadline)
    ck.enum(exe, ["--part=rewrite", "--rlen=%d" % R, sf("rewrite")], "rewrite", batch=500, deadline_s=deadline, timeout_ms=30000)
    ck.enum(exe, ["--part=reentrant", sf("reentrant")], "reentrant", batch=100, deadline_s=deadline, timeout_ms=30000)
    ck.enum(exe, ["--part=faults", sf("faults")], "faults", batch=200, deadline_s=deadline, timeout_ms=30000)
    ck.enum(exe, ["--part=paths", "--len=%d" % La, sf("paths")], "paths-asan", batch=500, deadline_s=deadline, timeout_ms=30000)
    ck.enum(exep, ["--part=paths", "--len=%d" % Lp], "paths", batch=1000, deadline_s=deadline, timeout_ms=30000)


def sweep_shm():
    """remove evaluation roots left in /dev/shm by a harness that was killed"""
    for d in glob.glob("/dev/shm/verif-fs-*"):
        try:
            pid = int(d.rsplit("-", 1)[1])
            os.kill(pid, 0)
        except ProcessLookupError:
            subprocess.run(["rm", "-rf", d])
        except Exception:
            pass


def finish(ck, notes):
    cov = vlib.enum_coverage(ck.parts, RULE, "elements_reaching_libc", extra=notes)
    cov["libc_path_calls_checked"] = sum(p.get("counters", {}).get("libc_path_calls_checked", 0) for p in ck.parts)
    cov["master_applies_seen"] = sum(p.get("counters", {}).get("master_applies_seen", 0) for p in ck.parts)
    cov["legal_path_strings"] = sum(p.get("counters", {}).get("legal_path_strings", 0) for p in ck.parts)
    ck.finish(cov, assumptions=[
        "the master's answers are data set by the harness (deny / allow / rewrite), so 'approved' is known exactly",
        "operation names accepted per efun are the conventional MudOS names (docs/applies/master/valid_*.md only say 'the calling function name'); sibling names in use today (read_bytes for read_buffer, file_size for file_length, stat for get_dir, remove_file for rm, rename for link, dumpallobj for dump_prog) are accepted",
        "stat()-class calls count as file access: a path with '..' reaching stat() is reported like one reaching open()",
        "get_dir/stat may touch the approved path and its entries; the directory that contains its last component (wild-card match) only after a failed stat() of the approved path in the same call; cp/rename into a directory use dir/basename(source)",
        "paths are bounded by the alphabet {a . / #} plus one 1100-character component; directory depth <= 3; no symlinks in the tree",
        "evaluation roots live in /dev/shm/verif-fs-<pid> (tmpfs; reachable via build/scratch/p<pid>/shm) and are removed by the harness; VERIF_FS_NO_SHM=1 keeps them under build/scratch",
    ])


def run(ck):
    sweep_shm()
    exes = build(ck)
    if ck.tier == "quick":
        _run_parts(ck, exes, 4, 5, 3, 200)
    else:
        _run_parts(ck, exes, 5, 7, 4, 2000)
    finds, notes = inventory(exes["h_c15"]) if not ck.broken else ({}, {})
    ck.enum(exes["h_c15"], ["--part=inventory", "--inv=" + INV_FILE], "inventory", batch=1)
    sweep_shm()
    finish(ck, notes)


def selftest(ck):
    """break the model / the reference / the environment: the oracle must fire each time"""
    exe = build(ck)["h_c15"]
    bad = 0
    expect = {1: ("paths", ":unmediated"), 2: ("legal", "C15:legal_path:"), 3: ("paths", ":dotdot-path")}
    for st, (part, frag) in expect.items():
        ck2 = vlib.Check("C15", "quick", 0, LEVEL)
        ck2.enum(exe, ["--part=" + part, "--len=2", "--selftest=%d" % st], "selftest%d" % st, batch=300)
        hit = [k for k in ck2.fails if frag in k]
        if st == 3:
            hit = [k for k in hit if "C15:drive:stat" in k or "drive" in k]
        if not hit:
            print("SELFTEST-FAILED C15 variant %d raised nothing matching %s (got %s)" % (st, frag, sorted(ck2.fails)[:5])); bad = 1
        else:
            print("selftest %d ok: %s" % (st, hit[:3]))
    # the import inventory must notice an unwrapped entry point
    global FS_WRAPS
    keep = FS_WRAPS
    FS_WRAPS = [w for w in keep if w != "rmdir"]
    miss = import_inventory()
    FS_WRAPS = keep
    if "rmdir" not in miss:
        print("SELFTEST-FAILED C15 import inventory did not notice an unwrapped rmdir"); bad = 1
    else:
        print("selftest inventory ok: rmdir imported by %s" % sorted(miss["rmdir"]))
    sweep_shm()
    return bad
