"""C06 — reference counts are exact: no leaks, nothing freed while referenced (DESIGN §3 C06)."""
import json, os
import vlib
LEVEL = "fault_enumeration"
SRC = ["h/h_c06.c", "h/h_vmerr.c", "wrap/w_vmerr_simulate.c", "wrap/w_vmerr_errctx.c", "wrap/w_call_out.c", "wrap/w_backend.c", "wrap/w_vmerr_array.c"]
STEM = ["simulate.c", "error_context.c", "backend.c"]
JOBS = int(os.environ.get("VERIF_JOBS", "16"))


def build(ck):
    return {"h_c06": ck.harness("h_c06", SRC, profile="asan", replace_stem=STEM),
            "h_c06p": ck.harness("h_c06p", SRC, profile="plain", replace_stem=STEM)}


RULE = ("corpus 1 = the C05 corpus: nesting shapes (compositions up to depth D of 38 frame kinds, see C05) x {uncaught, under a catch} x "
        "k = 0 (fault-free) and EVERY k = 1..N(P) with error(\"*verif fault k\") [pass 2: a thrown array] raised at dispatch k by hook H1; "
        "part 'sites': 100 error sites as the leaf of every shape, caught and uncaught: the 16 genuine error sites of C05 and 84 'callback efun "
        "with an unresolvable / wrong callback' leaves = {filter on array/mapping (also with extra args), map on array/mapping/string, sort_array, "
        "unique_array, unique_mapping, implode, call_out, add_action, input_to} x callback target {0, destructed object, unloadable file name, "
        "object without that function, a float as target, a float as callback} with ref-counted container contents (the error is raised by the "
        "efun's own argument processing, before any callback instruction); "
        "corpus 2 = sharing patterns: one array/mapping/buffer/class instance/function pointer/string/object held by r holders, "
        "r in {1,2,3,65535,65536,65537} x holder kind {array elements, mapping values, bound funptr arguments, pending call_out arguments, "
        "add_action carry-over arguments} (locals r<=3 and 60 frames, globals of r<=3 and 300 clones) x release order {ascending, descending, "
        "all at once}; r clones of one blueprint (program reference count) destructed in both orders; 3 cyclic containers (memory safety "
        "only: a reference-counting VM does not collect cycles); 4 scenarios of callbacks (call_out by name/funptr, bound and functional "
        "funptrs, add_action by name/funptr) that outlive their destructed creator; 18 zombie scenarios: an object destructs itself and, still "
        "running, calls call_out (by name, funptr), add_action (by name, funptr, carry-over args), input_to, get_char, set_heart_beat, "
        "set_living_name, enable_commands, move_object, bind, a plain call, a bound funptr, call_other, filter with extra args, clone, "
        "call_out+remove_call_out, notify_fail(function), all with ref-counted arguments; 16 scenarios of function pointers that outlive the "
        "object AND program that made them: {bindable functional, anonymous function, local funptr, functional using a global} made by a "
        "loaded object A x kept by B {as is, after bind(f, B), as pending call_out argument, as add_action carry-over argument}, A destructed, "
        "remove_destructed_objects() and a call_out sweep, then B evaluates it, then everything is released; 92 aliasing scenarios: both "
        "operands of += + -= - &= & |= | *= * and range assignment are the SAME array / mapping / string / buffer, reached through a local, a "
        "second variable, an array element, a mapping value, a global; 24 call-cache scenarios: call_other to a static / private / protected "
        "/ inherited static / inherited private / prototype-only / undefined / public function on a cold and on a filled apply cache, by name, "
        "on an array of objects and with an argument array, then the target is destructed and the cache cleared; 650 'temporaries' scenarios "
        "(gen/c06_temp_gen.py): the container operand is a TEMPORARY held only by the value stack -- source {literal aggregate, call result, sum of "
        "two, call_other result} x {mapping: index present / present-then-index / missing / by temporary array key, sizeof, keys()[0], "
        "values()[0], foreach, two indexes in one aggregate, undefinedp(index), map_delete; array: index, last, rindex, range, open range, "
        "range from end, range-then-index, index-then-index, member_array, sizeof, foreach, indexes in an aggregate; string and buffer: index, "
        "rindex, ranges, length; class instance: member, member-then-index, int member} x the value looked up {array, mapping, string, buffer, "
        "funptr, class instance} is held only by that temporary; the result is used, kept in a global, used again and dropped.  Oracle: every scenario runs 3 times in one process, "
        "each followed by destruct of everything it created, three call_out sweeps, remove_destructed_objects(), release of apply_ret_value "
        "and catch_value, clear_apply_cache(); leak <=> counter vector after run 3 != after run 2; vector = num_arrays, total_array_size, "
        "num_mappings, total_mapping_nodes, total_mapping_size, num_distinct_strings, bytes_distinct_strings, tot_alloc_object, "
        "total_num_prog_blocks, total_prog_block_size, tot_alloc_sentence, objects in obj_list, pending call_outs, value/control stack "
        "depth, ASan current allocated bytes, live allocation count (malloc/free hooks); ASan decides use-after-free/double free")

ASSUME = ["allocd_strings/allocd_bytes (string *reference* statistics) and tot_alloc_object_size are logged, not judged: in the unchanged tree "
          "they drift in fault-free runs (assign_svalue_no_free() takes a string reference without ADD_STRING while free_string_svalue() "
          "does SUB_STRING; get_empty_object(0)/dealloc_object() disagree by sizeof(svalue_t) for objects without variables)",
          "allocator bytes and live allocation count exist in the ASan passes only; the plain passes judge the driver counters",
          "input_to carry-over arguments need an interactive connection (C09/C12); add_action carry-over arguments are covered",
          "LPC arrays hold at most 65535 elements (16-bit size field), so > 65535 holders are spread over several arrays / one mapping",
          "with > 65000 pending call_outs / sentences only the release orders that do not scan linearly per removal are run",
          "cyclic containers leak by design and are not reported"]


def fix_replays(ck):
    for key, info in ck.fails.items():
        first = (info["record"].get("desc") or "").split("\n", 1)[0]
        if first.startswith("elem="):
            info["args"] = ["--" + first]; info["fail"]["index"] = 0
        elif first.startswith("share="):
            info["args"] = ["--part=share", "--" + first, "--timeout-ms=700000"]; info["fail"]["index"] = 0


def totals(ck):
    out = {}
    for p in ck.parts:
        f = os.path.join(vlib.OUT, "%s-%s.jsonl.keys" % (ck.pid, p["part"]))
        if os.path.exists(f):
            try:
                for k, n in json.load(open(f)).items():
                    out[k] = out.get(k, 0) + n
            except Exception:
                pass
    return out


def run(ck):
    ex = build(ck)
    a, p = ex["h_c06"], ex["h_c06p"]
    J = JOBS
    if ck.tier == "quick":
        ck.enum(p, ["--depth=1", "--kinds=all", "--mode=error"], "d1-all-error", batch=32, deadline_s=40, jobs=J, timeout_ms=400000)
        ck.enum(p, ["--depth=1", "--kinds=all", "--mode=throw"], "d1-all-throw", batch=32, deadline_s=40, jobs=J, timeout_ms=400000)
        ck.enum(p, ["--depth=2", "--kinds=mini", "--mode=error"], "d2-mini-error", batch=32, deadline_s=50, jobs=J, timeout_ms=400000)
        ck.enum(a, ["--depth=1", "--kinds=all", "--mode=error"], "asan-d1-all-error", batch=16, deadline_s=90, jobs=J, timeout_ms=400000)
        ck.enum(p, ["--depth=1", "--kinds=all", "--part=sites"], "d1-all-sites", batch=32, deadline_s=60, jobs=J, timeout_ms=400000)
        ck.enum(a, ["--depth=1", "--kinds=mini", "--part=sites"], "asan-d1-mini-sites", batch=16, deadline_s=60, jobs=J, timeout_ms=400000)
        ck.enum(p, ["--part=share", "--big=3", "--noclones=1"], "share-boundary", batch=2, deadline_s=150, jobs=J, timeout_ms=700000)
        ck.enum(a, ["--part=share", "--big=3", "--noclones=1"], "asan-share-boundary", batch=2, deadline_s=150, jobs=J, timeout_ms=700000)
    else:
        ck.enum(p, ["--depth=2", "--kinds=all", "--mode=error"], "d2-all-error", batch=32, deadline_s=420, jobs=J, timeout_ms=400000)
        ck.enum(p, ["--depth=2", "--kinds=all", "--mode=throw"], "d2-all-throw", batch=32, deadline_s=420, jobs=J, timeout_ms=400000)
        ck.enum(p, ["--depth=3", "--kinds=mini", "--mode=error"], "d3-mini-error", batch=32, deadline_s=300, jobs=J, timeout_ms=400000)
        ck.enum(a, ["--depth=2", "--kinds=core", "--mode=error"], "asan-d2-core-error", batch=16, deadline_s=420, jobs=J, timeout_ms=400000)
        ck.enum(a, ["--depth=1", "--kinds=all", "--mode=throw"], "asan-d1-all-throw", batch=16, deadline_s=120, jobs=J, timeout_ms=400000)
        ck.enum(p, ["--depth=2", "--kinds=mini", "--part=sites"], "d2-mini-sites", batch=32, deadline_s=200, jobs=J, timeout_ms=400000)
        ck.enum(a, ["--depth=1", "--kinds=all", "--part=sites"], "asan-d1-all-sites", batch=16, deadline_s=200, jobs=J, timeout_ms=400000)
        ck.enum(p, ["--part=share", "--big=1"], "share-all", batch=2, deadline_s=300, jobs=J, timeout_ms=700000)
        ck.enum(a, ["--part=share", "--big=2"], "asan-share-boundary", batch=2, deadline_s=200, jobs=J, timeout_ms=700000)
    fix_replays(ck)
    cov = vlib.enum_coverage(ck.parts, RULE, "fault_raised",
                             extra={"scenarios_completed": sum(p_.get("counters", {}).get("scenarios_completed", 0) for p_ in ck.parts),
                                    "runs_per_scenario": 3,
                                    "failing_elements_per_key": totals(ck)})
    cov["distinct_nontrivial"] = min(cov["evaluations"], cov["distinct_nontrivial"] + cov["scenarios_completed"])
    ck.finish(cov, assumptions=ASSUME)


def selftest(ck):
    """break the observation (not the repo): the leak oracle must fire in both corpora"""
    ex = build(ck)
    bad = 0
    for tag, args, sub in (("selftest-corpus", ["--depth=1", "--kinds=call,catch", "--mode=error", "--selftest=1"], "C06:leak:num_arrays"),
                           ("selftest-share", ["--part=share", "--big=0", "--selftest=1"], "C06:leak:num_mappings")):
        ck2 = vlib.Check("C06", "quick", 0, LEVEL)
        ck2.enum(ex["h_c06p"], args, tag, batch=32, jobs=JOBS)
        hit = [k for k in ck2.fails if sub in k]
        if ck2.broken or not hit:
            print("SELFTEST-FAILED C06 %s: no key containing %r (%s)" % (tag, sub, ck2.broken or sorted(ck2.fails)[:5])); bad = 1
        else:
            print("%s ok: %s" % (tag, hit[:2]))
    return bad
