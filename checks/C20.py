"""C20 — uid/euid change only as the master allows; without euid no object creation (DESIGN §3 C20)."""
import os
import vlib
LEVEL = "model_checking"
SRC = ["h/h_c20.c"]
JOBS = int(os.environ.get("VERIF_JOBS", "16"))   # development runs use 8


def build(ck):
    return {"h_c20": ck.harness("h_c20", SRC, profile="plain"),
            "h_c20a": ck.harness("h_c20a", SRC, profile="asan")}


RULE = ("all histories of <= D ops over {actor x in A0..A3 + the master} x {load_object / clone_object / call_other-load of a "
        "file of creator Root|BB|w1|w2, seteuid(0 | own uid | another uid | Root | own uid with the letter case flipped | \"root\" | a one-letter prefix of the own uid), export_uid(y) for every other actor incl. "
        "the master} under each of 15 master policies (valid_seteuid refuse/approve/own-uid-only x creator_file by-directory/"
        "returns 0/returns a non-string/always the backbone uid; + valid_seteuid raises an error for every request / is own-uid-only "
        "but raises for \"Root\") + creator_file always \"root\") and with masters that do not define valid_seteuid() / get_bb_uid() / creator_file() / get_root_uid() at all, starting from two driver-loaded objects (uid w1 and w2, euid 0); "
        "objects created by an op become actors (<= 4) or passive world objects; on the real lib/efuns/uids.c + "
        "give_uid_to_object/load_object/clone_object; after every op uid/euid of every object (C fields and getuid()/geteuid() "
        "efuns), the object count, the op's return value and the exact sequence of valid_seteuid/creator_file applies with "
        "arguments are compared with the lock-step (uid,euid) model; canonical state = policy + actors' (creator, clone?, uid, "
        "euid) + master (uid,euid) + loaded files")

ASSUME = ["a valid_seteuid() that raises an error, or a master without valid_seteuid(), is not an approval: the euid must not change "
          "(seteuid may return 0 or, when the master raised, pass the error on); the manual pages do not say otherwise",
          "creator_file answers that are not strings make the driver use the uid NONAME; the model contains this fallback",
          "when creator_file names the loader's own uid the new object gets that uid and euid 0 even if it is the backbone uid "
          "(the driver tests this before the backbone rule; the manual page says backbone objects get uid and euid of the loader)",
          "a backbone-trusted creation by a loader without euid (possible only for the master) must still give the object a uid: "
          "the model expects the uid named by creator_file and euid 0",
          "objects never destruct themselves; no shadows, no virtual objects"]


def run(ck):
    ex = build(ck)
    P, A = ex["h_c20"], ex["h_c20a"]
    # policies are ordered: creator_file by-directory x valid_seteuid {own, approve, refuse} come first (--ncfg=3)
    if ck.tier == "quick":
        ck.explore(P, ["--depth=4", "--cfg=0", "--kinds=2"], "d4-by-directory-own", budget=0, deadline_s=110, jobs=JOBS)
        # (the "creator_file returns a non-string" policies 9..11 behave like "returns 0": thorough tier only)
        ck.explore(P, ["--depth=3", "--cfgs=0,1,2,3,4,5,6,7,8,12,13,14", "--kinds=2"], "d3-12-policies", budget=0, deadline_s=100, jobs=JOBS)
        ck.explore(P, ["--depth=3", "--cfg=0", "--master-nv=1", "--kinds=2"], "d3-master-without-valid_seteuid", budget=0, deadline_s=15, jobs=JOBS)
        for k, what in ((2, "get_bb_uid"), (3, "creator_file"), (4, "get_root_uid")):      # --cfg=1: valid_seteuid approves
            ck.explore(P, ["--depth=2", "--cfg=1", "--master-nv=%d" % k, "--kinds=2"], "d2-master-without-" + what, budget=0, deadline_s=10, jobs=JOBS)
        ck.explore(A, ["--depth=2", "--cfgs=0,1,2,4,12,13,14", "--kinds=2"], "d2-7-policies-asan", budget=0, deadline_s=40, jobs=JOBS)
    else:
        # deadlines are sized for a heavily loaded machine (sum ~40 min); ~12 min on an idle 16-core machine
        ck.explore(P, ["--depth=5", "--cfg=0", "--kinds=2"], "d5-by-directory-own", budget=0, deadline_s=650, jobs=JOBS)
        ck.explore(P, ["--depth=4", "--cfgs=0,1,2,3,5,12,13,14", "--kinds=2"], "d4-8-policies", budget=0, deadline_s=1000, jobs=JOBS)
        ck.explore(P, ["--depth=3", "--ncfg=15", "--kinds=3"], "d3-all-policies", budget=0, deadline_s=250, jobs=JOBS)
        ck.explore(P, ["--depth=4", "--cfg=0", "--master-nv=1", "--kinds=3"], "d4-master-without-valid_seteuid", budget=0, deadline_s=100, jobs=JOBS)
        for k, what in ((2, "get_bb_uid"), (3, "creator_file"), (4, "get_root_uid")):
            ck.explore(P, ["--depth=3", "--cfg=1", "--master-nv=%d" % k, "--kinds=3"], "d3-master-without-" + what, budget=0, deadline_s=60, jobs=JOBS)
        ck.explore(A, ["--depth=3", "--cfgs=0,1,2,4,12,13,14", "--kinds=2"], "d3-7-policies-asan", budget=0, deadline_s=250, jobs=JOBS)
    ck.finish(vlib.mc_coverage(ck.parts, RULE), assumptions=ASSUME)


def selftest(ck):
    """break the model / the environment, the oracle must fire"""
    ex = build(ck)
    bad = 0
    for st, what in ((1, "model forgets that export_uid needs a target with euid 0"),
                     (2, "first master apply of an op is treated as not logged"),
                     (3, "model forgets that an object without euid cannot create objects")):
        ck2 = vlib.Check("C20", "quick", 0, LEVEL)
        ck2.explore(ex["h_c20"], ["--depth=3", "--cfg=1", "--selftest=%d" % st], "selftest%d" % st, budget=0, jobs=JOBS)
        if not ck2.fails:
            print("SELFTEST-FAILED C20 variant %d (%s) raised nothing" % (st, what)); bad = 1
        else:
            print("selftest %d ok (%s): %s" % (st, what, sorted(ck2.fails)[:3]))
    return bad
