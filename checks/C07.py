"""C07 — calls reach the right function and respect visibility, whatever came before (DESIGN §3 C07)."""
import vlib
LEVEL = "model_checking"

def build(ck):
    w = vlib.STD_WRAPS + ["load_binary"]
    return {
        "h_c07_small": ck.harness("h_c07_small", ["h/h_c07.c", "wrap/w_apply_small.c"], replace_stem=["apply.c"], wraps=w),
        "h_c07_full": ck.harness("h_c07_full", ["h/h_c07.c", "wrap/w_apply_full.c"], replace_stem=["apply.c"], wraps=w),
        "h_c07_small_plain": ck.harness("h_c07_small_plain", ["h/h_c07.c", "wrap/w_apply_small.c"], profile="plain", replace_stem=["apply.c"], wraps=w),
    }

def run(ck):
    pass

def selftest(ck):
    return 0
