"""C07 — calls reach the right function and respect visibility, whatever came before (DESIGN §3 C07).

One vx --enum element = one PROGRAM SET (inheritance graph x declaration kind of `f` per program x inherit
modifiers) under one address/id salt.  The element compiles the set on the real compiler (twice), compares
acceptance with the reference model of the inheritance rules, computes every call of the alphabet on a cold
apply cache, checks visibility + reference resolver + '::' forms on the cold results, then runs every call
history (all sequences up to a length, and every distinct apply-cache content reachable, each extended by every
call) and compares each call with its cold result.  h/h_c07.c, wrap/w_apply_{small,full}.c, mudlib/c07/.
"""
import vlib
LEVEL = "model_checking"

SRC = ["h/h_c07.c"]
N_SETS = 18572          # 216 + 5832 + 7056 + 5184 + 96 + 174 + 14 (h_c07.c: N_G1..N_G7)


def build(ck):
    w = vlib.STD_WRAPS + ["load_binary"]
    kw = dict(replace_stem=["apply.c"], wraps=w)
    return {
        "h_c07_small": ck.harness("h_c07_small", SRC + ["wrap/w_apply_small.c"], **kw),
        "h_c07_small_plain": ck.harness("h_c07_small_plain", SRC + ["wrap/w_apply_small.c"], profile="plain", **kw),
        "h_c07_full_plain": ck.harness("h_c07_full_plain", SRC + ["wrap/w_apply_full.c"], profile="plain", **kw),
    }


RULE = (
    "program sets (18572): G7 qualified super calls [T inherits every ordered pair of the file names {a, ba, ab, a_b, b, d1/a, d2/a, d1/ba} "
    "(suffix, prefix, underscore and same-basename-in-two-directories relations) x {both define f, only the first, only the second} = 168, "
    "+ {a, ba, d2/a} in all 6 orders; T contains q::f() for every q in {a, ba, ab, a_b, b} that the reference resolver can bind (first "
    "inherit in order whose file name after the last '/' is q and in which f is found) and ::f(); each is called on blueprint and clone; "
    "every q that binds nothing is compiled in a program of its own, which must be rejected = 174]; G1 A<-B [A 8 kinds x B 9 x inherit modifier 3 = 216]; G2 chain A<-B<-E [8 x 9 x 9 x 3 x 3 = 5832]; "
    "G3 diamond A<-B, A<-C, D inherits B then C [A in {public,static,private,nomask} x B,C in {absent,prototype,public,static,"
    "private,protected,prototype-before-inherit} x D in {absent,public,private,varargs} x modifiers of D's two inherits 3 x 3, "
    "B->A and C->A plain = 7056]; G4 D inherits unrelated P then Q [8 x 8 x 9 x 3 x 3 = 5184]; G6 diamond plus one level "
    "A<-B,C<-D<-E [A in {public,static,private,protected} x B,C,E in {absent,public} x E's inherit modifier 3 = 96]; G5 14 "
    "compression shapes (B overrides 1,2,254,255,256,257,258,300 inherited functions in the middle of the inherited run, 255/256 "
    "from its start; D inherits two programs and overrides runs in the middle of both, incl. 256/257). kinds of f: absent, "
    "prototype only, public, static, private, protected, nomask, varargs, prototype written before the inherit statement; "
    "inherit modifiers plain/private/static; g public in every program; every function returns its tag + a variable declared at "
    "its own level (different number of variables per level, clone's variables changed). Per accepted set: targets {most derived "
    "blueprint, intermediate blueprint(s), clone of most derived} x names {f, g, absent} x origins {call_other executed for "
    "another object (f_call_other), LPC o->f() in a caller object, apply ORIGIN_DRIVER with the shared-string name and with a C "
    "literal, apply ORIGIN_CALL_OUT, local call through tramp_f, (: f :) through fp_f, function_exists} = 46..60 calls; cold "
    "result of each; function pointers made at every level X of the most derived blueprint and of the clone ((: lfX, 'k' :), (: lfX :), "
    "(: $1 + vX :), (: f :); lfX reads X's variable and makes a local call) evaluated by the driver (call_function_pointer), by evaluate() "
    "and by a map_array callback in code of every level Y of the owner, by evaluate() in code of every level of the blueprint when the "
    "owner is the clone, and by another object - all must give the owner's value (--fp); '::f()' from every level and 'P::f()' for each parent probed on every target; the set is compiled a second "
    "time under another path (other program ids) and all cold results compared. Histories: all sequences of length <= L over the "
    "alphabet (+ [a; d], [d; a] and, for L >= 3, [a; d; b] for every call a, b and every call d = a call_other to f issued at the "
    "maximum call depth, so that the callee's frame raises 'Too deep recursion' inside apply_low; after every history the apply "
    "cache is cleared and the reference count of every name string must be back at its cold value; --extra: six more calls x on the "
    "most derived program: call_other with the path of the loaded blueprint, with the path of a copy of the program that call_other has to "
    "load first (unloaded again before every history), on ({blueprint, clone}), on ({blueprint, unloaded path}), driver apply of a "
    "function with 24 locals, and the same apply with the value stack filled so that only the callee's locals do not fit "
    "('Stack overflow' inside apply_low's fill of the cache slot): cold x, all pairs [x; y] (level 1), plus [a; x], [x; a] for the calls a "
    "of f on the most derived program (L = 2) or every call a (L >= 3) (level 2)), plus breadth-first over distinct apply-cache contents (every content x every call) to depth 8 (2-entry cache: the "
    "content space closes, counter elements_whose_cache_state_space_closed) or 3 (2048 entries). Salts: program-id parity x "
    "name-string allocation order (function tables are sorted by string address). bin parts: every set written to disk, "
    "compiled with #pragma save_binary, destructed, loaded again from the saved binaries (wrap of load_binary counts them), cold "
    "results compared with the compiled ones, then histories on the binary-loaded programs.")

ASSUME = [
    "calls are issued from the harness with the driver's entry points (apply() with ORIGIN_DRIVER / ORIGIN_CALL_OUT, f_call_other() with "
    "current_object set to a caller object, function_exists()); heart_beat / add_action origins are represented by ORIGIN_DRIVER",
    "the breadth-first part treats the content of the apply cache as the only history-carrying state (programs and object variables are not "
    "changed by the generated functions); the unpruned sequences of length <= L do not rely on that",
    "for two parents / diamonds the reference resolver implements the rule documented in compiler.c (the latest inherit with a definition "
    "wins; '::f' takes the first parent in which a definition is found); visibility of functions restricted only by an inherit "
    "modifier: call_other must not run them (reference model of copy_function's typemod rule)",
    "a cache slot left half-filled by an error is observable only while nothing evicts it: with the 2-entry cache the master's error_handler "
    "apply often lands in the same slot, so the value-stack letter is decisive in the parts with the 2048-entry cache",
    "the 14 compression shapes are run only in the ASan builds (a corrupted table crashes the plain build without attribution)",
]


def _cov(ck):
    parts = ck.parts
    def c(name):
        return sum(p.get("counters", {}).get(name, 0) for p in parts)
    return {
        "states": max(1, c("distinct_cache_states")),
        "transitions": max(1, c("state_transitions") + c("calls_in_histories")),
        "traces_validated_against_impl": c("histories"),
        "executions": c("histories"),
        "evaluations": sum(p.get("evaluations", 0) for p in parts),
        "program_sets_compiled": c("program_sets_compiled"),
        "sets_rejected_by_compiler": c("sets_rejected_by_compiler"),
        "calls_in_histories": c("calls_in_histories"),
        "super_call_and_table_probes": c("super_call_and_table_probes"),
        "programs_loaded_from_binary": c("programs_loaded_from_binary"),
        "binary_reloads_with_name_address_order_flipped": c("binary_reloads_with_name_address_order_flipped"),
        "elements_whose_cache_state_space_closed": c("elements_whose_cache_state_space_closed"),
        "elements_with_f_below_g_in_address_order": c("elements_with_f_below_g_in_address_order"),
        "exhaustive": all(p.get("exhaustive") for p in parts) if parts else False,
        "rule": RULE,
        "explanation": "every history is executed on the real apply.c / compiler / interpreter; its calls are compared with the same calls "
                       "on a cold cache (differential) and with the reference resolver; traces_validated_against_impl = histories",
    }


def run(ck):
    import os
    ex = build(ck)
    T = 120000
    # the deadlines below fit the tier limits on an idle 16-core machine (quick needs ~1000 core-seconds, thorough ~16000);
    # on a machine shared with other runs VERIF_C07_DEADLINE_SCALE=<k> stretches them so that the parts still complete
    k = float(os.environ.get("VERIF_C07_DEADLINE_SCALE", "1") or 1)
    _enum = ck.enum
    def enum(exe, args, tag, **kw):
        kw["deadline_s"] = int(kw.get("deadline_s", 0) * k)
        return _enum(exe, args, tag, **kw)
    ck.enum = enum
    # the 174 qualified-super-call sets are the last but 14 of the enumeration: a part of their own, so that a deadline elsewhere cannot cut them
    Q0, Q1 = 18384, 18558
    if ck.tier == "quick":
        ck.enum(ex["h_c07_small"], ["--len=1", "--salts=1", "--from=%d" % Q0, "--to=%d" % Q1], "qualified", batch=1, deadline_s=20, timeout_ms=T)
        ck.enum(ex["h_c07_small_plain"], ["--len=2", "--prune-depth=8", "--salts=1", "--no-compress=1", "--extra=1"], "small-l2", batch=1, deadline_s=65, timeout_ms=T)
        ck.enum(ex["h_c07_small"], ["--len=1", "--salts=1", "--deep=0", "--extra=0"], "small-l1-asan", batch=1, deadline_s=45, timeout_ms=T)
        ck.enum(ex["h_c07_full_plain"], ["--len=2", "--salts=1", "--no-compress=1", "--extra=1", "--fp=0"], "full-l2", batch=1, deadline_s=40, timeout_ms=T)
        ck.enum(ex["h_c07_small"], ["--len=1", "--salts=1", "--bin=1", "--deep=0", "--extra=0", "--fp=0"], "bin-l1", batch=1, deadline_s=45, timeout_ms=T)
    else:
        ck.enum(ex["h_c07_small"], ["--len=1", "--salts=4", "--from=%d" % (4 * Q0), "--to=%d" % (4 * Q1)], "qualified-s4", batch=1, deadline_s=60, timeout_ms=T)
        ck.enum(ex["h_c07_small"], ["--len=2", "--prune-depth=8", "--salts=4", "--extra=2"], "small-l2-s4", batch=1, deadline_s=500, timeout_ms=T)
        ck.enum(ex["h_c07_small_plain"], ["--len=3", "--salts=1", "--no-compress=1", "--extra=2"], "small-l3", batch=1, deadline_s=740, timeout_ms=T)
        ck.enum(ex["h_c07_full_plain"], ["--len=2", "--salts=4", "--no-compress=1", "--extra=1"], "full-l2-s4", batch=1, deadline_s=200, timeout_ms=T)
        ck.enum(ex["h_c07_full_plain"], ["--len=0", "--prune-depth=3", "--salts=1", "--no-compress=1", "--extra=0", "--fp=0"], "full-bfs3", batch=1, deadline_s=400, timeout_ms=T)
        ck.enum(ex["h_c07_small"], ["--len=2", "--prune-depth=8", "--salts=4", "--bin=1", "--extra=1"], "bin-l2-s4", batch=1, deadline_s=500, timeout_ms=T)
    ck.finish(_cov(ck), assumptions=ASSUME)


def selftest(ck):
    """break the model / the environment (not the repo); the oracle must fire with the expected key class"""
    ex = build(ck)
    want = {1: "C07:history:call_out:",                       # cold result of call_out(top, f) replaced: history differential must fire
            2: "C07:history:call_other:",                     # reference (cold) table corrupted for the first call of the alphabet
            3: "C07:compile:compiler-accepts-what-the-rules-reject"}   # model claims a nomask definition must be rejected
    bad = 0
    for st, prefix in want.items():
        ck2 = vlib.Check("C07", "quick", 0, LEVEL)
        ck2.enum(ex["h_c07_small"], ["--len=2", "--salts=1", "--selftest=%d" % st, "--to=216"], "selftest%d" % st, batch=1)
        hit = sorted(k for k in ck2.fails if k.startswith(prefix))
        if ck2.broken or not hit:
            print("SELFTEST-FAILED C07 variant %d raised nothing with prefix %s (%s)" % (st, prefix, ck2.broken)); bad = 1
        else:
            print("selftest %d ok: %s" % (st, hit[:3]))
    return bad
