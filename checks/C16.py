"""C16 — saved values restore to equal values; saves are atomic; restore is robust (DESIGN §3 C16).

Enumeration + fault enumeration on the real lib/lpc/object.c / mapping.c through save_variable, restore_variable,
save_object, restore_object (C entry points and efuns), with the interposed libc file layer env/fs.c:
  names   save-file name handling ("", 1-character names, .c/.o suffixes)
  chain   nesting chains of each container kind at 1, 2, limit-2 .. limit+2, 2*limit (limit = MAX_SAVE_SVALUE_DEPTH)
  leaves  13+1 ints, 6 floats, 513 strings (every byte 1..255 alone and as a?b, mixed escapes, empty, UTF-8), an object
          reference x 9 contexts,
          C entry points + efuns + save_object(0/1)/restore_object with static, inherited-static and object-valued variables
  struct  every value of {leaf | array 0..2 | mapping 0..2 | class 1..2}: thorough: depth 3 over 2 leaves (10 032 068
          values), variable and object round trip; quick: depth 2 over 2 leaves (1 828 values) likewise, and depth 3 over
          1 leaf (354 322 values) through save_variable/restore_variable
  damage  58 saved texts (quick: the first 29): every prefix, every substitution by 16 symbols, every deletion, x {restore_variable,
          restore_object, restore_object(,1)}; 3 save files likewise with 19 symbols x {clear, noclear}
  strings every string of length <= 5 (quick) / 6 (thorough) over ( { [ / " , : } ) ] \\ - . e + 1 through restore_svalue and
          safe_restore_svalue
  shapes  all 356 inheritance shapes {chain of 1, 2, 3 links, two parents, diamond} x every inherit statement declared
          {plain, static, private, static private}, every program with plain / static / private / private static
          variables: the save file names exactly the persistent variables; statics keep their value across restore
  mapkeys 335 989 integer-keyed mappings that fill and outgrow the hash table they are restored into (every subset of 16
          hash values alone / in an array / as a mapping value; 12..15 of 16 and 25..31 of 32 buckets x which keys carry the
          next hash bit) and 1..40 string keys; equality includes a lookup of every key in the restored mapping
  history driver booted with MaxArraySize 8 / MaxMappingSize 8: all histories of length 2..3 over 28 operations
          {9 texts (valid scalar / flat / nested / class, nested array and nested mapping of limit+1, top-level array of
          limit+1, damaged mid-container) x {restore_variable, restore_object, restore_object(,1)}, save_variable}; every
          step's outcome equals the outcome of the same step in a fresh process
  crash   save_object over an existing file: crash before/after each of the first 14 libc calls, each failing with
          EIO/ENOSPC, pad 10/5000/9000 bytes, save_zeros 0/1; a left-over temporary of every length
"""
import os, glob, subprocess
import vlib, build as B

LEVEL = "fault_enumeration"
SRC = ["h/h_c16.c", "env/fs.c"]
FS_WRAPS = open(os.path.join(B.VERIF, "env", "fs.wraps")).read().split()

RULE = ("values: grammar {int, float, string, array(0..2), mapping(0..2 pairs, int/string keys), class(1..2)} to depth 3 over "
        "{7} (quick) / {7, \"a\\\"b\"} (thorough), every leaf of {0, +-1, 2, 7, 255, 256, +-2^31, -2^31-1, 2^32, 2^63-1, -2^63; 0.0, 1.0, -2.5, "
        "1e-7, 1e20, 12345678.0; every byte 1..255 alone and in a?b, \"\\\"\\\\\\n\\r\", \"\", UTF-8} in 9 contexts (top, array x1 x2, mapping "
        "value, mapping key, class member, array in array, array in mapping, between empty containers), nesting chains around "
        "MAX_SAVE_SVALUE_DEPTH; oracle: svalue_save_size >= strlen+1, deep equality of types and values (floats at %g precision) "
        "after save_variable/restore_variable and after save_object/restore_object (static variables keep the pre-restore "
        "value, object variables come back 0), parser counter save_svalue_depth back to 0 and a fixed probe round trip after every "
        "operation; damaged text: every prefix / single substitution (16 symbols) / single deletion of 58 saved texts and of 3 save "
        "files, every string of length <= 5/6 over 16 structural symbols: value or LPC error, sanitizer clean, noclear keeps the "
        "old value on error; fault points: crash before/after and failure (EIO, ENOSPC) of every libc call of save_object over "
        "an existing file, left-over temporary of every length; 356 inheritance shapes x inherit modifiers: save file content "
        "== persistent variables; 335 989 table-filling mappings with every key looked up after restore; all 22 736 histories of length 2..3 over 28 restore/save operations "
        "with MaxArraySize/MaxMappingSize 8 (a restore refused by error() inside a nested container): each step's outcome equals "
        "that of the same step in a fresh process: save file byte-identical to the old or the complete new one, "
        "return value agrees")


def build(ck):
    return {"h_c16": ck.harness("h_c16", SRC, wraps=vlib.STD_WRAPS + FS_WRAPS)}


def sweep_shm():
    for d in glob.glob("/dev/shm/verif-fs-*"):
        try:
            pid = int(d.rsplit("-", 1)[1])
            os.kill(pid, 0)
        except ProcessLookupError:
            subprocess.run(["rm", "-rf", d])
        except Exception:
            pass


def _parts(ck, exe, quick, deadline):
    ck.enum(exe, ["--part=names"], "names", batch=2, deadline_s=deadline)
    ck.enum(exe, ["--part=chain"], "chain", batch=2, deadline_s=deadline)
    ck.enum(exe, ["--part=leaves"], "leaves", batch=60, deadline_s=deadline)
    ck.enum(exe, ["--part=crash"], "crash", batch=8, deadline_s=deadline, timeout_ms=30000)
    ck.enum(exe, ["--part=history"], "history", batch=100, deadline_s=deadline, timeout_ms=30000)
    ck.enum(exe, ["--part=shapes"], "shapes", batch=10, deadline_s=deadline, timeout_ms=30000)
    ck.enum(exe, ["--part=mapkeys"], "mapkeys", batch=20, deadline_s=deadline, timeout_ms=60000)
    if quick:
        ck.enum(exe, ["--part=damage", "--ntexts=29"], "damage", batch=200, deadline_s=deadline)
        ck.enum(exe, ["--part=strings", "--slen=5"], "strings", batch=16, deadline_s=deadline, timeout_ms=60000)
        ck.enum(exe, ["--part=struct", "--nl=2", "--depth=2"], "struct-d2", batch=8, deadline_s=deadline, timeout_ms=60000)
        ck.enum(exe, ["--part=struct", "--nl=1", "--depth=3", "--objrt=0"], "struct-d3", batch=40, deadline_s=deadline, timeout_ms=60000)
    else:
        ck.enum(exe, ["--part=damage"], "damage", batch=200, deadline_s=deadline)
        ck.enum(exe, ["--part=strings", "--slen=6"], "strings", batch=16, deadline_s=deadline, timeout_ms=60000)
        ck.enum(exe, ["--part=struct", "--nl=2", "--depth=3"], "struct-d3", batch=40, deadline_s=deadline, timeout_ms=60000)


def run(ck):
    sweep_shm()
    exe = build(ck)["h_c16"]
    _parts(ck, exe, ck.tier == "quick", 200 if ck.tier == "quick" else 2000)
    sweep_shm()
    cov = vlib.enum_coverage(ck.parts, RULE, "elements_done")
    for name in ("values_or_texts", "restores_refused", "restores_accepted", "crash_points", "failing_calls",
                 "size_table_retained", "elements_ended_by_memory_error"):
        cov[name] = sum(p.get("counters", {}).get(name, 0) for p in ck.parts)
    # fault_enumeration evidence: injection points
    cov["fault_points"] = cov["crash_points"] + cov["failing_calls"]
    ck.finish(cov, assumptions=[
        "a crash is modelled at libc-call boundaries (_exit without flushing stdio); the oracle reads only <name>.o, which a save touches with one rename()",
        "floats are compared at the printed (%g) precision, as the statement says",
        "every element runs in its own process, which ends at its first sanitizer report (what a process does after a wild access is not reproducible); the count is reported as elements_ended_by_memory_error and is 0 on a tree without memory errors; a block of 256 structural strings is one element",
        "a retained size table (save_svalue_sizes != NULL with the counter at 0) is not counted as 'not at rest'; it is reported as size_table_retained",
        "the locale is C.UTF-8 (hx_boot), as in a normally started driver; byte strings that are not valid UTF-8 are part of the alphabet",
        "evaluation directories live in /dev/shm/verif-fs-<pid> (tmpfs) and are removed by the harness",
    ])


def mut_run(ck, exes):
    """small bounds for the seeded-mutation runs"""
    exe = exes["h_c16"]
    ck.enum(exe, ["--part=names"], "m-names", batch=2)
    ck.enum(exe, ["--part=chain"], "m-chain", batch=2)
    ck.enum(exe, ["--part=leaves"], "m-leaves", batch=60)
    ck.enum(exe, ["--part=crash"], "m-crash", batch=8)
    ck.enum(exe, ["--part=history"], "m-history", batch=100)
    ck.enum(exe, ["--part=shapes"], "m-shapes", batch=10)
    ck.enum(exe, ["--part=mapkeys"], "m-mapkeys", batch=20)
    ck.enum(exe, ["--part=damage"], "m-damage", batch=200)
    ck.enum(exe, ["--part=strings", "--slen=4"], "m-strings", batch=16)
    ck.enum(exe, ["--part=struct", "--nl=1", "--depth=2"], "m-struct", batch=4)


def selftest(ck):
    exe = build(ck)["h_c16"]
    bad = 0
    for st, part, frag in ((1, "leaves", "C16:selftest:value-changed"), (2, "crash", "save-file-neither-old-nor-new"), (3, "strings", "C16:selftest:parser-state-not-reset"),
                           (4, "history", "C16:history:")):
        ck2 = vlib.Check("C16", "quick", 0, LEVEL)
        args = ["--part=" + part, "--selftest=%d" % st] + (["--slen=3"] if part == "strings" else [])
        ck2.enum(exe, args + (["--to=40"] if part == "leaves" else ["--to=300"] if part == "history" else []), "selftest%d" % st, batch=8)
        hit = [k for k in ck2.fails if frag in k]
        if not hit:
            print("SELFTEST-FAILED C16 variant %d raised nothing matching %s (got %s)" % (st, frag, sorted(ck2.fails)[:6])); bad = 1
        else:
            print("selftest %d ok: %s" % (st, hit[:2]))
    sweep_shm()
    return bad
