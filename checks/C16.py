"""C16 — saved values restore to equal values; saves are atomic; restore is robust (DESIGN §3 C16)."""
import os, glob, subprocess
import vlib, build as B
LEVEL = "fault_enumeration"
SRC = ["h/h_c16.c", "env/fs.c"]
FS_WRAPS = open(os.path.join(B.VERIF, "env", "fs.wraps")).read().split()

def build(ck):
    return {"h_c16": ck.harness("h_c16", SRC, wraps=vlib.STD_WRAPS + FS_WRAPS)}

def run(ck):
    exe = build(ck)["h_c16"]
    ck.enum(exe, ["--part=chain"], "chain", batch=4)
    ck.finish(vlib.enum_coverage(ck.parts, "wip", "elements_done"))

def selftest(ck):
    return 0
