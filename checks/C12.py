"""C12 — buffered commands are served fairly: one per user per cycle, nobody starves (DESIGN §3 C12).

The real backend()/comm.c of the current tree run on the scripted runtime of env/net.c; one execution = one
arrangement of users, connection slots, per-user queues and arrival patterns, evaluated cycle by cycle from the
log the user objects write (cycle = one call of the wait hook).  `plain` profile: the statement is about
scheduling, memory safety of the same loop is C09's subject."""
import vlib
LEVEL = "model_checking"
NETWRAPS = ["socket", "bind", "listen", "setsockopt", "getsockname", "accept", "recv", "send", "close", "write",
            "isatty", "tcgetattr", "tcsetattr"]
SRC = ["h/h_c12.c", "env/net.c"]

def build(ck):
    return {"h_c12": ck.harness("h_c12", SRC, profile="plain", wraps=vlib.STD_WRAPS + NETWRAPS)}

RULE = ("every arrangement is executed on the real backend()/get_user_command()/process_user_command(): "
        "{no console user, console user in slot 0} x {every subset of three network users that connected into slots 1,2,3 "
        "stays, the others hang up before the first command: all layouts of <= 3 live network users in slots 1..3 with "
        "gaps, slot 0 empty or console} x per live user a queue script {0,1,2,3 complete lines} x {no, one trailing "
        "partial line} x {everything in one chunk in cycle 1, one line per cycle} (13 scripts; 6 for the console user, whose "
        "input is whole lines; quick tier: 3 console scripts {none, two lines one per cycle, three lines in one chunk}); "
        "deviations (budget B, each costs 1): single-character mode (get_char, re-armed by its callback) per network user; "
        "one special first line of one user {`m`: a verb that calls command() three times, `q`: the user destructs itself "
        "in its command, `i`/`g`: the handler calls input_to(fn, F) / get_char(fn, F) with flags word F while the same user "
        "has further lines typed ahead, F in {0x1000, 0x7fffffff, 0x80} for input_to and {0x1000} for get_char (thorough: "
        "all of 0,1,2,4,0x10,0x20,0x40,0x80,0x100,0x400,0x800,0x1000,0x7fffffff for both), offered for the first user with "
        ">= 2 lines; `e`/`x`/`j`: the line raises an uncaught error in process_input / in its verb / in the input_to callback "
        "that receives the user's second line, with further lines queued behind (first user with >= 2, for `j` >= 3 lines)}; "
        "one mid-cycle event {a new user connects in cycle c and sends a line in the next cycle, a live user "
        "hangs up (EVENT_CLOSE) in cycle c, the peer of a live user whose output is still pending (send() answered "
        "EWOULDBLOCK since it connected) vanishes in cycle c without any event: the flush inside the command scan gets "
        "EPIPE} for c in 1..4 (quick tier: 1..2); long backlog: one line-mode network user pastes 300 numbered lines in one "
        "write in cycle 1 (1800 bytes: beyond the buffer-shift threshold of get_user_data() and beyond MAX_TEXT; read piecewise "
        "over the following cycles, readiness level-triggered, ~300 cycles until drained) while every other user has 0 or 1 "
        "complete line: {trailing partial line, unbounded reads} and {no partial, <= 97 bytes per read}, offered for the first "
        "live network user (thorough: also 120 lines, all four partial/read-size combinations, every eligible user, the "
        "other users with any of their scripts). 4 arrival cycles + 1 for the late "
        "user's line + quiet cycles until every queue is empty (<= 6). Per cycle: <= 1 buffered command per user; every "
        "connected user with a complete command buffered when the command phase starts is served in that cycle; per-user "
        "order and content; the three command() calls run inside the turn of `m`; the wait is entered with timeout 0 while "
        "a complete command is buffered")

ASSUME = ["an uncaught error in a command ends that cycle's command phase (longjmp to the top of the loop): users not yet served in it "
          "are expected in the next cycle, which the loop enters without blocking (counted: turns_put_off_by_an_uncaught_error)",
          "a command counts as buffered from the cycle whose process_io() received its last byte",
          "single-character mode: every buffered byte is a complete command; the callback may be handed several bytes at once",
          "modes do not change while input is buffered (get_char is armed at logon and re-armed by its callback)",
          "hang-ups are reported as EVENT_CLOSE (the recv()==0 path is C09's subject); a user whose peer vanished is not required to be served any more, the others are",
          "no timer ticks during the arrangement (heart beats do not take part in command selection)"]

def run(ck):
    exe = build(ck)["h_c12"]
    if ck.tier == "quick":
        # two passes over the same base arrangements, the small deviation classes first so that a deadline hit under
        # machine load cuts into the bulk, not into them (the union is what --dev=63 explores; the base is run twice)
        q = ["--midcycles=2", "--console-scripts=3"]
        ck.explore(exe, q + ["--dev=116"], "b1-flags-vanish-backlog-errors", budget=1, deadline_s=100)
        ck.explore(exe, q + ["--dev=11"], "b1-cmode-mq-connect-hangup", budget=1, deadline_s=110)
    else:
        ck.explore(exe, ["--full-flags=1", "--full-backlog=1"], "b2-full", budget=2, deadline_s=2000)
    cov = vlib.mc_coverage(ck.parts, RULE, extra={
        "arrangements_completed": sum(p.get("counters", {}).get("arrangements_completed", 0) for p in ck.parts),
        "buffered_commands_served": sum(p.get("counters", {}).get("buffered_commands_served", 0) for p in ck.parts),
        "cycles_evaluated": sum(p.get("counters", {}).get("cycles_evaluated", 0) for p in ck.parts),
        "turns_put_off_by_an_uncaught_error": sum(p.get("counters", {}).get("turns_put_off_by_an_uncaught_error", 0) for p in ck.parts),
        "backlog_runs_in_shift_region": sum(p.get("counters", {}).get("backlog_runs_in_shift_region", 0) for p in ck.parts)})
    ck.finish(cov, assumptions=ASSUME)

def selftest(ck):
    """1: the environment loses user a's first chunk (the model thinks it was delivered); 2: the mudlib's verb `m`
    issues only two of its three command() calls.  The oracle must fire in both."""
    exe = build(ck)["h_c12"]
    bad = 0
    want = {1: ("C12:user-with-command-not-served", []), 2: ("C12:command-efun-limited", ["--force-m=1"])}
    for st, (key, extra) in want.items():
        ck2 = vlib.Check("C12", "quick", 0, LEVEL)
        ck2.explore(exe, ["--selftest=%d" % st, "--max-exec=6000"] + extra, "selftest%d" % st, budget=0, jobs=8)
        if key not in ck2.fails:
            print("SELFTEST-FAILED C12 variant %d did not raise %s (got %s)" % (st, key, sorted(ck2.fails)[:6])); bad = 1
        else:
            print("selftest %d ok: %s x%d" % (st, key, ck2.fails[key].get("count", 1)))
    return bad
