"""C08 — object names, inventories and destruction stay consistent (DESIGN §3 C08)."""
import os
import vlib
LEVEL = "model_checking"
SRC = ["h/h_c08.c", "wrap/w_backend.c", "wrap/w_otable.c", "wrap/w_object.c"]
JOBS = int(os.environ.get("VERIF_JOBS", "16"))   # development runs use 8


def build(ck):
    kw = dict(replace_stem=["backend.c"])
    return {"h_c08": ck.harness("h_c08", SRC, profile="plain", **kw),
            "h_c08a": ck.harness("h_c08a", SRC, profile="asan", **kw)}


RULE = ("all histories of <= D top-level ops over the ops enabled in the current world {load a, load b (inherits a: loads a on "
        "the way), load b vetoed by master valid_object, clone a (<= 2 clones), move(x,y) for all ordered pairs of live objects "
        "incl. x=y and into own inventory, destruct(x), enable_commands+set_living_name(x) (two names that collide in the living "
        "hash, shared by two objects each), set_heart_beat+call_out(x), command \"v\" by a living x (every init() adds the verb, "
        "so all sentences are tried), move_object(\"<name>\") by x with a destination that is not loaded (loaded inside the efun; its "
        "create() chain runs the hook scripts), loading a|b through call_other / first_inventory / tell_room by name, present(\"thing\", x) "
        "(id() applied in every item, scripted), [shape parts: O->poke(kill(O)), tell_object(O, kill(O)), present(O, kill(O)->env), "
        "take(O, kill(O)): a later argument destructs an object pending on the stack with an older reference in a local; call_out carrying O as first/second extra argument to an efun-pointer callback (: call_other :) or a named callback, O possibly destructed before it is due], tick (real call_heart_beat: heart beats + call_out sweep), remove_destructed_objects} from 4 "
        "initial worlds (empty / 3 objects flat / chain c in a in b with a living / two siblings in a, one living with timers); "
        "population <= 4 (blueprints a b, 2 clones; a destructed blueprint may be loaded again under its name); deviations "
        "(budget B) decided at the entry of every create/init/move_or_destruct/verb/heart_beat/call_out-callback/id hook: the hook's script {error(), move(any -> "
        "any) 16, destruct(any) 4, load a|b, clone, become living, any object (the one being destructed, the hook owner, another) calls set_heart_beat(1) 4, verb returns 1 (+ after destructing itself)}; an object "
        "destructed in the middle of one of its own functions then tries enable_commands/set_living_name/set_heart_beat/call_out/"
        "add_action/move_object on itself; epilogue: cleanup, tick, a command by every living object, cleanup; ObjectHashSize 2 / "
        "4 / default.  After every step: (1) walker over obj_list, the name hash (wrapper TU), super/contains/next_inv, "
        "obj_list_destruct, hashed_living, the heart-beat list and the sentence lists; (2) abstract world (driven by the ops and "
        "the begin/end records of the LPC side, with the documented move_or_destruct protocol) vs the driver structures; (3) "
        "find_object/environment/all_inventory/first+next_inventory/deep_inventory/present/objects()/livings()/find_living() and "
        "array-slot/mapping-value/variable references read through LPC vs the abstract world; (4) at the first instruction of "
        "every hook (H1): the called object and this_player() are not destructed.  Canonical state = abstract world + inventory "
        "order + sentence lists + heart-beat order + living-hash chains + sentence free-list length + cleanup backlog + step")

ASSUME = ["ops are carried out by a registry object on behalf of the population (call_other from a destructed object is a no-op, so "
          "an object cannot report what it does after its own destruction)",
          "cloning a program switches off the heart beat of its blueprint (clone_object does so on purpose); the model contains this",
          "the driver destructs an inventory item that did not move in move_or_destruct only while it is still the first item; an "
          "unmoved item nested in a destruct that was itself issued from a move_or_destruct hook makes the driver raise 'Only "
          "this_object() can be destructed from move_or_destruct' and abandon the whole destruct (state stays consistent); the "
          "model contains both rules",
          "input_to is not in the alphabet (needs an interactive connection; C09/C12 cover the connection side)",
          "errors raised while a scripted hook deviation is in flight are accepted as long as every invariant holds afterwards"]


def run(ck):
    ex = build(ck)
    P, A = ex["h_c08"], ex["h_c08a"]
    if ck.tier == "quick":
        ck.explore(P, ["--depth=3", "--ohash=2"], "d3-b1-hash2", budget=1, deadline_s=105, jobs=JOBS)
        ck.explore(P, ["--depth=2", "--ohash=2", "--init=2"], "d2-b2-hash2-world2", budget=2, min_budget=2, deadline_s=45, jobs=JOBS)
        ck.explore(P, ["--depth=2", "--ohash=2", "--shapes=1"], "d2-b1-hash2-arg-shapes", budget=1, deadline_s=35, jobs=JOBS)
        ck.explore(P, ["--depth=2", "--ohash=3"], "d2-b0-hash4", budget=0, deadline_s=10, jobs=JOBS)
        ck.explore(P, ["--depth=2", "--ohash=0"], "d2-b0-hash-default", budget=0, deadline_s=10, jobs=JOBS)
        ck.explore(A, ["--depth=2", "--ohash=2", "--init=3"], "d2-b1-hash2-world3-asan", budget=1, deadline_s=40, jobs=JOBS)
    else:
        # sized for a heavily loaded machine (~1.9 M executions, deadlines sum < 40 min); ~10 min on an idle 16-core machine
        ck.explore(P, ["--depth=4", "--ohash=2"], "d4-b0-hash2", budget=0, deadline_s=60, jobs=JOBS)
        ck.explore(P, ["--depth=4", "--ohash=2", "--init=2"], "d4-b1-hash2-world2", budget=1, min_budget=1, deadline_s=450, jobs=JOBS)
        ck.explore(P, ["--depth=3", "--ohash=2"], "d3-b1-hash2", budget=1, min_budget=1, deadline_s=200, jobs=JOBS)
        ck.explore(P, ["--depth=2", "--ohash=2"], "d2-b2-hash2", budget=2, min_budget=2, deadline_s=200, jobs=JOBS)
        ck.explore(P, ["--depth=2", "--ohash=0"], "d2-b2-hash-default", budget=2, min_budget=2, deadline_s=200, jobs=JOBS)
        ck.explore(P, ["--depth=3", "--ohash=2", "--init=2"], "d3-b2-hash2-world2", budget=2, min_budget=2, deadline_s=520, jobs=JOBS)
        ck.explore(P, ["--depth=2", "--ohash=2", "--shapes=1"], "d2-b1-hash2-arg-shapes", budget=1, deadline_s=60, jobs=JOBS)
        ck.explore(P, ["--depth=3", "--ohash=2", "--shapes=1", "--init=3"], "d3-b1-hash2-arg-shapes-world3", budget=1, min_budget=1, deadline_s=230, jobs=JOBS)
        ck.explore(P, ["--depth=3", "--ohash=3"], "d3-b1-hash4", budget=1, min_budget=1, deadline_s=200, jobs=JOBS)
        ck.explore(A, ["--depth=2", "--ohash=2", "--shapes=1", "--init=3"], "d2-b1-hash2-arg-shapes-world3-asan", budget=1, deadline_s=140, jobs=JOBS)
    ck.finish(vlib.mc_coverage(ck.parts, RULE), assumptions=ASSUME)


def selftest(ck):
    """break the model / the environment, the oracle must fire"""
    ex = build(ck)
    bad = 0
    for st, what in ((1, "model loses the moves of O2"), (2, "model never destructs O1"),
                     (3, "a destructed object is put back into the name hash behind the driver's back")):
        ck2 = vlib.Check("C08", "quick", 0, LEVEL)
        ck2.explore(ex["h_c08"], ["--depth=2", "--ohash=2", "--init=2", "--selftest=%d" % st], "selftest%d" % st, budget=0, jobs=JOBS)
        if not ck2.fails:
            print("SELFTEST-FAILED C08 variant %d (%s) raised nothing" % (st, what)); bad = 1
        else:
            print("selftest %d ok (%s): %s" % (st, what, sorted(ck2.fails)[:4]))
    return bad
