"""C08 — object names, inventories and destruction stay consistent (DESIGN §3 C08)."""
import os
import vlib
LEVEL = "model_checking"
SRC = ["h/h_c08.c", "wrap/w_backend.c", "wrap/w_otable.c", "wrap/w_object.c"]
JOBS = int(os.environ.get("VERIF_JOBS", "16"))   # development runs use 8


def build(ck):
    kw = dict(replace_stem=["backend.c"])
    return {"h_c08": ck.harness("h_c08", SRC, profile="plain", **kw),
            "h_c08a": ck.harness("h_c08a", SRC, profile="asan", **kw)}


RULE = "TBD"
ASSUME = []


def run(ck):
    ex = build(ck)
    P, A = ex["h_c08"], ex["h_c08a"]
    if ck.tier == "quick":
        ck.explore(P, ["--depth=3", "--ohash=2"], "d3-hash2", budget=1, deadline_s=150, jobs=JOBS)
    else:
        ck.explore(P, ["--depth=4", "--ohash=2"], "d4-hash2", budget=1, deadline_s=1500, jobs=JOBS)
    ck.finish(vlib.mc_coverage(ck.parts, RULE), assumptions=ASSUME)


def selftest(ck):
    return 1
