"""lpcref — reference semantics of the LPC core for C03 (independent of the driver).

Values:  int -> Python int (int64), float -> Python float, string -> bytes, array -> list,
mapping -> dict (int/bytes keys only), buffer -> Buf.  The undefined-0 of a missing mapping key is 0
(the harness text is normalised the same way).

ref functions return a value, raise LErr(cls) for a runtime error of class cls in
{div0, type, index, other}, or raise RefUndef where docs/manual/lpc.md does not define the outcome
(the comparison with the reference is then skipped and counted)."""
import math, struct

INT_MIN = -(1 << 63)
INT_MAX = (1 << 63) - 1


class LErr(Exception):
    def __init__(self, cls):
        Exception.__init__(self, cls)
        self.cls = cls


class RefUndef(Exception):
    pass


class Buf(bytes):
    pass


def wrap(x):
    x &= (1 << 64) - 1
    return x - (1 << 64) if x >> 63 else x


def tname(v):
    if isinstance(v, bool):
        return 'i'
    if isinstance(v, int):
        return 'i'
    if isinstance(v, float):
        return 'f'
    if isinstance(v, Buf):
        return 'b'
    if isinstance(v, bytes):
        return 's'
    if isinstance(v, list):
        return 'a'
    if isinstance(v, dict):
        return 'm'
    raise TypeError(v)


TYPE_WORD = {'i': 'int', 'f': 'real', 's': 'string', 'a': 'array', 'm': 'mapping', 'b': 'buffer'}


# ------------------------------------------------------------------ canonical text (same as hx_canon)
def canon(v):
    t = tname(v)
    if t == 'i':
        return b'%d' % v
    if t == 'f':
        if v != v:
            return b'fnan'
        return ('f%.17g' % v).encode()
    if t == 's':
        out = bytearray(b'"')
        for c in v:
            if c == 0x22 or c == 0x5c:
                out += b'\\' + bytes([c])
            elif c < 0x20 or c == 0x7f:
                out += b'\\x%02x' % c
            else:
                out.append(c)
        out += b'"'
        return bytes(out)
    if t == 'a':
        return b'({' + b','.join(canon(x) for x in v) + b'})'
    if t == 'm':
        ent = sorted(canon(k) + b':' + canon(x) for k, x in v.items())
        return b'([' + b','.join(ent) + b'])'
    if t == 'b':
        return b'buf:' + b''.join(b'%02x' % c for c in v[:64])
    raise TypeError(v)


def normalise(text):
    """harness canonical text -> comparison form: drop the 'u' (undefined) tag of numbers outside strings,
    unify NaN spellings"""
    if b'u' not in text and b'nan' not in text:
        return text
    out = bytearray()
    i, n = 0, len(text)
    instr = False
    while i < n:
        c = text[i]
        if instr:
            out.append(c)
            if c == 0x5c and i + 1 < n:
                out.append(text[i + 1])
                i += 1
            elif c == 0x22:
                instr = False
        elif c == 0x22:
            instr = True
            out.append(c)
        elif c == 0x75 and i + 1 < n and (text[i + 1] == 0x2d or 0x30 <= text[i + 1] <= 0x39):
            pass
        elif text.startswith(b'f-nan', i):
            out += b'fnan'
            i += 4
        else:
            out.append(c)
        i += 1
    return bytes(out)


# ------------------------------------------------------------------ operators
def truth(v):
    """LPC truth value; float 0.0 is not defined by the manual"""
    if isinstance(v, float) and v == 0.0:
        raise RefUndef()
    return not (isinstance(v, int) and v == 0)


def c_double(v):
    return float(v)


def fdiv(a, b):
    try:
        return a / b
    except OverflowError:
        return math.copysign(math.inf, a) * math.copysign(1.0, b)


def fmul(a, b):
    try:
        return a * b
    except OverflowError:
        return math.inf


def num_cmp(op, a, b):
    if isinstance(a, float) or isinstance(b, float):
        a, b = c_double(a), c_double(b)
    return int({'<': a < b, '<=': a <= b, '>': a > b, '>=': a >= b, '==': a == b, '!=': a != b}[op])


ARITH = ('+', '-', '*', '/')
INTOPS = ('%', '&', '|', '^', '<<', '>>')
ORDER = ('<', '<=', '>', '>=')
EQ = ('==', '!=')


def binop(op, a, b):
    ta, tb = tname(a), tname(b)
    num = ta in 'if' and tb in 'if'
    if op in ORDER:
        if num:
            return num_cmp(op, a, b)
        if ta == 's' and tb == 's':
            return int({'<': a < b, '<=': a <= b, '>': a > b, '>=': a >= b}[op])
        raise LErr('type')
    if op in EQ:
        if num:
            return num_cmp(op, a, b)
        if ta == 's' and tb == 's':
            return int((a == b) == (op == '=='))
        if ta != tb:
            return int(op == '!=')
        # arrays, mappings, buffers compare by identity; two constructor expressions never denote the same one
        # (whether two empty arrays are the same array is not specified)
        if ta == 'a' and not a and not b:
            raise RefUndef()
        return int(op == '!=')
    if op == '+':
        if ta == 'i' and tb == 'i':
            return wrap(a + b)
        if num:
            return c_double(a) + c_double(b)
        if ta == 's' and tb == 's':
            return a + b
        if ta == 's' and tb == 'i':
            return a + (b'%d' % b)
        if ta == 'i' and tb == 's':
            return (b'%d' % a) + b
        if (ta == 's' and tb == 'f') or (ta == 'f' and tb == 's'):
            raise RefUndef()            # float formatting is not specified
        if ta == 'a' and tb == 'a':
            return a + b
        if ta == 'b' and tb == 'b':
            return Buf(a + b)
        if ta == 'm' and tb == 'm':
            if set(a) & set(b):
                raise RefUndef()
            r = dict(a)
            r.update(b)
            return r
        raise LErr('type')
    if op == '-':
        if ta == 'i' and tb == 'i':
            return wrap(a - b)
        if num:
            return c_double(a) - c_double(b)
        if ta == 'a' and tb == 'a':
            return [x for x in a if not any(type(x) == type(y) and x == y for y in b)]
        raise LErr('type')
    if op == '*':
        if ta == 'i' and tb == 'i':
            return wrap(a * b)
        if num:
            return fmul(c_double(a), c_double(b))
        if ta == 'm' and tb == 'm':
            raise RefUndef()
        raise LErr('type')
    if op == '/':
        if not num:
            raise LErr('type')
        if b == 0:
            raise LErr('div0')
        if ta == 'i' and tb == 'i':
            if a == INT_MIN and b == -1:
                raise RefUndef()
            q = abs(a) // abs(b)
            return wrap(q if (a < 0) == (b < 0) else -q)
        return fdiv(c_double(a), c_double(b))
    if op in INTOPS:
        if op == '&' and ta == 'a' and tb == 'a':
            raise RefUndef()
        if ta != 'i' or tb != 'i':
            raise LErr('type')
        if op == '%':
            if b == 0:
                raise LErr('div0')
            if a == INT_MIN and b == -1:
                raise RefUndef()
            r = abs(a) % abs(b)
            return -r if a < 0 else r
        if op == '&':
            return a & b
        if op == '|':
            return a | b
        if op == '^':
            return a ^ b
        if b < 0 or b >= 64:
            raise RefUndef()
        if op == '<<':
            return wrap(a << b)
        return a >> b
    if op == '&&':
        return b if truth(a) else 0
    if op == '||':
        return a if truth(a) else b
    raise ValueError(op)


def unop(op, a):
    ta = tname(a)
    if op == '-':
        if ta == 'i':
            return wrap(-a)
        if ta == 'f':
            return -a
        raise LErr('type')
    if op == '~':
        if ta == 'i':
            return ~a
        raise LErr('type')
    if op == '!':
        if ta == 'i':
            return int(a == 0)
        if ta == 'f' and a == 0.0:
            raise RefUndef()
        return 0
    raise ValueError(op)


# ------------------------------------------------------------------ indexing / ranging
def size_of(c):
    return len(c)


def index(c, i, rev=False):
    tc = tname(c)
    if tc == 'm':
        if rev:
            raise LErr('type')
        if isinstance(i, (list, dict, float)):
            raise RefUndef()
        return c.get(i, 0)
    if tc == 'i' or tc == 'f':
        raise LErr('type')
    if tname(i) != 'i':
        raise LErr('type')
    n = len(c)
    k = wrap(n - i) if rev else i
    if tc == 's' and k == n:
        raise RefUndef()                # historic: the terminating 0 is readable; the manual is silent
    if k < 0 or k >= n:
        raise LErr('index')
    return c[k]


def empty_like(c):
    tc = tname(c)
    return [] if tc == 'a' else (Buf(b'') if tc == 'b' else b'')


def rng(c, i, j, ri=False, rj=False, old=True):
    """c[i..j] with optional '<' on either bound; j None = open end.  OLD_RANGE_BEHAVIOR (old) applies to
    strings and buffers: a negative bound counts from the end ('<' is applied first)."""
    tc = tname(c)
    if tc not in 'sab':
        raise LErr('type')
    if tname(i) != 'i' or (j is not None and tname(j) != 'i'):
        raise LErr('type')
    n = len(c)
    frm = wrap(n - i) if ri else i
    to = n - 1 if j is None else (wrap(n - j) if rj else j)
    if old and tc in 'sb':
        if frm < 0:
            frm += n
        if to < 0:
            to += n
    if frm < 0:
        frm = 0
    if to > n - 1:
        to = n - 1
    if to < frm or frm >= n:
        return empty_like(c)
    r = c[frm:to + 1]
    return Buf(r) if tc == 'b' else r


def rng_assign(c, i, j, v, ri=False, rj=False):
    """c[i..j] = v  ==  c[0..i-1] + v + c[j+1..]; i in 0..size, j in -1..size-1, no negative translation"""
    tc = tname(c)
    if tc not in 'sab':
        raise LErr('type')
    if tname(i) != 'i' or tname(j) != 'i':
        raise LErr('type')
    n = len(c)
    x = wrap(n - i) if ri else i
    y = wrap(n - j) if rj else j
    if y < -1 or y > n - 1:
        raise LErr('index')
    if x < 0 or x > n:
        raise LErr('index')
    if tname(v) != tc:
        raise LErr('type')
    r = c[:x] + v + c[y + 1:]
    return Buf(r) if tc == 'b' else r


def index_assign(c, i, v, rev=False):
    """returns the new container value"""
    tc = tname(c)
    if tc == 'm':
        if rev:
            raise LErr('type')
        r = dict(c)
        r[i] = v
        return r
    if tc not in 'sab':
        raise LErr('type')
    if tname(i) != 'i':
        raise LErr('type')
    n = len(c)
    k = wrap(n - i) if rev else i
    if k < 0 or k >= n:
        raise LErr('index')
    if tc == 'a':
        r = list(c)
        r[k] = v
        return r
    if tname(v) != 'i':
        raise LErr('type')
    b = v & 0xff
    if tc == 's' and b == 0:
        raise LErr('other')
    r = c[:k] + bytes([b]) + c[k + 1:]
    return Buf(r) if tc == 'b' else r
