#!/usr/bin/env python3
"""C18 case generator: places a failing statement and records where it put it.

Every case is a small mudlib (files under c18/t<id>/), the function to call and the generator's ground truth:
one FRAME line (file, line, function, object, program) per call that is active when the statement fails,
outermost first.  Nothing here looks at the driver; the harness (h/h_c18.c) compares the driver's report with it.

usage: c18.py <quick|thorough> > cases.txt        (prints the number of cases per slice on stderr)
"""
import sys, itertools

FAILS = {                       # statement, expected text in the error
    "error": ('error("E18");', "E18"),
    "index": ('zz = ({ })[zi];', ""),          # zi = 5 at run time: index out of bounds
    "div": ('zz = 7 / zd;', ""),               # zd = 0 at run time: division by zero
}
GLOBALS = "mixed zz; int zi = 5; int zd; int zf;"

out = sys.stdout
counts = {}
cid = 0


class Case:
    def __init__(self, slice_, label, ctx="plain"):
        global cid
        self.id = cid; cid += 1
        self.dir = "c18/t%d" % self.id
        self.label = "%s %s ctx=%s" % (slice_, label, ctx)
        self.files = {}
        self.frames = []
        self.load = "/" + self.dir + "/main"
        self.call = "f0"
        self.bin = 0
        self.err = ""
        self.run = None
        self.preload = []
        self.prelude = None
        counts[slice_] = counts.get(slice_, 0) + 1

    def path(self, name): return self.dir + "/" + name
    def prog(self, name="main"): return self.dir + "/" + name + ".c"
    def ob(self, name="main"): return self.dir + "/" + name

    def frame(self, file, line, fn, ob=None, prog=None, fp=0):
        # fp=1: the call was made through a function pointer; the driver shows such a call as a pseudo frame
        # (<function>, program <function>, no file, line 0) followed by the frame of the called function
        self.frames.append((file, line, fn, ob or self.ob(), prog or self.prog(), fp))

    def emit(self):
        w = out.write
        add_prelude(self)
        # appended after everything else (no line above moves): a call chain that leaves other functions in the first
        # five control-stack slots; the harness runs it between two identical failing calls (the second one is served
        # from the driver's function-lookup cache)
        tail = "mixed zo4() { return 0; } mixed zo3() { return zo4(); } mixed zo2() { return zo3(); } mixed zo1() { return zo2(); } mixed zother() { return zo1(); }\n"
        mp = self.path("main.c")
        if mp in self.files and "zother" not in self.files[mp] and "ctx=file-end" not in self.label and not self.files[mp].rstrip().endswith("\\"):
            self.files[mp] = self.files[mp] + tail
        w("CASE %d %s\n" % (self.id, self.label))
        for p, c in self.files.items():
            b = c.encode("latin-1")
            w("FILE %s %d\n" % (p, len(b))); w(c); w("\n")
        if self.prelude: w("PRELUDE %s\n" % self.prelude)
        for o in self.preload: w("PRELOAD %s\n" % o)
        w("LOAD %s\nCALL %s\nBIN %d\n" % (self.load, self.call, self.bin))
        if self.run: w("RUN %s %d %d\n" % self.run)
        for f in self.frames: w("FRAME %s %d %s %s %s %d\n" % f)
        if self.err: w("ERR %s\n" % self.err)
        w("END\n")


def lines_to_text(lines):
    return "\n".join(lines) + "\n"


# what is compiled right before the case (the expectation does not depend on it)
PRELUDES = ("none", "valid-with-initialisers", "initialisers-then-syntax-error", "syntax-error-in-include", "missing-inherit")
current_prelude = "none"


def add_prelude(c):
    """files of the prelude program of case c; the harness loads it (ignoring the outcome) before the case"""
    k = current_prelude
    if k == "none": return
    c.label += " prelude=" + k
    d = c.dir + "/pre"
    init = ["int pa = 1;", "", "mixed pb = ({ 1,", "  2 });", "int pc = pa + 5;", "", "", "mapping pd = ([ 1 : 2 ]);", "function pe = (: $1 + pa :);", "int pf() { return pa; }"]
    if k == "valid-with-initialisers": src = init
    elif k == "initialisers-then-syntax-error": src = init + ["int broken( { return 1; }", "int pg = 7;"]
    elif k == "syntax-error-in-include":
        c.files[d + "/bad.h"] = lines_to_text(["int ha = 3;", "int hb = ha +;", "int hc;"])
        src = init[:4] + ['#include "bad.h"'] + init[4:]
    else: src = ['inherit "/%s/does_not_exist";' % d] + init
    c.files[d + "/prelude.c"] = lines_to_text(src)
    c.prelude = "/" + d + "/prelude"


# ---------------------------------------------------------------- slice 1: the statement at line L of the main file
def slice_line(tier):
    Ls = list(range(1, 41)) + [254, 255, 256, 257, 258, 510, 511, 512, 513, 514, 32766, 32767, 32768, 32769]
    for L in Ls:
        for kind, (stmt, err) in FAILS.items():
            fills = ["blank", "comment"] + (["code"] if L >= 4 else [])
            for fill in fills:
                if L > 1000 and fill != "blank" and tier == "quick": continue
                c = Case("line", "L=%d fail=%s fill=%s" % (L, kind, fill), ctx="line-above-32767" if L > 32767 else "line")
                if L == 1:
                    src = [GLOBALS + " mixed f0() { " + stmt + " return 0; }"]
                elif L == 2:
                    src = [GLOBALS + " mixed f0() {", stmt, "return 0; }"]
                else:
                    # line 1: globals, lines 2..L-2: filler, line L-1: function header, line L: the statement
                    n = L - 3
                    if fill == "blank": pre = [""] * n
                    elif fill == "comment": pre = ["// filler %d" % i for i in range(n)]
                    else:
                        k = min(n, 300)
                        pre = ["void p%d() { zd = %d; zd = 0; }" % (i, i) for i in range(k)] + [""] * (n - k)
                    src = [GLOBALS] + pre + ["mixed f0() {", stmt, "return 0; }"]
                c.files[c.path("main.c")] = lines_to_text(src)
                c.frame(c.prog(), L, "f0")
                c.err = err
                c.emit()


# ---------------------------------------------------------------- slice 2: includes before / around the statement
def inc_chain(c, tag, nlines, depth):
    """creates include files tag_0.h (included by the main file) … tag_<depth>.h; the innermost has nlines filler lines.
    returns (name of the outermost file, name of the innermost file, number of lines of the innermost file)"""
    names = ["%s_%d.h" % (tag, d) for d in range(depth + 1)]
    for d, nm in enumerate(names):
        if d < depth:
            c.files[c.path(nm)] = lines_to_text(["// level %d of %s" % (d, tag), '#include "%s"' % names[d + 1], "// after nested include"])
        else:
            body = []
            for i in range(nlines):
                body.append(("// %s filler %d" % (tag, i)) if i % 3 else ("void q_%s_%d();" % (tag, i)))
            c.files[c.path(nm)] = lines_to_text(body) if body else ""
    return names[0], names[-1], nlines


def slice_include(tier):
    shapes = [(n, d) for n in (0, 1, 300) for d in (0, 1, 2, 3)]
    for ninc in (0, 1, 2, 3):
        combos = list(itertools.product(shapes, repeat=ninc))
        if tier == "quick" and ninc == 3:
            # quick: the third include varies over all shapes, the first two over the (lines) dimension at nesting 0 and 3
            combos = [cb for cb in combos if cb[0][1] in (0, 3) and cb[1][1] in (0, 3)]
        for cb in combos:
            for place in ("after", "in-include-fn", "in-include-stmt"):
                if place != "after" and ninc == 0: continue
                for kind in (("error",) if (tier == "quick" and ninc >= 2) else FAILS.keys()):
                    stmt, err = FAILS[kind]
                    lab = "n=%d shapes=%s place=%s fail=%s" % (ninc, "/".join("%dx%d" % s for s in cb), place, kind)
                    c = Case("include", lab, ctx="include" if place != "after" else "after-include")
                    main = [GLOBALS]
                    inner_of_last = None
                    for j, (nl, dp) in enumerate(cb):
                        last = (j == ninc - 1)
                        if last and place == "in-include-fn":
                            # the innermost file of the last include holds a whole function with the failing statement at its line nl+2
                            o, inn, k = inc_chain(c, "i%d" % j, nl, dp)
                            txt = c.files[c.path(inn)]
                            txt += lines_to_text(["mixed inc_fail() {", stmt, "return 0; }"])
                            c.files[c.path(inn)] = txt
                            inner_of_last = (inn, nl + 2)
                            main.append('#include "%s"' % o)
                        elif last and place == "in-include-stmt":
                            continue
                        else:
                            o, inn, k = inc_chain(c, "i%d" % j, nl, dp)
                            main.append('#include "%s"' % o)
                    if place == "after":
                        main += ["mixed f0() {", stmt, "return 0; }"]
                        c.frame(c.prog(), len(main) - 1, "f0")
                    elif place == "in-include-fn":
                        main += ["mixed f0() {", "return inc_fail();", "}"]
                        c.frame(c.prog(), len(main) - 1, "f0")
                        c.frame(c.path(inner_of_last[0]), inner_of_last[1], "inc_fail")
                    else:
                        # the last include is a piece of the function body
                        nl, dp = cb[-1]
                        o, inn, k = inc_chain(c, "b", nl, dp)
                        # statement-level include: filler must be statements/comments, not prototypes
                        body = [("// body filler %d" % i) if i % 3 else "zd = 0;" for i in range(nl)] + [stmt]
                        c.files[c.path(inn)] = lines_to_text(body)
                        main += ["mixed f0() {", '#include "%s"' % o, "return 0; }"]
                        c.frame(c.path(inn), nl + 1, "f0")
                    c.files[c.path("main.c")] = lines_to_text(main)
                    c.err = err
                    c.emit()


# ---------------------------------------------------------------- slice 3: long runs of generated code before the statement
S3, S5 = "zf++;", "zf=zf;"      # 3 and 5 bytes of code (checked by the harness against the program's own line table)


def filler(nbytes):
    for n5 in range(0, 3):
        r = nbytes - 5 * n5
        if r >= 0 and r % 3 == 0: return S3 * (r // 3) + S5 * n5
    raise ValueError(nbytes)


def slice_codelen(tier):
    lens = list(range(240, 271)) + [509, 510, 511, 512, 513, 764, 765, 766, 767, 768]
    for n in lens:
        for kind, (stmt, err) in FAILS.items():
            for place in ("next-line", "same-line", "two-long-lines"):
                c = Case("codelen", "bytes=%d place=%s fail=%s" % (n, place, kind), ctx="long-line")
                main = [GLOBALS, "mixed f0() {"]
                if place == "next-line":
                    main += [filler(n), stmt, "return 0; }"]; L = 4
                elif place == "same-line":
                    main += [filler(n) + " " + stmt, "return 0; }"]; L = 3
                else:
                    main += [filler(n), filler(n), stmt, "return 0; }"]; L = 5
                c.files[c.path("main.c")] = lines_to_text(main)
                if place != "same-line": c.run = (c.prog(), 3, n)
                c.frame(c.prog(), L, "f0")
                c.err = err
                c.emit()


# ---------------------------------------------------------------- slice 4: where the statement lives
def slice_context(tier):
    for kind, (stmt, err) in FAILS.items():
        for pad in (0, 1, 7):           # blank lines in front, so that not everything sits on small line numbers
            P = [""] * pad
            # inherited program
            c = Case("context", "inherited pad=%d fail=%s" % (pad, kind), ctx="inherited")
            c.files[c.path("base.c")] = lines_to_text(P + [GLOBALS, "mixed bfail() {", stmt, "return 0; }"])
            c.files[c.path("main.c")] = lines_to_text(['inherit "/%s/base";' % c.dir, "", "mixed f0() {", "return bfail();", "}"])
            c.frame(c.prog(), 4, "f0"); c.frame(c.prog("base"), pad + 3, "bfail", prog=c.prog("base"))
            c.err = err; c.emit()
            # inherited, called through ::
            c = Case("context", "inherited-colon pad=%d fail=%s" % (pad, kind), ctx="inherited")
            c.files[c.path("base.c")] = lines_to_text(P + [GLOBALS, "mixed f0() {", stmt, "return 0; }"])
            c.files[c.path("main.c")] = lines_to_text(['inherit "/%s/base";' % c.dir, "mixed f0() {", "", "return ::f0();", "}"])
            c.frame(c.prog(), 4, "f0"); c.frame(c.prog("base"), pad + 3, "f0", prog=c.prog("base"))
            c.err = err; c.emit()
            # anonymous function
            c = Case("context", "anonymous pad=%d fail=%s" % (pad, kind), ctx="function-literal")
            c.files[c.path("main.c")] = lines_to_text(P + [GLOBALS, "mixed f0() {", "function f = function() {", stmt, "return 0; };", "return evaluate(f);", "}"])
            c.frame(c.prog(), pad + 6, "f0"); c.frame(c.prog(), pad + 4, "<function>", fp=1)
            c.err = err; c.emit()
            # expression functional  (: … :)   (expression forms only)
            if kind != "error" or True:
                expr = {"error": 'error("E18")', "index": "({ })[zi]", "div": "7 / zd"}[kind]
                c = Case("context", "functional pad=%d fail=%s" % (pad, kind), ctx="function-literal")
                c.files[c.path("main.c")] = lines_to_text(P + [GLOBALS, "mixed f0() {", "function f;", "", "f = (: " + expr + " :);", "", "return evaluate(f);", "}"])
                c.frame(c.prog(), pad + 7, "f0"); c.frame(c.prog(), pad + 5, "<function>", fp=1)
                c.err = err; c.emit()
            # global initialiser (code is generated into __INIT)
            expr = {"error": 'error("E18")', "index": "({ })[zi]", "div": "7 / zd"}[kind]
            c = Case("context", "initializer pad=%d fail=%s" % (pad, kind), ctx="global-initializer")
            c.files[c.path("main.c")] = lines_to_text(P + ["mixed zz; int zi = 5; int zd; int zf;", "int ok1 = 1;", "", "mixed bad = " + expr + ";", "int ok2 = 2;", "mixed f0() { return 0; }"])
            c.frame(c.prog(), pad + 4, "#global_init#")
            c.err = err; c.emit()
            # foreach body / switch body / loop bodies
            for body, name, off in (("foreach (mixed e in ({ 1, 2 })) {", "foreach", 1), ("switch (zi) { case 5:", "switch", 1), ("while (zi) {", "while", 1),
                                    ("for (int i = 0; i < 2; i++) {", "for", 1), ("if (zi == 5) {", "if", 1), ("if (zi != 5) { zd = 0; } else {", "else", 1)):
                c = Case("context", "%s pad=%d fail=%s" % (name, pad, kind), ctx=name + "-body")
                c.files[c.path("main.c")] = lines_to_text(P + [GLOBALS, "mixed f0() {", body, stmt, "}", "return 0; }"])
                c.frame(c.prog(), pad + 4, "f0")
                c.err = err; c.emit()
            # after a macro definition spanning lines and after a macro call spanning lines
            c = Case("context", "macro-def pad=%d fail=%s" % (pad, kind), ctx="after-multiline-macro")
            c.files[c.path("main.c")] = lines_to_text(P + [GLOBALS, "#define M(a, b) ((a) + \\", "   (b) + \\", "   1)", "mixed f0() {", "zz = M(1, 2);", stmt, "return 0; }"])
            c.frame(c.prog(), pad + 7, "f0")
            c.err = err; c.emit()
            c = Case("context", "macro-call pad=%d fail=%s" % (pad, kind), ctx="after-multiline-macro")
            c.files[c.path("main.c")] = lines_to_text(P + [GLOBALS, "#define M(a, b) ((a) + (b))", "mixed f0() {", "zz = M(1,", "   2", " );", stmt, "return 0; }"])
            c.frame(c.prog(), pad + 7, "f0")
            c.err = err; c.emit()
            # after a string / text block / comment spanning lines
            c = Case("context", "multiline-literals pad=%d fail=%s" % (pad, kind), ctx="after-multiline-literal")
            c.files[c.path("main.c")] = lines_to_text(P + [GLOBALS, "mixed f0() {", 'zz = "two', 'lines";', "zz = @TXT", "text", "block", "TXT", ";", "/* comment", "   spanning */", stmt, "return 0; }"])
            c.frame(c.prog(), pad + 12, "f0")
            c.err = err; c.emit()
            # catch: the error is caught; the handler still gets the report (caught = 1)
            c = Case("context", "inside-catch pad=%d fail=%s" % (pad, kind), ctx="catch")
            c.files[c.path("main.c")] = lines_to_text(P + [GLOBALS, "mixed f0() {", "zd = 0;", "zz = catch { " + stmt + " };", 'error("AFTER");', "}"])
            c.frame(c.prog(), pad + 4, "f0"); c.frame(c.prog(), pad + 4, "CATCH")
            c.err = err; c.emit()
            # after loading from a saved binary: plain, inherited, include
            c = Case("binary", "plain pad=%d fail=%s" % (pad, kind), ctx="saved-binary")
            c.files[c.path("main.c")] = lines_to_text(P + ["#pragma save_binary", GLOBALS, "mixed f0() {", "zd = 0;", stmt, "return 0; }"])
            c.frame(c.prog(), pad + 5, "f0"); c.bin = 1
            c.err = err; c.emit()
            c = Case("binary", "include+inherit pad=%d fail=%s" % (pad, kind), ctx="saved-binary")
            c.files[c.path("base.c")] = lines_to_text(["#pragma save_binary"] + P + [GLOBALS, "mixed bfail() {", stmt, "return 0; }"])
            c.files[c.path("h.h")] = lines_to_text(["// header"] * 5 + ["mixed hfail() {", "return bfail();", "}"])
            c.files[c.path("main.c")] = lines_to_text(["#pragma save_binary", 'inherit "/%s/base";' % c.dir, '#include "h.h"', "mixed f0() {", "return hfail();", "}"])
            c.frame(c.prog(), 5, "f0"); c.frame(c.path("h.h"), 7, "hfail"); c.frame(c.prog("base"), pad + 4, "bfail", prog=c.prog("base")); c.bin = 1
            c.err = err; c.emit()


# ---------------------------------------------------------------- slice 4b: code that is not emitted in source order, and line breaks inside expressions
EXPRS = {"error": None, "index": "({ })[zi]", "div": "7 / zd"}


def slice_loops(tier):
    """loop conditions and increments (their code is emitted after the body) raising the error, directly and as the call site of a failing function;
    headers on one line and spread over several lines; bodies of 0, 1 and 3 lines"""
    for kind, (stmt, err) in FAILS.items():
        for how in ("expression", "call"):
            if how == "expression" and EXPRS[kind] is None: continue
            bad = EXPRS[kind] if how == "expression" else "thrower()"
            for nbody in (0, 1, 3):
                body = ["zf = %d;" % i for i in range(nbody)]
                shapes = [
                    ("while-condition", ["while (%s) {" % bad], ["}"], 0),
                    ("while-condition-second-round", ["while (n++ < 1 || %s) {" % bad], ["}"], 0),
                    ("do-while-condition", ["do {"], ["} while (%s);" % bad], "tail"),
                    ("for-condition", ["for (n = 0; %s; n++) {" % bad], ["}"], 0),
                    ("for-increment", ["for (n = 0; n < 2; n += %s) {" % bad], ["}"], 0),
                    ("for-init", ["for (n = %s; n < 2; n++) {" % bad], ["}"], 0),
                    ("for-condition-own-line", ["for (n = 0;", "     n < 1 && %s;" % bad, "     n++) {"], ["}"], 1),
                    ("for-increment-own-line", ["for (n = 0;", "     n < 2;", "     n += %s) {" % bad], ["}"], 2),
                    ("while-condition-own-line", ["while (n < 5 &&", "       %s) {" % bad], ["}"], 1),
                    ("foreach-source", ["foreach (mixed e in ({ 1, %s })) {" % bad], ["}"], 0),
                    ("if-condition", ["if (%s) {" % bad], ["}"], 0),
                    ("else-if-condition", ["if (zd) {", "zf = 9;", "} else if (%s) {" % bad], ["}"], 2),
                    ("switch-expression", ["switch (%s) {" % bad, "case 1:"], ["}"], 0),
                    ("ternary-second-line", ["zz = zd ? 1 :", "     %s;" % bad, "{"], ["}"], 1),
                    ("nested-loop-outer-condition", ["while (%s) {" % bad, "while (zd) {", "zf = 7;", "}"], ["}"], 0),
                ]
                for name, head, tail, where in shapes:
                    if nbody == 0 and how == "expression" and name in ("if-condition", "else-if-condition"): continue    # an if without a body: the compiler drops the test
                    c = Case("loops", "%s body=%d via=%s fail=%s" % (name, nbody, how, kind), ctx="loop-header")
                    L = [GLOBALS, "mixed thrower() {", stmt, "return 1; }", "", "mixed f0() {", "int n;"]
                    start = len(L)
                    L += head + body + tail
                    line = (len(L) if where == "tail" else start + 1 + where)
                    L += ["return 0; }"]
                    c.files[c.path("main.c")] = lines_to_text(L)
                    c.frame(c.prog(), line, "f0")
                    if how == "call": c.frame(c.prog(), 3, "thrower")
                    c.err = err; c.emit()


BREAKS = [   # an expression statement with a line break directly after a token (name, lines)
    ("functional-open", ["zz = (:", "$1 + 1 :);"]),
    ("functional-open-two-breaks", ["zz = (:", "", "$1 + 1 :);"]),
    ("functional-open-then-comment", ["zz = (: // c", "$1 + 1 :);"]),
    ("functional-inside", ["zz = (: $1 +", "1 :);"]),
    ("functional-close", ["zz = (: $1 + 1", ":);"]),
    ("functional-name", ["zz = (:", "f1 :);"]),
    ("functional-name-args", ["zz = (: f1,", "2 :);"]),
    ("functional-dollar-paren", ["zz = (: $(", "zi) :);"]),
    ("array-open", ["zz = ({", "1, 2 });"]),
    ("mapping-open", ["zz = ([", '"a" : 1 ]);']),
    ("paren-open", ["zz = (", "1 + 2);"]),
    ("call-open", ["zz = allocate(", "3);"]),
    ("comma", ["zz = ({ 1,", "2 });"]),
    ("arrow", ["zz = this_object()->", "f1(2);"]),
    ("efun-scope", ["zz = efun::", "sizeof(({ }));"]),
    ("string-plus", ['zz = "a" +', '"b";']),
    ("question", ["zz = zi ?", "1 :", "2;"]),
    ("range", ["zz = ({ 1, 2, 3 })[0..", "1];"]),
    ("anonymous-function", ["zz = function(int a) {", "return a; };"]),
    ("catch-open", ["zz = catch(", "zf = 1);"]),
    ("char-plus", ["zz = 'a' +", "1;"]),
    ("comment-in-expression", ["zz = 1 // c", "+ 2;"]),
    ("block-comment-in-expression", ["zz = 1 /* c", "c */ + 2;"]),
    ("assign", ["zz =", "5;"]),
    ("index-open", ["zz = ({ 1, 2 })[", "1];"]),
    ("sscanf-args", ['zz = sscanf("a 1", "%s %d", zz,', "zf);"]),
]


def slice_linebreaks(tier):
    """a line break directly after each kind of token; the failing statement on the next line, and (for the forms that carry code) inside the second line"""
    for kind, (stmt, err) in FAILS.items():
        for name, lines in BREAKS:
            for pos in ("function", "initializer"):
                c = Case("linebreaks", "break-after=%s in=%s fail=%s" % (name, pos, kind), ctx="after-line-break")
                if pos == "function":
                    L = [GLOBALS, "mixed f1(mixed a) { return a; }", "mixed f0() {"] + lines + [stmt, "return 0; }"]
                    c.files[c.path("main.c")] = lines_to_text(L)
                    c.frame(c.prog(), 3 + len(lines) + 1, "f0")
                else:
                    if EXPRS[kind] is None: bad = 'error("E18")'
                    else: bad = EXPRS[kind]
                    L = [GLOBALS, "mixed f1(mixed a) { return a; }"] + ["mixed " + lines[0].replace("zz =", "zq =", 1)] + lines[1:] + ["mixed bad = " + bad + ";", "mixed f0() { return 0; }"]
                    c.files[c.path("main.c")] = lines_to_text(L)
                    c.frame(c.prog(), 2 + len(lines) + 1, "#global_init#")
                c.err = err; c.emit()
        # the error inside a functional that starts with a line break
        expr = {"error": 'error("E18")', "index": "({ })[zi]", "div": "7 / zd"}[kind]
        for name, lines, fl in (("functional-open", ["f = (:", expr + " :);"], 2), ("functional-open-two-breaks", ["f = (:", "", expr + " :);"], 3),
                                ("functional-second-line", ["f = (: zf +", expr + " :);"], 2), ("functional-one-line", ["f = (: " + expr + " :);"], 1)):
            if kind == "error" and name == "functional-second-line": continue      # error() has no value to add
            c = Case("linebreaks", "inside %s fail=%s" % (name, kind), ctx="function-literal")
            L = [GLOBALS, "mixed f0() {", "function f;"] + lines + ["return evaluate(f);", "}"]
            c.files[c.path("main.c")] = lines_to_text(L)
            c.frame(c.prog(), 3 + len(lines) + 1, "f0"); c.frame(c.prog(), 3 + fl, "<function>", fp=1)
            c.err = err; c.emit()


# ---------------------------------------------------------------- slice 5: call depth 1..4 through different kinds of calls
HOPS = ("local", "call_other", "funptr", "efun-callback")


def slice_depth(tier):
    for depth in (1, 2, 3, 4):
        for hops in itertools.product(HOPS, repeat=depth - 1):
            for kind in (FAILS.keys() if depth <= 3 or tier != "quick" else ("error",)):
                stmt, err = FAILS[kind]
                c = Case("depth", "depth=%d hops=%s fail=%s" % (depth, "+".join(hops) or "-", kind), ctx="call-chain")
                # function f<i> lives in object o<i>; a call_other hop moves to a new object, the other hops stay
                objs = ["main"]
                for h in hops: objs.append("o%d" % len(objs) if h == "call_other" else objs[-1])
                src = {}
                for o in set(objs): src[o] = [GLOBALS + " " + " ".join("mixed f%d(mixed a);" % i for i in range(depth) if objs[i] == o)]
                frames = []
                for i in range(depth):
                    o = objs[i]; L = src[o]
                    L.append("")                                   # a blank line between functions
                    L.append("mixed f%d(mixed a) {" % i)
                    if i == depth - 1:
                        L.append(stmt)
                        frames.append((o, len(L), "f%d" % i, i > 0 and hops[i - 1] in ("funptr", "efun-callback")))
                    else:
                        h = hops[i]; nxt = "f%d" % (i + 1)
                        if h == "local": L.append("return %s(1);" % nxt)
                        elif h == "call_other": L.append('return "/%s/%s"->%s(1);' % (c.dir, objs[i + 1], nxt))
                        elif h == "funptr": L.append("return evaluate((: %s :), 1);" % nxt)
                        else: L.append("return map(({ 1 }), (: %s :));" % nxt)
                        frames.append((o, len(L), "f%d" % i, i > 0 and hops[i - 1] in ("funptr", "efun-callback")))
                    L.append("return 0; }")
                for o, L in src.items(): c.files[c.path(o + ".c")] = lines_to_text(L)
                c.preload = ["/" + c.ob(o) for o in sorted(set(objs)) if o != "main"]
                for (o, line, fn, fp) in frames: c.frame(c.prog(o), line, fn, ob=c.ob(o), prog=c.prog(o), fp=1 if fp else 0)
                c.err = err
                c.emit()


# ---------------------------------------------------------------- slice 6: how the files end
TERMS = {"newline": "\n", "no-newline": "", "comment-no-newline": "\n/* last line is a comment */", "line-comment-no-newline": "\n// last line is a comment",
         "line-comment-after-code-no-newline": " // the failing line ends in a comment", "blank-lines": "\n\n\n\n"}


def slice_termination(tier):
    for kind, (stmt, err) in FAILS.items():
        for term, tail in TERMS.items():
            for which in ("all-files", "failing-file", "main-file"):
                def end(text_lines, is_failing, is_main):
                    use = which == "all-files" or (which == "failing-file" and is_failing) or (which == "main-file" and is_main)
                    return "\n".join(text_lines) + (tail if use else "\n")
                lab = "term=%s which=%s fail=%s" % (term, which, kind)
                # the failing statement on the last code line of the main file
                c = Case("termination", "main-last-line " + lab, ctx="file-end")
                c.files[c.path("main.c")] = end([GLOBALS, "", "mixed f0() { " + stmt + " return 0; }"], True, True)
                c.frame(c.prog(), 3, "f0"); c.err = err; c.emit()
                # … of an include at nesting 1..3 (a whole function on the last line of the innermost file); call site on the last line of main
                for depth in (1, 2, 3):
                    c = Case("termination", "include-depth-%d-last-line " % depth + lab, ctx="file-end")
                    names = ["t_%d.h" % d for d in range(depth)]
                    for d, nm in enumerate(names):
                        if d < depth - 1:
                            c.files[c.path(nm)] = end(["// level %d" % d, "int lv_%d;" % d, '#include "%s"' % names[d + 1]], False, False)
                        else:
                            c.files[c.path(nm)] = end(["// leaf", "int leaf_var;", "mixed inc_fail() { " + stmt + " return 0; }"], True, False)
                    c.files[c.path("main.c")] = end([GLOBALS, '#include "%s"' % names[0], "int after_include;", "mixed f0() { return inc_fail(); }"], False, True)
                    c.frame(c.prog(), 4, "f0"); c.frame(c.path(names[-1]), 3, "inc_fail"); c.err = err; c.emit()
                # … of an inherited program
                c = Case("termination", "inherited-last-line " + lab, ctx="file-end")
                c.files[c.path("base.c")] = end([GLOBALS, "mixed bfail() { " + stmt + " return 0; }"], True, False)
                c.files[c.path("main.c")] = end(['inherit "/%s/base";' % c.dir, "mixed f0() { return bfail(); }"], False, True)
                c.frame(c.prog(), 2, "f0"); c.frame(c.prog("base"), 2, "bfail", prog=c.prog("base")); c.err = err; c.emit()
                # a statement-level include whose last line is the failing statement
                c = Case("termination", "body-include-last-line " + lab, ctx="file-end")
                c.files[c.path("body.h")] = end(["zf = 1;", stmt], True, False)
                c.files[c.path("main.c")] = end([GLOBALS, "mixed f0() {", '#include "body.h"', "return 0; }"], False, True)
                c.frame(c.path("body.h"), 2, "f0"); c.err = err; c.emit()


def slice_history(tier):
    """contexts whose line information is kept in per-compile state, each after every prelude"""
    global current_prelude
    for k in PRELUDES[1:]:
        current_prelude = k
        slice_context(tier)
        slice_termination_small(tier)
        slice_include_small(tier)
    current_prelude = "none"


def slice_termination_small(tier):
    stmt, err = FAILS["error"]
    c = Case("history", "include-leaf-no-newline", ctx="file-end")
    c.files[c.path("t.h")] = "// leaf\nint leaf_var = 4;\nmixed inc_fail() { " + stmt + " return 0; }"
    c.files[c.path("main.c")] = lines_to_text([GLOBALS, '#include "t.h"', "mixed f0() { return inc_fail(); }"])
    c.frame(c.prog(), 3, "f0"); c.frame(c.path("t.h"), 3, "inc_fail"); c.err = err; c.emit()


def slice_include_small(tier):
    for kind, (stmt, err) in FAILS.items():
        for nl in (0, 1, 300):
            for dp in (0, 2):
                for place in ("after", "in-include-fn"):
                    c = Case("history", "include %dx%d place=%s fail=%s" % (nl, dp, place, kind), ctx="include" if place != "after" else "after-include")
                    o, inn, k = inc_chain(c, "i0", nl, dp)
                    main = [GLOBALS, '#include "%s"' % o]
                    if place == "after":
                        main += ["int gi = 3;", "mixed f0() {", stmt, "return 0; }"]
                        c.frame(c.prog(), len(main) - 1, "f0")
                    else:
                        c.files[c.path(inn)] += lines_to_text(["mixed inc_fail() {", stmt, "return 0; }"])
                        main += ["mixed f0() {", "return inc_fail();", "}"]
                        c.frame(c.prog(), len(main) - 1, "f0"); c.frame(c.path(inn), nl + 2, "inc_fail")
                    c.files[c.path("main.c")] = lines_to_text(main)
                    c.err = err; c.emit()


def main():
    tier = sys.argv[1] if len(sys.argv) > 1 else "quick"
    only = sys.argv[2].split(",") if len(sys.argv) > 2 else None
    for name, fn in (("line", slice_line), ("include", slice_include), ("codelen", slice_codelen), ("context", slice_context), ("depth", slice_depth),
                     ("termination", slice_termination), ("history", slice_history), ("loops", slice_loops), ("linebreaks", slice_linebreaks)):
        if only and name not in only: continue
        fn(tier)
    sys.stderr.write("c18 cases: %d %s\n" % (cid, counts))


main()
