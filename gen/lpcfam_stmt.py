"""statement families: if/switch, loops, foreach (filled in below)"""
from lpcgen import *
import itertools

# ------------------------------------------------------------------ switch vs if-chain
SW_LABELS = [0, 1, 2, 7, -1, 1 << 31, 1 << 32, (1 << 32) + 1, INT_MAX, INT_MIN]
SW_SELECT = SW_LABELS + [3, -(1 << 31), 255]
SW_DENSE = [(0, 1, 2, 3), (5, 6, 7, 8, 9), (-2, -1, 0, 1), (254, 255, 256, 257), ((1 << 31) - 2, (1 << 31) - 1, 1 << 31),
            (1 << 32, (1 << 32) + 1, (1 << 32) + 2), (INT_MAX - 2, INT_MAX - 1, INT_MAX), (INT_MIN, INT_MIN + 1, INT_MIN + 2),
            (-(1 << 31) - 1, -(1 << 31), -(1 << 31) + 1), tuple(range(10, 30))]
SW_STR = [b'', b'a', b'ab', MB, b'b']


def switch_members(g, labels, x, tx, ranges=()):
    """labels: list of scalar labels; ranges: list of (lo, hi); result = position in the label list, -1 = default"""
    T = TDECL[tx].encode()
    X = lit(x)
    conds, cases = [], []
    k = 0
    for l in labels:
        conds.append((b'x == ' + lit(l), k))
        cases.append((b'case ' + lit(l) + b':', k))
        k += 1
    for lo, hi in ranges:
        conds.append((b'x >= ' + lit(lo) + b' && x <= ' + lit(hi), k))
        cases.append((b'case ' + lit(lo) + b' .. ' + lit(hi) + b':', k))
        k += 1
    chain = b' else '.join(b'if (' + c + b') return %d;' % n for c, n in conds) + b' else return -1;'
    body = b' '.join(c + b' return %d;' % n for c, n in cases)
    rbody = b' '.join(c + b' return %d;' % n for c, n in reversed(cases))
    bbody = b' '.join(c + b' r = %d; break;' % n for c, n in cases)
    A = carg(x)
    g.add('ifchain', b'mixed @F(mixed x) { ' + chain + b' }', A)
    g.add('switch', b'mixed @F(mixed x) { switch (x) { ' + body + b' default: return -1; } }', A)
    g.add('switch-typed', b'mixed @F(' + T + b' x) { switch (x) { ' + body + b' default: return -1; } }', A)
    g.add('switch-folded', b'mixed @F() { switch (' + X + b') { ' + body + b' default: return -1; } }')
    g.add('switch-nodefault', b'mixed @F(mixed x) { int r = -1; switch (x) { ' + bbody + b' } return r; }', A)
    g.add('switch-defaultfirst', b'mixed @F(mixed x) { switch (x) { default: return -1; ' + body + b' } }', A)
    g.add('switch-reversed', b'mixed @F(mixed x) { switch (x) { ' + rbody + b' default: return -1; } }', A)
    g.add('switch-global', b'mixed @F(mixed x) { gm = x; switch (gm) { ' + body + b' default: return -1; } }', A)
    g.add('ifchain-typed', b'mixed @F(' + T + b' x) { ' + chain + b' }', A)


def sw_ref(labels, ranges, x):
    for k, l in enumerate(labels):
        if type(l) == type(x) and l == x:
            return k
    for k, (lo, hi) in enumerate(ranges):
        if lo <= x <= hi:
            return len(labels) + k
    return -1


def sw_kind(labels, ranges):
    if ranges:
        return 'ranges'
    if labels and isinstance(labels[0], bytes):
        return 'strings'
    s = sorted(labels)
    dense = all(b - a == 1 for a, b in zip(s, s[1:]))
    return 'dense' if dense else 'sparse'


@family('switch')
def fam_switch(tier):
    sets = []
    for n in (1, 2, 3):
        sets += [list(c) for c in itertools.combinations(SW_LABELS, n)]
    sets += [list(d) for d in SW_DENSE]
    sets += [list(reversed(d)) for d in SW_DENSE[:3]]
    for labels in sets:
        sel = sorted(set(SW_SELECT + labels + [wrap(labels[0] - 1), wrap(labels[-1] + 1)]), key=lambda v: (abs(v), v))
        kind = sw_kind(labels, ())
        for x in sel:
            g = Group('switch', kind, 'i' + (':i64' if big(x, *labels) else ''), ('V', canon(sw_ref(labels, (), x))),
                      b'switch (' + lit(x) + b') labels ' + b','.join(lit(l) for l in labels))
            switch_members(g, labels, x, 'i')
            yield g
    # ranges (+ optionally one single label outside the range)
    B = [INT_MIN, -1, 0, 2, 7, 1 << 31, 1 << 32, INT_MAX]
    for lo, hi in itertools.combinations_with_replacement(B, 2):
        for extra in (None, 1, 8, (1 << 32) + 1):
            if extra is not None and lo <= extra <= hi:
                continue
            labels = [] if extra is None else [extra]
            for x in sorted(set(SW_SELECT + [8, lo, hi, wrap(lo - 1), wrap(hi + 1)]), key=lambda v: (abs(v), v)):
                g = Group('switch', 'ranges', 'i' + (':i64' if big(x, lo, hi) else ''), ('V', canon(sw_ref(labels, [(lo, hi)], x))),
                          b'switch (' + lit(x) + b') case ' + lit(lo) + b'..' + lit(hi) + (b' and case ' + lit(extra) if labels else b''))
                switch_members(g, labels, x, 'i', [(lo, hi)])
                yield g
    # two ranges
    for (a, b), (c, d) in (((0, 2), (5, 7)), ((INT_MIN, -1), (1, INT_MAX)), ((-7, -2), (1 << 31, 1 << 32)), ((0, 0), (1, 1)), ((1 << 32, (1 << 32) + 5), ((1 << 33), INT_MAX))):
        for x in sorted(set(SW_SELECT + [a, b, c, d, b + 1, c - 1, 5, 6, 8, -2, -7, -8]), key=lambda v: (abs(v), v)):
            g = Group('switch', 'ranges', 'i' + (':i64' if big(x, a, b, c, d) else ''), ('V', canon(sw_ref([], [(a, b), (c, d)], x))),
                      b'switch (' + lit(x) + b') case ' + lit(a) + b'..' + lit(b) + b', ' + lit(c) + b'..' + lit(d))
            switch_members(g, [], x, 'i', [(a, b), (c, d)])
            yield g
    # strings
    for n in (1, 2, 3):
        for labels in itertools.combinations(SW_STR, n):
            for x in SW_STR + [b'zz', b'abc']:
                g = Group('switch', 'strings', 's', ('V', canon(sw_ref(list(labels), (), x))),
                          b'switch (' + lit(x) + b') labels ' + b','.join(lit(l) for l in labels))
                switch_members(g, list(labels), x, 's')
                if len(x) >= 2 and x != MB:
                    # a selector that is not a shared (interned) string
                    body = b' '.join(b'case ' + lit(l) + b': return %d;' % k for k, l in enumerate(labels))
                    g.add('switch-concat', b'mixed @F(string p, string q) { switch (p + q) { ' + body + b' default: return -1; } }', carg(x[:1]) + b' ' + carg(x[1:]))
                yield g
    # selector of the wrong type
    for labels, x in (([0, 1], b'a'), ([0, 1], 0.5), ([b'a'], 7), ([b'a'], 0), ([0, 7], [1])):
        def r(labels=labels, x=x):
            if isinstance(labels[0], bytes) and isinstance(x, int) and x == 0:
                raise RefUndef()
            raise LErr('type')
        g = Group('switch', sw_kind(labels, ()), 'badselector:' + tname(x), ref_of(r), b'switch (' + lit(x) + b') labels ' + b','.join(lit(l) for l in labels))
        body = b' '.join(b'case ' + lit(l) + b': return %d;' % k for k, l in enumerate(labels))
        g.add('switch', b'mixed @F() { mixed x = ' + lit(x) + b'; switch (x) { ' + body + b' default: return -1; } }')
        g.add('switch-global', b'mixed @F() { gm = ' + lit(x) + b'; switch (gm) { ' + body + b' default: return -1; } }')
        yield g
    # fall-through (no break): every case entered leaves a digit
    for labels in ([0, 1, 2], [1, 7, 1 << 32], [b'a', b'ab', b'b']):
        for x in (labels + [3, b'zz']):
            if type(x) != type(labels[0]):
                continue
            def r(labels=labels, x=x):
                k = sw_ref(labels, (), x)
                acc = 0
                start = k if k >= 0 else len(labels)
                for n in range(start, len(labels)):
                    acc = acc * 10 + n + 1
                return acc * 10 + 9
            g = Group('switch', 'fallthrough', tname(x), ref_of(r), b'switch (' + lit(x) + b') no breaks, labels ' + b','.join(lit(l) for l in labels))
            body = b' '.join(b'case ' + lit(l) + b': r = r * 10 + %d;' % (k + 1) for k, l in enumerate(labels))
            chain = b' '.join(b'if (e || x == ' + lit(l) + b') { e = 1; r = r * 10 + %d; }' % (k + 1) for k, l in enumerate(labels))
            g.add('ifchain', b'mixed @F(mixed x) { int r = 0; int e = 0; ' + chain + b' r = r * 10 + 9; return r; }', carg(x))
            g.add('switch', b'mixed @F(mixed x) { int r = 0; switch (x) { ' + body + b' default: r = r * 10 + 9; } return r; }', carg(x))
            g.add('switch-folded', b'mixed @F() { int r = 0; switch (' + lit(x) + b') { ' + body + b' default: r = r * 10 + 9; } return r; }')
            yield g


# ------------------------------------------------------------------ counting loops: for / while / do, F_LOOP_COND_*, F_LOOP_INCR
def loop_ref(a, b, cap=3):
    """c=0; for (i=a; i<b; i++) { c++; if (c>=cap) break; }  -> [c, i]"""
    i, c = a, 0
    while binop('<', i, b):
        c += 1
        if c >= cap:
            break
        i = binop('+', i, 1)
    return [c, i]


def loop2_ref(a, b):
    """body with continue: c++; if (c >= 4) break; if (c == 2) continue; d++;"""
    i, c, d = a, 0, 0
    while binop('<', i, b):
        c += 1
        if c >= 4:
            break
        if c != 2:
            d += 1
        i = binop('+', i, 1)
    return [c, d, i]


BODY1 = b'c++; if (c >= 3) break;'
BODY2 = b'c++; if (c >= 4) break; if (c == 2) continue; d++;'
LOOP_A = [0, 1, -1, 7, (1 << 31) - 2, 1 << 31, -(1 << 31), (1 << 32) - 1, 1 << 32, INT_MAX - 1, INT_MAX, INT_MIN]
LOOP_B = [0, 1, 2, -1, 7, 256, (1 << 31) - 1, 1 << 31, -(1 << 31), 1 << 32, (1 << 32) + 2, INT_MAX, INT_MIN]


def loop_members(g, a, b, body, ret):
    ta, tb = tname(a), tname(b)
    Ti, Tb = TDECL[ta].encode(), TDECL[tb].encode()
    A, Bl = lit(a), lit(b)
    AB = carg(a) + b' ' + carg(b)
    pre = b'int c = 0; int d = 0; '
    # the generic test: the bound lives in a global, so no loop opcode applies
    g.add('generic-while', b'mixed @F(' + Ti + b' a, mixed b) { ' + pre + Ti + b' i; gm = b; i = a; while (i < gm) { ' + body.replace(b'continue;', b'{ i++; continue; }') + b' i++; } return ' + ret + b'; }', AB)
    g.add('generic-for', b'mixed @F(' + Ti + b' a, mixed b) { ' + pre + Ti + b' i; gm = b; for (i = a; i < gm; i++) { ' + body + b' } return ' + ret + b'; }', AB)
    g.add('localbound-for', b'mixed @F(' + Ti + b' a, ' + Tb + b' b) { ' + pre + Ti + b' i; for (i = a; i < b; i++) { ' + body + b' } return ' + ret + b'; }', AB)
    g.add('localbound-for-mixed', b'mixed @F(mixed a, mixed b) { ' + pre + b'mixed i; for (i = a; i < b; i++) { ' + body + b' } return ' + ret + b'; }', AB)
    g.add('constbound-for', b'mixed @F(' + Ti + b' a) { ' + pre + Ti + b' i; for (i = a; i < ' + Bl + b'; i++) { ' + body + b' } return ' + ret + b'; }', carg(a))
    g.add('constbound-for-folded', b'mixed @F() { ' + pre + Ti + b' i; for (i = ' + A + b'; i < ' + Bl + b'; i++) { ' + body + b' } return ' + ret + b'; }')
    g.add('localbound-for-decl', b'mixed @F(' + Ti + b' a, ' + Tb + b' b) { ' + pre + b'mixed r; for (' + Ti + b' i = a; i < b; i++) { r = i; ' + body + b' r = i + 1; } if (undefinedp(r)) r = a; return ' + ret.replace(b'i })', b'r })') + b'; }', AB) if b'continue' not in body else None
    g.add('localbound-for-preinc', b'mixed @F(' + Ti + b' a, ' + Tb + b' b) { ' + pre + Ti + b' i; for (i = a; i < b; ++i) { ' + body + b' } return ' + ret + b'; }', AB)
    g.add('localbound-for-addeq', b'mixed @F(' + Ti + b' a, ' + Tb + b' b) { ' + pre + Ti + b' i; for (i = a; i < b; i += 1) { ' + body + b' } return ' + ret + b'; }', AB)
    g.add('globalvar-for', b'mixed @F(mixed a, mixed b) { ' + pre + b'for (gm2 = a; gm2 < b; gm2++) { ' + body + b' } return ' + ret.replace(b'i })', b'gm2 })') + b'; }', AB)
    wbody = body.replace(b'continue;', b'{ i++; continue; }')
    g.add('localbound-while', b'mixed @F(' + Ti + b' a, ' + Tb + b' b) { ' + pre + Ti + b' i; i = a; while (i < b) { ' + wbody + b' i++; } return ' + ret + b'; }', AB)
    g.add('constbound-while', b'mixed @F(' + Ti + b' a) { ' + pre + Ti + b' i; i = a; while (i < ' + Bl + b') { ' + wbody + b' i++; } return ' + ret + b'; }', carg(a))
    g.add('gt-while', b'mixed @F(' + Ti + b' a, ' + Tb + b' b) { ' + pre + Ti + b' i; i = a; while (b > i) { ' + wbody + b' i++; } return ' + ret + b'; }', AB)
    if b'continue' not in body:
        g.add('localbound-do', b'mixed @F(' + Ti + b' a, ' + Tb + b' b) { ' + pre + Ti + b' i; i = a; if (i < b) do { ' + body + b' i++; } while (i < b); return ' + ret + b'; }', AB)
        g.add('constbound-do', b'mixed @F(' + Ti + b' a) { ' + pre + Ti + b' i; i = a; if (i < ' + Bl + b') do { ' + body + b' i++; } while (i < ' + Bl + b'); return ' + ret + b'; }', carg(a))
        g.add('generic-do', b'mixed @F(' + Ti + b' a, mixed b) { ' + pre + Ti + b' i; gm = b; i = a; if (i < gm) do { ' + body + b' i++; } while (i < gm); return ' + ret + b'; }', AB)


@family('loop')
def fam_loop(tier):
    for a in LOOP_A:
        for b in LOOP_B:
            g = Group('loop', 'count', 'ii' + (':i64' if big(a, b) else ''), ref_of(lambda: loop_ref(a, b)),
                      b'for (i = ' + lit(a) + b'; i < ' + lit(b) + b'; i++) { ' + BODY1 + b' }')
            loop_members(g, a, b, BODY1, b'({ c, i })')
            yield g
    for a in (0, 1, -1, (1 << 32) - 1, INT_MAX - 1):
        for b in (0, 2, 5, 1 << 32, (1 << 32) + 2, INT_MAX):
            g = Group('loop', 'count-continue', 'ii' + (':i64' if big(a, b) else ''), ref_of(lambda: loop2_ref(a, b)),
                      b'for (i = ' + lit(a) + b'; i < ' + lit(b) + b'; i++) { ' + BODY2 + b' }')
            loop_members(g, a, b, BODY2, b'({ c, d, i })')
            yield g
    # float counters / float bounds (the loop opcodes have their own real cases)
    for a in (0.0, 0.5, -1.5, 1e10, 0, 1, 1 << 31):
        for b in (0.0, 0.5, 3.0, 1e10, 2, 1 << 31, (1 << 32) + 2, -1):
            if isinstance(a, int) and isinstance(b, int):
                continue
            g = Group('loop', 'count', tname(a) + tname(b) + (':i64' if big(a, b) else ''), ref_of(lambda: loop_ref(a, b)),
                      b'for (i = ' + lit(a) + b'; i < ' + lit(b) + b'; i++) { ' + BODY1 + b' }')
            loop_members(g, a, b, BODY1, b'({ c, i })')
            yield g
    # string bound: 'i < b' on strings never changes i++ -> type error after the first round; only the test is of interest
    for a, b in ((b'a', b'b'), (b'b', b'a'), (b'', b'a')):
        g = Group('loop', 'test-only', 'ss', ref_of(lambda: int(a < b)), b'while (' + lit(a) + b' < ' + lit(b) + b') { return 1; }')
        AB = carg(a) + b' ' + carg(b)
        g.add('generic-while', b'mixed @F(string a, string b) { gm = b; while (a < gm) { return 1; } return 0; }', AB)
        g.add('localbound-while', b'mixed @F(string a, string b) { while (a < b) { return 1; } return 0; }', AB)
        g.add('localbound-for', b'mixed @F(string a, string b) { for (; a < b; ) { return 1; } return 0; }', AB)
        g.add('if', b'mixed @F(string a, string b) { if (a < b) return 1; return 0; }', AB)
        yield g
    # mismatching operand types in the loop test
    for a, b in ((0, b'a'), (b'a', 1), (0.5, b'a'), ([1], 2), (1, [1])):
        g = Group('loop', 'test-only', 'bad:' + tname(a) + tname(b), ref_of(lambda: binop('<', a, b)), b'while (' + lit(a) + b' < ' + lit(b) + b')')
        pm, am, im = params([a, b], False)
        g.add('generic-while', b'mixed @F(' + pm + b') { ' + im + b'gm = b; while (a < gm) { return 1; } return 0; }', am)
        g.add('localbound-while', b'mixed @F(' + pm + b') { ' + im + b'while (a < b) { return 1; } return 0; }', am)
        if scalar(b) and tname(b) == 'i':
            g.add('constbound-while', b'mixed @F(' + pm + b') { ' + im + b'while (a < ' + lit(b) + b') { return 1; } return 0; }', am)
        yield g


# ------------------------------------------------------------------ while (n--)
def whiledec_ref(n, cap=3):
    c = 0
    while True:
        t = n
        n = binop('-', n, 1)
        if not truth(t):
            break
        c += 1
        if c >= cap:
            break
    return [c, n]


@family('whiledec')
def fam_whiledec(tier):
    for n in INTS + [3, (1 << 32) + 1, -(1 << 32), 1 << 33, 1 << 62] + FLOATS + [2.0, 0.25, -0.5]:
        t = tname(n)
        T = TDECL[t].encode()
        g = Group('loop', 'whiledec', t + (':i64' if big(n) else ''), ref_of(lambda: whiledec_ref(n)), b'while (n--) { ' + BODY1 + b' } n=' + lit(n))
        A = carg(n)
        pre = b'int c = 0; '
        g.add('generic', b'mixed @F(mixed n) { ' + pre + b'gm = n; while (gm--) { ' + BODY1 + b' } return ({ c, gm }); }', A)
        g.add('spelled', b'mixed @F(mixed n) { ' + pre + b'mixed t; while (1) { t = n; n = n - 1; if (!t) break; ' + BODY1 + b' } return ({ c, n }); }', A)
        g.add('whiledec', b'mixed @F(' + T + b' n) { ' + pre + b'while (n--) { ' + BODY1 + b' } return ({ c, n }); }', A)
        g.add('whiledec-mixed', b'mixed @F(mixed n) { ' + pre + b'while (n--) { ' + BODY1 + b' } return ({ c, n }); }', A)
        g.add('whiledec-for', b'mixed @F(' + T + b' n) { ' + pre + b'for (; n--; ) { ' + BODY1 + b' } return ({ c, n }); }', A)
        g.add('whiledec-do', b'mixed @F(' + T + b' n) { ' + pre + b'if (n--) do { ' + BODY1 + b' } while (n--); return ({ c, n }); }', A)
        g.add('whiledec-elem', b'mixed @F(mixed n) { ' + pre + b'mixed *v = ({ n }); while (v[0]--) { ' + BODY1 + b' } return ({ c, v[0] }); }', A)
        if t == 'i':        # (for a float, 0.0 != 0 is false while 0.0 as a condition is true)
            g.add('whiledec-ne0', b'mixed @F(' + T + b' n) { ' + pre + b'while (n-- != 0) { ' + BODY1 + b' } return ({ c, n }); }', A)
        yield g
    for n in (b'a', [1]):
        g = Group('loop', 'whiledec', tname(n), ('E', 'type'), b'while (n--) n=' + lit(n))
        pm, am, im = params([n], False)
        g.add('generic', b'mixed @F(' + pm + b') { ' + im + b'gm = a; while (gm--) { return 1; } return 0; }', am)
        g.add('whiledec', b'mixed @F(' + pm + b') { ' + im + b'while (a--) { return 1; } return 0; }', am)
        yield g


# ------------------------------------------------------------------ foreach
FE_ARRS = [[], [7], [1, b'a'], [1, b'a', 0.5, [2], 0], list(range(9))]
FE_STRS = [b'', b'a', b'ab', b'abc\x7f', MB, b'a' + MB + b'b']
FE_MAPS = MAPS


@family('foreach')
def fam_foreach(tier):
    # arrays: collect the elements in order
    for arr in FE_ARRS:
        A = lit(arr)
        g = Group('foreach', 'array', 'a', ('V', canon(list(arr))), b'foreach (x in ' + A + b')')
        g.add('for', b'mixed @F() { mixed *a = ' + A + b'; mixed *r = ({}); int j; for (j = 0; j < sizeof(a); j++) r += ({ a[j] }); return r; }')
        g.add('while', b'mixed @F() { mixed *a = ' + A + b'; mixed *r = ({}); int j = 0; while (j < sizeof(a)) { r += ({ a[j] }); j++; } return r; }')
        g.add('do', b'mixed @F() { mixed *a = ' + A + b'; mixed *r = ({}); int j = 0; if (sizeof(a)) do { r += ({ a[j] }); j++; } while (j < sizeof(a)); return r; }')
        g.add('foreach', b'mixed @F() { mixed *a = ' + A + b'; mixed *r = ({}); mixed x; foreach (x in a) r += ({ x }); return r; }')
        g.add('foreach-decl', b'mixed @F() { mixed *a = ' + A + b'; mixed *r = ({}); foreach (mixed x in a) { r += ({ x }); } return r; }')
        g.add('foreach-literal', b'mixed @F() { mixed *r = ({}); mixed x; foreach (x in ' + A + b') r += ({ x }); return r; }')
        g.add('foreach-global', b'mixed @F() { mixed *r = ({}); foreach (gm in ' + A + b') r += ({ gm }); return r; }')
        g.add('foreach-globalarr', b'mixed @F() { mixed *r = ({}); mixed x; ga = ' + A + b'; foreach (x in ga) r += ({ x }); return r; }')
        g.add('foreach-call', b'mixed @F() { mixed *r = ({}); mixed x; foreach (x in id(' + A + b')) r += ({ x }); return r; }')
        yield g
        # break / continue / return inside
        n = len(arr)
        for stop in range(0, n + 1):
            ref = [list(arr[:stop]), stop]
            g = Group('foreach', 'array-break', 'a', ('V', canon(ref)), b'foreach (x in ' + A + b') break after %d' % stop)
            S = b'%d' % stop
            g.add('for', b'mixed @F() { mixed *a = ' + A + b'; mixed *r = ({}); int j; for (j = 0; j < sizeof(a); j++) { if (sizeof(r) >= ' + S + b') break; r += ({ a[j] }); } return ({ r, sizeof(r) }); }')
            g.add('foreach', b'mixed @F() { mixed *a = ' + A + b'; mixed *r = ({}); mixed x; foreach (x in a) { if (sizeof(r) >= ' + S + b') break; r += ({ x }); } return ({ r, sizeof(r) }); }')
            g.add('foreach-return', b'mixed @F() { mixed *a = ' + A + b'; mixed *r = ({}); mixed x; foreach (x in a) { if (sizeof(r) >= ' + S + b') return ({ r, sizeof(r) }); r += ({ x }); } return ({ r, sizeof(r) }); }')
            g.add('foreach-continue', b'mixed @F() { mixed *a = ' + A + b'; mixed *r = ({}); mixed x; foreach (x in a) { if (sizeof(r) >= ' + S + b') continue; r += ({ x }); } return ({ r, sizeof(r) }); }')
            g.add('foreach-nested', b'mixed @F() { mixed *a = ' + A + b'; mixed *r = ({}); mixed x, y; foreach (y in ({ 1 })) { foreach (x in a) { if (sizeof(r) >= ' + S + b') break; r += ({ x }); } } return ({ r, sizeof(r) }); }')
            g.add('foreach-nested-return', b'mixed @F() { mixed *a = ' + A + b'; mixed *r = ({}); mixed x, y; foreach (y in ({ 1, 2 })) { foreach (x in a) { if (sizeof(r) >= ' + S + b') return ({ r, sizeof(r) }); r += ({ x }); } return ({ r, sizeof(r) }); } return ({ r, sizeof(r) }); }')
            yield g
    # nested products
    for a1 in ([], [1], [1, 2]):
        for a2 in ([], [b'a'], [b'a', b'b', b'c']):
            ref = [[x, y] for x in a1 for y in a2]
            g = Group('foreach', 'array-nested', 'a', ('V', canon(ref)), b'foreach (x in ' + lit(a1) + b') foreach (y in ' + lit(a2) + b')')
            g.add('for', b'mixed @F() { mixed *a = ' + lit(a1) + b'; mixed *b = ' + lit(a2) + b'; mixed *r = ({}); int i, j; for (i = 0; i < sizeof(a); i++) for (j = 0; j < sizeof(b); j++) r += ({ ({ a[i], b[j] }) }); return r; }')
            g.add('foreach', b'mixed @F() { mixed *a = ' + lit(a1) + b'; mixed *b = ' + lit(a2) + b'; mixed *r = ({}); mixed x, y; foreach (x in a) foreach (y in b) r += ({ ({ x, y }) }); return r; }')
            g.add('foreach-for', b'mixed @F() { mixed *a = ' + lit(a1) + b'; mixed *b = ' + lit(a2) + b'; mixed *r = ({}); mixed x; int j; foreach (x in a) for (j = 0; j < sizeof(b); j++) r += ({ ({ x, b[j] }) }); return r; }')
            yield g
    # strings: one element per character; the manual does not say what a character of a multibyte string is
    for s in FE_STRS:
        S = lit(s)
        ascii_only = all(c < 0x80 for c in s)
        g = Group('foreach', 'string', 's' if ascii_only else 's:multibyte', ('V', canon(list(s))) if ascii_only else None, b'foreach (ch in ' + S + b')')
        if ascii_only:
            g.add('for', b'mixed @F(string s) { mixed *r = ({}); int j; for (j = 0; j < strlen(s); j++) r += ({ s[j] }); return r; }', carg(s))
            g.add('while', b'mixed @F(string s) { mixed *r = ({}); int j = 0; while (j < sizeof(s)) { r += ({ s[j] }); j++; } return r; }', carg(s))
        g.add('foreach', b'mixed @F(string s) { mixed *r = ({}); int ch; foreach (ch in s) r += ({ ch }); return r; }', carg(s))
        g.add('foreach-mixed', b'mixed @F(mixed s) { mixed *r = ({}); mixed ch; foreach (ch in s) r += ({ ch }); return r; }', carg(s))
        g.add('foreach-literal', b'mixed @F() { mixed *r = ({}); int ch; foreach (ch in ' + S + b') r += ({ ch }); return r; }')
        g.add('foreach-global', b'mixed @F(string s) { mixed *r = ({}); foreach (gm in s) r += ({ gm }); return r; }', carg(s))
        g.add('foreach-decl', b'mixed @F(string s) { mixed *r = ({}); foreach (int ch in s) { r += ({ ch }); } return r; }', carg(s))
        yield g
    # long strings: the number of characters visited (lengths around the 16-bit boundaries)
    for n in (255, 256, 32767, 32768, 65535, 65536, 65537, 70000, 131072 + 5):
        g = Group('foreach', 'string-long', 's', ('V', canon([n, n])), b'foreach (ch in <string of %d characters>)' % n)
        mk = b'string s = "a"; int c = 0; int j; int ch; while (strlen(s) * 2 <= n) s += s; if (strlen(s) < n) s += s[0 .. n - strlen(s) - 1]; '
        g.add('for', b'mixed @F(int n) { ' + mk + b'for (j = 0; j < strlen(s); j++) c++; return ({ strlen(s), c }); }', b'i%d' % n)
        g.add('foreach', b'mixed @F(int n) { ' + mk + b'foreach (ch in s) c++; return ({ strlen(s), c }); }', b'i%d' % n)
        g.add('foreach-global', b'mixed @F(int n) { ' + mk + b'foreach (gm in s) c++; return ({ strlen(s), c }); }', b'i%d' % n)
        yield g
    # long arrays
    for n in (255, 256, 32767, 32768, 65535):
        g = Group('foreach', 'array-long', 'a', ('V', canon([n, n])), b'foreach (x in allocate(%d))' % n)
        g.add('for', b'mixed @F(int n) { mixed *a = allocate(n); int c = 0; int j; for (j = 0; j < sizeof(a); j++) c++; return ({ sizeof(a), c }); }', b'i%d' % n)
        g.add('foreach', b'mixed @F(int n) { mixed *a = allocate(n); int c = 0; mixed x; foreach (x in a) c++; return ({ sizeof(a), c }); }', b'i%d' % n)
        yield g
    # mappings: rebuild the mapping from the pairs visited (order is unspecified)
    for m in FE_MAPS:
        M = lit(m)
        g = Group('foreach', 'mapping', 'm', ('V', canon([dict(m), len(m)])), b'foreach (k, v in ' + M[:40] + b'..)')
        g.add('keys-for', b'mixed @F() { mapping m = ' + M + b'; mapping r = ([]); mixed *ks = keys(m); int j; int c = 0; for (j = 0; j < sizeof(ks); j++) { r[ks[j]] = m[ks[j]]; c++; } return ({ r, c }); }')
        g.add('foreach', b'mixed @F() { mapping m = ' + M + b'; mapping r = ([]); mixed k, v; int c = 0; foreach (k, v in m) { r[k] = v; c++; } return ({ r, c }); }')
        g.add('foreach-decl', b'mixed @F() { mapping m = ' + M + b'; mapping r = ([]); int c = 0; foreach (mixed k, mixed v in m) { r[k] = v; c++; } return ({ r, c }); }')
        g.add('foreach-global', b'mixed @F() { mapping m = ' + M + b'; mapping r = ([]); int c = 0; foreach (gm, gm2 in m) { r[gm] = gm2; c++; } return ({ r, c }); }')
        g.add('foreach-literal', b'mixed @F() { mapping r = ([]); mixed k, v; int c = 0; foreach (k, v in ' + M + b') { r[k] = v; c++; } return ({ r, c }); }')
        g.add('foreach-keys', b'mixed @F() { mapping m = ' + M + b'; mapping r = ([]); mixed k; int c = 0; foreach (k in keys(m)) { r[k] = m[k]; c++; } return ({ r, c }); }')
        g.add('foreach-break', b'mixed @F() { mapping m = ' + M + b'; mapping r = ([]); mixed k, v; int c = 0; foreach (k, v in m) { if (c >= sizeof(m)) break; r[k] = v; c++; } return ({ r, c }); }')
        yield g
    # foreach over something that cannot be iterated
    for v in (7, 0, 0.5):
        g = Group('foreach', 'bad', tname(v), ('E', 'type'), b'foreach (x in ' + lit(v) + b')')
        g.add('foreach', b'mixed @F(mixed a) { mixed x; foreach (x in a) return 1; return 0; }', carg(v))
        g.add('foreach-pair', b'mixed @F(mixed a) { mixed x, y; foreach (x, y in a) return 1; return 0; }', carg(v))
        yield g


# ------------------------------------------------------------------ conditions: the same test as value, if, ?:, loop test, ! and &&/||
COND_VALS = [0, 1, -1, 7, 1 << 31, INT_MAX, INT_MIN, 0.0, 0.5, -1.5, 1e10, b'', b'a', b'ab', MB]


@family('cond')
def fam_cond(tier):
    for op in ('==', '!=', '<', '<=', '>', '>='):
        o = op.encode()
        for a in COND_VALS:
            for b in COND_VALS:
                ref = ref_of(lambda: binop(op, a, b))
                g = Group('cond', OPNAME[op], tname(a) + tname(b) + (':i64' if big(a, b) else ''), ref, b'if (' + lit(a) + b' ' + o + b' ' + lit(b) + b')')
                pm, am, im = params([a, b], False)
                pt, at, it = params([a, b], True)
                T = b'a ' + o + b' b'
                g.add('value', b'mixed @F(' + pm + b') { return ' + T + b'; }', am)
                g.add('if', b'mixed @F(' + pm + b') { if (' + T + b') return 1; return 0; }', am)
                g.add('if-typed', b'mixed @F(' + pt + b') { if (' + T + b') return 1; return 0; }', at)
                g.add('if-else', b'mixed @F(' + pm + b') { int r; if (' + T + b') r = 1; else r = 0; return r; }', am)
                g.add('if-not', b'mixed @F(' + pm + b') { if (!(' + T + b')) return 0; return 1; }', am)
                g.add('ternary', b'mixed @F(' + pm + b') { return (' + T + b') ? 1 : 0; }', am)
                g.add('ternary-not', b'mixed @F(' + pm + b') { return !(' + T + b') ? 0 : 1; }', am)
                g.add('while', b'mixed @F(' + pm + b') { while (' + T + b') return 1; return 0; }', am)
                g.add('for', b'mixed @F(' + pm + b') { for (; ' + T + b'; ) return 1; return 0; }', am)
                g.add('do', b'mixed @F(' + pm + b') { int k = 0; do { if (k++) return 1; } while (' + T + b'); return 0; }', am)
                g.add('while-not', b'mixed @F(' + pm + b') { while (!(' + T + b')) return 0; return 1; }', am)
                g.add('land', b'mixed @F(' + pm + b') { return (' + T + b') && 1; }', am)
                g.add('lor', b'mixed @F(' + pm + b') { return (' + T + b') || 0; }', am)
                g.add('notnot', b'mixed @F(' + pm + b') { return !!(' + T + b'); }', am)
                g.add('if-global', b'mixed @F(' + pm + b') { gm = a; gm2 = b; if (gm ' + o + b' gm2) return 1; return 0; }', am)
                if scalar(b):
                    TL = b'a ' + o + b' ' + lit(b)
                    Ta = TDECL[tname(a)].encode()
                    g.add('constcmp-if', b'mixed @F(' + Ta + b' a) { if (' + TL + b') return 1; return 0; }', carg(a))
                    g.add('constcmp-while', b'mixed @F(' + Ta + b' a) { while (' + TL + b') return 1; return 0; }', carg(a))
                    g.add('constcmp-value', b'mixed @F(' + Ta + b' a) { return ' + TL + b'; }', carg(a))
                    g.add('constcmp-mixed-while', b'mixed @F(mixed a) { while (' + TL + b') return 1; return 0; }', carg(a))
                    g.add('constcmp-mixed-if', b'mixed @F(mixed a) { if (' + TL + b') return 1; return 0; }', carg(a))
                yield g
    # truth value of a single operand
    for x in COND_VALS + [[], [0], {}, {0: 0}]:
        def r(x=x):
            return int(truth(x))
        g = Group('cond', 'truth', tname(x), ref_of(r), b'if (' + lit(x) + b')')
        pm, am, im = params([x], False)
        pt, at, it = params([x], True)
        g.add('if', b'mixed @F(' + pm + b') { ' + im + b'if (a) return 1; return 0; }', am)
        g.add('if-typed', b'mixed @F(' + pt + b') { ' + it + b'if (a) return 1; return 0; }', at)
        g.add('ternary', b'mixed @F(' + pm + b') { ' + im + b'return a ? 1 : 0; }', am)
        g.add('not', b'mixed @F(' + pm + b') { ' + im + b'return !a ? 0 : 1; }', am)
        g.add('notnot', b'mixed @F(' + pm + b') { ' + im + b'return !!a; }', am)
        g.add('while', b'mixed @F(' + pm + b') { ' + im + b'while (a) return 1; return 0; }', am)
        g.add('while-not', b'mixed @F(' + pm + b') { ' + im + b'while (!a) return 0; return 1; }', am)
        g.add('do', b'mixed @F(' + pm + b') { ' + im + b'int k = 0; do { if (k++) return 1; } while (a); return 0; }', am)
        g.add('for', b'mixed @F(' + pm + b') { ' + im + b'for (; a; ) return 1; return 0; }', am)
        g.add('land', b'mixed @F(' + pm + b') { ' + im + b'return (a && 1) ? 1 : 0; }', am)
        g.add('lor', b'mixed @F(' + pm + b') { ' + im + b'return (a || 0) ? 1 : 0; }', am)
        g.add('if-folded', b'mixed @F() { if (' + lit(x) + b') return 1; return 0; }')
        g.add('if-global', b'mixed @F(' + pm + b') { ' + im + b'gm = a; if (gm) return 1; return 0; }', am)
        yield g


# ------------------------------------------------------------------ switch table geometry: every table size, every probe position
def geo_members(g, labels, ranges, x, tx, order=None):
    """the spellings that matter for the table search: if-chain, switch on a mixed/typed/global selector, literal selector"""
    T = TDECL[tx].encode()
    items = [(b'x == ' + lit(l), b'case ' + lit(l) + b':', k) for k, l in enumerate(labels)]
    items += [(b'x >= ' + lit(lo) + b' && x <= ' + lit(hi), b'case ' + lit(lo) + b' .. ' + lit(hi) + b':', len(labels) + k)
              for k, (lo, hi) in enumerate(ranges)]
    if order:
        items = [items[i] for i in order]
    # one test per line (the lexer limits the length of a line), no nesting (every test returns)
    chain = b'\n  '.join(b'if (' + c + b') return %d;' % n for c, _, n in items) + b'\n  return -1;'
    body = b'\n    '.join(c + b' return %d;' % n for _, c, n in items)
    A = carg(x)
    g.add('ifchain', b'mixed @F(mixed x) {\n  ' + chain + b'\n}', A)
    g.add('switch', b'mixed @F(mixed x) {\n  switch (x) {\n    ' + body + b'\n    default: return -1;\n  }\n}', A)
    g.add('switch-typed', b'mixed @F(' + T + b' x) {\n  switch (x) {\n    ' + body + b'\n  }\n  return -1;\n}', A)
    g.add('switch-folded', b'mixed @F() {\n  switch (' + lit(x) + b') {\n    ' + body + b'\n    default: return -1;\n  }\n}')


def stride_order(n):
    """a fixed permutation of 0..n-1 (source order of the labels must not matter)"""
    import math
    step = 7
    while math.gcd(step, n) != 1:
        step += 2
    return [(i * step + 3) % n for i in range(n)] if n > 1 else [0]


@family('switchgeo')
def fam_switchgeo(tier):
    NMAX = 40 if tier == 'deep' else 20
    # sorted integer tables (labels never adjacent, so no direct table): small labels and 64-bit labels
    for kind, lab in (('small', lambda k, n: -35 + 10 * k + (k % 3)), ('wide', lambda k, n: (k - n // 2) * ((1 << 32) + 7) + (k % 3))):
        for n in range(1, NMAX + 1):
            labels = [lab(k, n) for k in range(n)]
            if n == 1 and kind == 'small':
                labels = [12]
            sel = []
            for l in labels:
                sel += [l - 1, l, l + 1]
            sel = [labels[0] - 100] + sel + [labels[-1] + 100]
            for x in sel:
                g = Group('switch', 'geometry-sparse', 'i' + (':i64' if big(x, *labels) else ''), ('V', canon(sw_ref(labels, (), x))),
                          b'switch (' + lit(x) + b') with %d sorted %s labels ' % (n, kind.encode()) + lit(labels[0]) + b'..' + lit(labels[-1]))
                geo_members(g, labels, [], x, 'i', stride_order(n) if n % 2 else None)
                yield g
    # range tables: a range takes two table entries; m ranges + s single labels = n entries, ranges first / last / alternating
    for n in range(2, NMAX + 1):
        for m in range(1, n // 2 + 1):
            s = n - 2 * m
            for place in ('first', 'last', 'alternate'):
                if s == 0 and place != 'first':
                    continue
                kinds = {'first': ['r'] * m + ['s'] * s, 'last': ['s'] * s + ['r'] * m}.get(place)
                if kinds is None:
                    kinds, r_left, s_left = [], m, s
                    while r_left or s_left:
                        if r_left:
                            kinds.append('r'); r_left -= 1
                        if s_left:
                            kinds.append('s'); s_left -= 1
                labels, ranges, sel = [], [], [-1000]
                pos = -40
                for kd in kinds:
                    if kd == 'r':
                        ranges.append((pos, pos + 4))
                        sel += [pos - 1, pos, pos + 2, pos + 4, pos + 5]
                    else:
                        labels.append(pos)
                        sel += [pos - 1, pos, pos + 1]
                    pos += 10
                sel.append(pos + 1000)
                for x in sel:
                    g = Group('switch', 'geometry-ranges', 'i', ('V', canon(sw_ref(labels, ranges, x))),
                              b'switch (' + lit(x) + b') table of %d entries: %d ranges %s, %d labels' % (n, m, place.encode(), s))
                    geo_members(g, labels, ranges, x, 'i')
                    yield g
    # string tables (sorted by the address of the shared string): every label, near misses, unshared selectors
    for n in range(1, NMAX + 1):
        labels = [b'k%02d' % k for k in range(n)]
        sel = [b'', b'zzzz']
        for l in labels:
            sel += [l, l + b'x', l[:-1]]
        for x in sel:
            g = Group('switch', 'geometry-strings', 's', ('V', canon(sw_ref(labels, (), x))),
                      b'switch (' + lit(x) + b') with %d string labels' % n)
            geo_members(g, labels, [], x, 's', stride_order(n) if n % 2 else None)
            if len(x) >= 2:
                body = b'\n    '.join(b'case ' + lit(l) + b': return %d;' % k for k, l in enumerate(labels))
                g.add('switch-concat', b'mixed @F(string p, string q) {\n  switch (p + q) {\n    ' + body + b'\n    default: return -1;\n  }\n}', carg(x[:1]) + b' ' + carg(x[1:]))
            yield g
