"""control-flow nesting: every ordered pair / triple of constructs x every jump placed in the innermost body.

Abstract constructs: S switch-case, L counted loop (spelled for / while / do-while), A foreach over an array,
M foreach over a mapping, I if, C catch { }, F function literal body.  The innermost body contains one of
{none, break, continue, return, fall-through}; every body adds a distinct power of 16 to a global accumulator
before and after its child, so that the path taken can be read from the result.  Members of a group are all
combinations of concrete spellings of its constructs (for / while / do; switch / if-chain inside do { } while (0);
foreach / index loop; foreach (k, v) / foreach over keys(); catch { } / plain block; function literal / helper
function).  The reference result comes from a small interpreter of the abstract program."""
from lpcgen import *
import itertools

KINDS = 'SLAMICF'
KNAME = {'S': 'switch', 'L': 'loop', 'A': 'foreach', 'M': 'foreachmap', 'I': 'if', 'C': 'catch', 'F': 'funlit'}
SPELL = {'S': ('switch', 'ifchain'), 'L': ('for', 'while', 'do'), 'A': ('foreach', 'index'), 'M': ('foreach2', 'keys'),
         'I': ('if',), 'C': ('catch', 'block'), 'F': ('literal', 'helper')}
JUMPS = ('none', 'break', 'continue', 'return', 'fall')


def W(d, k):
    return 16 ** (4 * d + k)


W_AFTER = 16 ** 12
W_RET = 16 ** 13


class _Break(Exception):
    pass


class _Continue(Exception):
    pass


class _Return(Exception):
    pass


def jump_target(kinds, jump):
    """-> depth of the construct a break / continue in the innermost body refers to, None if illegal"""
    for d in range(len(kinds) - 1, -1, -1):
        k = kinds[d]
        if k in 'CF':
            return None
        if k in 'LAM':
            return d
        if k == 'S' and jump == 'break':
            return d
    return None


def legal(kinds, jump):
    if jump == 'none':
        return True
    if jump == 'fall':
        return kinds[-1] == 'S'
    if jump == 'return':
        # not out of a catch block; out of a function literal it returns from the literal
        for d in range(len(kinds) - 1, -1, -1):
            if kinds[d] == 'F':
                return True
            if kinds[d] == 'C':
                return False
        return True
    return jump_target(kinds, jump) is not None


def reference(kinds, jump, guard, sel):
    st = {'gi': 0, 'gi2': 0}
    n = len(kinds)

    def do_jump():
        if jump in ('none', 'fall'):
            return
        if guard == 'first':
            st['gi2'] += 1
            if st['gi2'] != 1:
                return
        if jump == 'break':
            raise _Break()
        if jump == 'continue':
            raise _Continue()
        st['gi'] += W_RET
        raise _Return()

    def body(d):
        st['gi'] += W(d, 0)
        if d == n - 1:
            do_jump()
        else:
            run(d + 1)
        st['gi'] += W(d, 1)

    def run(d):
        k = kinds[d]
        if k == 'S':
            try:
                if sel == 1:
                    body(d)
                    if not (d == n - 1 and jump == 'fall'):
                        raise _Break()
                if sel in (1, 2):
                    st['gi'] += W(d, 2)
                    raise _Break()
                st['gi'] += W(d, 3)
            except _Break:
                pass
        elif k in 'LAM':
            for _ in range(2):
                try:
                    body(d)
                except _Break:
                    break
                except _Continue:
                    continue
        elif k == 'I' or k == 'C':
            body(d)
        elif k == 'F':
            try:
                body(d)
            except _Return:
                pass

    try:
        run(0)
        st['gi'] += W_AFTER
    except _Return:
        pass
    return st['gi']


def emit(kinds, spells, jump, guard, helpers, fname):
    """-> source text of the entry function (helpers appended to the list)"""
    n = len(kinds)
    in_fun = [False]

    def jump_code(inside_literal):
        if jump in ('none', 'fall'):
            return b''
        if jump == 'break':
            j = b'break;'
        elif jump == 'continue':
            j = b'continue;'
        else:
            j = b'{ gi += %d; return %s; }' % (W_RET, b'0' if inside_literal else b'gi')
        if guard == 'first':
            return b'gi2++; if (gi2 == 1) ' + j + b' '
        return j + b' '

    def gen(d, inside_literal):
        """-> (declarations needed in the enclosing function scope, code)"""
        k, sp = kinds[d], spells[d]
        D = b'%d' % d
        child_lit = inside_literal or k == 'F'
        if d == n - 1:
            cdecl, ccode = [], jump_code(child_lit)
        else:
            cdecl, ccode = gen(d + 1, child_lit)
        body = b'gi += %d; ' % W(d, 0) + ccode + b'gi += %d; ' % W(d, 1)
        decl = list(cdecl)
        if k == 'S':
            fall = d == n - 1 and jump == 'fall'
            if sp == 'switch':
                code = (b'switch (s) { case 1: ' + body + (b'' if fall else b'break; ') + b'case 2: gi += %d; break; default: gi += %d; } ' % (W(d, 2), W(d, 3)))
            else:
                decl.append(b'int e' + D + b';')
                code = (b'do { e' + D + b' = 0; if (e' + D + b' || s == 1) { e' + D + b' = 1; ' + body + (b'' if fall else b'break; ') + b'} '
                        b'if (e' + D + b' || s == 2) { e' + D + b' = 1; gi += %d; break; } gi += %d; } while (0); ' % (W(d, 2), W(d, 3)))
        elif k == 'L':
            decl.append(b'int i' + D + b';')
            if sp == 'for':
                code = b'for (i' + D + b' = 0; i' + D + b' < 2; i' + D + b'++) { ' + body + b'} '
            elif sp == 'while':
                code = b'i' + D + b' = 0; while (i' + D + b' < 2) { i' + D + b'++; ' + body + b'} '
            else:
                code = b'i' + D + b' = 0; do { i' + D + b'++; ' + body + b'} while (i' + D + b' < 2); '
        elif k == 'A':
            decl.append(b'mixed x' + D + b';')
            if sp == 'foreach':
                code = b'foreach (x' + D + b' in ({ 1, 2 })) { ' + body + b'} '
            else:
                decl.append(b'int j' + D + b';')
                code = b'for (j' + D + b' = 0; j' + D + b' < 2; j' + D + b'++) { x' + D + b' = ({ 1, 2 })[j' + D + b']; ' + body + b'} '
        elif k == 'M':
            decl.append(b'mixed k' + D + b', v' + D + b';')
            if sp == 'foreach2':
                code = b'foreach (k' + D + b', v' + D + b' in ([ 1: 1, 2: 2 ])) { ' + body + b'} '
            else:
                code = b'foreach (k' + D + b' in keys(([ 1: 1, 2: 2 ]))) { ' + body + b'} '
        elif k == 'I':
            code = b'if (s) { ' + body + b'} '
        elif k == 'C':
            code = (b'catch { ' + body + b'}; ') if sp == 'catch' else (b'{ ' + body + b'} ')
        else:       # F: the body is its own function scope
            inner = b''.join(d_ + b' ' for d_ in decl)
            decl = []
            if sp == 'literal':
                code = b'evaluate(function(int s) { ' + inner + body + b'return 0; }, s); '
            else:
                hname = fname + b'_h' + D
                helpers.append(b'mixed ' + hname + b'(int s) { ' + inner + body + b'return 0; }\n')
                code = hname + b'(s); '
        return decl, code

    decl, code = gen(0, False)
    return (b'mixed ' + fname + b'(int s) { ' + b''.join(d_ + b' ' for d_ in decl) + b'gi = 0; gi2 = 0; ' + code +
            b'gi += %d; return gi; }' % W_AFTER)


def nest_groups(depth, guards):
    for kinds in itertools.product(KINDS, repeat=depth):
        for jump in JUMPS:
            if not legal(kinds, jump):
                continue
            for guard in (guards if jump not in ('none', 'fall') else ('always',)):
                sels = (1, 2, 3) if 'S' in kinds else (1,)
                tgt = jump_target(kinds, jump) if jump == 'continue' else None
                options = []
                for d, k in enumerate(kinds):
                    sp = SPELL[k]
                    if k == 'S' and tgt is not None and tgt < d:
                        sp = ('switch',)        # a continue that leaves the switch cannot be spelled inside do { } while (0)
                    options.append(sp)
                for sel in sels:
                    ref = reference(kinds, jump, guard, sel)
                    g = Group('nest', '-'.join(KNAME[k] for k in kinds), jump + ('' if guard == 'always' else ':first'), ('V', canon(ref)),
                              b' > '.join(KNAME[k].encode() for k in kinds) + b' with ' + jump.encode() + b' (' + guard.encode() + b') in the innermost body, s = %d' % sel)
                    for spells in itertools.product(*options):
                        helpers = []
                        main = emit(kinds, spells, jump, guard, helpers, b'@F')
                        g.add('+'.join(spells), b''.join(helpers) + main, b'i%d' % sel)
                    yield g


@family('nest')
def fam_nest(tier):
    for g in nest_groups(1, ('always', 'first')):
        yield g
    for g in nest_groups(2, ('always', 'first')):
        yield g
    for g in nest_groups(3, ('always', 'first') if tier == 'deep' else ('first',)):
        yield g
