"""indexing, ranging, containers, calls, macros"""
from lpcgen import *

INTS_IDX = [0, 1, -1, 2, 7, 255, 256, 1 << 31, -(1 << 31), 1 << 32, (1 << 32) + 1, INT_MAX, INT_MIN]
CONTS = [b'', b'a', b'ab', MB, [], [7], [1, b'a'], Buf(b''), Buf(b'\x07'), Buf(b'\x01\xff')]
CDECL = {'s': b'string', 'a': b'mixed *', 'b': b'buffer', 'm': b'mapping'}


def cname(c):
    return tname(c) + str(len(c))


# ------------------------------------------------------------------ indexing (rvalue and lvalue)
@family('index')
def fam_index(tier):
    for c in CONTS:
        tc = tname(c)
        C = lit(c)
        for rev in (0, 1):
            lt = b'<' if rev else b''
            for i in INTS_IDX:
                g = Group('index', ('rindex' if rev else 'index') + ':' + tc, tname(c) + (':i64' if big(i) else ''),
                          ref_of(lambda: index(c, i, rev)), C + b'[' + lt + lit(i) + b']')
                g.add('runtime', b'mixed @F(mixed i) { mixed c = ' + C + b'; return c[' + lt + b'i]; }', carg(i))
                g.add('typed', b'mixed @F(int i) { ' + CDECL[tc] + b' c = ' + C + b'; return c[' + lt + b'i]; }', carg(i))
                g.add('folded', b'mixed @F() { return ' + C + b'[' + lt + lit(i) + b']; }')
                g.add('folded-i', b'mixed @F() { ' + CDECL[tc] + b' c = ' + C + b'; return c[' + lt + lit(i) + b']; }')
                g.add('global', b'mixed @F(int i) { gm = ' + C + b'; return gm[' + lt + b'i]; }', carg(i))
                g.add('macro', b'mixed @F(int i) { mixed c = ' + C + b'; return M_IDX(c, ' + lt + b'i); }', carg(i)) if not rev else None
                g.add('call', b'mixed @F(int i) { return inh_idx(' + C + b', i); }', carg(i)) if not rev else None
                yield g
                # lvalue: c[i] = v ; return c
                for v in ((66, 0, 256 + 67) if tc in 'sb' else (66,)):
                    g = Group('index', ('rindex' if rev else 'index') + '-assign:' + tc, tname(c) + (':i64' if big(i) else ''),
                              ref_of(lambda: index_assign(c, i, v, rev)), C + b'[' + lt + lit(i) + b'] = ' + lit(v))
                    g.add('runtime', b'mixed @F(mixed i, mixed v) { mixed c = ' + C + b'; c[' + lt + b'i] = v; return c; }', carg(i) + b' ' + carg(v))
                    g.add('typed', b'mixed @F(int i, int v) { ' + CDECL[tc] + b' c = ' + C + b'; c[' + lt + b'i] = v; return c; }', carg(i) + b' ' + carg(v))
                    g.add('folded', b'mixed @F() { ' + CDECL[tc] + b' c = ' + C + b'; c[' + lt + lit(i) + b'] = ' + lit(v) + b'; return c; }')
                    g.add('global', b'mixed @F(int i, int v) { gm = ' + C + b'; gm[' + lt + b'i] = v; return gm; }', carg(i) + b' ' + carg(v))
                    g.add('value', b'mixed @F(int i, int v) { mixed c = ' + C + b'; mixed r; r = (c[' + lt + b'i] = v); return c; }', carg(i) + b' ' + carg(v))
                    g.add('nested', b'mixed @F(int i, int v) { mixed *w = ({ 0, ' + C + b' }); w[1][' + lt + b'i] = v; return w[1]; }', carg(i) + b' ' + carg(v))
                    yield g
    # mappings: any key type, missing keys, growth past 8 entries
    for m in MAPS:
        M = lit(m)
        for k in (0, 1, 2, 8, -1, 1 << 32, INT_MIN, b'a', b'', b'k3', b'zz', MB):
            g = Group('index', 'index:m', 'm%d:%s' % (len(m), tname(k)) + (':i64' if big(k) else ''), ref_of(lambda: index(m, k)), M[:30] + b'..[' + lit(k) + b']')
            g.add('runtime', b'mixed @F(mixed k) { mixed c = ' + M + b'; return c[k]; }', carg(k))
            g.add('typed', b'mixed @F(' + TDECL[tname(k)].encode() + b' k) { mapping c = ' + M + b'; return c[k]; }', carg(k))
            g.add('folded', b'mixed @F() { return ' + M + b'[' + lit(k) + b']; }')
            g.add('global', b'mixed @F(mixed k) { gmap = ' + M + b'; return gmap[k]; }', carg(k))
            g.add('undefinedp', b'mixed @F(mixed k) { mapping c = ' + M + b'; return undefinedp(c[k]) ? 0 : c[k]; }', carg(k))
            yield g
            g = Group('index', 'index-assign:m', 'm%d:%s' % (len(m), tname(k)), ref_of(lambda: index_assign(m, k, 66)), M[:30] + b'..[' + lit(k) + b'] = 66')
            g.add('runtime', b'mixed @F(mixed k) { mixed c = ' + M + b'; c[k] = 66; return c; }', carg(k))
            g.add('typed', b'mixed @F(' + TDECL[tname(k)].encode() + b' k) { mapping c = ' + M + b'; c[k] = 66; return c; }', carg(k))
            g.add('folded', b'mixed @F() { mapping c = ' + M + b'; c[' + lit(k) + b'] = 66; return c; }')
            g.add('global', b'mixed @F(mixed k) { gmap = ' + M + b'; gmap[k] = 66; return gmap; }', carg(k))
            g.add('addeq', b'mixed @F(mixed k) { mapping c = ' + M + b'; c += ([ k: 66 ]); return c; }', carg(k))
            yield g
    # indexing something that is not a container
    for c in (0, 7, 0.5):
        for i in (0, 1):
            g = Group('index', 'index:' + tname(c), 'scalar', ref_of(lambda: index(c, i)), lit(c) + b'[' + lit(i) + b']')
            g.add('runtime', b'mixed @F(mixed c, mixed i) { return c[i]; }', carg(c) + b' ' + carg(i))
            g.add('global', b'mixed @F(mixed c, mixed i) { gm = c; return gm[i]; }', carg(c) + b' ' + carg(i))
            yield g
    # non-integer index
    for c in (b'ab', [1, b'a'], Buf(b'\x01\xff')):
        for i in (0.0, b'a'):
            g = Group('index', 'index:' + tname(c), 'badindex:' + tname(i), ref_of(lambda: index(c, i)), lit(c) + b'[' + lit(i) + b']')
            g.add('runtime', b'mixed @F(mixed i) { mixed c = ' + lit(c) + b'; return c[i]; }', carg(i))
            g.add('rindex', b'mixed @F(mixed i) { mixed c = ' + lit(c) + b'; return c[<i]; }', carg(i))
            yield g


# ------------------------------------------------------------------ ranging (rvalue)
INTS_RNG = [0, 1, -1, 2, 3, -3, 7, 1 << 31, 1 << 32, (1 << 32) + 1, INT_MAX, INT_MIN]
INTS_RNG_Q = [0, 1, -1, 2, -3, 7, 1 << 32, (1 << 32) + 1, INT_MIN]
FORMS = {'nn': (0, 0), 'rn': (1, 0), 'nr': (0, 1), 'rr': (1, 1)}


def rtxt(form, i, j):
    ri, rj = FORMS[form]
    return (b'<' if ri else b'') + i + b' .. ' + (b'<' if rj else b'') + j


@family('range')
def fam_range(tier):
    alph = INTS_RNG if tier != 'small' else INTS_RNG_Q
    for c in CONTS:
        tc = tname(c)
        C = lit(c)
        D = CDECL[tc]
        for form, (ri, rj) in FORMS.items():
            for i in alph:
                for j in alph:
                    g = Group('range', form + ':' + tc, tc + (':i64' if big(i, j) else ''), ref_of(lambda: rng(c, i, j, ri, rj)),
                              C + b'[' + rtxt(form, lit(i), lit(j)) + b']')
                    A = carg(i) + b' ' + carg(j)
                    g.add('runtime', b'mixed @F(mixed i, mixed j) { mixed c = ' + C + b'; return c[' + rtxt(form, b'i', b'j') + b']; }', A)
                    g.add('typed', b'mixed @F(int i, int j) { ' + D + b' c = ' + C + b'; return c[' + rtxt(form, b'i', b'j') + b']; }', A)
                    g.add('folded', b'mixed @F() { return ' + C + b'[' + rtxt(form, lit(i), lit(j)) + b']; }')
                    g.add('folded-ij', b'mixed @F() { ' + D + b' c = ' + C + b'; return c[' + rtxt(form, lit(i), lit(j)) + b']; }')
                    g.add('global', b'mixed @F(int i, int j) { gm = ' + C + b'; return gm[' + rtxt(form, b'i', b'j') + b']; }', A)
                    if form == 'nn':
                        g.add('call', b'mixed @F(int i, int j) { return inh_rng(' + C + b', i, j); }', A)
                    else:
                        # c[<x..] means c[sizeof(c)-x..]
                        ii = b'(sizeof(c) - i)' if ri else b'i'
                        jj = b'(sizeof(c) - j)' if rj else b'j'
                        if not big(i, j):
                            g.add('sizeof', b'mixed @F(int i, int j) { ' + D + b' c = ' + C + b'; return c[' + ii + b' .. ' + jj + b']; }', A)
                    yield g
        # open-ended forms
        for ri in (0, 1):
            lt = b'<' if ri else b''
            for i in alph:
                g = Group('range', ('re' if ri else 'ne') + ':' + tc, tc + (':i64' if big(i) else ''), ref_of(lambda: rng(c, i, None, ri)),
                          C + b'[' + lt + lit(i) + b' ..]')
                A = carg(i)
                g.add('runtime', b'mixed @F(mixed i) { mixed c = ' + C + b'; return c[' + lt + b'i ..]; }', A)
                g.add('typed', b'mixed @F(int i) { ' + D + b' c = ' + C + b'; return c[' + lt + b'i ..]; }', A)
                g.add('folded', b'mixed @F() { return ' + C + b'[' + lt + lit(i) + b' ..]; }')
                g.add('global', b'mixed @F(int i) { gm = ' + C + b'; return gm[' + lt + b'i ..]; }', A)
                # documented: x[i..] is the same as x[i..<1]
                g.add('lt1', b'mixed @F(int i) { ' + D + b' c = ' + C + b'; return c[' + lt + b'i .. <1]; }', A)
                g.add('lt1-runtime', b'mixed @F(int i, int j) { ' + D + b' c = ' + C + b'; return c[' + lt + b'i .. <j]; }', A + b' i1')
                yield g
    # ranging a value that has no ranges / bad bound types
    for c, i, j in ((7, 0, 1), (0.5, 0, 1), ({1: 2}, 0, 1), (b'ab', 0.0, 1), (b'ab', 0, b'a'), ([1, 2], b'', 1)):
        g = Group('range', 'nn:' + tname(c), 'bad:' + tname(i) + tname(j), ref_of(lambda: rng(c, i, j)), lit(c) + b'[' + lit(i) + b' .. ' + lit(j) + b']')
        g.add('runtime', b'mixed @F() { mixed c = ' + lit(c) + b'; mixed i = ' + lit(i) + b'; mixed j = ' + lit(j) + b'; return c[i .. j]; }')
        g.add('global', b'mixed @F() { gm = ' + lit(c) + b'; gm2 = ' + lit(i) + b'; gm3 = ' + lit(j) + b'; return gm[gm2 .. gm3]; }')
        yield g


# ------------------------------------------------------------------ range lvalues
INTS_RL = [0, 1, -1, 2, 3, 7, 1 << 32, (1 << 32) + 1, INT_MIN]
RHS = {'s': [b'', b'X', b'XYZ'], 'a': [[], [9], [9, 8, 7]], 'b': [Buf(b''), Buf(b'\x09'), Buf(b'\x09\x08\x07')]}


@family('rangelv')
def fam_rangelv(tier):
    for c in CONTS:
        tc = tname(c)
        C = lit(c)
        D = CDECL[tc]
        for form, (ri, rj) in FORMS.items():
            for i in INTS_RL:
                for j in INTS_RL:
                    for v in RHS[tc]:
                        V = lit(v)
                        g = Group('rangelv', form + ':' + tc, tc + (':i64' if big(i, j) else ''), ref_of(lambda: rng_assign(c, i, j, v, ri, rj)),
                                  C + b'[' + rtxt(form, lit(i), lit(j)) + b'] = ' + V)
                        A = carg(i) + b' ' + carg(j)
                        g.add('runtime', b'mixed @F(mixed i, mixed j) { mixed c = ' + C + b'; mixed v = ' + V + b'; c[' + rtxt(form, b'i', b'j') + b'] = v; return c; }', A)
                        g.add('typed', b'mixed @F(int i, int j) { ' + D + b' c = ' + C + b'; ' + D + b' v = ' + V + b'; c[' + rtxt(form, b'i', b'j') + b'] = v; return c; }', A)
                        g.add('folded', b'mixed @F() { ' + D + b' c = ' + C + b'; c[' + rtxt(form, lit(i), lit(j)) + b'] = ' + V + b'; return c; }')
                        g.add('global', b'mixed @F(int i, int j) { gm = ' + C + b'; gm[' + rtxt(form, b'i', b'j') + b'] = ' + V + b'; return gm; }', A)
                        g.add('value', b'mixed @F(int i, int j) { mixed c = ' + C + b'; mixed r; r = (c[' + rtxt(form, b'i', b'j') + b'] = ' + V + b'); return c; }', A)
                        g.add('nested', b'mixed @F(int i, int j) { mixed *w = ({ 0, ' + C + b' }); w[1][' + rtxt(form, b'i', b'j') + b'] = ' + V + b'; return w[1]; }', A)
                        yield g
        # c[i..] = v  and  c[<i..] = v   (compiled as c[i..<1] = v)
        for ri in (0, 1):
            lt = b'<' if ri else b''
            for i in INTS_RL:
                for v in RHS[tc]:
                    V = lit(v)
                    g = Group('rangelv', ('re' if ri else 'ne') + ':' + tc, tc + (':i64' if big(i) else ''), ref_of(lambda: rng_assign(c, i, 1, v, ri, True)),
                              C + b'[' + lt + lit(i) + b' ..] = ' + V)
                    g.add('runtime', b'mixed @F(mixed i) { mixed c = ' + C + b'; c[' + lt + b'i ..] = ' + V + b'; return c; }', carg(i))
                    g.add('lt1', b'mixed @F(mixed i) { mixed c = ' + C + b'; c[' + lt + b'i .. <1] = ' + V + b'; return c; }', carg(i))
                    g.add('folded', b'mixed @F() { ' + D + b' c = ' + C + b'; c[' + lt + lit(i) + b' ..] = ' + V + b'; return c; }')
                    yield g
        # sharing rule: y = x; x[i..j] = v changes y only for arrays/buffers and only when the size is unchanged
        n = len(c)
        for i in range(0, n + 1):
            for j in range(-1, n):
                for v in RHS[tc]:
                    def r(i=i, j=j, v=v):
                        nc = rng_assign(c, i, j, v)
                        same = tc in 'ab' and len(v) == j - i + 1
                        return [nc, nc if same else c]
                    g = Group('rangelv', 'alias:' + tc, tc, ref_of(r), b'y = x; x[' + lit(i) + b' .. ' + lit(j) + b'] = ' + lit(v) + b' (x = ' + C + b')')
                    A = carg(i) + b' ' + carg(j)
                    g.add('runtime', b'mixed @F(mixed i, mixed j) { mixed x = ' + C + b'; mixed y = x; x[i .. j] = ' + lit(v) + b'; return ({ x, y }); }', A)
                    g.add('value', b'mixed @F(mixed i, mixed j) { mixed x = ' + C + b'; mixed y = x; mixed r; r = (x[i .. j] = ' + lit(v) + b'); return ({ x, y }); }', A)
                    g.add('global', b'mixed @F(mixed i, mixed j) { gm = ' + C + b'; gm2 = gm; gm[i .. j] = ' + lit(v) + b'; return ({ gm, gm2 }); }', A)
                    yield g
    # wrong right-hand side type
    for c, v in ((b'ab', [1]), ([1, 2], b'a'), (Buf(b'\x01\x02'), b'a'), (b'ab', 7), ({1: 2}, {}), (7, b'a')):
        g = Group('rangelv', 'nn:' + tname(c), 'bad:' + tname(v), ref_of(lambda: rng_assign(c, 0, 0, v)), lit(c) + b'[0 .. 0] = ' + lit(v))
        g.add('runtime', b'mixed @F() { mixed c = ' + lit(c) + b'; mixed v = ' + lit(v) + b'; c[0 .. 0] = v; return c; }')
        g.add('global', b'mixed @F() { gm = ' + lit(c) + b'; gm2 = ' + lit(v) + b'; gm[0 .. 0] = gm2; return gm; }')
        yield g


# ------------------------------------------------------------------ calls: local, inherited, function pointers
CALL_VALS = [0, 7, -1, 1 << 31, 1 << 32, INT_MIN, 0.5, b'a', MB, [1]]
CALL_OPS = {'+': b'inh_add', '-': b'inh_sub', '*': b'inh_mul'}


@family('call')
def fam_call(tier):
    for op, inh in CALL_OPS.items():
        o = op.encode()
        for a in CALL_VALS:
            for b in CALL_VALS:
                ref = ref_of(lambda: binop(op, a, b))
                if ref and ref[0] == 'E' and op != '+':
                    continue
                g = Group('call', OPNAME[op], tname(a) + tname(b) + (':i64' if big(a, b) else ''), ref, b'f(' + lit(a) + b', ' + lit(b) + b') with f(x,y) = x ' + o + b' y')
                pm, am, im = params([a, b], False)
                A, B = lit(a), lit(b)
                H = b'mixed @F_h(mixed x, mixed y) { return x ' + o + b' y; }\n'
                g.add('direct', b'mixed @F(' + pm + b') { ' + im + b'return a ' + o + b' b; }', am)
                g.add('local', H + b'mixed @F(' + pm + b') { ' + im + b'return @F_h(a, b); }', am)
                g.add('local-literal', H + b'mixed @F() { return @F_h(' + A + b', ' + B + b'); }')
                g.add('local-forward', b'mixed @F_h(mixed x, mixed y);\nmixed @F(' + pm + b') { ' + im + b'return @F_h(a, b); }\n' + H, am)
                g.add('local-spread', b'varargs ' + H + b'mixed @F(' + pm + b') { ' + im + b'mixed *v = ({ a, b }); return @F_h(v...); }', am)
                g.add('local-varargs', b'varargs mixed @F_h(mixed x, mixed y, mixed z) { return x ' + o + b' y; }\nmixed @F(' + pm + b') { ' + im + b'return @F_h(a, b); }', am)
                g.add('inherited', b'mixed @F(' + pm + b') { ' + im + b'return ' + inh + b'(a, b); }', am)
                g.add('inherited-colon', b'mixed @F(' + pm + b') { ' + im + b'return ::' + inh + b'(a, b); }', am)
                g.add('inherited-named', b'mixed @F(' + pm + b') { ' + im + b'return base::' + inh + b'(a, b); }', am)
                g.add('callother', H + b'mixed @F(' + pm + b') { ' + im + b'return call_other(this_object(), "@F_h", a, b); }', am)
                g.add('funptr-local', H + b'mixed @F(' + pm + b') { ' + im + b'function f = (: @F_h :); return evaluate(f, a, b); }', am)
                g.add('funptr-partial', H + b'mixed @F(' + pm + b') { ' + im + b'function f = (: @F_h, a :); return evaluate(f, b); }', am)
                g.add('funptr-full', H + b'mixed @F(' + pm + b') { ' + im + b'function f = (: @F_h, a, b :); return evaluate(f); }', am)
                g.add('funptr-star', H + b'mixed @F(' + pm + b') { ' + im + b'function f = (: @F_h :); return (*f)(a, b); }', am)
                g.add('funptr-expr', b'mixed @F(' + pm + b') { ' + im + b'function f = (: $1 ' + o + b' $2 :); return evaluate(f, a, b); }', am)
                g.add('funptr-expr-capture', b'mixed @F(' + pm + b') { ' + im + b'function f = (: $(a) ' + o + b' $1 :); return evaluate(f, b); }', am)
                g.add('funptr-anon', b'mixed @F(' + pm + b') { ' + im + b'function f = function(mixed x, mixed y) { return x ' + o + b' y; }; return evaluate(f, a, b); }', am)
                g.add('funptr-inherited', b'mixed @F(' + pm + b') { ' + im + b'function f = (: ' + inh + b' :); return evaluate(f, a, b); }', am)
                g.add('funptr-global', H + b'mixed @F(' + pm + b') { ' + im + b'gm = (: @F_h :); return evaluate(gm, a, b); }', am)
                g.add('funptr-literal', b'mixed @F() { return evaluate((: $1 ' + o + b' $2 :), ' + A + b', ' + B + b'); }')
                g.add('sefun', b'mixed @F(' + pm + b') { ' + im + b'return sefun_id(a ' + o + b' b); }', am)
                yield g
    # typed helpers (int / float parameter passing and return)
    for a in INTS:
        for b in (1, -1, INT_MAX):
            g = Group('call', 'typed-int', 'ii' + (':i64' if big(a, b) else ''), ref_of(lambda: binop('+', a, b)), b'int f(int x, int y) = x + y; f(' + lit(a) + b', ' + lit(b) + b')')
            A = carg(a) + b' ' + carg(b)
            g.add('direct', b'mixed @F(int a, int b) { return a + b; }', A)
            g.add('local', b'int @F_h(int x, int y) { return x + y; }\nmixed @F(int a, int b) { return @F_h(a, b); }', A)
            g.add('local-literal', b'int @F_h(int x, int y) { return x + y; }\nmixed @F() { return @F_h(' + lit(a) + b', ' + lit(b) + b'); }')
            g.add('inherited', b'mixed @F(int a, int b) { return inh_iadd(a, b); }', A)
            g.add('funptr-local', b'int @F_h(int x, int y) { return x + y; }\nmixed @F(int a, int b) { return evaluate((: @F_h :), a, b); }', A)
            yield g
    for a in FLOATS:
        for b in (0.5, 1e10):
            g = Group('call', 'typed-float', 'ff', ref_of(lambda: binop('+', a, b)), b'float f(float x, float y) = x + y; f(' + lit(a) + b', ' + lit(b) + b')')
            A = carg(a) + b' ' + carg(b)
            g.add('direct', b'mixed @F(float a, float b) { return a + b; }', A)
            g.add('local', b'float @F_h(float x, float y) { return x + y; }\nmixed @F(float a, float b) { return @F_h(a, b); }', A)
            g.add('local-literal', b'float @F_h(float x, float y) { return x + y; }\nmixed @F() { return @F_h(' + lit(a) + b', ' + lit(b) + b'); }')
            g.add('inherited', b'mixed @F(float a, float b) { return inh_fadd(a, b); }', A)
            yield g
    # overriding: the derived definition wins for plain calls, '::' reaches the inherited one
    for a, b in ((1, 2), (b'a', 0.5)):
        A, B = lit(a), lit(b)
        g = Group('call', 'override', 'derived', ('V', canon([b'derived', a, b])), b'over(' + A + b', ' + B + b')')
        g.add('direct', b'mixed @F() { return ({ "derived", ' + A + b', ' + B + b' }); }')
        g.add('local', b'mixed @F() { return over(' + A + b', ' + B + b'); }')
        g.add('funptr-local', b'mixed @F() { return evaluate((: over :), ' + A + b', ' + B + b'); }')
        g.add('callother', b'mixed @F() { return call_other(this_object(), "over", ' + A + b', ' + B + b'); }')
        yield g
        g = Group('call', 'override', 'inherited', ('V', canon([b'base', a, b])), b'::over(' + A + b', ' + B + b')')
        g.add('direct', b'mixed @F() { return ({ "base", ' + A + b', ' + B + b' }); }')
        g.add('inherited-colon', b'mixed @F() { return ::over(' + A + b', ' + B + b'); }')
        g.add('inherited-named', b'mixed @F() { return base::over(' + A + b', ' + B + b'); }')
        yield g
    # recursion vs loop
    for n in (0, 1, 5, 20, 21, 25):
        def fact(n=n):
            r = 1
            for k in range(2, n + 1):
                r = wrap(r * k)
            return r
        g = Group('call', 'recursion', 'i' + (':i64' if n > 12 else ''), ('V', canon(fact())), b'fact(%d)' % n)
        g.add('loop', b'mixed @F(int n) { int r = 1; int k; for (k = 2; k <= n; k++) r = r * k; return r; }', b'i%d' % n)
        g.add('local', b'int @F_h(int n) { if (n < 2) return 1; return n * @F_h(n - 1); }\nmixed @F(int n) { return @F_h(n); }', b'i%d' % n)
        g.add('local-mixed', b'mixed @F_h(mixed n) { return n < 2 ? 1 : n * @F_h(n - 1); }\nmixed @F(int n) { return @F_h(n); }', b'i%d' % n)
        g.add('loop-muleq', b'mixed @F(int n) { int r = 1; int k; for (k = 2; k <= n; k++) r *= k; return r; }', b'i%d' % n)
        g.add('whiledec', b'mixed @F(int n) { int r = 1; int k = n; while (k--) r = r * (k + 1); return r; }', b'i%d' % n)
        yield g
    # inherited global variable vs own global variable
    for v in (0, 7, -1, 1 << 32, INT_MAX):
        g = Group('call', 'inherited-global', 'i' + (':i64' if big(v) else ''), ref_of(lambda: [v, binop('+', v, 1), binop('+', v, 1)]), b'bg = ' + lit(v) + b'; ++bg')
        g.add('own', b'mixed @F(int v) { mixed a, b; gi = v; a = gi; b = ++gi; return ({ a, b, gi }); }', carg(v))
        g.add('inherited', b'mixed @F(int v) { mixed a, b; a = inh_setg(v); b = inh_inc_g(); return ({ a, b, inh_getg() }); }', carg(v))
        g.add('inherited-direct', b'mixed @F(int v) { mixed a, b; bg = v; a = bg; b = ++bg; return ({ a, b, inh_getg() }); }', carg(v))
        yield g


# ------------------------------------------------------------------ macros and #if
MAC_INTS = [0, 1, -1, 7, 1 << 31, 1 << 32, INT_MAX, INT_MIN]


@family('macro')
def fam_macro(tier):
    # object-like macros
    for name, val in ((b'M_SEVEN', 7), (b'M_BIG', 1 << 32), (b'M_NEG', -1)):
        for b in MAC_INTS:
            for op in ('+', '-', '*', '<', '=='):
                o = op.encode()
                g = Group('macro', 'object-like', 'i' + (':i64' if big(val, b) else ''), ref_of(lambda: binop(op, b, val)), lit(b) + b' ' + o + b' ' + name)
                g.add('expansion', b'mixed @F(int b) { return b ' + o + b' ' + lit(val) + b'; }', carg(b))
                g.add('macro', b'mixed @F(int b) { return b ' + o + b' ' + name + b'; }', carg(b))
                g.add('macro-folded', b'mixed @F() { return ' + lit(b) + b' ' + o + b' ' + name + b'; }')
                g.add('expansion-folded', b'mixed @F() { return ' + lit(b) + b' ' + o + b' ' + lit(val) + b'; }')
                g.add('macro-localdef', b'#define @F_M ' + lit(val) + b'\nmixed @F(int b) { return b ' + o + b' @F_M; }\n#undef @F_M', carg(b))
                yield g
    for s in STRS:
        g = Group('macro', 'object-like', 's', ref_of(lambda: binop('+', s, b'ab')), lit(s) + b' + M_STR')
        g.add('expansion', b'mixed @F(string s) { return s + "ab"; }', carg(s))
        g.add('macro', b'mixed @F(string s) { return s + M_STR; }', carg(s))
        g.add('macro-folded', b'mixed @F() { return ' + lit(s) + b' + M_STR; }')
        g.add('macro-adjacent', b'mixed @F(string s) { return s + "a" "b"; }', carg(s))
        yield g
    # function-like macros
    vals = MAC_INTS + [0.5, b'a']
    for a in vals:
        for b in vals:
            for mac, exp, fn in ((b'M_ADD(%s, %s)', b'((%s)+(%s))', lambda x, y: binop('+', x, y)),
                                 (b'M_MUL(%s, %s)', b'((%s)*(%s))', lambda x, y: binop('*', x, y)),
                                 (b'M_NEST(%s, %s)', b'((((%s)*(2)))+((%s)))', lambda x, y: binop('+', binop('*', x, 2), y)),
                                 (b'M_UNSAFE_MUL(%s + 1, %s)', b'%s + 1*%s', lambda x, y: binop('+', x, binop('*', 1, y))),
                                 (b'M_ADD(M_ADD(%s, 1), M_ID(%s))', b'((((%s)+(1)))+((%s)))', lambda x, y: binop('+', binop('+', x, 1), y))):
                ref = ref_of(lambda: fn(a, b))
                if ref and ref[0] == 'E':
                    continue
                g = Group('macro', 'function-like:' + mac.split(b'(')[0].decode(), tname(a) + tname(b) + (':i64' if big(a, b) else ''), ref, mac % (lit(a), lit(b)))
                pt, at, it = params([a, b], True)
                g.add('expansion', b'mixed @F(' + pt + b') { return ' + exp % (b'a', b'b') + b'; }', at)
                g.add('macro', b'mixed @F(' + pt + b') { return ' + mac % (b'a', b'b') + b'; }', at)
                g.add('macro-folded', b'mixed @F() { return ' + mac % (lit(a), lit(b)) + b'; }')
                g.add('expansion-folded', b'mixed @F() { return ' + exp % (lit(a), lit(b)) + b'; }')
                g.add('macro-spaces', b'mixed @F(' + pt + b') { return ' + (mac % (b' a ', b' b ')).replace(b'(', b' ( ', 1) + b'; }', at) if mac.startswith(b'M_ADD(%s') or mac.startswith(b'M_MUL') else None
                yield g
    for a in MAC_INTS + [0.5]:
        g = Group('macro', 'function-like:M_SQ', tname(a) + (':i64' if big(a) else ''), ref_of(lambda: binop('*', binop('+', a, 1), binop('+', a, 1))), b'M_SQ(' + lit(a) + b' + 1)')
        T = TDECL[tname(a)].encode()
        g.add('expansion', b'mixed @F(' + T + b' a) { return ((a + 1)*(a + 1)); }', carg(a))
        g.add('macro', b'mixed @F(' + T + b' a) { return M_SQ(a + 1); }', carg(a))
        g.add('macro-folded', b'mixed @F() { return M_SQ(' + lit(a) + b' + 1); }')
        yield g
    # arguments with commas / parentheses / strings, macros producing containers
    for mac, exp, val in ((b'M_ID((1, 2))', b'((1, 2))', 2), (b'M_ID("a,b")', b'("a,b")', b'a,b'), (b'M_ID(({ 1, 2 }))', b'(({ 1, 2 }))', [1, 2]),
                          (b'M_ADD("(", ")")', b'(("(")+(")"))', b'()'), (b'M_IDX(M_ARR, 1)', b'((({ 1, "a", 7 }))[1])', b'a'),
                          (b'M_IDX(M_ARR, 2) + M_SEVEN', b'((({ 1, "a", 7 }))[2]) + 7', 14), (b'M_ID(id(3))', b'(id(3))', 3),
                          (b'M_ADD(id(1), M_ID(id(2)))', b'((id(1))+((id(2))))', 3), (b'sizeof(M_ARR)', b'sizeof(({ 1, "a", 7 }))', 3),
                          (b'M_ID(\')\')', b'(\')\')', 41), (b'M_ADD(\',\', 1)', b'((\',\')+(1))', 45)):
        g = Group('macro', 'arguments', tname(val), ('V', canon(val)), mac)
        g.add('expansion', b'mixed @F() { return ' + exp + b'; }')
        g.add('macro', b'mixed @F() { return ' + mac + b'; }')
        yield g
    # #if arithmetic against the same expression evaluated by the compiler / at run time
    for op in ('+', '-', '*', '/', '%', '<<', '>>', '<', '<=', '>', '>=', '==', '!=', '&', '|', '^', '&&', '||'):
        o = op.encode()
        for a in MAC_INTS:
            for b in MAC_INTS:
                def r(a=a, b=b, op=op):
                    if op in ('&&', '||'):
                        return int(bool(a) and bool(b)) if op == '&&' else int(bool(a) or bool(b))
                    return int(binop(op, a, b) != 0)
                ref = ref_of(r)
                if ref and ref[0] == 'E':
                    continue
                ea = b'%d' % a if a >= 0 else (b'(-%d)' % -a if a != INT_MIN else b'(-9223372036854775807 - 1)')
                eb = b'%d' % b if b >= 0 else (b'(-%d)' % -b if b != INT_MIN else b'(-9223372036854775807 - 1)')
                E = ea + b' ' + o + b' ' + eb
                g = Group('macro', 'if-arith', 'ii' + (':i64' if big(a, b) else ''), ref, b'#if ' + E)
                g.add('runtime', b'mixed @F(int a, int b) { return (a ' + o + b' b) ? 1 : 0; }', carg(a) + b' ' + carg(b))
                g.add('folded', b'mixed @F() { return (' + E + b') ? 1 : 0; }')
                g.add('if', b'mixed @F() {\n#if ' + E + b'\n  return 1;\n#else\n  return 0;\n#endif\n}')
                g.add('if-elif', b'mixed @F() {\n#if 0\n  return 2;\n#elif ' + E + b'\n  return 1;\n#else\n  return 0;\n#endif\n}')
                g.add('if-macro', b'#define @F_A ' + ea + b'\n#define @F_B ' + eb + b'\nmixed @F() {\n#if @F_A ' + o + b' @F_B\n  return 1;\n#else\n  return 0;\n#endif\n}')
                yield g
    for a in MAC_INTS:
        for op, fn in ((b'!', lambda v: int(v == 0)), (b'~', lambda v: int(~v != 0)), (b'-', lambda v: int(v != 0))):
            ea = b'%d' % a if a >= 0 else (b'(-%d)' % -a if a != INT_MIN else b'(-9223372036854775807 - 1)')
            g = Group('macro', 'if-arith', 'i' + (':i64' if big(a) else ''), ('V', canon(fn(a))), b'#if ' + op + ea)
            g.add('runtime', b'mixed @F(int a) { return (' + op + b'a) ? 1 : 0; }', carg(a))
            g.add('if', b'mixed @F() {\n#if ' + op + ea + b'\n  return 1;\n#else\n  return 0;\n#endif\n}')
            yield g
    # #ifdef / #ifndef / #undef / nesting
    for body, val in ((b'#ifdef M_SEVEN\n return 1;\n#else\n return 0;\n#endif', 1), (b'#ifndef M_SEVEN\n return 1;\n#else\n return 0;\n#endif', 0),
                      (b'#ifdef M_NOPE\n return 1;\n#else\n return 0;\n#endif', 0),
                      (b'#if defined(M_SEVEN) && !defined(M_NOPE)\n return 1;\n#else\n return 0;\n#endif', 1),
                      (b'#if M_SEVEN == 7\n#if M_NEG < 0\n return 1;\n#else\n return 2;\n#endif\n#else\n return 0;\n#endif', 1),
                      (b'#if M_SEVEN > 7\n return 1;\n#elif M_SEVEN == 7\n return 2;\n#else\n return 0;\n#endif', 2)):
        g = Group('macro', 'ifdef', 'i', ('V', canon(val)), body.split(b'\n')[0])
        g.add('expansion', b'mixed @F() { return %d; }' % val)
        g.add('if', b'mixed @F() {\n' + body + b'\n}')
        yield g


# ------------------------------------------------------------------ containers: construction, growth, sizeof
@family('container')
def fam_container(tier):
    # a mapping built in different ways must be the same mapping (sizes around the 8-slot table / 80 % fill / doubling)
    for n in (0, 1, 2, 5, 6, 7, 8, 9, 12, 13, 14, 16, 17, 33, 64, 65, 130):
        for keykind in ('int', 'str', 'mix', 'bigint'):
            def key(k, kk=keykind):
                if kk == 'int':
                    return k
                if kk == 'str':
                    return b'k%d' % k
                if kk == 'bigint':
                    return wrap((k - 3) * (1 << 32) + k)
                return k if k % 2 else b'k%d' % k
            m = {key(k): k * k for k in range(n)}
            K = {'int': b'k', 'str': b'("k" + k)', 'bigint': b'((k - 3) * 4294967296 + k)', 'mix': b'((k % 2) ? k : ("k" + k))'}[keykind]
            g = Group('container', 'mapping-build', keykind, ('V', canon([dict(m), n])), b'mapping of %d %s keys' % (n, keykind.encode()))
            N = b'i%d' % n
            g.add('index-assign', b'mixed @F(int n) { mapping m = ([]); int k; for (k = 0; k < n; k++) m[' + K + b'] = k * k; return ({ m, sizeof(m) }); }', N)
            if n <= 20:
                g.add('literal', b'mixed @F() { mapping m = ' + lit(m) + b'; return ({ m, sizeof(m) }); }')
                g.add('global-literal', b'mixed @F() { gmap = ' + lit(m) + b'; return ({ gmap, sizeof(gmap) }); }')
            g.add('addeq', b'mixed @F(int n) { mapping m = ([]); int k; for (k = 0; k < n; k++) m += ([ ' + K + b': k * k ]); return ({ m, sizeof(m) }); }', N)
            g.add('add', b'mixed @F(int n) { mapping m = ([]); int k; for (k = 0; k < n; k++) m = m + ([ ' + K + b': k * k ]); return ({ m, sizeof(m) }); }', N)
            g.add('add-left', b'mixed @F(int n) { mapping m = ([]); int k; for (k = 0; k < n; k++) m = ([ ' + K + b': k * k ]) + m; return ({ m, sizeof(m) }); }', N)
            g.add('reverse-order', b'mixed @F(int n) { mapping m = ([]); int k; for (k = n - 1; k >= 0; k--) m[' + K + b'] = k * k; return ({ m, sizeof(m) }); }', N)
            g.add('overwrite', b'mixed @F(int n) { mapping m = ([]); int k; for (k = 0; k < n; k++) m[' + K + b'] = 0; for (k = 0; k < n; k++) m[' + K + b'] = k * k; return ({ m, sizeof(m) }); }', N)
            g.add('delete-readd', b'mixed @F(int n) { mapping m = ([]); int k; for (k = 0; k < n; k++) m[' + K + b'] = k * k; for (k = 0; k < n; k += 2) map_delete(m, ' + K + b'); for (k = 0; k < n; k += 2) m[' + K + b'] = k * k; return ({ m, sizeof(m) }); }', N)
            g.add('halves', b'mixed @F(int n) { mapping m = ([]); mapping h = ([]); int k; for (k = 0; k < n; k++) { if (k % 2) m[' + K + b'] = k * k; else h[' + K + b'] = k * k; } m = m + h; return ({ m, sizeof(m) }); }', N)
            g.add('lookup-rebuild', b'mixed @F(int n) { mapping m = ([]); mapping r = ([]); int k; for (k = 0; k < n; k++) m[' + K + b'] = k * k; for (k = 0; k < n; k++) r[' + K + b'] = m[' + K + b']; return ({ r, sizeof(m) }); }', N)
            g.add('global', b'mixed @F(int n) { int k; gmap = ([]); for (k = 0; k < n; k++) gmap[' + K + b'] = k * k; return ({ gmap, sizeof(gmap) }); }', N)
            yield g
    # arrays built in different ways
    for n in (0, 1, 2, 3, 8, 9, 255, 256, 257):
        arr = list(range(n))
        g = Group('container', 'array-build', 'a', ('V', canon([arr[:12], n])), b'array of %d elements' % n)
        N = b'i%d' % n
        g.add('addeq', b'mixed @F(int n) { mixed *a = ({}); int k; for (k = 0; k < n; k++) a += ({ k }); return ({ a[0 .. 11], sizeof(a) }); }', N)
        g.add('add', b'mixed @F(int n) { mixed *a = ({}); int k; for (k = 0; k < n; k++) a = a + ({ k }); return ({ a[0 .. 11], sizeof(a) }); }', N)
        g.add('allocate', b'mixed @F(int n) { mixed *a = allocate(n); int k; for (k = 0; k < n; k++) a[k] = k; return ({ a[0 .. 11], sizeof(a) }); }', N)
        g.add('prepend', b'mixed @F(int n) { mixed *a = ({}); int k; for (k = n - 1; k >= 0; k--) a = ({ k }) + a; return ({ a[0 .. 11], sizeof(a) }); }', N)
        g.add('range-append', b'mixed @F(int n) { mixed *a = ({}); int k; for (k = 0; k < n; k++) a[<0 ..] = ({ k }); return ({ a[0 .. 11], sizeof(a) }); }', N)
        if n <= 9:
            g.add('literal', b'mixed @F() { mixed *a = ' + lit(arr) + b'; return ({ a[0 .. 11], sizeof(a) }); }')
        g.add('global', b'mixed @F(int n) { int k; ga = ({}); for (k = 0; k < n; k++) ga += ({ k }); return ({ ga[0 .. 11], sizeof(ga) }); }', N)
        yield g
    # strings built in different ways
    for n in (0, 1, 2, 99, 100, 101, 999, 1000, 1001, 4096):
        s = (b'abcdefghij' * (n // 10 + 1))[:n]
        g = Group('container', 'string-build', 's', ('V', canon([s[:12], s[-3:] if n >= 3 else s, n])), b'string of %d characters' % n)
        N = b'i%d' % n
        tail = b'return ({ s[0 .. 11], (strlen(s) >= 3) ? s[<3 ..] : s, strlen(s) }); }'
        g.add('addeq', b'mixed @F(int n) { string s = ""; int k; for (k = 0; k < n; k++) s += "abcdefghij"[k % 10 .. k % 10]; ' + tail, N)
        g.add('add', b'mixed @F(int n) { string s = ""; int k; for (k = 0; k < n; k++) s = s + "abcdefghij"[k % 10 .. k % 10]; ' + tail, N)
        g.add('char-assign', b'mixed @F(int n) { string s = ""; int k; for (k = 0; k < n; k++) { s += "?"; s[k] = \'a\' + k % 10; } ' + tail, N)
        g.add('range-append', b'mixed @F(int n) { string s = ""; int k; for (k = 0; k < n; k++) s[<0 ..] = "abcdefghij"[k % 10 .. k % 10]; ' + tail, N)
        g.add('global', b'mixed @F(int n) { string s; int k; gs = ""; for (k = 0; k < n; k++) gs += "abcdefghij"[k % 10 .. k % 10]; s = gs; ' + tail, N)
        g.add('mixed-addeq', b'mixed @F(int n) { mixed s = ""; int k; for (k = 0; k < n; k++) s += "abcdefghij"[k % 10 .. k % 10]; ' + tail, N)
        yield g
    # sizeof
    for c in CONTS + MAPS + [0, 7, 0.5]:
        t = tname(c)
        ref = ('V', canon(len(c))) if t in 'sabm' else None
        g = Group('container', 'sizeof', t, ref, b'sizeof(' + lit(c)[:40] + b')')
        g.add('runtime', b'mixed @F() { mixed c = ' + lit(c) + b'; return sizeof(c); }')
        g.add('folded', b'mixed @F() { return sizeof(' + lit(c) + b'); }')
        g.add('global', b'mixed @F() { gm = ' + lit(c) + b'; return sizeof(gm); }')
        if t == 's':
            g.add('strlen', b'mixed @F() { string c = ' + lit(c) + b'; return strlen(c); }')
        yield g
    # array and mapping sharing: assignment shares, + copies
    g = Group('container', 'sharing', 'a', ('V', canon([[9, 2], [9, 2], [1, 2, 3], [1, 2]])), b'b = a; b[0] = 9; c = a + ({3}) ...')
    g.add('local', b'mixed @F() { mixed *a = ({ 1, 2 }); mixed *b, *c, *d; d = a + ({}); b = a; c = a + ({ 3 }); b[0] = 9; return ({ a, b, c, d }); }')
    g.add('global', b'mixed @F() { mixed *b, *c, *d; ga = ({ 1, 2 }); d = ga + ({}); b = ga; c = ga + ({ 3 }); b[0] = 9; return ({ ga, b, c, d }); }')
    g.add('param', b'mixed @F_h(mixed *b) { b[0] = 9; return b; }\nmixed @F() { mixed *a = ({ 1, 2 }); mixed *b, *c, *d; d = a + ({}); c = a + ({ 3 }); b = @F_h(a); return ({ a, b, c, d }); }')
    yield g
    g = Group('container', 'sharing', 'm', ('V', canon([{1: 9}, {1: 9}, {1: 2, 3: 4}])), b'mapping b = a; b[1] = 9; c = a + ([3:4])')
    g.add('local', b'mixed @F() { mapping a = ([ 1: 2 ]); mapping b, c; c = a + ([ 3: 4 ]); b = a; b[1] = 9; return ({ a, b, c }); }')
    g.add('global', b'mixed @F() { mapping b, c; gmap = ([ 1: 2 ]); c = gmap + ([ 3: 4 ]); b = gmap; b[1] = 9; return ({ gmap, b, c }); }')
    yield g
    g = Group('container', 'sharing', 's', ('V', canon([b'ab', b'Xb'])), b'string b = a; b[0] = \'X\'')
    g.add('local', b'mixed @F() { string a = "ab"; string b; b = a; b[0] = \'X\'; return ({ a, b }); }')
    g.add('global', b'mixed @F() { string b; gs = "ab"; b = gs; b[0] = \'X\'; return ({ gs, b }); }')
    g.add('param', b'mixed @F(string a) { string b; b = a; b[0] = \'X\'; return ({ a, b }); }', carg(b'ab'))
    g.add('literal-twice', b'mixed @F() { string a = "ab"; string b = "ab"; b[0] = \'X\'; return ({ a, b }); }')
    yield g


# ------------------------------------------------------------------ assignment to a variable declared int / float (declared-type conversions)
@family('typedassign')
def fam_typedassign(tier):
    # the manual: "the type information is completely ignored ... it is actually possible to store a number in a string
    # variable"; the value stored and the value of the expression must not depend on how the computation is spelled
    for x in (0, 1, -1, 7, 1 << 32):
        for y in (0.5, -0.5, 1.5, -1.5, 3.0):
            for op in ('+', '-', '*', '/'):
                o = op.encode()
                g = Group('typedassign', OPNAME[op], 'if', None, b'int x = ' + lit(x) + b'; float y = ' + lit(y) + b'; x ' + o + b'= y')
                A = carg(x) + b' ' + carg(y)
                g.add('assign', b'mixed @F(int x, float y) { x = x ' + o + b' y; return x; }', A)
                g.add('opassign', b'mixed @F(int x, float y) { x ' + o + b'= y; return x; }', A)
                g.add('opassign-literal', b'mixed @F(int x) { x ' + o + b'= ' + lit(y) + b'; return x; }', carg(x))
                g.add('assign-literal', b'mixed @F(int x) { x = x ' + o + b' ' + lit(y) + b'; return x; }', carg(x))
                g.add('assign-global', b'mixed @F(int x, float y) { gi = x; gi = gi ' + o + b' y; return gi; }', A)
                g.add('opassign-global', b'mixed @F(int x, float y) { gi = x; gi ' + o + b'= y; return gi; }', A)
                yield g
    for y in (0.5, -0.5, 1.5, 3.0, 1e10, -1e10, 2147483648.5):
        # the compiler converts a float stored into an int variable; LPC ints are 64-bit, so nothing may be lost below 2^63
        g = Group('typedassign', 'init', 'if' + (':i64' if abs(y) >= 2147483648 else ''), ('V', canon(int(y))), b'int x = ' + lit(y))
        g.add('assign', b'mixed @F(float y) { int x; x = y; return x; }', carg(y))
        g.add('init', b'mixed @F(float y) { int x = y; return x; }', carg(y))
        g.add('init-literal', b'mixed @F() { int x = ' + lit(y) + b'; return x; }')
        g.add('assign-literal', b'mixed @F() { int x; x = ' + lit(y) + b'; return x; }')
        g.add('assign-global', b'mixed @F(float y) { gi = y; return gi; }', carg(y))
        yield g
    for v in (0, 7, -1, 1 << 32, INT_MAX):
        g = Group('typedassign', 'init', 'fi' + (':i64' if big(v) else ''), None, b'float x = ' + lit(v))
        g.add('assign', b'mixed @F(int y) { float x; x = y; return x; }', carg(v))
        g.add('init', b'mixed @F(int y) { float x = y; return x; }', carg(v))
        g.add('init-literal', b'mixed @F() { float x = ' + lit(v) + b'; return x; }')
        g.add('assign-literal', b'mixed @F() { float x; x = ' + lit(v) + b'; return x; }')
        g.add('assign-global', b'mixed @F(int y) { gf = y; return gf; }', carg(v))
        yield g
