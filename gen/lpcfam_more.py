"""more families: depth-3 expressions (deep corpus), classes, catch, sscanf lvalues"""
from lpcgen import *
import itertools

# ------------------------------------------------------------------ depth 3: all five tree shapes over four leaves
SHAPES3 = ('((a.b).c).d', '(a.(b.c)).d', '(a.b).(c.d)', 'a.((b.c).d)', 'a.(b.(c.d))')


def lazy(op, lv, rthunk):
    if op == '&&' and not truth(lv):
        return 0
    if op == '||' and truth(lv):
        return lv
    return binop(op, lv, rthunk())


def eval3(shape, ops, v):
    a, b, c, d = v
    o1, o2, o3 = ops
    L = lazy
    if shape == 0:
        return L(o3, L(o2, L(o1, a, lambda: b), lambda: c), lambda: d)
    if shape == 1:
        return L(o3, L(o1, a, lambda: L(o2, b, lambda: c)), lambda: d)
    if shape == 2:
        return L(o2, L(o1, a, lambda: b), lambda: L(o3, c, lambda: d))
    if shape == 3:
        return L(o1, a, lambda: L(o3, L(o2, b, lambda: c), lambda: d))
    return L(o1, a, lambda: L(o2, b, lambda: L(o3, c, lambda: d)))


def text3(shape, ops, t):
    a, b, c, d = t
    o1, o2, o3 = (b' ' + o.encode() + b' ' for o in ops)
    if shape == 0:
        return b'((' + a + o1 + b + b')' + o2 + c + b')' + o3 + d
    if shape == 1:
        return b'(' + a + o1 + b'(' + b + o2 + c + b'))' + o3 + d
    if shape == 2:
        return b'(' + a + o1 + b + b')' + o2 + b'(' + c + o3 + d + b')'
    if shape == 3:
        return a + o1 + b'((' + b + o2 + c + b')' + o3 + d + b')'
    return a + o1 + b'(' + b + o2 + b'(' + c + o3 + d + b'))'


@family('depth3')
def fam_depth3(tier):
    if tier == 'small':
        return
    deep = tier == 'deep'
    for alph, ops in (([0, 7, INT_MIN], ('+', '-', '*', '/', '<<', '<', '==') + (('%',) if deep else ())),
                      ([0, 0.5, -(1 << 31)], ('+', '-', '*', '/', '<', '==') + (('&&',) if deep else ()))):
        names = (b'a', b'b', b'c', b'd')
        for o in itertools.product(ops, repeat=3):
            for shape in range(5):
                for v in itertools.product(alph, repeat=4):
                    ref = ref_of(lambda: eval3(shape, o, v))
                    lits = tuple(lit(x) for x in v)
                    ty = ''.join(tname(x) for x in v)
                    g = Group('depth3', 'expr', ('mixed' if 'f' in ty else 'iiii') + (':i64' if big(*v) else ''), ref, text3(shape, o, lits))
                    pm, am, im = params(list(v), False)
                    pt, at, it = params(list(v), True)
                    g.add('runtime', b'mixed @F(' + pm + b') { return ' + text3(shape, o, names) + b'; }', am)
                    g.add('typed', b'mixed @F(' + pt + b') { return ' + text3(shape, o, names) + b'; }', at)
                    g.add('folded', b'mixed @F() { return ' + text3(shape, o, lits) + b'; }')
                    g.add('folded-ab', b'mixed @F(' + TDECL[tname(v[2])].encode() + b' c, ' + TDECL[tname(v[3])].encode() + b' d) { return ' +
                          text3(shape, o, (lits[0], lits[1], b'c', b'd')) + b'; }', carg(v[2]) + b' ' + carg(v[3]))
                    yield g


# ------------------------------------------------------------------ classes: a member is a variable like any other
CLS = b'class @F_c { int n; mixed m; float f; }\n'


@family('class')
def fam_class(tier):
    vals = INTS + FLOATS + [b'a', [1, b'a']]
    for v in vals:
        t = tname(v)
        g = Group('class', 'member-store', t + (':i64' if big(v) else ''), ('V', canon([v, v])), b'p->m = ' + lit(v))
        pm, am, im = params([v], False)
        g.add('local', b'mixed @F(' + pm + b') { ' + im + b'mixed m; m = a; return ({ m, m }); }', am)
        g.add('member', CLS + b'mixed @F(' + pm + b') { ' + im + b'class @F_c p = new(class @F_c); p->m = a; return ({ p->m, p->m }); }', am)
        g.add('member-init', CLS + b'mixed @F(' + pm + b') { ' + im + b'class @F_c p = new(class @F_c, m: a); return ({ p->m, p->m }); }', am)
        g.add('member-shared', CLS + b'mixed @F(' + pm + b') { ' + im + b'class @F_c p = new(class @F_c); class @F_c q; q = p; q->m = a; return ({ p->m, q->m }); }', am)
        g.add('member-in-array', CLS + b'mixed @F(' + pm + b') { ' + im + b'mixed *v = ({ new(class @F_c) }); ((class @F_c)v[0])->m = a; return ({ ((class @F_c)v[0])->m, ((class @F_c)v[0])->m }); }', am)
        g.add('member-global', CLS + b'mixed @F(' + pm + b') { ' + im + b'gm = new(class @F_c); ((class @F_c)gm)->m = a; return ({ ((class @F_c)gm)->m, ((class @F_c)gm)->m }); }', am)
        g.add('member-param', CLS + b'mixed @F_h(class @F_c p, mixed a) { p->m = a; return p->m; }\nmixed @F(' + pm + b') { ' + im +
              b'class @F_c p = new(class @F_c); mixed r; r = @F_h(p, a); return ({ p->m, r }); }', am)
        yield g
    # uninitialised members are 0
    g = Group('class', 'member-default', 'i', ('V', canon([0, 0, 0])), b'new(class c) members')
    g.add('local', b'mixed @F() { int n; mixed m; float f; return ({ n, m, 0 }); }')
    g.add('member', CLS + b'mixed @F() { class @F_c p = new(class @F_c); return ({ p->n, p->m, p->f == 0 ? 0 : 1 }); }')
    yield g
    # assignment operators and ++/-- on a member vs on a local
    for a in INTS:
        for op, b in (('+', 1), ('-', 1), ('*', 3), ('/', 2), ('%', 7), ('&', 255), ('|', 256), ('^', -1), ('<<', 1), ('>>', 1), ('+', INT_MAX)):
            o = op.encode()
            g = Group('class', 'member-opassign:' + OPNAME[op], 'ii' + (':i64' if big(a, b) else ''), ref_of(lambda: binop(op, a, b)), b'p->n ' + o + b'= ' + lit(b) + b' (n = ' + lit(a) + b')')
            A = carg(a) + b' ' + carg(b)
            g.add('local', b'mixed @F(int a, int b) { int n; n = a; n = n ' + o + b' b; return n; }', A)
            g.add('local-opassign', b'mixed @F(int a, int b) { int n; n = a; n ' + o + b'= b; return n; }', A)
            g.add('member', CLS + b'mixed @F(int a, int b) { class @F_c p = new(class @F_c); p->n = a; p->n = p->n ' + o + b' b; return p->n; }', A)
            g.add('member-opassign', CLS + b'mixed @F(int a, int b) { class @F_c p = new(class @F_c); p->n = a; p->n ' + o + b'= b; return p->n; }', A)
            g.add('member-opassign-value', CLS + b'mixed @F(int a, int b) { class @F_c p = new(class @F_c); mixed r; p->n = a; r = (p->n ' + o + b'= b); return r; }', A)
            g.add('member-mixed', CLS + b'mixed @F(int a, int b) { class @F_c p = new(class @F_c); p->m = a; p->m ' + o + b'= b; return p->m; }', A)
            yield g
        for tok, d, post in ((b'++', 1, 0), (b'++', 1, 1), (b'--', -1, 0), (b'--', -1, 1)):
            na = binop('+', a, d)
            g = Group('class', 'member-incdec', 'i' + (':i64' if big(a) else ''), ('V', canon([a if post else na, na])), (b'p->n' + tok if post else tok + b'p->n') + b' (n = ' + lit(a) + b')')
            ex = (b'p->n' + tok) if post else (tok + b'p->n')
            lx = (b'n' + tok) if post else (tok + b'n')
            g.add('local', b'mixed @F(int a) { int n; mixed r; n = a; r = ' + lx + b'; return ({ r, n }); }', carg(a))
            g.add('member', CLS + b'mixed @F(int a) { class @F_c p = new(class @F_c); mixed r; p->n = a; r = ' + ex + b'; return ({ r, p->n }); }', carg(a))
            g.add('member-void', CLS + b'mixed @F(int a) { class @F_c p = new(class @F_c); p->n = a; ' + ex + b'; return ({ ' + (lit(a) if post else b'p->n') + b', p->n }); }', carg(a))
            yield g
    # float member: same operators as a float local
    for a in FLOATS:
        for op, b in (('+', 1), ('+', 0.5), ('-', 2), ('*', 2), ('/', 4)):
            o = op.encode()
            g = Group('class', 'member-opassign:' + OPNAME[op], 'f' + tname(b), ref_of(lambda: binop(op, a, b)), b'p->f ' + o + b'= ' + lit(b) + b' (f = ' + lit(a) + b')')
            g.add('local', b'mixed @F(float a) { float f; f = a; f = f ' + o + b' ' + lit(b) + b'; return f; }', carg(a))
            g.add('local-mixed-opassign', b'mixed @F(float a, mixed b) { mixed f; f = a; f ' + o + b'= b; return f; }', carg(a) + b' ' + carg(b))
            g.add('member-opassign', CLS + b'mixed @F(float a) { class @F_c p = new(class @F_c); p->f = a; p->f ' + o + b'= ' + lit(b) + b'; return p->f; }', carg(a))
            g.add('member-mixed-opassign', CLS + b'mixed @F(float a, mixed b) { class @F_c p = new(class @F_c); p->m = a; p->m ' + o + b'= b; return p->m; }', carg(a) + b' ' + carg(b))
            yield g
    # member that is a container: index / range lvalues through the member
    for c, i, v in (([1, 2, 3], 1, 9), (b'abc', 0, 88), ({1: 2}, 5, 6)):
        g = Group('class', 'member-index-assign', tname(c), ref_of(lambda: index_assign(c, i, v)), b'p->m[' + lit(i) + b'] = ' + lit(v) + b' (m = ' + lit(c) + b')')
        g.add('local', b'mixed @F() { mixed m = ' + lit(c) + b'; m[' + lit(i) + b'] = ' + lit(v) + b'; return m; }')
        g.add('member', CLS + b'mixed @F() { class @F_c p = new(class @F_c); p->m = ' + lit(c) + b'; p->m[' + lit(i) + b'] = ' + lit(v) + b'; return p->m; }')
        yield g
    for c, i, j, v in (([1, 2, 3], 1, 1, [9, 8]), (b'abc', 0, 1, b'X'), (b'abc', 3, 2, b'XY')):
        g = Group('class', 'member-range-assign', tname(c), ref_of(lambda: rng_assign(c, i, j, v)), b'p->m[' + lit(i) + b'..' + lit(j) + b'] = ' + lit(v))
        g.add('local', b'mixed @F() { mixed m = ' + lit(c) + b'; m[' + lit(i) + b' .. ' + lit(j) + b'] = ' + lit(v) + b'; return m; }')
        g.add('member', CLS + b'mixed @F() { class @F_c p = new(class @F_c); p->m = ' + lit(c) + b'; p->m[' + lit(i) + b' .. ' + lit(j) + b'] = ' + lit(v) + b'; return p->m; }')
        yield g


# ------------------------------------------------------------------ catch: an error caught and thrown again is the same error; no error -> same value
CATCH_VALS = [0, 1, -1, 7, 1 << 32, INT_MIN, 0.0, 0.5, b'a', [1]]


@family('catch')
def fam_catch(tier):
    for op in ('+', '-', '*', '/', '%', '<', '=='):
        o = op.encode()
        for a in CATCH_VALS:
            for b in CATCH_VALS:
                ref = ref_of(lambda: binop(op, a, b))
                g = Group('catch', OPNAME[op], tname(a) + tname(b) + (':i64' if big(a, b) else ''), ref, b'catch(r = ' + lit(a) + b' ' + o + b' ' + lit(b) + b')')
                pm, am, im = params([a, b], False)
                E = b'a ' + o + b' b'
                g.add('direct', b'mixed @F(' + pm + b') { ' + im + b'return ' + E + b'; }', am)
                g.add('catch', b'mixed @F(' + pm + b') { ' + im + b'mixed r, e; e = catch(r = ' + E + b'); if (e) error(e); return r; }', am)
                g.add('catch-block', b'mixed @F(' + pm + b') { ' + im + b'mixed r, e; e = catch { r = ' + E + b'; }; if (e) error(e); return r; }', am)
                g.add('catch-nested', b'mixed @F(' + pm + b') { ' + im + b'mixed r, e, e2; e2 = catch(e = catch(r = ' + E + b')); if (e2) error("outer"); if (e) error(e); return r; }', am)
                g.add('catch-call', b'mixed @F_h(mixed a, mixed b) { return ' + E + b'; }\nmixed @F(' + pm + b') { ' + im + b'mixed r, e; e = catch(r = @F_h(a, b)); if (e) error(e); return r; }', am)
                g.add('catch-global', b'mixed @F(' + pm + b') { ' + im + b'mixed e; gm = "unset"; e = catch(gm = ' + E + b'); if (e) error(e); return gm; }', am)
                g.add('catch-in-loop', b'mixed @F(' + pm + b') { ' + im + b'mixed r, e; int k; for (k = 0; k < 3; k++) { e = catch(r = ' + E + b'); if (e) break; } if (e) error(e); return r; }', am)
                g.add('catch-in-foreach', b'mixed @F(' + pm + b') { ' + im + b'mixed r, e, x; foreach (x in ({ 1, 2 })) { e = catch(r = ' + E + b'); } if (e) error(e); return r; }', am)
                yield g
    # what a caught error leaves behind: catch value is a string, locals keep their values, the stack is usable afterwards
    for a, b in ((1, 0), (7, 0), (b'a', 1), ([1], 2)):
        A, B = lit(a), lit(b)
        ok = ref_of(lambda: binop('/', a, b))
        g = Group('catch', 'state-after-error', tname(a) + tname(b), ('V', canon([1, 5, 12, [1, 2, 3]])), b'r = 5; catch(r = ' + A + b' / ' + B + b'); ...')
        pm, am, im = params([a, b], False)
        g.add('catch', b'mixed @F(' + pm + b') { ' + im + b'mixed r = 5; mixed e; e = catch(r = a / b); return ({ stringp(e), r, 5 + 7, ({ 1, 2, 3 }) }); }', am)
        g.add('catch-block', b'mixed @F(' + pm + b') { ' + im + b'mixed r = 5; mixed e; e = catch { r = a / b; }; return ({ stringp(e), r, 5 + 7, ({ 1, 2, 3 }) }); }', am)
        g.add('catch-in-foreach', b'mixed @F(' + pm + b') { ' + im + b'mixed r = 5; mixed e, x; mixed *v = ({}); foreach (x in ({ 1, 2, 3 })) { e = catch(r = a / b); v += ({ x }); } return ({ stringp(e), r, 5 + 7, v }); }', am)
        g.add('catch-deep', b'mixed @F_h(mixed a, mixed b, int d) { mixed x; if (d) { foreach (x in ({ 1 })) return @F_h(a, b, d - 1); } return a / b; }\nmixed @F(' + pm + b') { ' + im +
              b'mixed r = 5; mixed e; e = catch(r = @F_h(a, b, 3)); return ({ stringp(e), r, 5 + 7, ({ 1, 2, 3 }) }); }', am)
        g.add('catch-throw', b'mixed @F(' + pm + b') { ' + im + b'mixed r = 5; mixed e; e = catch(throw("boom")); return ({ e == "boom", r, 5 + 7, ({ 1, 2, 3 }) }); }', am)
        g.add('catch-error', b'mixed @F(' + pm + b') { ' + im + b'mixed r = 5; mixed e; e = catch(error("boom")); return ({ stringp(e), r, 5 + 7, ({ 1, 2, 3 }) }); }', am)
        yield g
    g = Group('catch', 'no-error', 'i', ('V', canon([0, 9])), b'catch(r = 9)')
    g.add('catch', b'mixed @F() { mixed r, e; e = catch(r = 9); return ({ e, r }); }')
    g.add('catch-block', b'mixed @F() { mixed r, e; e = catch { r = 9; }; return ({ e, r }); }')
    g.add('catch-value', b'mixed @F() { mixed r; return ({ catch(r = 9), r }); }')
    yield g


# ------------------------------------------------------------------ sscanf: any lvalue can receive a match
SS_INTS = [0, 7, -1, 255, 1 << 31, -(1 << 31), 1 << 32, INT_MAX, INT_MIN]


@family('sscanf')
def fam_sscanf(tier):
    for n in SS_INTS:
        for w in (b'ab', b'', MB):
            src = (b'%d ' % n) + w
            if w == b'':
                ref = ('V', canon([1, n, b'unset']))      # "%d %s": nothing left for %s
                src = b'%d' % n
            else:
                ref = ('V', canon([2, n, w]))
            if big(n):
                ref = None      # how many digits the %d of the sscanf efun converts is not part of the language core
            g = Group('sscanf', 'lvalues:int-string', 'is' + (':i64' if big(n) else ''), ref, b'sscanf(' + lit(src) + b', "%d %s", x, y)')
            S = carg(src)
            g.add('local', b'mixed @F(string s) { int x; string y = "unset"; int c; c = sscanf(s, "%d %s", x, y); return ({ c, x, y }); }', S)
            g.add('local-mixed', b'mixed @F(string s) { mixed x; mixed y = "unset"; int c; c = sscanf(s, "%d %s", x, y); return ({ c, x, y }); }', S)
            g.add('global', b'mixed @F(string s) { int c; gi = 0; gs = "unset"; c = sscanf(s, "%d %s", gi, gs); return ({ c, gi, gs }); }', S)
            g.add('elem', b'mixed @F(string s) { mixed *v = ({ 0, "unset" }); int c; c = sscanf(s, "%d %s", v[0], v[1]); return ({ c, v[0], v[1] }); }', S)
            g.add('elem-rindex', b'mixed @F(string s) { mixed *v = ({ 0, "unset" }); int c; c = sscanf(s, "%d %s", v[<2], v[<1]); return ({ c, v[0], v[1] }); }', S)
            g.add('mapelem', b'mixed @F(string s) { mapping m = ([ "y": "unset", "x": 0 ]); int c; c = sscanf(s, "%d %s", m["x"], m["y"]); return ({ c, m["x"], m["y"] }); }', S)
            g.add('nested', b'mixed @F(string s) { mixed *v = ({ ({ 0 }), ([ 1: "unset" ]) }); int c; c = sscanf(s, "%d %s", v[0][0], v[1][1]); return ({ c, v[0][0], v[1][1] }); }', S)
            g.add('member', CLS + b'mixed @F(string s) { class @F_c p = new(class @F_c); int c; p->m = "unset"; c = sscanf(s, "%d %s", p->n, p->m); return ({ c, p->n, p->m }); }', S)
            g.add('literal', b'mixed @F() { int x; string y = "unset"; int c; c = sscanf(' + lit(src) + b', "%d %s", x, y); return ({ c, x, y }); }')
            g.add('to_int', b'mixed @F(string s) { int x; string y = "unset"; string t; int c; c = sscanf(s, "%s %s", t, y); if (!c) { t = s; c = 1; } sscanf(t, "%d", x); return ({ c, x, y }); }', S) if w != b'' else None
            yield g
    # the example of docs/manual/lpc.md (7): a range lvalue and a char lvalue as targets
    ref = ('V', canon([2, [1, 2, 3, [b'This is a road']], b'symmetry']))
    g = Group('sscanf', 'lvalues:manual-example', 'range+char', ref, b'sscanf(..., arr[3][0][<0..], x[1])')
    call = (b'sscanf("Written on a roadside: the char for \'y\' has value 121\\n", "Written on %sside: the char for \'y\' has value %d\\n", ')
    g.add('manual', b'mixed @F() { mixed x = "simmetry"; mixed *arr = ({ 1, 2, 3, ({ "This is " }) }); int c; c = ' + call + b'arr[3][0][<0..], x[1]); return ({ c, arr, x }); }')
    g.add('spelled', b'mixed @F() { mixed x = "simmetry"; mixed *arr = ({ 1, 2, 3, ({ "This is " }) }); int c; string t; int n; c = ' + call + b't, n); arr[3][0] = arr[3][0] + t; x[1] = n; return ({ c, arr, x }); }')
    g.add('global', b'mixed @F() { int c; gs = "simmetry"; ga = ({ 1, 2, 3, ({ "This is " }) }); c = ' + call + b'ga[3][0][<0..], gs[1]); return ({ c, ga, gs }); }')
    yield g
    # range lvalue targets in general: x[i..j] receives the match
    for s0, i, j in ((b'abc', 0, 0), (b'abc', 1, 2), (b'abc', 3, 2), (b'', 0, -1), (b'abc', 0, -1)):
        def r(s0=s0, i=i, j=j):
            return [1, rng_assign(s0, i, j, b'XY')]
        g = Group('sscanf', 'lvalues:range', 's', ref_of(r), b'sscanf("XY", "%s", x[' + lit(i) + b'..' + lit(j) + b']) x=' + lit(s0))
        A = carg(s0) + b' ' + carg(i) + b' ' + carg(j)
        g.add('spelled', b'mixed @F(string x, int i, int j) { string t; int c; c = sscanf("XY", "%s", t); x[i .. j] = t; return ({ c, x }); }', A)
        g.add('range-lvalue', b'mixed @F(string x, int i, int j) { int c; c = sscanf("XY", "%s", x[i .. j]); return ({ c, x }); }', A)
        g.add('range-lvalue-global', b'mixed @F(string x, int i, int j) { int c; gs = x; c = sscanf("XY", "%s", gs[i .. j]); return ({ c, gs }); }', A)
        yield g


# ------------------------------------------------------------------ macro parameter naming: every (parameter, body identifier) pair
MNAMES = [b'i', b'id', b'idx', b'n', b'num', b'x', b'xy']


@family('macroname')
def fam_macroname(tier):
    """function-like macros whose parameters and whose free body identifiers (locals of the enclosing function) come from
    a small alphabet with proper-prefix / proper-suffix / equal / disjoint names; sibling = the hand-expanded function"""
    scale = [b'1', b'1000', b'1000000']
    for np_ in (1, 2, 3):
        for ps in itertools.permutations(MNAMES, np_):
            frees = [f for f in MNAMES if f not in ps]
            for f in frees + [None]:
                for layout in (0, 1):
                    # body: free identifier weighted 10^9, parameters weighted 1, 10^3, 10^6; layout 1 puts the free one in the middle
                    terms = [p + b' * ' + scale[k] for k, p in enumerate(ps)]
                    fterm = [f + b' * 1000000000'] if f else []
                    body_terms = (fterm + terms) if layout == 0 else (terms[:1] + fterm + terms[1:])
                    body = b'(' + b' + '.join(body_terms) + b')'
                    argv = [3, 5, 8][:np_]
                    fval = 7
                    refv = (fval * 10 ** 9 if f else 0) + sum(a * 1000 ** k for k, a in enumerate(argv))
                    argn = [b'q0', b'q1', b'q2'][:np_]
                    # hand expansion: every parameter replaced by the argument text, nothing else touched
                    def expand(args):
                        t = [a + b' * ' + scale[k] for k, a in enumerate(args)]
                        bt = (fterm + t) if layout == 0 else (t[:1] + fterm + t[1:])
                        return b'(' + b' + '.join(bt) + b')'
                    rel = []
                    for p in ps:
                        for o in ([f] if f else []):
                            rel.append('prefix' if p.startswith(o) and p != o else 'ext' if o.startswith(p) else 'suffix' if p.endswith(o) or o.endswith(p) else 'disjoint')
                    cls = '+'.join(sorted(set(rel))) or 'nofree'
                    g = Group('macro', 'param-names', '%dparam:%s' % (np_, cls), ('V', canon(refv)),
                              b'#define M(' + b', '.join(ps) + b') ' + body + (b'  with local ' + f if f else b''))
                    decl = (b'int ' + f + b' = %d; ' % fval) if f else b''
                    qdecl = b''.join(b'int ' + q + b' = %d; ' % a for q, a in zip(argn, argv))
                    D = b'#define @F_M(' + b', '.join(ps) + b') ' + body + b'\n'
                    U = b'\n#undef @F_M'
                    g.add('expansion', b'mixed @F() { ' + decl + qdecl + b'return ' + expand(argn) + b'; }')
                    g.add('macro', D + b'mixed @F() { ' + decl + qdecl + b'return @F_M(' + b', '.join(argn) + b'); }' + U)
                    g.add('macro-literal', D + b'mixed @F() { ' + decl + b'return @F_M(' + b', '.join(b'%d' % a for a in argv) + b'); }' + U)
                    g.add('macro-spaced', D.replace(b'(' + b', '.join(ps) + b') ', b'( ' + b' , '.join(ps) + b' ) ', 1) + b'mixed @F() { ' + decl + qdecl + b'return @F_M( ' + b' , '.join(argn) + b' ); }' + U)
                    g.add('expansion-literal', b'mixed @F() { ' + decl + b'return ' + expand([b'%d' % a for a in argv]) + b'; }')
                    yield g
    # arguments that are themselves identifiers of the alphabet (the argument text must not be rescanned for parameter names)
    for p in MNAMES:
        for a in MNAMES:
            if a == p:
                continue
            g = Group('macro', 'param-names', 'arg-ident', ('V', canon(5 * 1000 + 2)), b'#define M(' + p + b') (' + p + b' * 1000 + 2)  called M(' + a + b')')
            g.add('expansion', b'mixed @F() { int ' + a + b' = 5; return (' + a + b' * 1000 + 2); }')
            g.add('macro', b'#define @F_M(' + p + b') (' + p + b' * 1000 + 2)\nmixed @F() { int ' + a + b' = 5; return @F_M(' + a + b'); }\n#undef @F_M')
            yield g


# ------------------------------------------------------------------ lvalue kinds back to back (the interpreter keeps shared scratch state for byte and range lvalues)
def lv_actions():
    """(kind, name, declaration of V, statement on V, result expression, reference thunk)"""
    E = lambda cls: (lambda: (_ for _ in ()).throw(LErr(cls)))
    return [
        ('local', 'addeq', b'int V = 5; ', b'V += 3;', b'V', lambda: 8),
        ('local', 'inc', b'int V = 5; ', b'V++;', b'V', lambda: 6),
        ('global', 'addeq', b'', b'G = 5; G += 3;', b'G', lambda: 8),
        ('aelem', 'addeq', b'mixed *V = ({ 5, 6 }); ', b'V[1] += 3;', b'V', lambda: [5, 9]),
        ('aelem', 'inc', b'mixed *V = ({ 5, 6 }); ', b'V[0]++;', b'V', lambda: [6, 6]),
        ('melem', 'addeq', b'mapping V = ([ "k": 5 ]); ', b'V["k"] += 3;', b'V', lambda: {b'k': 8}),
        ('melem', 'store', b'mapping V = ([ "k": 5 ]); ', b'V["n"] = 1;', b'V', lambda: {b'k': 5, b'n': 1}),
        ('schar', 'store', b'string V = "ab"; ', b"V[0] = 'X';", b'V', lambda: b'Xb'),
        ('schar', 'inc', b'string V = "ab"; ', b'V[1]++;', b'V', lambda: b'ac'),
        ('schar', 'subeq', b'string V = "ab"; ', b'V[1] -= 1;', b'V', lambda: b'aa'),
        ('schar', 'store0', b'string V = "ab"; ', b'V[0] = 0;', b'V', E('other')),
        ('schar', 'store256', b'string V = "ab"; ', b'V[0] = 256;', b'V', E('other')),
        ('schar', 'subeq-to-0', b'string V = "ab"; ', b'V[0] -= 97;', b'V', E('other')),
        ('schar', 'addeq-to-0', b'string V = "ab"; ', b'V[0] += 159;', b'V', E('other')),
        ('schar', 'dec-to-0', b'string V = S1; ', b'V[0]--;', b'V', E('other')),
        ('schar', 'predec-to-0', b'string V = S1; ', b'--V[0];', b'V', E('other')),
        ('schar', 'inc-to-0', b'string V = S255; ', b'V[0]++;', b'V', E('other')),
        ('schar', 'preinc-to-0', b'string V = S255; ', b'++V[0];', b'V', E('other')),
        ('bbyte', 'store0', b'buffer V = mkbuf(({ 5, 6 })); ', b'V[0] = 0;', b'V', lambda: Buf(b'\x00\x06')),
        ('bbyte', 'inc', b'buffer V = mkbuf(({ 5, 6 })); ', b'V[1]++;', b'V', lambda: Buf(b'\x05\x07')),
        ('bbyte', 'inc-to-0', b'buffer V = mkbuf(({ 5, 255 })); ', b'V[1]++;', b'V', lambda: Buf(b'\x05\x00')),
        ('bbyte', 'subeq-to-0', b'buffer V = mkbuf(({ 5, 6 })); ', b'V[0] -= 5;', b'V', lambda: Buf(b'\x00\x06')),
        ('srange', 'shrink', b'string V = "abc"; ', b'V[0 .. 1] = "X";', b'V', lambda: b'Xc'),
        ('srange', 'append', b'string V = "abc"; ', b'V[<0 ..] = "Z";', b'V', lambda: b'abcZ'),
        ('srange', 'samesize', b'string V = "abc"; ', b'V[1 .. 1] = "Y";', b'V', lambda: b'aYc'),
        ('arange', 'shrink', b'mixed *V = ({ 1, 2, 3 }); ', b'V[0 .. 1] = ({ 9 });', b'V', lambda: [9, 3]),
        ('arange', 'samesize', b'mixed *V = ({ 1, 2, 3 }); ', b'V[1 .. 1] = ({ 8 });', b'V', lambda: [1, 8, 3]),
        ('brange', 'shrink', b'buffer V = mkbuf(({ 1, 2, 3 })); ', b'V[0 .. 1] = mkbuf(({ 9 }));', b'V', lambda: Buf(b'\x09\x03')),
        ('brange', 'samesize', b'buffer V = mkbuf(({ 1, 2, 3 })); ', b'V[1 .. 1] = mkbuf(({ 8 }));', b'V', lambda: Buf(b'\x01\x08\x03')),
        ('member', 'addeq', b'class @F_c V = new(class @F_c); ', b'V->n = 5; V->n += 3;', b'V->n', lambda: 8),
        ('member', 'mstore', b'class @F_c V = new(class @F_c); ', b'V->m = "ab"; V->m[0] = \'X\';', b'V->m', lambda: b'Xb'),
    ]


@family('lvseq')
def fam_lvseq(tier):
    acts = lv_actions()
    for a1 in acts:
        for a2 in acts:
            def inst(a, k):
                v = b'v%d' % k
                G = b'gm' if k == 1 else b'gm2'
                sub = lambda t: t.replace(b'V', v).replace(b'G', G)
                return sub(a[2]), sub(a[3]), sub(a[4])
            d1, s1, r1 = inst(a1, 1)
            d2, s2, r2 = inst(a2, 2)
            def ref(a1=a1, a2=a2):
                return [a1[5](), a2[5]()]
            def ref_sw(a1=a1, a2=a2):
                x2 = a2[5]()
                return [a1[5](), x2]
            g = Group('lvseq', a1[0] + '-then-' + a2[0], 'nul-store' if _raises(a2[5]) or _raises(a1[5]) else 'store', ref_of(ref), s1 + b' ' + s2)
            hdr = CLS + b'mixed @F(string S255, string S1) { '
            A = b'sff62 s0162'           # "\xffb", "\x01b"
            g.add('sequence', hdr + d1 + d2 + s1 + b' ' + s2 + b' return ({ ' + r1 + b', ' + r2 + b' }); }', A)
            g.add('swapped', hdr + d1 + d2 + s2 + b' ' + s1 + b' return ({ ' + r1 + b', ' + r2 + b' }); }', A)
            g.add('second-only', hdr + d2 + s2 + b' return ({ ' + lit(a1[5]()) + b', ' + r2 + b' }); }', A) if not _raises(a1[5]) else None
            yield g


def _raises(th):
    try:
        th()
        return False
    except LErr:
        return True


# ------------------------------------------------------------------ string table index widths (F_SHORT_STRING / F_STRING)
@family('manystrings')
def fam_manystrings(tier):
    n = 300
    table = b'({ ' + b', '.join(b'"s%03d"' % k for k in range(n)) + b' })'
    sw = b' '.join(b'case %d: return "s%03d";' % (k, k) for k in range(n))
    for k in (0, 1, 62, 63, 64, 254, 255, 256, 257, 299):
        g = Group('literal', 'string-table', 's', ('V', canon(b's%03d' % k)), b'the %dth of 300 string literals of one program' % k)
        g.add('computed', b'mixed @F(int k) { return sprintf("s%03d", k); }', b'i%d' % k)
        g.add('table', b'mixed @F(int k) {\n  mixed *t = ' + table.replace(b', "s', b',\n "s') + b';\n  return t[k];\n}', b'i%d' % k)
        yield g


# ------------------------------------------------------------------ array set operators: - and & go through a sorted "alist"
SET_INTS = [0, 1, 1 << 31, 1 << 32, (1 << 32) + 1, -(1 << 32), INT_MAX, INT_MIN]
SET_OTHER = [0.0, 0.5, 1.5, 2.5, -0.5, b'a', b'b']


def set_arrays(elems):
    out = [[e] for e in elems]
    out += [[a, b] for a in elems for b in elems if not (type(a) == type(b) and a == b)]
    return out


def arr_sub(a, b):
    return [x for x in a if not any(type(x) == type(y) and x == y for y in b)]


def arr_and(a, b):
    return {x: 1 for x in a if any(type(x) == type(y) and x == y for y in b)}


@family('arrayset')
def fam_arrayset(tier):
    ints = set_arrays(SET_INTS)
    others = set_arrays(SET_OTHER + [0, 1 << 32])
    for pool, tag in ((ints, 'int'), (others, 'mixed')):
        for a in pool:
            for b in pool:
                A, B = lit(a), lit(b)
                big_ = ':i64' if big(*[x for x in a + b if isinstance(x, int)]) else ''
                g = Group('arrayset', 'sub', tag + big_, ('V', canon(arr_sub(a, b))), A + b' - ' + B)
                g.add('runtime', b'mixed @F() { mixed a = ' + A + b'; mixed b = ' + B + b'; return a - b; }')
                g.add('loop', b'mixed @F() { mixed *a = ' + A + b'; mixed *b = ' + B + b'; mixed *r = ({}); mixed x, y; int f; '
                      b'foreach (x in a) { f = 0; foreach (y in b) if (typeof(x) == typeof(y) && x == y) f = 1; if (!f) r += ({ x }); } return r; }')
                g.add('typed', b'mixed @F() { mixed *a = ' + A + b'; mixed *b = ' + B + b'; return a - b; }')
                g.add('folded', b'mixed @F() { return ' + A + b' - ' + B + b'; }')
                g.add('opassign', b'mixed @F() { mixed *a = ' + A + b'; mixed *b = ' + B + b'; a -= b; return a; }')
                g.add('global', b'mixed @F() { ga = ' + A + b'; gm = ' + B + b'; return ga - gm; }')
                g.add('member_array', b'mixed @F() { mixed *a = ' + A + b'; mixed *b = ' + B + b'; mixed *r = ({}); mixed x; '
                      b'foreach (x in a) if (member_array(x, b) == -1) r += ({ x }); return r; }')
                yield g
                if any(isinstance(x, float) and x == 0 for x in a + b) and any(isinstance(x, int) and x == 0 for x in a + b):
                    continue        # the result is shown as a mapping, and 0 and 0.0 are not both usable as keys there
                g = Group('arrayset', 'and', tag + big_, ('V', canon(arr_and(a, b))), A + b' & ' + B)
                cnt = b'foreach (x in t) r[x] = 1; return r; }'
                dcl = b'mapping r = ([]); mixed x; mixed *t; '
                g.add('runtime', b'mixed @F() { mixed a = ' + A + b'; mixed b = ' + B + b'; ' + dcl.replace(b'mixed *t', b'mixed t') + b't = a & b; ' + cnt)
                g.add('loop', b'mixed @F() { mixed *a = ' + A + b'; mixed *b = ' + B + b'; mapping r = ([]); mixed x, y; '
                      b'foreach (x in a) foreach (y in b) if (typeof(x) == typeof(y) && x == y) r[x] = 1; return r; }')
                g.add('typed', b'mixed @F() { mixed *a = ' + A + b'; mixed *b = ' + B + b'; ' + dcl + b't = a & b; ' + cnt)
                g.add('folded', b'mixed @F() { ' + dcl + b't = ' + A + b' & ' + B + b'; ' + cnt)
                g.add('swapped', b'mixed @F() { mixed *a = ' + A + b'; mixed *b = ' + B + b'; ' + dcl + b't = b & a; ' + cnt)
                yield g


# ------------------------------------------------------------------ x op= x: both operands are the same value held by one variable
@family('selfop')
def fam_selfop(tier):
    vals = [[1, 2, 3], [1, b'a'], [7], [], {1: 2, b'a': 3}, {}, b'ab', b'abc', b'', MB, Buf(b'\x01\x02\x03'), Buf(b''),
            0, 1, 7, -1, 1 << 31, 1 << 32, INT_MAX, INT_MIN, 0.5, -1.5, 1e10]
    for v in vals:
        t = tname(v)
        V = lit(v)
        T = TDECL[t].encode()
        ops = {'a': ('+', '-'), 'm': ('+',), 's': ('+',), 'b': ('+',), 'f': ('+', '-', '*', '/'),
               'i': ('+', '-', '*', '/', '%', '&', '|', '^', '<<', '>>')}[t]
        for op in ops:
            o = op.encode()
            ref = ref_of(lambda: binop(op, v, v))
            if t == 'm' and v:
                ref = ('V', canon(v))           # the union of a mapping with itself
            g = Group('selfop', OPNAME[op], t + (':i64' if big(v) else ''), ref, b'x ' + o + b'= x  (x = ' + V + b')')
            g.add('assign', b'mixed @F() { ' + T + b' x = ' + V + b'; x = x ' + o + b' x; return x; }')
            g.add('opassign', b'mixed @F() { ' + T + b' x = ' + V + b'; x ' + o + b'= x; return x; }')
            g.add('opassign-mixed', b'mixed @F() { mixed x = ' + V + b'; x ' + o + b'= x; return x; }')
            g.add('opassign-value', b'mixed @F() { mixed x = ' + V + b'; mixed r; r = (x ' + o + b'= x); return r; }')
            g.add('opassign-global', b'mixed @F() { gm = ' + V + b'; gm ' + o + b'= gm; return gm; }')
            g.add('opassign-elem', b'mixed @F() { mixed *w = ({ ' + V + b' }); w[0] ' + o + b'= w[0]; return w[0]; }')
            g.add('opassign-mapelem', b'mixed @F() { mapping w = ([ "k": ' + V + b' ]); w["k"] ' + o + b'= w["k"]; return w["k"]; }')
            g.add('opassign-copy', b'mixed @F() { mixed x = ' + V + b'; mixed y = ' + V + b'; x ' + o + b'= y; return x; }')
            g.add('opassign-param', b'mixed @F_h(mixed x) { x ' + o + b'= x; return x; }\nmixed @F() { return @F_h(' + V + b'); }')
            g.add('opassign-built', b'mixed @F() { mixed x = ' + V + b'; mixed e; x = x ' + o + b' x; return x; }') if False else None
            yield g
            if t in 'amb' or t == 's':
                # a second holder must keep the old value (strings and + results are copies; x += y never changes what y denotes)
                ref2 = None
                if ref and ref[0] == 'V':
                    try:
                        ref2 = ('V', canon([binop(op, v, v) if not (t == 'm' and v) else v, v]))
                    except (LErr, RefUndef):
                        ref2 = None
                if t == 'm':
                    continue            # += on a mapping changes the mapping in place (documented: a += ([k:v]) is a[k] = v)
                g = Group('selfop', OPNAME[op] + '-shared', t, ref2, b'y = x; x ' + o + b'= x  (x = ' + V + b')')
                g.add('assign', b'mixed @F() { mixed x = ' + V + b'; mixed y; y = x; x = x ' + o + b' x; return ({ x, y }); }')
                g.add('opassign', b'mixed @F() { mixed x = ' + V + b'; mixed y; y = x; x ' + o + b'= x; return ({ x, y }); }')
                g.add('opassign-y', b'mixed @F() { mixed x = ' + V + b'; mixed y; y = x; x ' + o + b'= y; return ({ x, y }); }')
                g.add('opassign-global', b'mixed @F() { mixed y; gm = ' + V + b'; y = gm; gm ' + o + b'= gm; return ({ gm, y }); }')
                yield g
