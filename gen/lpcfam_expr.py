"""expression families: literals, unary, binary (depth 1), assignment operators, ++/--, depth 2"""
from lpcgen import *
import itertools

ASSIGNABLE = ('+', '-', '*', '/', '%', '&', '|', '^', '<<', '>>')
NUMOPS = ('+', '-', '*', '/', '<', '<=', '>', '>=', '==', '!=', '&&', '||')
ALLOPS = ('+', '-', '*', '/', '%', '&', '|', '^', '<<', '>>', '<', '<=', '>', '>=', '==', '!=', '&&', '||')
INTS_X = [0, -1, 7, 1 << 31, 1 << 32, INT_MIN]        # alphabet of the extended spellings in the quick tier
FLOATS_X = [0.0, -1.5, 1e10]


def bop(op):
    return op.encode()


def bin_members(g, op, a, b, extended):
    o = bop(op)
    ta, tb = tname(a), tname(b)
    A, B = lit(a), lit(b)
    pm, am, im = params([a, b], False)
    pt, at, it = params([a, b], True)
    Ta, Tb = TDECL[ta].encode(), TDECL[tb].encode()
    g.add('runtime', b'mixed @F(' + pm + b') { ' + im + b'return a ' + o + b' b; }', am)
    g.add('typed', b'mixed @F(' + pt + b') { ' + it + b'return a ' + o + b' b; }', at)
    both_scalar = scalar(a) and scalar(b)
    g.add('folded', b'mixed @F() { return ' + A + b' ' + o + b' ' + B + b'; }')
    cross = ta == 'i' and tb == 'f'
    if op in ASSIGNABLE:
        if not cross:
            g.add('opassign-typed', b'mixed @F(' + pt + b') { ' + it + b'a ' + o + b'= b; return a; }', at)
        g.add('opassign-mixed', b'mixed @F(' + pm + b') { ' + im + b'a ' + o + b'= b; return a; }', am)
    if not extended:
        return
    if scalar(b):
        g.add('folded-L', b'mixed @F(' + Tb + b' b) { return ' + A + b' ' + o + b' b; }', carg(b))
    if scalar(a):
        g.add('folded-R', b'mixed @F(' + Ta + b' a) { return a ' + o + b' ' + B + b'; }', carg(a))
    g.add('local', b'mixed @F() { ' + Ta + b' a = ' + A + b'; ' + Tb + b' b = ' + B + b'; return a ' + o + b' b; }')
    g.add('global', b'mixed @F() { gm = ' + A + b'; gm2 = ' + B + b'; return gm ' + o + b' gm2; }')
    g.add('global-typed', b'mixed @F() { ' + GLOB[ta].encode() + b' = ' + A + b'; gm2 = ' + B + b'; return ' +
          GLOB[ta].encode() + b' ' + o + b' gm2; }')
    if op in ASSIGNABLE:
        g.add('opassign-val', b'mixed @F(' + pm + b') { ' + im + b'mixed r; r = (a ' + o + b'= b); return r; }', am)
        g.add('opassign-global', b'mixed @F(' + pm + b') { ' + im + b'gm = a; gm ' + o + b'= b; return gm; }', am)
        g.add('opassign-elem', b'mixed @F(' + pm + b') { ' + im + b'mixed *v = ({ a }); v[0] ' + o + b'= b; return v[0]; }', am)
        g.add('opassign-mapelem', b'mixed @F(' + pm + b') { ' + im + b'mapping m = ([ "k": a ]); m["k"] ' + o +
              b'= b; return m["k"]; }', am)
        if scalar(a) and not cross:
            g.add('opassign-litR', b'mixed @F(' + Ta + b' a) { a ' + o + b'= ' + B + b'; return a; }', carg(a))


def bin_group(op, a, b, extended):
    ta, tb = tname(a), tname(b)
    g = Group('binop', OPNAME[op], ta + tb + (':i64' if big(a, b) else ''), ref_of(lambda: binop(op, a, b)),
              lit(a) + b' ' + bop(op) + b' ' + lit(b))
    bin_members(g, op, a, b, extended)
    return g


@family('binop')
def fam_binop(tier):
    thorough = tier != 'small'
    INTS_ = INTS + ([3, 65536, (1 << 31) - 1, -(1 << 31) - 1, (1 << 32) - 1, 1 << 62] if thorough else [])
    FLOATS_ = FLOATS + ([-0.0, 1.0, -2.5, 1e-7, 1e20, 12345678.0] if thorough else [])
    # int x int: every operator, full alphabet
    for op in ALLOPS:
        for a in INTS_:
            for b in INTS_:
                yield bin_group(op, a, b, thorough or (a in INTS_X and b in INTS_X))
    # int x float, float x int, float x float
    for op in NUMOPS:
        for a in INTS_:
            for b in FLOATS_:
                ext = thorough or (a in INTS_X and b in FLOATS_X)
                yield bin_group(op, a, b, ext)
                yield bin_group(op, b, a, ext)
        for a in FLOATS_:
            for b in FLOATS_:
                yield bin_group(op, a, b, thorough or (a in FLOATS_X and b in FLOATS_X))
    # integer-only operators applied to floats: runtime type errors (the typed spellings are rejected at compile time)
    for op in ('%', '&', '|', '^', '<<', '>>'):
        for a, b in ((7, 0.5), (0.5, 7), (0.5, 3.0)):
            yield bin_group(op, a, b, thorough)
    # strings
    for a in STRS:
        for b in STRS:
            for op in ('+', '<', '<=', '>', '>=', '==', '!=', '&&', '||'):
                yield bin_group(op, a, b, True)
        for n in INTS:
            yield bin_group('+', a, n, thorough or n in INTS_X)
            yield bin_group('+', n, a, thorough or n in INTS_X)
        for x in FLOATS:
            yield bin_group('+', a, x, False)
            yield bin_group('+', x, a, False)
    # containers
    for a in ARRS:
        for b in ARRS:
            for op in ('+', '-', '==', '!='):
                yield bin_group(op, a, b, True)
    for a in MAPS:
        for b in MAPS:
            yield bin_group('+', a, b, True)
    for a in BUFS:
        for b in BUFS:
            yield bin_group('+', a, b, True)
    # operand type mismatches (runtime type errors)
    one = {'i': 7, 'f': 0.5, 's': b'a', 'a': [1], 'm': {1: 2}, 'b': Buf(b'\x07')}
    for op in ('+', '-', '*', '/', '<', '=='):
        for ta in 'ifsamb':
            for tb in 'ifsamb':
                if ta in 'if' and tb in 'if':
                    continue
                if ta == tb and op in ('+', '=='):
                    continue
                if op == '+' and ta + tb in ('si', 'is', 'sf', 'fs'):
                    continue
                yield bin_group(op, one[ta], one[tb], thorough)


# ------------------------------------------------------------------ unary operators and ++ / --
@family('unary')
def fam_unary(tier):
    vals = INTS + FLOATS + [b'', b'a', [], [1], {}]
    for op, txt in (('-', b'-'), ('~', b'~'), ('!', b'!')):
        for v in vals:
            t = tname(v)
            g = Group('unop', OPNAME['neg' if op == '-' else op], t + (':i64' if big(v) else ''),
                      ref_of(lambda: unop(op, v)), txt + lit(v))
            pm, am, im = params([v], False)
            pt, at, it = params([v], True)
            g.add('runtime', b'mixed @F(' + pm + b') { ' + im + b'return ' + txt + b'a; }', am)
            g.add('typed', b'mixed @F(' + pt + b') { ' + it + b'return ' + txt + b'a; }', at)
            g.add('folded', b'mixed @F() { return ' + txt + lit(v) + b'; }')
            g.add('global', b'mixed @F() { gm = ' + lit(v) + b'; return ' + txt + b'gm; }')
            if op == '!':
                g.add('ifelse', b'mixed @F(' + pm + b') { ' + im + b'if (a) return 0; else return 1; }', am)
                g.add('ternary', b'mixed @F(' + pm + b') { ' + im + b'return a ? 0 : 1; }', am)
                g.add('eq0', b'mixed @F(' + pm + b') { ' + im + b'return a == 0; }', am) if t == 'i' else None
            if op == '-' and t == 'i':      # (0 - 0.0 is +0.0 but -(0.0) is -0.0: not the same computation for floats)
                g.add('zero-minus', b'mixed @F(' + pt + b') { return 0 - a; }', at)
            yield g


def incdec_ref(v, delta, post):
    """-> [value of the expression, variable afterwards]"""
    nv = binop('+', v, delta)
    return [v if post else nv, nv]


@family('incdec')
def fam_incdec(tier):
    vals = INTS + FLOATS + [b'a', [1]]
    for v in vals:
        t = tname(v)
        T = TDECL[t].encode()
        for tok, delta in ((b'++', 1), (b'--', -1)):
            one = b'1' if delta == 1 else b'(-1)'
            for post in (0, 1):
                cons = ('post' if post else 'pre') + ('inc' if delta == 1 else 'dec')
                ref = ref_of(lambda: incdec_ref(v, delta, post)) if t in 'if' else ('E', 'type')
                g = Group('incdec', cons, t + (':i64' if big(v) else ''), ref, (b'x' + tok if post else tok + b'x') + b' x=' + lit(v))
                ex = (b'a' + tok) if post else (tok + b'a')
                pm, am, im = params([v], False)
                pt, at, it = params([v], True)
                # the spelled-out form of the same computation
                if post:
                    spelled = b'mixed r; r = a; a = a + ' + one + b'; return ({ r, a });'
                else:
                    spelled = b'mixed r; r = (a = a + ' + one + b'); return ({ r, a });'
                if t in 'if':
                    g.add('assign', b'mixed @F(' + pm + b') { ' + im + spelled + b' }', am)
                g.add('incdec', b'mixed @F(' + pm + b') { ' + im + b'mixed r; r = ' + ex + b'; return ({ r, a }); }', am)
                g.add('incdec-typed', b'mixed @F(' + pt + b') { ' + it + b'mixed r; r = ' + ex + b'; return ({ r, a }); }', at)
                g.add('incdec-local', b'mixed @F() { ' + T + b' a = ' + lit(v) + b'; mixed r; r = ' + ex + b'; return ({ r, a }); }')
                gx = (b'gm' + tok) if post else (tok + b'gm')
                g.add('incdec-global', b'mixed @F(' + pm + b') { ' + im + b'mixed r; gm = a; r = ' + gx + b'; return ({ r, gm }); }', am)
                ex2 = (b'v[0]' + tok) if post else (tok + b'v[0]')
                g.add('incdec-elem', b'mixed @F(' + pm + b') { ' + im + b'mixed r; mixed *v = ({ a }); r = ' + ex2 + b'; return ({ r, v[0] }); }', am)
                ex3 = (b'm["k"]' + tok) if post else (tok + b'm["k"]')
                g.add('incdec-mapelem', b'mixed @F(' + pm + b') { ' + im + b'mixed r; mapping m = ([ "k": a ]); r = ' + ex3 + b'; return ({ r, m["k"] }); }', am)
                if not post and t in 'if':
                    g.add('opassign', b'mixed @F(' + pm + b') { ' + im + b'mixed r; r = (a += ' + one + b'); return ({ r, a }); }', am) if delta == 1 else \
                        g.add('opassign', b'mixed @F(' + pm + b') { ' + im + b'mixed r; r = (a -= 1); return ({ r, a }); }', am)
                yield g
                # statement form (value unused): F_INC / F_DEC
                if not post or t not in 'if':
                    continue
                refv = ref_of(lambda: incdec_ref(v, delta, 1)[1])
                g = Group('incdec', 'void' + ('inc' if delta == 1 else 'dec'), t + (':i64' if big(v) else ''), refv, b'x' + tok + b'; x=' + lit(v))
                g.add('assign', b'mixed @F(' + pm + b') { ' + im + b'a = a + ' + one + b'; return a; }', am)
                g.add('incdec', b'mixed @F(' + pm + b') { ' + im + b'a' + tok + b'; return a; }', am)
                g.add('incdec-pre', b'mixed @F(' + pm + b') { ' + im + tok + b'a; return a; }', am)
                g.add('incdec-typed', b'mixed @F(' + pt + b') { ' + it + b'a' + tok + b'; return a; }', at)
                g.add('incdec-global', b'mixed @F(' + pm + b') { ' + im + b'gm = a; gm' + tok + b'; return gm; }', am)
                g.add('incdec-elem', b'mixed @F(' + pm + b') { ' + im + b'mixed *v = ({ a }); v[0]' + tok + b'; return v[0]; }', am)
                g.add('opassign', b'mixed @F(' + pm + b') { ' + im + (b'a += 1' if delta == 1 else b'a -= 1') + b'; return a; }', am)
                yield g
    # char lvalues: ++ -- += -= on s[i] (statement form only, as documented)
    for s in (b'a', b'ab', b'\x01b', b'\xffb', MB):
        for tok, delta in ((b'++', 1), (b'--', -1)):
            def r(s=s, delta=delta):
                nb = (s[0] + delta) & 0xff
                if nb == 0:
                    raise LErr('other')
                return bytes([nb]) + s[1:]
            g = Group('incdec', 'char' + ('inc' if delta == 1 else 'dec'), 's', ref_of(r), b's[0]' + tok + b' s=' + lit(s))
            S = b's' + s.hex().encode()
            g.add('assign', b'mixed @F(string a) { a[0] = a[0] + ' + (b'1' if delta == 1 else b'(-1)') + b'; return a; }', S)
            g.add('incdec', b'mixed @F(string a) { a[0]' + tok + b'; return a; }', S)
            g.add('incdec-pre', b'mixed @F(string a) { ' + tok + b'a[0]; return a; }', S)
            g.add('opassign', b'mixed @F(string a) { a[0] ' + (b'+= 1' if delta == 1 else b'-= 1') + b'; return a; }', S)
            g.add('incdec-global', b'mixed @F(string a) { gs = a; gs[0]' + tok + b'; return gs; }', S)
            yield g


# ------------------------------------------------------------------ literal encodings
LITS = sorted(set(INTS + [3, 8, 62, 63, 64, 65, 127, 128, 129, -127, -128, -129, 254, 257, -2, -254, -255, -256, -257, 32767, 32768, -32768, -32769,
                          65535, 65536, 65537, -65535, -65536, -65537, (1 << 31) - 2, -(1 << 31) + 1,
                          (1 << 31) - 1, -(1 << 31) - 1, (1 << 31) + 1, (1 << 32) - 1, (1 << 32) + 1, -(1 << 32),
                          1 << 62, INT_MAX - 1, INT_MIN + 1]))


@family('literal')
def fam_literal(tier):
    for v in LITS + FLOATS + [1e-7, 1e20, 12345678.0, 0.1] + STRS + [b'a"b\\c', b'x\ny']:
        t = tname(v)
        g = Group('literal', {'i': 'int', 'f': 'float', 's': 'string'}[t], t + (':i64' if big(v) else ''), ('V', canon(v)), lit(v))
        g.add('runtime', b'mixed @F(mixed a) { return a; }', carg(v))
        g.add('folded', b'mixed @F() { return ' + lit(v) + b'; }')
        g.add('typed', b'mixed @F(' + TDECL[t].encode() + b' a) { return a; }', carg(v))
        g.add('local', b'mixed @F() { ' + TDECL[t].encode() + b' a = ' + lit(v) + b'; return a; }')
        g.add('global', b'mixed @F() { ' + GLOB[t].encode() + b' = ' + lit(v) + b'; return ' + GLOB[t].encode() + b'; }')
        g.add('call', b'mixed @F() { return id(' + lit(v) + b'); }')
        g.add('elem', b'mixed @F() { return ({ 0, ' + lit(v) + b' })[1]; }')
        g.add('mapval', b'mixed @F() { mapping m = ([ 1: ' + lit(v) + b' ]); return m[1]; }')
        if t == 'i':
            g.add('hex', b'mixed @F() { return ' + (b'0x%x' % v if v >= 0 else b'(-0x%x)' % -v if v != INT_MIN else b'(-0x7fffffffffffffff - 1)') + b'; }')
            g.add('neg-neg', b'mixed @F() { return -(' + lit(wrap(-v)) + b'); }') if v != INT_MIN else None
            g.add('case-label', b'mixed @F(int a) { switch (a) { case ' + lit(v) + b': return a; } return "miss"; }', carg(v))
            # the same constant produced by the constant folder in different ways, and as one of several pushes in a row
            g.add('folded-plus', b'mixed @F() { return ' + lit(wrap(v - 1)) + b' + 1; }')
            g.add('folded-minus', b'mixed @F() { return ' + lit(wrap(v + 1)) + b' - 1; }')
            g.add('folded-compl', b'mixed @F() { return ~' + lit(~v) + b'; }')
            g.add('folded-shift', b'mixed @F() { return (' + lit(v >> 1) + b' << 1) | ' + lit(v & 1) + b'; }')
            g.add('folded-mul', b'mixed @F() { return ' + lit(v // 2) + b' * 2 + ' + lit(v - (v // 2) * 2) + b'; }')
            g.add('folded-xor', b'mixed @F() { return ' + lit(v ^ 0x5555) + b' ^ 21845; }')
            g.add('pushseq', b'mixed @F() { mixed *t = ({ 1, ' + lit(v) + b', 63, 64, ' + lit(v) + b', "a" }); return t[4]; }')
            g.add('pushseq-local', b'mixed @F() { int a = 5; string b = "b"; mixed *t = ({ a, ' + lit(v) + b', b, a, ' + lit(v) + b' }); return t[1]; }')
            g.add('computed-plus', b'mixed @F(int a) { return a + 1; }', carg(wrap(v - 1)))
            g.add('computed-compl', b'mixed @F(int a) { return ~a; }', carg(~v))
        if t == 's':
            g.add('macro-str', b'mixed @F() { return M_ID(' + lit(v) + b'); }')
        yield g


# ------------------------------------------------------------------ depth 2
D2OPS_Q = ('+', '-', '*', '/', '&', '<<', '<', '==')
D2OPS_T = ('+', '-', '*', '/', '%', '&', '|', '^', '<<', '>>', '<', '>=', '==', '!=', '&&', '||')


def d2_group(shape, op1, op2, a, b, c):
    o1, o2 = bop(op1), bop(op2)
    if shape == 'L':
        th = lambda: binop(op2, binop(op1, a, b), c)
        mk = lambda x, y, z: b'(' + x + b' ' + o1 + b' ' + y + b') ' + o2 + b' ' + z
    else:
        def th():
            if op1 == '&&' and not truth(a):
                return 0
            if op1 == '||' and truth(a):
                return a
            return binop(op1, a, binop(op2, b, c))
        mk = lambda x, y, z: x + b' ' + o1 + b' (' + y + b' ' + o2 + b' ' + z + b')'
    A, B, C = lit(a), lit(b), lit(c)
    ty = tname(a) + tname(b) + tname(c)
    g = Group('depth2', 'expr', ty + (':i64' if big(a, b, c) else ''), ref_of(th), mk(A, B, C))
    pm, am, im = params([a, b, c], False)
    pt, at, it = params([a, b, c], True)
    g.add('runtime', b'mixed @F(' + pm + b') { return ' + mk(b'a', b'b', b'c') + b'; }', am)
    g.add('typed', b'mixed @F(' + pt + b') { return ' + mk(b'a', b'b', b'c') + b'; }', at)
    g.add('folded', b'mixed @F() { return ' + mk(A, B, C) + b'; }')
    Ta, Tb, Tc = (TDECL[tname(x)].encode() for x in (a, b, c))
    # partial folding: one runtime leaf, two literal leaves
    g.add('folded-bc', b'mixed @F(' + Ta + b' a) { return ' + mk(b'a', B, C) + b'; }', carg(a))
    g.add('folded-ac', b'mixed @F(' + Tb + b' b) { return ' + mk(A, b'b', C) + b'; }', carg(b))
    g.add('folded-ab', b'mixed @F(' + Tc + b' c) { return ' + mk(A, B, b'c') + b'; }', carg(c))
    # the same with the runtime leaf declared mixed: its static type must not be guessed from the literal next to it
    g.add('folded-mixed-a', b'mixed @F(mixed a) { return ' + mk(b'a', B, C) + b'; }', carg(a))
    g.add('folded-mixed-b', b'mixed @F(mixed b) { return ' + mk(A, b'b', C) + b'; }', carg(b))
    g.add('folded-mixed-c', b'mixed @F(mixed c) { return ' + mk(A, B, b'c') + b'; }', carg(c))
    return g


@family('depth2')
def fam_depth2(tier):
    thorough = tier != 'small'
    ops = D2OPS_T if thorough else D2OPS_Q
    alph = {'i': INTS4, 'f': FLOATS4, 's': STRS4}
    typesets = ['iii', 'iif', 'ifi', 'fii', 'fff'] if thorough else ['iii']
    for ts in typesets:
        for op1 in ops:
            for op2 in ops:
                for shape in 'LR':
                    for a in alph[ts[0]]:
                        for b in alph[ts[1]]:
                            for c in alph[ts[2]]:
                                if 'f' in ts and (op1 in INTOPS or op2 in INTOPS):
                                    continue
                                yield d2_group(shape, op1, op2, a, b, c)
    # strings: concatenation / comparison chains, with an int leaf mixed in
    for a in STRS4:
        for b in STRS4:
            for c in STRS4 + INTS4:
                for shape in 'LR':
                    yield d2_group(shape, '+', '+', a, b, c)
                if tname(c) == 's':
                    yield d2_group('L', '+', '<', a, b, c)
                    yield d2_group('R', '+', '==', a, b, c)
