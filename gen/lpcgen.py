"""lpcgen — exhaustive generator of the C03 program corpus (stdlib only, nothing sampled).

Every *computation* (an expression or statement shape with concrete leaf values) becomes a Group whose
members are its sibling spellings; every member is one small LPC function.  Groups are packed into
unit files (<dir>/NNNNN.lpc) that h/h_c03.c compiles and runs.  The reference result of a group (value,
error class, or None where the manual is silent) comes from gen/lpcref.py.

Families live in gen/lpcfam_*.py and register themselves in FAMILIES."""
import os, sys
sys.path.insert(0, os.path.dirname(os.path.abspath(__file__)))
from lpcref import *

# ------------------------------------------------------------------ leaf alphabets
INTS = [0, 1, -1, 2, 7, 255, 256, 1 << 31, -(1 << 31), 1 << 32, INT_MAX, INT_MIN]
FLOATS = [0.0, 0.5, -1.5, 3.0, 1e10]
MB = 'é日'.encode()            # 2-byte + 3-byte UTF-8 characters
STRS = [b'', b'a', b'ab', MB]
INTS4 = [0, 7, -(1 << 31), INT_MAX]
FLOATS4 = [0.0, 0.5, -1.5, 1e10]
STRS4 = STRS
ARRS = [[], [7], [1, b'a'], [1, b'a', 1, 2, b'ab']]
BUFS = [Buf(b''), Buf(b'\x07'), Buf(b'\x01\xff')]
MAP9 = {i: i * i for i in range(9)}
MAP13 = dict(MAP9)
MAP13.update({b'k%d' % i: i for i in range(4)})
MAPS = [{}, {1: 2}, {b'a': 1, 2: b'b'}, MAP13]

TDECL = {'i': 'int', 'f': 'float', 's': 'string', 'a': 'mixed *', 'm': 'mapping', 'b': 'buffer'}
GLOB = {'i': 'gi', 'f': 'gf', 's': 'gs', 'a': 'ga', 'm': 'gmap', 'b': 'gb'}
OPNAME = {'+': 'add', '-': 'sub', '*': 'mul', '/': 'div', '%': 'mod', '&': 'and', '|': 'or', '^': 'xor',
          '<<': 'lsh', '>>': 'rsh', '==': 'eq', '!=': 'ne', '<': 'lt', '<=': 'le', '>': 'gt', '>=': 'ge',
          '&&': 'land', '||': 'lor', '~': 'compl', '!': 'not', 'neg': 'neg'}

PRELUDE = b'''inherit "/base";
int gi, gi2; float gf, gf2; string gs, gs2; mixed gm, gm2, gm3; mixed *ga; mapping gmap; buffer gb;
#define M_SEVEN 7
#define M_BIG 4294967296
#define M_NEG (-1)
#define M_STR "ab"
#define M_ID(x) (x)
#define M_ADD(x,y) ((x)+(y))
#define M_MUL(x,y) ((x)*(y))
#define M_SQ(x) ((x)*(x))
#define M_UNSAFE_MUL(x,y) x*y
#define M_NEST(x,y) M_ADD(M_MUL(x,2),M_ID(y))
#define M_IDX(c,i) ((c)[i])
#define M_ARR ({ 1, "a", 7 })
#define M_CAT(a,b) a##b
mixed mkbuf(int *a) { buffer b = allocate_buffer(sizeof(a)); int i; for (i = 0; i < sizeof(a); i++) b[i] = a[i]; return b; }
mixed id(mixed x) { return x; }
mixed over(mixed a, mixed b) { return ({ "derived", a, b }); }
'''


# ------------------------------------------------------------------ literals and argument encodings
def lit(v):
    """LPC source text (bytes) of a literal/constructor expression for value v"""
    t = tname(v)
    if t == 'i':
        if v == INT_MIN:
            return b'(-9223372036854775807 - 1)'
        return b'%d' % v if v >= 0 else b'(%d)' % v
    if t == 'f':
        if v == int(v) and abs(v) < 1e15:
            s = '%.1f' % v
        else:
            s = repr(v)
        return s.encode() if v >= 0 and not s.startswith('-') else b'(' + s.encode() + b')'
    if t == 's':
        out = bytearray(b'"')
        for c in v:
            if c == 0x22 or c == 0x5c:
                out += b'\\' + bytes([c])
            elif c == 10:
                out += b'\\n'
            else:
                out.append(c)
        return bytes(out + b'"')
    if t == 'a':
        return b'({ ' + b', '.join(lit(x) for x in v) + b' })'
    if t == 'm':
        return b'([ ' + b', '.join(lit(k) + b': ' + lit(x) for k, x in v.items()) + b' ])'
    if t == 'b':
        return b'mkbuf(({ ' + b', '.join(b'%d' % c for c in v) + b' }))'
    raise TypeError(v)


def carg(v):
    """argument token understood by the harness (scalars only)"""
    t = tname(v)
    if t == 'i':
        return b'i%d' % v
    if t == 'f':
        return b'f' + v.hex().encode()
    if t == 's':
        return b's' + v.hex().encode()
    raise TypeError(v)


def scalar(v):
    return tname(v) in 'ifs'


def big(*vals):
    return any(isinstance(v, int) and not (-(1 << 31) <= v < (1 << 31)) for v in vals)


def ref_of(thunk):
    """reference outcome: ('V', canon) | ('E', cls) | None"""
    try:
        return ('V', canon(thunk()))
    except LErr as e:
        return ('E', e.cls)
    except RefUndef:
        return None


class Group(object):
    __slots__ = ('fam', 'cons', 'types', 'members', 'ref', 'base', 'note', 'gid', 'unit', 'names', 'extra')

    def __init__(self, fam, cons, types, ref, note=b''):
        self.fam, self.cons, self.types, self.ref, self.note = fam, cons, types, ref, note
        self.members = []       # (rel, src bytes with @F, args bytes)
        self.base = None
        self.extra = None

    def add(self, rel, src, args=b''):
        self.members.append((rel, src, args))
        return self


def params(vals, typed):
    """-> (parameter list text, harness args, local initialisers) for leaves named a,b,c..: scalar leaves are
    real parameters pushed by the harness, container leaves are locals initialised from a constructor"""
    ps, args, inits = [], [], []
    for k, v in enumerate(vals):
        nm = b'abcdefgh'[k:k + 1]
        ty = TDECL[tname(v)].encode() if typed else b'mixed'
        if scalar(v):
            ps.append(ty + b' ' + nm)
            args.append(carg(v))
        else:
            inits.append(ty + b' ' + nm + b' = ' + lit(v) + b'; ')
    return b', '.join(ps), b' '.join(args), b''.join(inits)


# ------------------------------------------------------------------ unit writer
class Writer(object):
    def __init__(self, outdir, per_unit=160):
        self.dir = outdir
        self.per_unit = per_unit
        self.cur = []
        self.cur_n = 0
        self.cur_bytes = 0
        self.units = 0
        self.groups = []
        self.nfunc = 0
        os.makedirs(outdir, exist_ok=True)
        src = os.path.join(os.path.dirname(os.path.dirname(os.path.abspath(__file__))), 'mudlib', 'c03')
        for f in ('master.c', 'simul_efun.c', 'base.c'):
            open(os.path.join(outdir, f), 'wb').write(open(os.path.join(src, f), 'rb').read())

    def add(self, g):
        g.gid = len(self.groups)
        size = sum(len(m[1]) for m in g.members)
        # a program is limited to 64 KiB of bytecode: keep the source of a unit well below that
        if (self.cur_n + len(g.members) > self.per_unit or self.cur_bytes + size > 40000) and self.cur:
            self.flush()
        self.cur_bytes += size
        g.unit = self.units
        g.names = []
        for k, (rel, src, args) in enumerate(g.members):
            name = b'g%d_%d' % (g.gid, k)
            g.names.append(name)
            self.cur.append(b'//@ ' + name + (b' ' + args if args else b'') + b'\n' + src.replace(b'@F', name) + b'\n')
        # sources are recovered from the unit file when a replay artefact is needed
        g.members = [(rel, None, args) for rel, src, args in g.members]
        self.cur_n += len(g.names)
        self.nfunc += len(g.names)
        self.groups.append(g)

    def flush(self):
        if not self.cur:
            return
        with open(os.path.join(self.dir, 'u%05d.c' % self.units), 'wb') as f:
            f.write(PRELUDE)
            f.write(b''.join(self.cur))
        self.units += 1
        self.cur = []
        self.cur_n = 0
        self.cur_bytes = 0


def read_unit_blocks(path):
    """-> (prelude bytes, {name: (args, block text)})"""
    data = open(path, 'rb').read()
    parts = data.split(b'\n//@ ')
    prelude = parts[0] + b'\n'
    blocks = {}
    for p in parts[1:]:
        head, _, rest = p.partition(b'\n')
        name, _, args = head.partition(b' ')
        blocks[name] = (args, b'//@ ' + head + b'\n' + rest + (b'' if rest.endswith(b'\n') else b'\n'))
    return prelude, blocks


FAMILIES = []       # (name, generator function(tier) -> iterable of Group)


def family(name):
    def deco(fn):
        FAMILIES.append((name, fn))
        return fn
    return deco


def generate(outdir, tier, only=None, per_unit=160):
    import lpcfam_expr, lpcfam_stmt, lpcfam_misc, lpcfam_more, lpcfam_nest      # noqa: F401  (register families)
    # corpus sizes: small (self-test), full (quick tier), deep (thorough tier)
    tier = {'quick': 'full', 'thorough': 'deep'}.get(tier, tier)
    w = Writer(outdir, per_unit)
    per_family = {}
    for name, fn in FAMILIES:
        if only and name not in only:
            continue
        n0, f0 = len(w.groups), w.nfunc
        for g in fn(tier):
            if len(g.members) >= 1:
                w.add(g)
        w.flush()            # a unit never mixes families
        per_family[name] = (len(w.groups) - n0, w.nfunc - f0)
    w.flush()
    return w, per_family


if __name__ == '__main__':
    out = sys.argv[1]
    tier = sys.argv[2] if len(sys.argv) > 2 else 'quick'
    only = set(sys.argv[3].split(',')) if len(sys.argv) > 3 else None
    import lpcgen as _me
    w, pf = _me.generate(out, tier, only)
    print('units', w.units, 'groups', len(w.groups), 'functions', w.nfunc)
    for k, v in pf.items():
        print('  %-12s groups %7d functions %8d' % (k, v[0], v[1]))
