/* C09 — no event history or failing task takes the driver down (DESIGN §3 C09).
 *
 * The real backend() runs as a coroutine of the scripted async_runtime_wait() (env/net.c).  At every wait the
 * environment picks the next external event (vx_choose_free); before the loop starts it picks a fault plan:
 * which task kind raises an uncaught error(), at which execution, once or every time, whether the master's
 * error_handler itself fails, network or console mode; or a "hostile" operation performed by the verb `act`.
 * After the history a fixed epilogue checks that everybody else is still served.
 */
#include "h_netloop.h"
#include "lpc/include/origin.h"

/* accessors of the wrapper TUs */
extern int nl_hb_num (void), nl_hb_to_do (void), nl_hb_index (void), nl_hb_ticks (int), nl_hb_interval (int);
extern object_t *nl_hb_ob (int);
extern int nl_in_error (void), nl_in_mudlib_error_handler (void), nl_error_context_depth (void);
extern int nl_co_canon (char *buf, int len), nl_co_pending (void);
extern int find_call_out (object_t *, char *);

/* ------------------------------------------------------------------ plans */
enum { K_NONE, K_CONNECT, K_LOGON, K_PI, K_VERB, K_PROMPT, K_NETDEAD, K_HB, K_CO, K_RESET, K_CLEANUP, K_TELNET, K_INPUTTO, NKIND };
static const char *kind_name[NKIND] = { "", "connect", "logon", "process_input", "verb", "write_prompt", "net_dead",
  "heart_beat", "call_out", "reset", "clean_up", "telnet", "input_to" };
static const char *hostile_name[] = { "input_to_ok", "input_to_bad", "get_char_ok", "get_char_bad", "input_to_twice", "exec",
  "snoop", "destruct_self", "destruct_self0", "destruct_other", "destruct_other0", "remove_call_out", "hb_off", "ed" };
#define NHOSTILE ((int) (sizeof hostile_name / sizeof hostile_name[0]))

typedef struct { int kind, pos, nth, every, hfail, console; const char *hostile; int hret; const char *kind2; int nth2; } plan_t;
static plan_t plans[2048];
static int nplans;
static plan_t P;

static void add_plan (int kind, int pos, int nth, int every, int hfail, int console, const char *hostile, int hret) {
  if (nplans >= 2048) return;
  plan_t *p = &plans[nplans++];
  p->kind = kind; p->pos = pos; p->nth = nth; p->every = every; p->hfail = hfail; p->console = console;
  p->hostile = hostile; p->hret = hret; p->kind2 = ""; p->nth2 = 0;
}

static void build_plans (void) {
  long modes = vx_opt_long ("modes", 3);        /* 1 network, 2 console */
  long handlers = vx_opt_long ("handlers", 3);  /* 1 logs, 2 itself raises */
  long kinds = vx_opt_long ("kinds", (1 << NKIND) - 1);   /* bit k = kind k (bit 0 = no fault) */
  long nths = vx_opt_long ("nths", 3);          /* 1 first execution, 2 second (4 third: heart_beat/call_out positions use pos instead) */
  long everys = vx_opt_long ("everys", 3);      /* 1 once, 2 every time */
  long hostile = vx_opt_long ("hostile", (1L << NHOSTILE) - 1);
  for (int con = 0; con < 2; con++) {
    if (!(modes & (1 << con))) continue;
    if (kinds & 1) add_plan (K_NONE, -1, 1, 0, 0, con, "", 1);
    for (int k = 1; k < NKIND; k++) {
      if (!(kinds & (1 << k))) continue;
      for (int hf = 0; hf < 2; hf++) {
        if (!(handlers & (1 << hf))) continue;
        for (int nth = 1; nth <= 2; nth++) {
          if (!(nths & (1 << (nth - 1)))) continue;
          for (int ev = 0; ev < 2; ev++) {
            if (!(everys & (1 << ev))) continue;
            if (k == K_HB || k == K_CO || k == K_RESET || k == K_CLEANUP) { for (int pos = 0; pos < 3; pos++) add_plan (k, pos, nth, ev, hf, con, "", 1); }
            else add_plan (k, -1, nth, ev, hf, con, k == K_INPUTTO ? "input_to_ok" : "", 1);
          }
        }
      }
    }
    for (int h = 0; h < NHOSTILE; h++) {
      if (!(hostile & (1L << h))) continue;
      const char *nm = hostile_name[h];
      int r = 1; char base[40];
      snprintf (base, sizeof base, "%s", nm);
      size_t l = strlen (base);
      if (base[l - 1] == '0') { base[l - 1] = 0; r = 0; }
      add_plan (K_NONE, -1, 1, 0, 0, con, strdup (base), r);
    }
    /* two faults within one tick interval with a mudlib action in between: heart-beat object `pos` fails (once, at the start-up
     * tick or at the first tick of the loop); the verb `act` then switches the lost heart beats back on / destructs that object;
     * then another task raises: the same `act` after the action (verb_end@1), the next `act` (verb@2), the next logon (logon@2) */
    long hb2 = vx_opt_long ("hb2", 3);          /* bit 0: nth 1, bit 1: nth 2; 0 = family off */
    long hb2full = vx_opt_long ("hb2-full", 1);   /* 0: second fault in {verb_end@1, verb@2} only */
    static const char *op2[2] = { "hb_reenable", "hb_destruct" };
    static const char *k2[3] = { "verb_end", "verb", "logon" }; static const int n2[3] = { 1, 2, 2 };
    long hb2modes = vx_opt_long ("hb2-modes", 3);
    for (int nth = 1; nth <= 2; nth++) {
      if (!(hb2 & (1 << (nth - 1))) || !(hb2modes & (1 << con))) continue;
      for (int pos = 0; pos < 3; pos++) for (int o = 0; o < 2; o++) for (int j = 0; j < (hb2full ? 3 : 2); j++) {
        add_plan (K_HB, pos, nth, 0, 0, con, op2[o], 1);
        plans[nplans - 1].kind2 = k2[j]; plans[nplans - 1].nth2 = n2[j];
      }
    }
  }
}

/* ------------------------------------------------------------------ run state */
static int depth, maxconn, selftest, merge;
static int step, ep, we_shutdown, returned;
static int connects;
static long insn_in_cycle, insn_limit;
static int *p_next_user; static time_t *p_swap_next_time;

#define MAXN 24
typedef struct { char name[64]; int setup, gone, hboff; } obrec;
static obrec obs_[MAXN]; static int nobs;
static obrec *ob_rec (const char *name) {
  for (int i = 0; i < nobs; i++) if (!strcmp (obs_[i].name, name)) return &obs_[i];
  if (nobs >= MAXN) return &obs_[MAXN - 1];
  obrec *o = &obs_[nobs++]; memset (o, 0, sizeof *o); snprintf (o->name, sizeof o->name, "%s", name);
  return o;
}
/* per client: the user object the model expects behind it */
static char cli_ob[ENV_MAXCLI][64];
static int cli_healthy[ENV_MAXCLI];
static size_t cli_mark[ENV_MAXCLI];
static size_t con_mark;

/* per cycle */
static int cyc_inject, cyc_report_master, cyc_report_log, cyc_other_err;
static char cyc_injected_names[8][64]; static int cyc_ninj_names;
static char cyc_hb[16][64]; static int cyc_nhb;           /* who beat in this cycle: "hb 0", "uhb /c09/user#3" */
static int co_fired[3];
static int ep_exempt_n; static char ep_exempt[8][64];
static int hb_raised[3], last_hb_id = -1, hb0_off, hb_gone[3];
static int cyc_hb_inject, cyc_hb_off_lines;      /* per cycle: heart-beat errors injected / "heart beat ... turned off" lines of the driver */
static int cyc_reset[3], cyc_cleanup[3];
static object_t *hb_ob[3];

/* finding keys of the service oracles name the class of plan under which they fired */
static const char *plan_tag (void) {
  static char t[96];
  if (P.nth2) snprintf (t, sizeof t, "after-heart_beat-error+%s+%s-error", P.hostile, P.kind2);
  else if (P.kind != K_NONE) snprintf (t, sizeof t, "after-%s-error", kind_name[P.kind]);
  else if (P.hostile[0]) snprintf (t, sizeof t, "after-%s%s", P.hostile, P.hret ? "" : "-ret0");
  else snprintf (t, sizeof t, "no-fault");
  return t;
}
static char *keyf (const char *base) {
  static char k[4][160]; static int i;
  char *b = k[i++ & 3];
  snprintf (b, 160, "%s:%s", base, plan_tag ());
  return b;
}
static void fail_hist (const char *key, const char *fmt, ...) {
  char msg[500]; va_list ap; va_start (ap, fmt); vsnprintf (msg, sizeof msg, fmt, ap); va_end (ap);
  vx_fail (key, "%s", msg);
  vx_obs ("!! %s: %s", key, msg);
}

static void on_line (const char *l) {
  if (l[0] == '@' && l[1] == '@') {
    char a[32] = "", b[64] = "", c[64] = "";
    sscanf (l + 2, "%31s %63s %63s", a, b, c);
    vx_obs ("  %s", l + 2);
    if (!strcmp (a, "inject")) {
      cyc_inject++;
      if (cyc_ninj_names < 8) snprintf (cyc_injected_names[cyc_ninj_names++], 64, "%s", c);
      if (!strcmp (b, "heart_beat")) { cyc_hb_inject++; if (last_hb_id >= 0 && last_hb_id < 3) hb_raised[last_hb_id] = 1; }
    } else if (!strcmp (a, "logon")) { ob_rec (b)->setup = 1; }
    else if (!strcmp (a, "exec")) { ob_rec (b)->setup = 1; }
    else if (!strcmp (a, "gone")) { ob_rec (b)->gone = 1; }
    else if (!strcmp (a, "hboff")) { ob_rec (b)->hboff = 1; if (hb_ob[0] && !strcmp (b + 1, hb_ob[0]->name)) hb0_off = 1; }
    else if (!strcmp (a, "hb")) { last_hb_id = atoi (b); if (cyc_nhb < 16) snprintf (cyc_hb[cyc_nhb++], 64, "hb%s", b); }
    else if (!strcmp (a, "uhb")) { if (cyc_nhb < 16) snprintf (cyc_hb[cyc_nhb++], 64, "%s", b); }
    else if (!strcmp (a, "hbon")) { int k = atoi (b); if (k >= 0 && k < 3) hb_raised[k] = 0; }      /* the mudlib switched it back on */
    else if (!strcmp (a, "hbgone")) { int k = atoi (b); if (k >= 0 && k < 3) hb_gone[k] = 1; }
    else if (!strcmp (a, "reset")) { int k = atoi (b); if (k >= 0 && k < 3) cyc_reset[k]++; }
    else if (!strcmp (a, "clean_up")) { int k = atoi (b); if (k >= 0 && k < 3) cyc_cleanup[k]++; }
    else if (!strcmp (a, "co")) { int k = atoi (b); if (k >= 0 && k < 3) co_fired[k]++; }
    return;
  }
  if (strstr (l, "----- heart beat in ")) cyc_hb_off_lines++;
  if (strstr (l, "error in mudlib error handler")) cyc_report_log++;
  if (strstr (l, "New error occured while generating error trace")) cyc_report_log++;
}

/* what the master was handed since the last call (then cleared) */
static void fetch_master_errors (void) {
  int64_t save = eval_cost;
  svalue_t *r = safe_apply_master_ob ("query_errors", 0);
  if (r && r != (svalue_t *) -1 && r->type == T_ARRAY) {
    for (int i = 0; i < r->u.arr->size; i++) {
      svalue_t *e = &r->u.arr->item[i];
      if (e->type != T_ARRAY || e->u.arr->size < 1 || e->u.arr->item[0].type != T_STRING) continue;
      const char *txt = e->u.arr->item[0].u.string;
      if (strstr (txt, "injected:")) { if (selftest != 3) cyc_report_master++; }
      else { cyc_other_err++; vx_obs ("  master: %s", txt); }
    }
  }
  safe_apply_master_ob ("clear_errors", 0);
  eval_cost = save;
}

static int name_in (const char *n, char list[][64], int cnt) {
  for (int i = 0; i < cnt; i++) if (!strcmp (list[i], n)) return 1;
  return 0;
}

static void end_of_cycle (void) {
  cyc_inject = cyc_report_master = cyc_report_log = cyc_other_err = 0; cyc_ninj_names = 0; cyc_nhb = 0;
  cyc_hb_inject = cyc_hb_off_lines = 0; memset (cyc_reset, 0, sizeof cyc_reset); memset (cyc_cleanup, 0, sizeof cyc_cleanup);
  nl_drain_log (on_line);
  /* only a failing heart beat is switched off: one "turned off" report per heart-beat error, none for any other error */
  if (cyc_hb_off_lines > cyc_hb_inject)
    fail_hist (keyf ("C09:heart-beat-switched-off-without-heart-beat-error"), "the driver reported %d heart beat(s) turned off in a cycle with %d heart-beat error(s)", cyc_hb_off_lines, cyc_hb_inject);
  /* the periodic sweep goes on with the other due objects: the three reset objects (and the three clean_up objects) are always due together */
  {
    int nr = (cyc_reset[0] > 0) + (cyc_reset[1] > 0) + (cyc_reset[2] > 0), nc = (cyc_cleanup[0] > 0) + (cyc_cleanup[1] > 0) + (cyc_cleanup[2] > 0);
    if (nr == 1 || nr == 2) fail_hist (keyf ("C09:reset-sweep-incomplete"), "reset() was called in %d of the 3 due objects in this sweep (calls: %d,%d,%d)", nr, cyc_reset[0], cyc_reset[1], cyc_reset[2]);
    if (nc == 1 || nc == 2) fail_hist (keyf ("C09:clean_up-sweep-incomplete"), "clean_up() was called in %d of the 3 due objects in this sweep (calls: %d,%d,%d)", nc, cyc_cleanup[0], cyc_cleanup[1], cyc_cleanup[2]);
    for (int k = 0; k < 3; k++) if (cyc_reset[k] > 1 || cyc_cleanup[k] > 1) fail_hist (keyf ("C09:sweep-called-object-twice"), "object %d got reset() %d times / clean_up() %d times in one sweep", k, cyc_reset[k], cyc_cleanup[k]);
    if (nr == 3 || nc == 3) vx_count (2, 1);
  }
  fetch_master_errors ();
  vx_scan_now ();
  if (cyc_inject > cyc_report_master + cyc_report_log)
    fail_hist (P.hfail ? "C09:error-not-reported:handler-fails" : "C09:error-not-reported",
               "%d injected error(s) in this cycle, but only %d error_handler applies with that text and %d debug-log reports",
               cyc_inject, cyc_report_master, cyc_report_log);
  if (cyc_inject) vx_count (1, cyc_inject);
  if (ep >= 4) for (int i = 0; i < cyc_ninj_names && ep_exempt_n < 8; i++) snprintf (ep_exempt[ep_exempt_n++], 64, "%s", cyc_injected_names[i]);
  if (g_proceeding_shutdown && !we_shutdown)
    fail_hist ("C09:shutdown-requested-by-driver", "g_proceeding_shutdown=%d was set by the driver itself at step %d", g_proceeding_shutdown, step);
  /* model: which object sits behind each client */
  for (int i = 0; i < ENV_MAXCLI; i++) {
    env_cli *c = &env_clients[i];
    if (!c->used || !c->accepted) continue;
    if (cli_healthy[i] && ob_rec (cli_ob[i])->gone) cli_healthy[i] = 0;      /* the mudlib destructed it */
    if (c->driver_closed) continue;       /* still "healthy" here = the driver dropped a user nobody asked it to drop */
    int s = nl_slot_of_fd (c->fd);
    if (!cli_ob[i][0] && s > 0 && all_users[s]->ob && all_users[s]->ob != master_ob) {
      snprintf (cli_ob[i], 64, "/%s", all_users[s]->ob->name);
      cli_healthy[i] = ob_rec (cli_ob[i])->setup;
    } else if (cli_healthy[i] && s > 0 && all_users[s]->ob && strcmp (cli_ob[i] + 1, all_users[s]->ob->name)) {
      /* exec(): connection moved to another object */
      char nn[64]; snprintf (nn, sizeof nn, "/%s", all_users[s]->ob->name);
      if (ob_rec (nn)->setup) snprintf (cli_ob[i], 64, "%s", nn);
    }
    if (cli_healthy[i] && ob_rec (cli_ob[i])->gone) cli_healthy[i] = 0;
  }
}

/* ------------------------------------------------------------------ canonical state (merging)
 * OPTIONAL (--merge=1, default off) and NOT used by any tier of checks/C09.py: every (plan, history) pair of a tier is
 * executed.  Kept for experiments: the form below covers the connection table, the scripted clients, the heart-beat
 * table, the call_out wheel relative to now, the error-path flags, the rotating cursor of get_user_command(), the
 * object list with reset/clean_up clocks, the plan object's variables and the harness model; it does not cover
 * allocator free lists, the output ring positions or the internals of an open ed session. */
static char canon[32768];
static int cn;
static void cadd (const char *fmt, ...) {
  va_list ap; va_start (ap, fmt);
  int room = (int) sizeof canon - cn - 1;
  if (room > 0) { int k = vsnprintf (canon + cn, (size_t) room, fmt, ap); if (k > 0) cn += k < room ? k : room - 1; }
  va_end (ap);
}
static void cadd_bytes (const unsigned char *p, size_t n) { for (size_t i = 0; i < n; i++) cadd ("%02x", p[i]); }

static const char *obname (object_t *ob) { return ob ? ob->name : "-"; }

static void build_state (void) {
  cn = 0; canon[0] = 0;
  cadd ("step=%d ep=%d conn=%d hbflag=%d dt=%ld|", step, ep, connects, heart_beat_flag, (long) (hx_clock - current_time));
  /* plan object variables */
  object_t *po = find_object_by_name ("/c09/plan");
  if (po) for (int i = 0; i < po->prog->num_variables_total; i++) cadd ("%s,", hx_canon_s (&po->variables[i]));
  cadd ("|hf=%d con=%d|", P.hfail, P.console);
  cadd ("err=%d,%d,%d|", nl_in_error (), nl_in_mudlib_error_handler (), nl_error_context_depth ());
  cadd ("nu=%d swap=%ld|", p_next_user ? *p_next_user : -1, p_swap_next_time ? (long) (*p_swap_next_time - current_time) : 0);
  cadd ("mu=%d:", max_users);
  for (int i = 0; all_users && i < max_users; i++) {
    interactive_t *ip = all_users[i];
    if (!ip) continue;
    cadd ("[%d ob=%s mo=%d fl=%x ct=%d ts=%ld te=%ld st=%x sb=%d it=%d ed=%d ml=%d so=%d sy=%d txt=", i, obname (ip->ob),
          master_ob && master_ob->interactive == ip, ip->iflags, ip->connection_type, (long) ip->text_start, (long) ip->text_end,
          ip->state, ip->sb_pos, ip->input_to ? (ip->input_to->function.f ? 1 : 2) : 0, ip->ed_buffer != 0, ip->message_length,
          nl_slot_of (ip->snoop_on), nl_slot_of (ip->snoop_by));
    if (ip->text_end >= ip->text_start && ip->text_end < MAX_TEXT) cadd_bytes ((unsigned char *) ip->text + ip->text_start, (size_t) (ip->text_end - ip->text_start));
    cadd (" fd=%d]", ip->fd > 2 ? 1 : (int) ip->fd);
  }
  cadd ("|cli:");
  for (int i = 0; i < ENV_MAXCLI; i++) {
    env_cli *c = &env_clients[i];
    if (!c->used) continue;
    cadd ("[%d a=%d pc=%d dc=%d reg=%d int=%x slot=%d in=", i, c->accepted, c->peer_closed, c->driver_closed, c->registered, c->interest,
          nl_client_live (c) ? nl_slot_of_fd (c->fd) : -1);
    cadd_bytes (c->in + c->in_pos, c->in_len - c->in_pos);
    cadd (" h=%d ob=%s]", cli_healthy[i], cli_ob[i]);
  }
  cadd ("|hb:%d/%d/%d:", nl_hb_num (), nl_hb_to_do (), nl_hb_index ());
  for (int i = 0; i < nl_hb_num (); i++) cadd ("%s/%d/%d,", obname (nl_hb_ob (i)), nl_hb_ticks (i), nl_hb_interval (i));
  cadd ("|co:");
  cn += nl_co_canon (canon + cn, (int) sizeof canon - cn - 1);
  cadd ("|obj:");
  for (object_t *ob = obj_list; ob; ob = ob->next_all) {
    long nr = (long) (ob->next_reset - current_time), tr = (long) (current_time - ob->time_of_ref);
    if (nr > 2) nr = 2;
    if (nr < -1) nr = -1;
    if (tr > CONFIG_INT (__TIME_TO_CLEAN_UP__)) tr = CONFIG_INT (__TIME_TO_CLEAN_UP__) + 1;
    if (tr < CONFIG_INT (__TIME_TO_CLEAN_UP__) - 2000) tr = 0;         /* far from eligible within any horizon of this harness */
    cadd ("%s/%x/%ld/%ld/%d,", ob->name, ob->flags, nr, tr, ob->sent != 0);
  }
  cadd ("|model:");
  for (int i = 0; i < nobs; i++) cadd ("%s/%d%d%d,", obs_[i].name, obs_[i].setup, obs_[i].gone, obs_[i].hboff);
  cadd ("hr=%d%d%d", hb_raised[0], hb_raised[1], hb_raised[2]); cadd (" lh=%d h0=%d", last_hb_id, hb0_off);
  if (env_console_capture && g_console_queue) cadd ("|cq");
}

/* ------------------------------------------------------------------ events */
typedef struct { int kind, cli; } evt;
enum { E_NOTHING, E_TICK1, E_TICK2, E_CONNECT, E_CONSOLE, E_PI, E_NG, E_ACT, E_HUP_R, E_HUP_C, E_ACT_CLOSE, E_TTYPE, NEV };
static const char *ev_name[NEV] = { "nothing", "tick1", "tick2", "connect", "console", "pi", "ng", "act", "hup_r", "hup_c", "act+close", "ttype" };
static const unsigned char ttype_sb[] = { 255, 250, 24, 0, 'x', 255, 240 };

static int add_cli_event (io_event_t *ev, int n, env_cli *c, uint32_t type) {
  for (int i = 0; i < n; i++) if (ev[i].context == c->ctx && ev[i].fd == c->fd && c->ctx) { ev[i].event_type |= type; return n; }
  return env_ev_cli (ev, n, c, type);
}

static int big_tick (void) { return (P.kind == K_RESET || P.kind == K_CLEANUP) ? 900 : 2; }

static int apply_event (io_event_t *ev, int n, evt e) {
  env_cli *c = e.cli >= 0 ? &env_clients[e.cli] : 0;
  switch (e.kind) {
  case E_NOTHING: break;
  case E_TICK1: env_tick (1); n = env_ev_wakeup (ev, n); break;
  case E_TICK2: env_tick (big_tick ()); n = env_ev_wakeup (ev, n); break;
  case E_CONNECT: env_connect (0); connects++; n = env_ev_listen (ev, n, 0); break;
  case E_CONSOLE: env_console_line ("act\n"); n = env_ev_console (ev, n); break;
  case E_PI: env_client_send (c, "pi", 2); n = add_cli_event (ev, n, c, EVENT_READ); break;
  case E_NG: env_client_send (c, "ng\r\n", 4); n = add_cli_event (ev, n, c, EVENT_READ); break;
  case E_ACT: env_client_send (c, "act\r\n", 5); n = add_cli_event (ev, n, c, EVENT_READ); break;
  case E_TTYPE: env_client_send (c, ttype_sb, sizeof ttype_sb); n = add_cli_event (ev, n, c, EVENT_READ); break;
  case E_HUP_R: env_client_close (c); n = add_cli_event (ev, n, c, EVENT_READ); break;
  case E_HUP_C: env_client_close (c); n = add_cli_event (ev, n, c, EVENT_CLOSE); break;
  case E_ACT_CLOSE: env_client_send (c, "act\r\n", 5); env_client_close (c); n = add_cli_event (ev, n, c, EVENT_READ); break;
  }
  return n;
}

static long send_hook (env_cli *c, const void *buf, size_t len) { (void) buf; return c->peer_closed ? -EPIPE : (long) len; }

static void insn_hook (void) {
  if (++insn_in_cycle > insn_limit) {
    nl_drain_log (on_line);
    fail_hist ("C09:livelock", "more than %ld LPC instructions without returning to the event wait (plan kind=%s nth=%d every=%d console=%d)",
               insn_limit, kind_name[P.kind], P.nth, P.every, P.console);
    vx_child_exit (0);
  }
}

static void send_all (io_event_t *ev, int *n, const char *line) {
  for (int i = 0; i < ENV_MAXCLI; i++) {
    env_cli *c = &env_clients[i];
    if (!nl_client_live (c) || c->peer_closed || !c->registered) continue;
    char b[32]; int l = snprintf (b, sizeof b, "%s\r\n", line);
    if (selftest == 1 && i == 0 && !strcmp (line, "ping")) continue;      /* self-test: the environment loses client 0's ping */
    env_client_send (c, b, (size_t) l);
    *n = add_cli_event (ev, *n, c, EVENT_READ);
  }
  if (P.console) {
    char b[32]; snprintf (b, sizeof b, "%s\n", line);
    env_console_line (b);
    *n = env_ev_console (ev, *n);
  }
}

static void check_last_tick (void);
static void snapshot_call_outs (void);

/* ------------------------------------------------------------------ longjmp into a context whose setjmp never ran
 * The stack below body() is filled with a pattern right before backend() is entered, so an error_context_t that
 * lives in backend()'s frame still holds the pattern in its jmp_buf until setjmp() has written it. */
#define STACK_PATTERN 0xA5
void __real_longjmp (jmp_buf env, int val) __attribute__ ((noreturn));
void __wrap_longjmp (jmp_buf env, int val) {
  const unsigned char *p = (const unsigned char *) env;
  int pat = 1;
  for (int i = 0; i < 64; i++) if (p[i] != STACK_PATTERN) { pat = 0; break; }
  if (pat && vx_in_child ()) {
    nl_drain_log (on_line);
    fail_hist ("C09:longjmp-to-context-without-setjmp", "error_handler() jumps to an error context whose setjmp() has not been executed yet "
               "(wait calls so far: %d, context depth %d, heart-beat round in progress: %d)", env_wait_calls, nl_error_context_depth (), nl_hb_to_do () != 0);
    vx_child_exit (0);
  }
  __real_longjmp (env, val);
}
static void __attribute__ ((noinline)) poison_stack (void) {
  volatile unsigned char buf[24576];
  memset ((void *) buf, STACK_PATTERN, sizeof buf);
  __asm__ volatile ("" : : "r" (buf) : "memory");
}

static int hook (io_event_t *ev, int max, struct timeval *tmo) {
  (void) max; (void) tmo;
  int n = 0;
  end_of_cycle ();
  insn_in_cycle = 0;
  if (step < depth) {
    evt list[64]; int nl = 0;
    list[nl++] = (evt) { E_NOTHING, -1 };
    list[nl++] = (evt) { E_TICK1, -1 };
    list[nl++] = (evt) { E_TICK2, -1 };
    if (connects < maxconn) list[nl++] = (evt) { E_CONNECT, -1 };
    if (P.console) list[nl++] = (evt) { E_CONSOLE, -1 };
    for (int i = 0; i < ENV_MAXCLI; i++) {
      env_cli *c = &env_clients[i];
      if (!nl_client_live (c) || !c->registered) continue;
      if (!c->peer_closed) {
        list[nl++] = (evt) { E_PI, i }; list[nl++] = (evt) { E_NG, i }; list[nl++] = (evt) { E_ACT, i };
        list[nl++] = (evt) { E_ACT_CLOSE, i };
        if (P.kind == K_TELNET) list[nl++] = (evt) { E_TTYPE, i };
      }
      list[nl++] = (evt) { E_HUP_R, i }; list[nl++] = (evt) { E_HUP_C, i };
    }
    if (merge) {
      int ed_open = 0;
      for (int i = 0; all_users && i < max_users; i++) if (all_users[i] && all_users[i]->ed_buffer) ed_open = 1;
      if (!ed_open) { build_state (); vx_state (canon, (size_t) cn); }     /* an ed session has state that is not in the canonical form */
    }
    char lab[28]; snprintf (lab, sizeof lab, "ev%d", step);
    int c = vx_choose_free (nl, lab);
    vx_obs ("step %d: %s%s%d", step, ev_name[list[c].kind], list[c].cli >= 0 ? " c" : " ", list[c].cli);
    n = apply_event (ev, n, list[c]);
    step++;
  } else {
    /* epilogue: stages separated by quiet cycles until every buffered command has been consumed (in real time
     * the loop does not block while a command is buffered, so many cycles pass between two timer ticks) */
    static int drains, last_tick_pending;
    if (last_tick_pending) { check_last_tick (); last_tick_pending = 0; }
    int pending = 0;
    for (int i = 0; all_users && i < max_users; i++) if (all_users[i] && (all_users[i]->iflags & CMD_IN_BUF)) pending = 1;
    if (ep > 0 && pending && drains < 24) { drains++; vx_obs ("epilogue: quiet cycle"); }
    else {
      drains = 0;
      switch (ep++) {
      case 0:                     /* pending close notifications */
        vx_obs ("epilogue");
        for (int i = 0; i < ENV_MAXCLI; i++) {
          env_cli *c = &env_clients[i];
          if (nl_client_live (c) && c->registered && c->peer_closed) n = add_cli_event (ev, n, c, EVENT_READ);
        }
        break;
      case 1: env_tick (1); n = env_ev_wakeup (ev, n); send_all (ev, &n, "."); break;
      case 2: env_tick (1); n = env_ev_wakeup (ev, n); send_all (ev, &n, "Q"); break;
      case 3:
        for (int i = 0; i < ENV_MAXCLI; i++) cli_mark[i] = env_clients[i].out_len;
        con_mark = env_console_out_len;
        for (int k = 0; k < 3; k++) co_fired[k] = 0;
        snapshot_call_outs ();
        env_tick (1); n = env_ev_wakeup (ev, n); send_all (ev, &n, "ping");
        break;
      case 4: case 5: case 6: env_tick (1); n = env_ev_wakeup (ev, n); break;
      case 7: env_tick (1); n = env_ev_wakeup (ev, n); last_tick_pending = 1; vx_obs ("epilogue: last tick"); break;
      default:
        we_shutdown = 1; env_shutdown ();
        return 0;
      }
    }
  }
  /* level-triggered write readiness, as epoll would report it */
  for (int i = 0; i < ENV_MAXCLI; i++) {
    env_cli *c = &env_clients[i];
    if (nl_client_live (c) && c->registered && (c->interest & EVENT_WRITE) && !c->peer_closed) n = add_cli_event (ev, n, c, EVENT_WRITE);
  }
  return n;
}

/* ------------------------------------------------------------------ epilogue oracles */
static int co_left0[3];

static void check_last_tick (void) {
  /* called at the wait after the last epilogue tick: cyc_hb holds who was called in that tick */
  for (int k = 0; k < 3; k++) {
    if (hb_gone[k]) continue;     /* destructed by the mudlib */
    char tag[16]; snprintf (tag, sizeof tag, "hb%d", k);
    int beat = name_in (tag, cyc_hb, cyc_nhb);
    if (hb_raised[k] && beat) fail_hist ("C09:failed-heart-beat-still-called", "heart-beat object %d raised an error earlier but was called again in the last tick", k);
    if (!hb_raised[k] && !beat && !(k == 0 && hb0_off))
      fail_hist (keyf ("C09:healthy-heart-beat-not-called"), "heart-beat object %d never failed but was not called in the last tick (plan kind=%s pos=%d)", k, kind_name[P.kind], P.pos);
    if (hb_ob[k] && hb_raised[k] && query_heart_beat (hb_ob[k]))
      fail_hist ("C09:failed-heart-beat-still-on", "heart-beat object %d raised an error but query_heart_beat() is %d", k, query_heart_beat (hb_ob[k]));
  }
  /* user objects that completed logon and still exist beat as well */
  for (int i = 0; i < nobs; i++) {
    obrec *o = &obs_[i];
    if (strncmp (o->name, "/c09/user", 9) && strncmp (o->name, "/c09/npc", 8)) continue;
    if (!o->setup || o->gone || o->hboff) continue;
    object_t *ob = find_object_by_name (o->name + 1);
    if (!ob || (ob->flags & O_DESTRUCTED)) { fail_hist (keyf ("C09:object-vanished"), "%s completed logon and was never destructed by the mudlib, but no longer exists", o->name); continue; }
    if (!name_in (o->name, cyc_hb, cyc_nhb)) fail_hist (keyf ("C09:healthy-heart-beat-not-called"), "%s has its heart beat on but was not called in the last tick", o->name);
  }
}

static void final_oracle (void) {
  if (!returned) return;
  for (int i = 0; i < ENV_MAXCLI; i++)
    if (env_clients[i].used && env_clients[i].out_len > 3500)
      fail_hist ("C09:harness-assumption:output-ring-wrap", "client %d received %zu bytes: the output ring may have wrapped, which the bounds of this check exclude", i, env_clients[i].out_len);
  /* ping -> pong for every healthy, still connected user */
  for (int i = 0; i < ENV_MAXCLI; i++) {
    env_cli *c = &env_clients[i];
    if (!c->used || !c->accepted || c->peer_closed) continue;
    if (!cli_healthy[i]) continue;
    if (name_in (cli_ob[i], ep_exempt, ep_exempt_n)) continue;
    if (c->driver_closed) { fail_hist (keyf ("C09:healthy-user-disconnected"), "client %d (%s) never hung up and was never destructed, but the driver closed its connection", i, cli_ob[i]); continue; }
    if (!nl_out_contains (c, cli_mark[i], "pong")) {
      char tail[80]; size_t m = c->out_len - cli_mark[i]; if (m > 60) m = 60;
      int k = 0; for (size_t j = 0; j < m; j++) { unsigned char ch = c->out[cli_mark[i] + j]; k += snprintf (tail + k, sizeof tail - (size_t) k - 1, (ch >= 32 && ch < 127) ? "%c" : ".", ch); if (k > 70) break; }
      tail[k] = 0;
      fail_hist (keyf ("C09:user-not-served"), "client %d (%s) sent ping in the epilogue and got no pong (got \"%s\")", i, cli_ob[i], tail);
    }
  }
  if (P.console && all_users && all_users[0] && all_users[0]->ob) {
    char nm[64]; snprintf (nm, sizeof nm, "/%s", all_users[0]->ob->name);
    obrec *o = ob_rec (nm);
    if (o->setup && !o->gone && !name_in (nm, ep_exempt, ep_exempt_n)) {
      if (!env_console_out || !memmem (env_console_out + con_mark, env_console_out_len - con_mark, "pong", 4))
        fail_hist (keyf ("C09:console-user-not-served"), "console user %s sent ping in the epilogue and got no pong", nm);
    }
  }
  /* call_outs that were pending at the start of the epilogue and due within it have fired */
  for (int k = 0; k < 3; k++)
    if (co_left0[k] >= 0 && co_left0[k] <= 4 && !co_fired[k])
      fail_hist (keyf ("C09:pending-call_out-not-fired"), "call_out chain %d had %d s left when the epilogue started (5 s long) and never fired", k, co_left0[k]);
}

/* ------------------------------------------------------------------ body */
static void push_str (const char *s) { copy_and_push_string ((char *) s); }

static void body (void) {
  int pi = vx_choose_free (nplans, "plan");
  P = plans[pi];
  vx_obs ("plan %d: kind=%s pos=%d nth=%d every=%d handler_fails=%d console=%d hostile=%s ret=%d", pi, kind_name[P.kind], P.pos, P.nth, P.every,
          P.hfail, P.console, P.hostile, P.hret);
  object_t *po = find_object_by_name ("/c09/plan");
  push_str (kind_name[P.kind]); push_number (P.pos); push_number (P.nth); push_number (P.every);
  hx_apply (po, "set_plan", 4);
  if (P.nth2) { push_str (P.kind2); push_number (P.nth2); hx_apply (po, "set_plan2", 2); vx_obs ("  second fault: %s at execution %d", P.kind2, P.nth2); }
  push_str (P.hostile); push_number (P.hret);
  hx_apply (po, "set_hostile", 2);
  if (P.kind == K_RESET || P.kind == K_CLEANUP) { push_number (5000); hx_apply (po, "set_period", 1); }
  if (selftest == 2) { push_number (2); hx_apply (po, "set_st", 1); }
  nl_policy_i ("error_handler_fails", P.hfail);
  safe_apply_master_ob ("clear_errors", 0);
  MAIN_OPTION (console_mode) = P.console;
  env_isatty_value = 1;                 /* the console is a real terminal: losing the console user does not stop the driver */
  env_console_capture = 1;
  env_wait_hook = hook;
  env_send_hook = send_hook;
  nl_log_pos = lseek (2, 0, SEEK_END);
#ifdef NEOLITH_VERIF
  neolith_verif_insn_hook = insn_hook;
#endif
  poison_stack ();
  backend ();
  returned = 1;
  if (!we_shutdown) fail_hist ("C09:backend-returned-early", "backend() returned at step %d although the environment never asked for a shutdown", step);
  final_oracle ();
  vx_count (0, 1);
}

/* remaining time of the three chains when the ping cycle starts (hook case 3 runs before the tick) */
static void snapshot_call_outs (void) {
  object_t *co = find_object_by_name ("/c09/co");
  for (int k = 0; k < 3; k++) { char fn[16]; snprintf (fn, sizeof fn, "fire%d", k); co_left0[k] = co ? find_call_out (co, fn) : -1; }
}

int main (int argc, char **argv) {
  char mud[PATH_MAX];
  vx_init_args (argc, argv);
  depth = (int) vx_opt_long ("depth", 3);
  maxconn = (int) vx_opt_long ("maxconn", 2);
  selftest = (int) vx_opt_long ("selftest", 0);
  merge = (int) vx_opt_long ("merge", 0);
  insn_limit = vx_opt_long ("insn-limit", 30000);
  build_plans ();
  snprintf (mud, sizeof mud, "%s/mudlib/base", hx_verif_dir ());
  hx_boot (mud, "Port 4000:telnet\nResetDuration 2\nCleanupDuration 600\n", 0);
  nl_policy_s ("user_file", "/c09/user.c");
  object_t *po = hx_load ("/c09/plan.c", 0);
  if (!po) { fprintf (stderr, "h_c09: cannot load /c09/plan.c: %s\n", hx_last_error); return 2; }
  if (!hx_apply (po, "boot", 0)) { fprintf (stderr, "h_c09: plan->boot failed: %s\n", hx_last_error); return 2; }
  if (!hx_load ("/c09/user.c", 0) || !hx_load ("/c09/npc.c", 0)) { fprintf (stderr, "h_c09: cannot load user objects: %s\n", hx_last_error); return 2; }
  for (int k = 0; k < 3 && k < nl_hb_num (); k++) hb_ob[k] = nl_hb_ob (k);
  p_next_user = nl_static_addr ("s_next_user");
  p_swap_next_time = nl_static_addr ("nl_swap_next_time");
  if (merge && (!p_next_user || !p_swap_next_time)) { fprintf (stderr, "h_c09: cannot locate s_next_user / next_time statics; run with --merge=0\n"); return 2; }
  nl_warm_symbolizer ();
  vx_count_name (0, "histories_completed");
  vx_count_name (1, "errors_injected");
  vx_count_name (2, "complete_reset_or_clean_up_sweeps");
  return vx_run (argc, argv, body);
}
