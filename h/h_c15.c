/* C15 — file access is confined to the mudlib and always mediated by the master.
 *
 * E2 enumeration on the real efuns: every op (efun form / editor command / include / inherit /
 * load) x every path string over {a . / #} up to a length bound (+ each behind a 1100-character
 * component) x master policies {deny, allow} for valid_read and valid_write independently
 * (part "paths"); every op x rewrite-to-p' for every p' up to a bound (part "rewrite");
 * legal_path() against a reference on all strings of length <= 10 (part "legal").
 * Oracle: the log of wrapped libc file calls (env/fs.c) made during the efun call, ordered
 * against the verification master's valid_read/valid_write apply log.
 */
#include "hx.h"
#include "fs.h"
#include "src/comm.h"
#include "efuns/file_utils.h"
#include <sys/wait.h>
#include <dirent.h>
#include <signal.h>

extern void ed_cmd (char *);
void __real__exit (int) __attribute__ ((noreturn));

#define ALPHA "a./#"
#define LONGLEN 1100

static object_t *T, *U, *U2, *EDU;      /* EDU: the user acting now */
static int mlog_idx = -1;
static int selftest;
static int Lmax = 5, Rmax = 3;
static long NP, NR;
static char longcomp[LONGLEN + 1];
static const char *scratch_base;
static char my_root[PATH_MAX];
static pid_t root_owner;
static int dirty = 1, in_grandchild;
static const char *part = "paths";

/* ------------------------------------------------------------------ the scratch tree */
#define SAVE_T "#/c15/t.c\nx 6\ns \"restored\"\n"
#define LPC_A "int q() { return 2; }\n"
static const struct { const char *path, *content; } TREE[] = {
  { "a", 0 }, { "a/a", "l1\nl2\nl3\n" }, { "a/.a", "h\n" }, { "a/aa", 0 }, { "a/a.o", SAVE_T }, { "a/a.c", LPC_A },
  { "a/#", "x\n" }, { "a/aa/a", "deep\n" },
  { "aa", "t1\nt2\n" }, { "a.a", "x\n" }, { ".a", 0 }, { ".a/a", "x\n" }, { "a.", "int inc_a;\n" },
  { "a.o", SAVE_T }, { "aa.o", SAVE_T }, { "a.c", LPC_A }, { "aa.c", "inherit \"a\";\nint r() { return 3; }\n" },
  { "#", "x\n" }, { "a#", "x\n" }, { "..a", "x\n" }, { "a..", "x\n" }, { "...", "x\n" },
  { "include", 0 }, { "include/a", "int inc_sys;\n" }, { "include/a.a", "int inc_sys2;\n" }, { "include/aa", 0 },
  { "c15", 0 }, { "c15/a", "int inc_sub;\n" },
};
#define NTREE (int) (sizeof TREE / sizeof TREE[0])

/* the evaluation root is three directories below the per-process directory, so that a path that escapes
   (at most two ".." fit into the path bound) still lands inside the area this process removes */
#define ROOT_NEST "/x/y/z"
static const char *const keep_z[] = { "z", 0 }, *const keep_y[] = { "y", 0 };
static void outside_sentinels (void) {
  fs_rm_children ("..", keep_z);
  fs_rm_children ("../..", keep_y);
  fs_spit ("../a", "outside\n", 8); fs_spit ("../aa", "outside\n", 8);
  fs_spit ("../a.c", LPC_A, strlen (LPC_A)); fs_spit ("../a.o", SAVE_T, strlen (SAVE_T));
}
static void tree_reset (void) {
  outside_sentinels ();
  fs_rm_children (".", 0);
  for (int i = 0; i < NTREE; i++) {
    if (!TREE[i].content) mkdir (TREE[i].path, 0755);
    else fs_spit (TREE[i].path, TREE[i].content, strlen (TREE[i].content));
  }
  dirty = 0;
}

static void ensure_root (void) {
  if (in_grandchild || root_owner == getpid ()) return;
  /* a new batch child: private root, and sweep roots of batch children that are gone */
  DIR *d = opendir (scratch_base);
  if (d) {
    struct dirent *de;
    while ((de = readdir (d))) {
      if (de->d_name[0] != 'c' || !isdigit ((unsigned char) de->d_name[1])) continue;
      pid_t p = (pid_t) atol (de->d_name + 1);
      if (p > 0 && kill (p, 0) == -1 && errno == ESRCH) {
        char sub[PATH_MAX]; snprintf (sub, sizeof sub, "%s/%s", scratch_base, de->d_name);
        fs_rm_rf (sub);
      }
    }
    closedir (d);
  }
  snprintf (my_root, sizeof my_root, "%s/c%d", scratch_base, (int) getpid ());
  fs_rm_rf (my_root);
  {
    char d[PATH_MAX]; int ok = mkdir (my_root, 0755) == 0;
    snprintf (d, sizeof d, "%s/x", my_root); ok = ok && mkdir (d, 0755) == 0;
    snprintf (d, sizeof d, "%s/x/y", my_root); ok = ok && mkdir (d, 0755) == 0;
    snprintf (d, sizeof d, "%s" ROOT_NEST, my_root); ok = ok && mkdir (d, 0755) == 0 && chdir (d) == 0;
    if (ok) goto made;
  }
  { vx_fail ("HARNESS:scratch", "cannot create %s: %s", my_root, strerror (errno)); vx_child_exit (3); }
made:
  root_owner = getpid ();
  dirty = 1;
}

/* ------------------------------------------------------------------ path enumeration */
static long npaths (int L) { long n = 0, p = 1; for (int k = 0; k <= L; k++) { n += p; p *= 4; } return n; }
static void path_of (long idx, char *out) {
  int k = 0; long p = 1;
  while (idx >= p) { idx -= p; p *= 4; k++; }
  for (int i = k - 1; i >= 0; i--) { out[i] = ALPHA[idx & 3]; idx >>= 2; }
  out[k] = 0;
}

/* ------------------------------------------------------------------ ops */
enum { K_CALL, K_ED_START, K_ED_START_W, K_ED_W, K_ED_WAPP, K_ED_R, K_ED_E, K_ED_F_W, K_ED_F_X, K_ED_DEAD,
       K_ED2_W, K_ED2_WAPP, K_ED2_R, K_ED2_E, K_ED2_F_W, K_ED2_F_X, K_ED2_START_W,
       K_INC_Q_SUB, K_INC_Q_ROOT, K_INC_A_SUB, K_INC_A_ROOT, K_INHERIT };
enum { F_PLAIN, F_SAVE, F_DIR, F_TWO };       /* how an approved path may legitimately be transformed */
typedef struct {
  const char *name, *lpcfn;
  int kind, mediated, family;
  const char *rd_names, *wr_names;      /* operation names the master may be given, space separated */
  const char *partner;                  /* fixed second path */
  int p_is_second;                      /* the enumerated path is the efun's second argument */
  int isolate;
} op_t;

static const op_t OPS[] = {
  { "read_file", "op_read_file", K_CALL, 1, F_PLAIN, "read_file", "", 0, 0, 0 },
  { "read_file3", "op_read_file_lines", K_CALL, 1, F_PLAIN, "read_file", "", 0, 0, 0 },
  { "write_file", "op_write_file", K_CALL, 1, F_PLAIN, "", "write_file", 0, 0, 0 },
  { "write_file_ow", "op_write_file_ow", K_CALL, 1, F_PLAIN, "", "write_file", 0, 0, 0 },
  { "read_bytes", "op_read_bytes", K_CALL, 1, F_PLAIN, "read_bytes", "", 0, 0, 0 },
  { "write_bytes", "op_write_bytes", K_CALL, 1, F_PLAIN, "", "write_bytes", 0, 0, 0 },
  { "read_buffer", "op_read_buffer", K_CALL, 1, F_PLAIN, "read_buffer read_bytes", "", 0, 0, 0 },
  { "write_buffer", "op_write_buffer", K_CALL, 1, F_PLAIN, "", "write_buffer write_bytes", 0, 0, 0 },
  { "rm", "op_rm", K_CALL, 1, F_PLAIN, "", "rm remove_file", 0, 0, 0 },
  { "mkdir", "op_mkdir", K_CALL, 1, F_PLAIN, "", "mkdir", 0, 0, 0 },
  { "rmdir", "op_rmdir", K_CALL, 1, F_PLAIN, "", "rmdir", 0, 0, 0 },
  { "get_dir", "op_get_dir", K_CALL, 1, F_DIR, "get_dir stat", "", 0, 0, 0 },
  { "get_dir_long", "op_get_dir_long", K_CALL, 1, F_DIR, "get_dir stat", "", 0, 0, 0 },
  { "stat", "op_stat", K_CALL, 1, F_DIR, "stat", "", 0, 0, 0 },
  { "stat_long", "op_stat_long", K_CALL, 1, F_DIR, "stat", "", 0, 0, 0 },
  { "file_size", "op_file_size", K_CALL, 1, F_PLAIN, "file_size", "", 0, 0, 0 },
  { "file_length", "op_file_length", K_CALL, 1, F_PLAIN, "file_length file_size", "", 0, 0, 0 },
  { "tail", "op_tail", K_CALL, 1, F_PLAIN, "tail", "", 0, 0, 0 },
  { "save_object", "op_save_object", K_CALL, 1, F_SAVE, "", "save_object", 0, 0, 0 },
  { "save_object_z", "op_save_object_z", K_CALL, 1, F_SAVE, "", "save_object", 0, 0, 0 },
  { "restore_object", "op_restore_object", K_CALL, 1, F_SAVE, "restore_object", "", 0, 0, 0 },
  { "restore_object_nc", "op_restore_object_nc", K_CALL, 1, F_SAVE, "restore_object", "", 0, 0, 0 },
  { "dumpallobj", "op_dumpallobj", K_CALL, 1, F_PLAIN, "", "dumpallobj", 0, 0, 0 },
  { "dump_prog", "op_dump_prog", K_CALL, 1, F_PLAIN, "", "dump_prog dumpallobj", 0, 0, 0 },
  { "dump_prog_dis", "op_dump_prog_dis", K_CALL, 1, F_PLAIN, "", "dump_prog dumpallobj", 0, 0, 0 },
  { "rename_from_todir", "op_rename_from", K_CALL, 1, F_TWO, "file_size", "rename", "a", 0, 0 },
  { "rename_from_tonew", "op_rename_from", K_CALL, 1, F_TWO, "file_size", "rename", "aaa", 0, 0 },
  { "rename_to", "op_rename_to", K_CALL, 1, F_TWO, "file_size", "rename", "aa", 1, 0 },
  { "cp_from_todir", "op_cp_from", K_CALL, 1, F_TWO, "cp", "cp", "a", 0, 0 },
  { "cp_from_tonew", "op_cp_from", K_CALL, 1, F_TWO, "cp", "cp", "aaa", 0, 0 },
  { "cp_to", "op_cp_to", K_CALL, 1, F_TWO, "cp", "cp", "aa", 1, 0 },
  { "link_from", "op_link_from", K_CALL, 1, F_TWO, "file_size", "link rename", "aaa", 0, 0 },
  { "link_to", "op_link_to", K_CALL, 1, F_TWO, "file_size", "link rename", "aa", 1, 0 },
  { "ed_start", "op_ed", K_ED_START, 1, F_PLAIN, "ed_start", "ed_start", 0, 0, 0 },
  { "ed_start_w", "op_ed", K_ED_START_W, 1, F_PLAIN, "ed_start", "ed_start", 0, 0, 0 },
  { "ed_w", "op_ed_nofile", K_ED_W, 1, F_PLAIN, "ed_start", "ed_start", 0, 0, 0 },
  { "ed_W", "op_ed_nofile", K_ED_WAPP, 1, F_PLAIN, "ed_start", "ed_start", 0, 0, 0 },
  { "ed_r", "op_ed_nofile", K_ED_R, 1, F_PLAIN, "ed_start", "ed_start", 0, 0, 0 },
  { "ed_e", "op_ed_nofile", K_ED_E, 1, F_PLAIN, "ed_start", "ed_start", 0, 0, 0 },
  { "ed_f_w", "op_ed_nofile", K_ED_F_W, 1, F_PLAIN, "ed_start", "ed_start", 0, 0, 0 },
  { "ed_f_x", "op_ed_nofile", K_ED_F_X, 1, F_PLAIN, "ed_start", "ed_start", 0, 0, 0 },
  /* two users in ed at once: the first opens a session, then the second, then the first issues the file command */
  { "ed2_w", "op_ed_nofile", K_ED2_W, 1, F_PLAIN, "ed_start", "ed_start", 0, 0, 0 },
  { "ed2_W", "op_ed_nofile", K_ED2_WAPP, 1, F_PLAIN, "ed_start", "ed_start", 0, 0, 0 },
  { "ed2_r", "op_ed_nofile", K_ED2_R, 1, F_PLAIN, "ed_start", "ed_start", 0, 0, 0 },
  { "ed2_e", "op_ed_nofile", K_ED2_E, 1, F_PLAIN, "ed_start", "ed_start", 0, 0, 0 },
  { "ed2_f_w", "op_ed_nofile", K_ED2_F_W, 1, F_PLAIN, "ed_start", "ed_start", 0, 0, 0 },
  { "ed2_f_x", "op_ed_nofile", K_ED2_F_X, 1, F_PLAIN, "ed_start", "ed_start", 0, 0, 0 },
  { "ed2_start_w", "op_ed", K_ED2_START_W, 1, F_PLAIN, "ed_start", "ed_start", 0, 0, 0 },
  { "ed_netdead_save", "op_ed", K_ED_DEAD, 1, F_PLAIN, "ed_start", "ed_start", "aa", 0, 1 },
  /* program name resolution: only confinement is stated for these */
  { "load_object", "op_load_object", K_CALL, 0, F_PLAIN, "", "", 0, 0, 1 },
  { "find_object_load", "op_find_object_load", K_CALL, 0, F_PLAIN, "", "", 0, 0, 1 },
  { "clone_object", "op_clone_object", K_CALL, 0, F_PLAIN, "", "", 0, 0, 1 },
  { "new", "op_new", K_CALL, 0, F_PLAIN, "", "", 0, 0, 1 },
  { "call_other", "op_call_other", K_CALL, 0, F_PLAIN, "", "", 0, 0, 1 },
  { "include_q_sub", 0, K_INC_Q_SUB, 0, F_PLAIN, "", "", 0, 0, 1 },
  { "include_q_root", 0, K_INC_Q_ROOT, 0, F_PLAIN, "", "", 0, 0, 1 },
  { "include_a_sub", 0, K_INC_A_SUB, 0, F_PLAIN, "", "", 0, 0, 1 },
  { "include_a_root", 0, K_INC_A_ROOT, 0, F_PLAIN, "", "", 0, 0, 1 },
  { "inherit", 0, K_INHERIT, 0, F_PLAIN, "", "", 0, 0, 1 },
};
#define NOPS (int) (sizeof OPS / sizeof OPS[0])

/* ------------------------------------------------------------------ policies */
enum { POL_DENY, POL_ALLOW, POL_REWRITE };
typedef struct { int rd, wr; char rd_to[16], wr_to[16]; const char *reenter; } policy_t;

static void set_pol (const char *k, int mode, const char *to) {
  push_constant_string (k);
  if (mode == POL_REWRITE) copy_and_push_string (to); else push_number (mode == POL_ALLOW);
  safe_apply_master_ob ("set_policy", 2);
}
static void set_pol_str (const char *k, const char *v) {
  push_constant_string (k);
  if (v) copy_and_push_string (v); else push_undefined ();
  safe_apply_master_ob ("set_policy", 2);
}

static array_t *mlog (void) {
  svalue_t *v = &master_ob->variables[mlog_idx];
  return v->type == T_ARRAY ? v->u.arr : 0;
}
static long mlog_len (void) { array_t *a = mlog (); return a ? a->size : 0; }

/* ------------------------------------------------------------------ reference rules (from the statement and the docs) */
/* a path is legal iff it is not absolute, has no '#', no ".." component and no "." component
   other than a final one ("/w/." lists /w, "." is the mudlib root) */
static int ref_legal (const char *p) {
  if (p[0] == '/') return 0;
  if (strchr (p, '#')) return 0;
  for (const char *c = p;;) {
    const char *e = strchr (c, '/');
    size_t l = e ? (size_t) (e - c) : strlen (c);
    if (l == 2 && c[0] == '.' && c[1] == '.') return 0;
    if (l == 1 && c[0] == '.' && e) return 0;
    if (!e) break;
    c = e + 1;
  }
  if (selftest == 2 && !strncmp (p, "..a", 3)) return 0;       /* self-test: wrong reference */
  return 1;
}
static int has_dotdot (const char *p) {
  for (const char *c = p;;) {
    const char *e = strchr (c, '/');
    size_t l = e ? (size_t) (e - c) : strlen (c);
    if (l == 2 && c[0] == '.' && c[1] == '.') return 1;
    if (!e) break;
    c = e + 1;
  }
  return 0;
}
/* a path that leaves the evaluation root is judged from the log; it is never executed on the host */
static int escapes_root (const char *p) { return p[0] == '/' || has_dotdot (p); }
/* what the master's answer means as a path: one leading '/' stripped, empty = mudlib root */
static void norm_approved (const char *in, char *out, size_t n) {
  if (in[0] == '/') in++;
  if (!in[0]) in = ".";
  snprintf (out, n, "%s", in);
}
static void rstrip_slashes (char *s) { size_t l = strlen (s); while (l > 1 && s[l - 1] == '/') s[--l] = 0; }
static const char *base_of (const char *s) { const char *b = strrchr (s, '/'); return b ? b + 1 : s; }
static int word_in (const char *list, const char *w) {
  size_t l = strlen (w);
  for (const char *p = list; *p;) {
    while (*p == ' ') p++;
    const char *e = strchr (p, ' '); size_t k = e ? (size_t) (e - p) : strlen (p);
    if (k == l && !strncmp (p, w, l)) return 1;
    p += k;
  }
  return 0;
}

/* directory-listing efuns (documented in get_dir.md / the file_list comment): a trailing "/" or "/."
   names the directory itself; otherwise the last component is a pattern matched inside its directory */
static int cur_rec_idx;         /* index in fs_log of the record being judged */
static int dir_family_ok (const char *a, const char *x) {
  char d[FS_PATHMAX]; snprintf (d, sizeof d, "%s", a);
  if (!strcmp (x, a)) return 1;
  size_t l = strlen (d);
  if (l >= 2) {
    char *p = strrchr (d, '/');
    if (p && (p[1] == 0 || (p[1] == '.' && p[2] == 0))) *p = 0;
  }
  if (!strcmp (x, d)) return 1;
  size_t dl = strlen (d);
  if (!strncmp (x, d, dl) && x[dl] == '/' && !strchr (x + dl + 1, '/')) return 1;   /* an entry of the directory */
  /* the containing directory is searched (wild-card match of the last component) only when the approved path itself
     does not exist: there must be an earlier, failed stat() of it in this call */
  int missing = 0;
  for (int i = 0; i < cur_rec_idx && i < FS_LOGMAX; i++)
    if (fs_log[i].has_path && fs_log[i].ret < 0 && !strcmp (fs_log[i].fn, "stat") && !strcmp (fs_log[i].path, d)) missing = 1;
  if (!missing) return 0;
  char par[FS_PATHMAX];
  char *p = strrchr (d, '/');
  if (p) { *p = 0; snprintf (par, sizeof par, "%s", d); } else strcpy (par, ".");
  if (!strcmp (x, par)) return 1;
  size_t pl = strlen (par);
  if (!strncmp (x, par, pl) && x[pl] == '/' && !strchr (x + pl + 1, '/')) return 1;
  return 0;
}

/* ------------------------------------------------------------------ driving one op */
typedef struct { const op_t *op; const char *p; policy_t pol; const char *desc; int is_long; int fail_at, fail_errno, fail2_at; } job_t;

static int ed_active (void) { return EDU && EDU->interactive && EDU->interactive->ed_buffer; }
static void ed_line_fn (void *arg) { ed_cmd ((char *) arg); }
static void ed_line (const char *fmt, ...) {
  static char line[4096];
  va_list ap; va_start (ap, fmt); vsnprintf (line, 2040, fmt, ap); va_end (ap);
  if (!ed_active ()) return;
  object_t *save = command_giver;
  command_giver = EDU; current_object = 0;
  fs_active = 1;
  if (hx_guard (ed_line_fn, line)) vx_obs ("  ed: error %s", hx_last_error);
  fs_active = 0;
  command_giver = save;
}
static void call_T (const char *fn, const char *a, const char *b) {
  copy_and_push_string (a);
  copy_and_push_string (b ? b : "");
  command_giver = EDU;
  fs_active = 1;
  svalue_t *r = hx_apply (T, fn, 2);
  fs_active = 0;
  command_giver = 0;
  /* results of stat()/get_dir(,-1) carry real modification times: only the shape goes into the observation log */
  if (!r) vx_obs ("  %s -> error %.200s", fn, hx_last_error);
  else if (r->type == T_NUMBER) vx_obs ("  %s -> %lld", fn, (long long) r->u.number);
  else if (r->type == T_ARRAY) vx_obs ("  %s -> array of %d", fn, r->u.arr->size);
  else if (r->type == T_STRING) vx_obs ("  %s -> string of %d", fn, (int) strlen (r->u.string));
  else vx_obs ("  %s -> type %d", fn, r->type);
}
static void compile_text (const char *name, const char *text) {
  command_giver = U;
  fs_active = 1;
  object_t *ob = hx_load (name, text);
  fs_active = 0;
  command_giver = 0;
  vx_obs ("  compile %s -> %s %.160s", name, ob ? "ok" : "failed", ob ? "" : hx_last_error);
}

static void drive (const job_t *j) {
  const op_t *op = j->op; const char *p = j->p;
  char text[4096];
  switch (op->kind) {
  case K_CALL:
    call_T (op->lpcfn, p, op->partner);       /* the LPC side puts p first or second */
    break;
  case K_ED_START: call_T ("op_ed", p, 0); ed_line ("Q"); break;
  case K_ED_START_W: call_T ("op_ed", p, 0); ed_line ("w"); ed_line ("Q"); break;
  case K_ED_W: call_T ("op_ed_nofile", p, 0); ed_line ("a"); ed_line ("x"); ed_line ("."); ed_line ("w %s", p); ed_line ("Q"); break;
  case K_ED_WAPP: call_T ("op_ed_nofile", p, 0); ed_line ("a"); ed_line ("x"); ed_line ("."); ed_line ("W %s", p); ed_line ("Q"); break;
  case K_ED_R: call_T ("op_ed_nofile", p, 0); ed_line ("r %s", p); ed_line ("Q"); break;
  case K_ED_E: call_T ("op_ed_nofile", p, 0); ed_line ("e %s", p); ed_line ("Q"); break;
  case K_ED_F_W: call_T ("op_ed_nofile", p, 0); ed_line ("a"); ed_line ("x"); ed_line ("."); ed_line ("f %s", p); ed_line ("w"); ed_line ("Q"); break;
  case K_ED_F_X: call_T ("op_ed_nofile", p, 0); ed_line ("a"); ed_line ("x"); ed_line ("."); ed_line ("f %s", p); ed_line ("x"); ed_line ("Q"); break;
#define TWO_SESSIONS(FIRST) do { EDU = U; FIRST; EDU = U2; call_T ("op_ed_nofile", "", 0); EDU = U; } while (0)
#define END_SECOND do { EDU = U2; ed_line ("Q"); EDU = U; } while (0)
  case K_ED2_W: TWO_SESSIONS (call_T ("op_ed_nofile", p, 0)); ed_line ("a"); ed_line ("x"); ed_line ("."); ed_line ("w %s", p); ed_line ("Q"); END_SECOND; break;
  case K_ED2_WAPP: TWO_SESSIONS (call_T ("op_ed_nofile", p, 0)); ed_line ("a"); ed_line ("x"); ed_line ("."); ed_line ("W %s", p); ed_line ("Q"); END_SECOND; break;
  case K_ED2_R: TWO_SESSIONS (call_T ("op_ed_nofile", p, 0)); ed_line ("r %s", p); ed_line ("Q"); END_SECOND; break;
  case K_ED2_E: TWO_SESSIONS (call_T ("op_ed_nofile", p, 0)); ed_line ("e %s", p); ed_line ("Q"); END_SECOND; break;
  case K_ED2_F_W: TWO_SESSIONS (call_T ("op_ed_nofile", p, 0)); ed_line ("a"); ed_line ("x"); ed_line ("."); ed_line ("f %s", p); ed_line ("w"); ed_line ("Q"); END_SECOND; break;
  case K_ED2_F_X: TWO_SESSIONS (call_T ("op_ed_nofile", p, 0)); ed_line ("a"); ed_line ("x"); ed_line ("."); ed_line ("f %s", p); ed_line ("x"); ed_line ("Q"); END_SECOND; break;
  case K_ED2_START_W: TWO_SESSIONS (call_T ("op_ed", p, 0)); ed_line ("w"); ed_line ("Q"); END_SECOND; break;
  case K_ED_DEAD:
    /* a session on the fixed file, then the user goes away: the buffer is saved under the name the master gives */
    call_T ("op_ed", op->partner, 0); ed_line ("a"); ed_line ("x"); ed_line (".");
    if (ed_active ()) call_T ("op_remove_interactive", "", 0);
    break;
  case K_INC_Q_SUB: snprintf (text, sizeof text, "#include \"%s\"\nint z() { return 1; }\n", p); compile_text ("c15/incp.c", text); break;
  case K_INC_Q_ROOT: snprintf (text, sizeof text, "#include \"%s\"\nint z() { return 1; }\n", p); compile_text ("incp.c", text); break;
  case K_INC_A_SUB: snprintf (text, sizeof text, "#include <%s>\nint z() { return 1; }\n", p); compile_text ("c15/incp.c", text); break;
  case K_INC_A_ROOT: snprintf (text, sizeof text, "#include <%s>\nint z() { return 1; }\n", p); compile_text ("incp.c", text); break;
  case K_INHERIT: snprintf (text, sizeof text, "inherit \"%s\";\nint z() { return 1; }\n", p); compile_text ("inhp.c", text); break;
  }
  if (selftest == 3) {          /* self-test: an access the master never saw */
    struct stat st; fs_active = 1; stat ("../a", &st); fs_active = 0;
  }
}

/* ------------------------------------------------------------------ the oracle */
static const char *short_path (const char *p) {
  static char b[4][96]; static int k;
  char *o = b[k++ & 3];
  size_t l = strlen (p);
  if (l > 70) snprintf (o, 96, "%.20s..(%zu chars)..%s", p, l, p + l - 20); else snprintf (o, 96, "%s", p);
  return o;
}

extern int __sanitizer_symbolize_pc (void *pc, const char *fmt, char *out, size_t len) __attribute__ ((weak));
#include <dlfcn.h>
static const char *site_func (void *site) {
  static struct { void *site; char fn[96]; } cache[32];
  static int ncache;
  static char b[128];
  for (int i = 0; i < ncache; i++) if (cache[i].site == site) return cache[i].fn;
  b[0] = 0;
  if (site && __sanitizer_symbolize_pc) __sanitizer_symbolize_pc ((char *) site - 1, "%f", b, sizeof b);
  else if (site) {              /* uninstrumented build: ask addr2line (innermost inlined frame, like the line above) */
    Dl_info di; unsigned long off = (unsigned long) site - 1;
    if (dladdr (site, &di) && di.dli_fbase) off -= (unsigned long) di.dli_fbase;
    char cmd[200]; snprintf (cmd, sizeof cmd, "addr2line -f -e /proc/%d/exe 0x%lx 2>/dev/null", (int) getpid (), off);
    int save = fs_active; fs_active = 0;
    FILE *f = popen (cmd, "r");
    if (f) { if (fgets (b, sizeof b, f)) b[strcspn (b, "\n")] = 0; pclose (f); }
    fs_active = save;
  }
  if (!b[0] || !strcmp (b, "<null>") || !strcmp (b, "??")) snprintf (b, sizeof b, "?");
  if (ncache < 32) { cache[ncache].site = site; snprintf (cache[ncache].fn, sizeof cache[ncache].fn, "%s", b); ncache++; }
  return b;
}
/* finding key = call site (function containing the libc call) + libc function + what is wrong (+ :long when
   it needs the 1100-character component); the op and the path are in the message */
static void fail_rec (const job_t *j, const fs_rec *r, const char *what, const char *fmt, ...) {
  char key[200], msg[500], d[300];
  va_list ap; va_start (ap, fmt); vsnprintf (msg, sizeof msg, fmt, ap); va_end (ap);
  int confinement = !strcmp (what, "absolute-path") || !strcmp (what, "dotdot-path");
  if (r) snprintf (key, sizeof key, "C15:%s:%s:%s%s", site_func (r->site), r->fn, what, j->is_long && !confinement ? ":long" : "");
  else snprintf (key, sizeof key, "C15:%s:%s%s", j->op->name, what, j->is_long ? ":long" : "");
  vx_fail (key, "%s | %s | %s", j->desc, r ? fs_describe (r, d, sizeof d) : "", msg);
  vx_obs ("!! %s %s", key, msg);
}

/* is libc path x (an argument of record r) covered by an approving master apply made before it? */
static void check_mediated (const job_t *j, const fs_rec *r, const char *x, int needs_write) {
  const op_t *op = j->op;
  array_t *ml = mlog ();
  long upto = r->seq; if (ml && upto > ml->size) upto = ml->size;
  int any_approval = 0, path_match_readonly = 0, path_match_wrongname = 0, path_match_wrongcaller = 0;
  const char *want_caller = (op->kind == K_CALL) ? "/c15/t" : 0;
  /* whose access is this?  Between the master's "reenter_begin" and "reenter_end" marks the libc call belongs to a
     file efun the master itself made while deciding; everything else belongs to the efun under test.  An access must
     be approved for its own caller: what the master allowed itself does not cover the efun that is waiting. */
  int nested = 0;
  for (long i = 0; ml && i < upto; i++) {
    svalue_t *e = &ml->item[i];
    if (e->type != T_ARRAY || e->u.arr->size < 1 || e->u.arr->item[0].type != T_STRING) continue;
    if (!strcmp (e->u.arr->item[0].u.string, "reenter_begin")) nested++;
    else if (!strcmp (e->u.arr->item[0].u.string, "reenter_end")) nested--;
  }
  /* pass 1: list approvals */
  for (long i = 0; ml && i < upto; i++) {
    svalue_t *e = &ml->item[i];
    if (e->type != T_ARRAY || e->u.arr->size < 4 || e->u.arr->item[0].type != T_STRING) continue;
    const char *kind = e->u.arr->item[0].u.string;
    int w = !strcmp (kind, "valid_write");
    char a[FS_PATHMAX];
    if (op->kind == K_ED_DEAD && !strcmp (kind, "get_save_file_name")) {
      /* the master names the file itself: that is its approval, whatever the name */
      w = 1;
      if (!strcmp (x, j->p[0] == '/' ? j->p + 1 : j->p)) return;
      any_approval = 1;
      continue;
    }
    if (!w && strcmp (kind, "valid_read")) continue;
    int mode = w ? j->pol.wr : j->pol.rd;
    if (selftest == 1) mode = POL_DENY;          /* self-test: the model believes the master refused */
    if (mode == POL_DENY) continue;
    const char *given = e->u.arr->item[1].type == T_STRING ? e->u.arr->item[1].u.string : "";
    const char *ans = mode == POL_REWRITE ? (w ? j->pol.wr_to : j->pol.rd_to) : given;
    norm_approved (ans, a, sizeof a);
    if (!ref_legal (a)) continue;                /* an illegal answer approves nothing */
    any_approval = 1;
    const char *fnname = e->u.arr->item[3].type == T_STRING ? e->u.arr->item[3].u.string : "";
    const char *caller = e->u.arr->item[2].type == T_STRING ? e->u.arr->item[2].u.string : "";
    int name_ok = word_in (w ? op->wr_names : op->rd_names, fnname);
    char uname[80]; snprintf (uname, sizeof uname, "/%s", U ? U->name : "?");
    int caller_ok = want_caller ? !strcmp (caller, want_caller) : !strcmp (caller, uname);       /* ed: the user who typed the command */
    if (nested > 0) {           /* the master's own access: approved by its own (inner) question, about exactly that path */
      if (strcmp (caller, "/master")) continue;
      if (!(!strcmp (x, a) || dir_family_ok (a, x))) continue;
      if (needs_write && !w) { path_match_readonly = 1; continue; }
      return;
    }
    if (!strcmp (caller, "/master")) continue;   /* an inner approval says nothing about the waiting efun */
    /* does x derive from a? */
    int m = 0;
    char a2[FS_PATHMAX];
    switch (op->family) {
    case F_PLAIN: m = !strcmp (x, a); break;
    case F_SAVE: snprintf (a2, sizeof a2, "%s.tmp", a); m = !strcmp (x, a) || !strcmp (x, a2); break;
    case F_DIR: m = dir_family_ok (a, x); break;
    case F_TWO: {
      m = !strcmp (x, a);
      snprintf (a2, sizeof a2, "%s", a); rstrip_slashes (a2);
      if (!strcmp (x, a2)) m = 1;
      if (!m) {
        /* into a directory: a + "/" + basename(another approved path of this call) */
        size_t al = strlen (a);
        if (!strncmp (x, a, al) && x[al] == '/') {
          for (long k = 0; k < upto; k++) {
            svalue_t *e2 = &ml->item[k];
            if (e2->type != T_ARRAY || e2->u.arr->size < 4 || e2->u.arr->item[1].type != T_STRING) continue;
            const char *kind2 = e2->u.arr->item[0].u.string;
            int w2 = !strcmp (kind2, "valid_write");
            if (!w2 && strcmp (kind2, "valid_read")) continue;
            int mode2 = w2 ? j->pol.wr : j->pol.rd;
            if (mode2 == POL_DENY) continue;
            const char *ans2 = mode2 == POL_REWRITE ? (w2 ? j->pol.wr_to : j->pol.rd_to) : e2->u.arr->item[1].u.string;
            char b[FS_PATHMAX]; norm_approved (ans2, b, sizeof b);
            if (!ref_legal (b)) continue;
            if (!strcmp (x + al + 1, base_of (b))) { m = 1; break; }   /* cp keeps a trailing '/', */
            rstrip_slashes (b);                                          /* rename drops it */
            if (!strcmp (x + al + 1, base_of (b))) { m = 1; break; }
          }
        }
      }
      break;
    }
    }
    if (!m) continue;
    if (needs_write && !w) { path_match_readonly = 1; continue; }
    if (!name_ok) { path_match_wrongname = 1; vx_obs ("  opname '%s' for %s", fnname, op->name); continue; }
    if (!caller_ok) { path_match_wrongcaller = 1; vx_obs ("  caller '%s' for %s", caller, op->name); continue; }
    return;                     /* covered */
  }
  if (path_match_readonly) fail_rec (j, r, "write-after-read-approval-only", "path %s is written but only valid_read approved it", short_path (x));
  else if (path_match_wrongname) fail_rec (j, r, "wrong-operation-name", "master was asked with an unexpected operation name for %s", short_path (x));
  else if (path_match_wrongcaller) fail_rec (j, r, "wrong-caller", "master was asked with an unexpected caller for %s", short_path (x));
  else if (!any_approval) fail_rec (j, r, "unmediated", "libc reached with %s but no approving valid_%s apply was made before it (%ld applies so far)", short_path (x), needs_write ? "write" : "read", upto);
  else fail_rec (j, r, "path-not-approved", "libc reached with %s which is not the approved path", short_path (x));
}

static void oracle (const job_t *j) {
  int n = fs_nlog < FS_LOGMAX ? fs_nlog : FS_LOGMAX, npath = 0;
  if (fs_nlog > FS_LOGMAX) vx_obs ("  (%d libc calls, first %d kept)", fs_nlog, FS_LOGMAX);
  for (int i = 0; i < n; i++) {
    const fs_rec *r = &fs_log[i];
    char d[300];
    if (i < 24) vx_obs ("  libc[%d] seq=%ld %s", i, r->seq, fs_describe (r, d, sizeof d));
    if (!r->has_path) continue;
    npath++;
    cur_rec_idx = i;
    for (int w = 0; w < 2; w++) {
      if (w && !r->has_path2) break;
      const char *x = w ? r->path2 : r->path;
      if (x[0] == '/') fail_rec (j, r, "absolute-path", "libc reached with the host-absolute path %s", short_path (x));
      else if (has_dotdot (x)) fail_rec (j, r, "dotdot-path", "libc reached with %s which has a '..' component", short_path (x));
      if (r->path_trunc) fail_rec (j, r, "HARNESS-path-too-long-for-log", "path longer than the log buffer");
      if (j->op->mediated) check_mediated (j, r, x, r->wr);
    }
  }
  vx_count (0, npath > 0);
  vx_count (1, npath);
  vx_count (2, mlog_len ());
  /* the master must have been asked about the path LPC passed (save files: with the extension) */
  array_t *ml = mlog ();
  if (j->op->mediated && ml && ml->size > 0 && j->op->kind == K_CALL && j->op->family != F_TWO) {
    svalue_t *e = &ml->item[0];
    if (e->type == T_ARRAY && e->u.arr->size >= 4 && e->u.arr->item[1].type == T_STRING) {
      const char *given = e->u.arr->item[1].u.string;
      char want[FS_PATHMAX];
      if (j->op->family == F_SAVE) {
        size_t l = strlen (j->p);
        snprintf (want, sizeof want, "%s", j->p);
        if (l >= 2 && !strcmp (want + l - 2, ".c")) want[l -= 2] = 0;
        if (l >= 2 && !strcmp (want + l - 2, ".o")) want[l -= 2] = 0;
        strcat (want, ".o");
        if (strlen (j->p) < 2) snprintf (want, sizeof want, "%s", given);        /* shorter than an extension: not constrained */
      } else snprintf (want, sizeof want, "%s", j->p);
      if (strcmp (given, want)) fail_rec (j, 0, "master-asked-about-another-path", "master was asked about '%s', the efun was given '%s'", short_path (given), short_path (j->p));
    }
  }
  for (long i = 0; ml && i < ml->size && i < 8; i++) vx_obs ("  master[%ld] %.300s", i, hx_canon_s (&ml->item[i]));
}

/* fstat()/fseek() on a file the driver has just opened cannot fail in practice; the driver treats that as fatal() by
   design, which is outside what this property states */
static int fault_filter (const char *fn) { return strcmp (fn, "fstat") && strcmp (fn, "fseek"); }
static void do_job (const job_t *j) {
  set_pol ("valid_read", j->pol.rd, j->pol.rd_to);
  set_pol ("valid_write", j->pol.wr, j->pol.wr_to);
  push_constant_string ("reenter");
  if (j->pol.reenter) copy_and_push_string (j->pol.reenter); else push_number (0);
  safe_apply_master_ob ("set_policy", 2);
  if (j->op->kind == K_ED_DEAD) set_pol_str ("ed_save_name", j->p);       /* isolated: never seen by later elements */
  safe_apply_master_ob ("clear_mlog", 0);
  safe_apply_master_ob ("clear_errors", 0);
  fs_reset ();
  if (j->fail_errno) {
    fs_fail_at = j->fail_at; fs_fail_errno = j->fail_errno;
    if (j->fail2_at >= 0) { fs_fail2_at = j->fail2_at; fs_fail2_errno = EIO; }
    fs_fail_filter = fault_filter;
  }
  vx_obs ("%s", j->desc);
  drive (j);
  oracle (j);
  EDU = U; if (ed_active ()) { ed_line ("."); ed_line ("Q"); }
  EDU = U2; if (ed_active ()) { ed_line ("."); ed_line ("Q"); }
  EDU = U;
  if (fs_mutated) dirty = 1;
}

static void run_job (const job_t *j) {
  ensure_root ();
  if (dirty) tree_reset ();
  if (!j->op->isolate) { do_job (j); return; }
  fflush (0);
  pid_t pid = fork ();
  if (pid < 0) { vx_fail ("HARNESS:fork", "fork failed"); return; }
  if (pid == 0) {
    in_grandchild = 1;
    do_job (j);
    fflush (0);
    __real__exit (0);
  }
  int status = 0;
  while (waitpid (pid, &status, 0) == -1 && errno == EINTR) ;
  if (!(WIFEXITED (status) && WEXITSTATUS (status) == 0)) {
    vx_scan_now ();
    char key[160];
    if (WIFSIGNALED (status)) snprintf (key, sizeof key, "died:signal%d:%s", WTERMSIG (status), j->op->name);
    else snprintf (key, sizeof key, "died:exit%d:%s", WEXITSTATUS (status), j->op->name);
    vx_fail (key, "%s: evaluation process died", j->desc);
  }
  dirty = 1;
}

/* ------------------------------------------------------------------ element decoding */
static const char *POLNAME[] = { "deny", "allow", "rewrite" };
static const char *INPUTS[] = { "aa", "/a/a", "a" };
#define NIN 3
/* part "faults": every libc call of an evaluation fails in turn (EIO, and EXDEV which sends rename() into its
   copy+unlink fallback): error paths are file accesses too */
static const char *FPATHS[] = { "aa", "/a/a", "aaa", "a", "a.a", "a/aa/a", ".a/a" };
#define NFP 7
#define NFK 20
/* part "reentrant": the master's valid_read/valid_write do file I/O themselves before approving with a number */
static const char *RVAR[] = { "read_file:aa", "file_size:a.a", "get_dir:a/", "write_file:mw", "read_bytes:.a/a", "same" };
#define NRV 6
#define NFE 10         /* 0: EIO at k; 1: EXDEV at k; 2..9: EXDEV at k and EIO at k+1..k+8 */

static void mk_path (long pidx, int lng, char *out) {
  char s[32]; path_of (pidx, s);
  if (lng) snprintf (out, FS_PATHMAX, "%s/%s", longcomp, s); else strcpy (out, s);
}

static const char *only_op;
static int decode (long idx, job_t *j, char *pbuf, char *desc, size_t dl) {
  memset (j, 0, sizeof *j);
  j->fail2_at = -1;
  if (!strcmp (part, "paths")) {
    int pol = (int) (idx % 4); idx /= 4;
    int op = (int) (idx % NOPS); idx /= NOPS;
    int lng = (int) (idx % 2); idx /= 2;
    j->op = &OPS[op];
    mk_path (idx, lng, pbuf);
    j->p = pbuf; j->is_long = lng;
    j->pol.rd = (pol == 1 || pol == 3) ? POL_ALLOW : POL_DENY;
    j->pol.wr = (pol == 1 || pol == 2) ? POL_ALLOW : POL_DENY;
    snprintf (desc, dl, "op=%s read=%s write=%s path=\"%s\"", j->op->name, POLNAME[j->pol.rd], POLNAME[j->pol.wr], short_path (pbuf));
    /* unmediated ops do not depend on the policy: run them once */
    if ((!j->op->mediated || j->op->kind == K_ED_DEAD) && pol != 1) return 0;
    if (only_op && strcmp (only_op, j->op->name)) return 0;
    return 1;
  }
  if (!strcmp (part, "faults")) {
    int e = (int) (idx % NFE); idx /= NFE;
    int k = (int) (idx % NFK); idx /= NFK;
    int op = (int) (idx % NOPS); idx /= NOPS;
    j->op = &OPS[op];
    strcpy (pbuf, FPATHS[idx % NFP]); j->p = pbuf;
    j->pol.rd = j->pol.wr = POL_ALLOW;
    j->fail_at = k; j->fail_errno = e ? EXDEV : EIO; j->fail2_at = e >= 2 ? k + e - 1 : -1;
    snprintf (desc, dl, "op=%s read=allow write=allow path=\"%s\" libc call #%d fails with %s%s", j->op->name, pbuf, k, e ? "EXDEV" : "EIO",
              e >= 2 ? " and a later one with EIO" : "");
    if (only_op && strcmp (only_op, j->op->name)) return 0;
    if (e >= 1 && j->op->family != F_TWO) return 0;       /* EXDEV only means something to rename/link */
    return 1;
  }
  if (!strcmp (part, "reentrant")) {
    int v = (int) (idx % NRV); idx /= NRV;
    int op = (int) (idx % NOPS); idx /= NOPS;
    j->op = &OPS[op];
    strcpy (pbuf, FPATHS[idx % NFP]); j->p = pbuf;
    j->pol.rd = j->pol.wr = POL_ALLOW;
    j->pol.reenter = RVAR[v];
    snprintf (desc, dl, "op=%s read=allow write=allow path=\"%s\" master re-enters with %s before answering", j->op->name, pbuf, RVAR[v]);
    if (!j->op->mediated || j->op->kind == K_ED_DEAD) return 0;
    if (only_op && strcmp (only_op, j->op->name)) return 0;
    return 1;
  }
  if (!strcmp (part, "rewrite")) {
    int mode = (int) (idx % 3); idx /= 3;
    int op = (int) (idx % NOPS); idx /= NOPS;
    int in = (int) (idx % NIN); idx /= NIN;
    j->op = &OPS[op];
    strcpy (pbuf, INPUTS[in]); j->p = pbuf;
    char to[16]; path_of (idx, to);
    j->pol.rd = mode == 2 ? POL_ALLOW : POL_REWRITE;
    j->pol.wr = mode == 1 ? POL_ALLOW : POL_REWRITE;
    strcpy (j->pol.rd_to, to); strcpy (j->pol.wr_to, to);
    snprintf (desc, dl, "op=%s read=%s write=%s rewrite-to=\"%s\" path=\"%s\"", j->op->name, POLNAME[j->pol.rd], POLNAME[j->pol.wr], to, pbuf);
    if (!j->op->mediated || j->op->kind == K_ED_DEAD) return 0;
    if (only_op && strcmp (only_op, j->op->name)) return 0;
    return 1;
  }
  return 0;
}

/* ------------------------------------------------------------------ legal_path() against the reference */
static long legal_checked;
static void legal_one (const char *s) {
  int got = legal_path (s), want = ref_legal (s);
  legal_checked++;
  if (got != want) {
    char key[120];
    snprintf (key, sizeof key, "C15:legal_path:%s", want ? "rejects-legal" : "accepts-illegal");
    vx_fail (key, "legal_path(\"%s\") = %d, reference %d", s, got, want);
  }
}
static void legal_elem (long e) {
  char s[16];
  legal_checked = 0;
  if (e == 1024) {              /* all strings shorter than 5 */
    long n = npaths (4);
    for (long i = 0; i < n; i++) { path_of (i, s); legal_one (s); }
  } else {
    for (int i = 4; i >= 0; i--) { s[i] = ALPHA[e & 3]; e >>= 2; }
    long n = npaths (5);
    for (long i = 0; i < n; i++) { path_of (i, s + 5); legal_one (s); }
  }
  vx_count (3, legal_checked);
  vx_count (0, 1);
}

/* ------------------------------------------------------------------ static inventory (computed by checks/C15.py
 * from the object files of the tree under check; one "key<TAB>message" per line) */
static char *inv_key[256], *inv_msg[256];
static int n_inv;
static void load_inventory (const char *path) {
  size_t len; char *b = fs_slurp (path, &len);
  if (!b) return;
  for (char *l = strtok (b, "\n"); l && n_inv < 256; l = strtok (0, "\n")) {
    char *t = strchr (l, '\t');
    if (!t) continue;
    *t = 0;
    inv_key[n_inv] = l; inv_msg[n_inv] = t + 1; n_inv++;
  }
}

static void elem (long idx) {
  if (!strcmp (part, "inventory")) { if (idx < n_inv) vx_fail (inv_key[idx], "%s", inv_msg[idx]); vx_count (0, 1); return; }
  if (!strcmp (part, "legal")) { legal_elem (idx); return; }
  job_t j; static char pbuf[FS_PATHMAX]; char desc[400];
  if (!decode (idx, &j, pbuf, desc, sizeof desc)) return;
  j.desc = desc;
  run_job (&j);
}
static void describe (long idx, char *buf, size_t len) {
  if (!strcmp (part, "inventory")) { snprintf (buf, len, "%s", idx < n_inv ? inv_key[idx] : "(no inventory finding)"); return; }
  if (!strcmp (part, "legal")) { snprintf (buf, len, "legal_path block %ld", idx); return; }
  job_t j; static char pbuf[FS_PATHMAX];
  decode (idx, &j, pbuf, buf, len);
}

/* ------------------------------------------------------------------ scratch area
 * Evaluation roots are created and torn down a few hundred thousand times per run; on the
 * journalled disk under /verif/build that costs ~1 ms each, on tmpfs a few us.  The roots
 * therefore live in /dev/shm/verif-fs-<pid> (when /dev/shm exists), reachable through the
 * symlink /verif/build/scratch/p<pid>/shm, and are removed by the process that made them. */
static char shm_base[PATH_MAX];
static pid_t shm_owner;
static void shm_cleanup (void) { if (shm_base[0] && getpid () == shm_owner) fs_rm_rf (shm_base); }
static const char *fs_scratch_base (void) {
  const char *hs = hx_scratch_dir ();
  struct stat st;
  if (getenv ("VERIF_FS_NO_SHM") || stat ("/dev/shm", &st) == -1) return hs;
  snprintf (shm_base, sizeof shm_base, "/dev/shm/verif-fs-%d", (int) getpid ());
  fs_rm_rf (shm_base);
  if (mkdir (shm_base, 0700) == -1) { shm_base[0] = 0; return hs; }
  shm_owner = getpid ();
  atexit (shm_cleanup);
  char ln[PATH_MAX]; snprintf (ln, sizeof ln, "%s/shm", hs);
  if (symlink (shm_base, ln)) {}
  return shm_base;
}

/* ------------------------------------------------------------------ main */
static void write_sites (const char *path) {
  void *s[1024]; const char *fn[1024];
  int n = fs_sites (s, fn, 1024);
  FILE *f = fopen (path, "w");
  if (!f) return;
  for (int i = 0; i < n; i++) {
    Dl_info di; unsigned long off = (unsigned long) s[i];
    if (dladdr (s[i], &di) && di.dli_fbase) off -= (unsigned long) di.dli_fbase;
    fprintf (f, "0x%lx %s\n", off - 1, fn[i]);
  }
  fclose (f);
}

int main (int argc, char **argv) {
  char boot[PATH_MAX], src[PATH_MAX], dst[PATH_MAX];
  vx_init_args (argc, argv);
  part = vx_opt ("part", "paths");
  Lmax = (int) vx_opt_long ("len", 5);
  Rmax = (int) vx_opt_long ("rlen", 3);
  selftest = (int) vx_opt_long ("selftest", 0);
  only_op = vx_opt ("only", 0);
  NP = npaths (Lmax); NR = npaths (Rmax);
  memset (longcomp, 'a', LONGLEN); longcomp[LONGLEN] = 0;

  scratch_base = fs_scratch_base ();
  snprintf (boot, sizeof boot, "%s/boot", scratch_base);
  mkdir (boot, 0755);
  static const char *copy[] = { "master.c", "simul_efun.c", "user.c", "c15", 0 };
  for (int i = 0; copy[i]; i++) {
    snprintf (src, sizeof src, "%s/mudlib/base/%s", hx_verif_dir (), copy[i]);
    snprintf (dst, sizeof dst, "%s/%s", boot, copy[i]);
    if (fs_copy_tree (src, dst)) { fprintf (stderr, "cannot copy %s\n", src); return 2; }
  }

  hx_boot (boot, "IncludeDir /include\n", 0);
  vx_count_name (0, "elements_reaching_libc");
  vx_count_name (1, "libc_path_calls_checked");
  vx_count_name (2, "master_applies_seen");
  vx_count_name (3, "legal_path_strings");
  T = hx_load ("/c15/t", 0);
  if (!T) { fprintf (stderr, "cannot load /c15/t: %s\n", hx_last_error); return 2; }
  add_ref (T, "harness");
  {
    error_context_t econ; save_context (&econ);
    if (setjmp (econ.context)) { restore_context (&econ); pop_context (&econ); fprintf (stderr, "clone of /user failed\n"); return 2; }
    current_object = master_ob;
    U = clone_object ("/user", 0);
    current_object = 0;
    pop_context (&econ);
  }
  if (!U) { fprintf (stderr, "no user object\n"); return 2; }
  add_ref (U, "harness");
  {
    error_context_t econ; save_context (&econ);
    if (setjmp (econ.context)) { restore_context (&econ); pop_context (&econ); fprintf (stderr, "clone of /user failed\n"); return 2; }
    current_object = master_ob;
    U2 = clone_object ("/user", 0);
    current_object = 0;
    pop_context (&econ);
  }
  if (!U2) { fprintf (stderr, "no second user object\n"); return 2; }
  add_ref (U2, "harness");
  create_test_interactive (U2);
  create_test_interactive (U);       /* last: all_users[0] is the first user, whose output goes to the console path */
  EDU = U;
  {
    unsigned short t;
    mlog_idx = find_global_variable (master_ob->prog, "mlog", &t);
    if (mlog_idx < 0) { fprintf (stderr, "master has no mlog\n"); return 2; }
  }
  push_constant_string ("log_fs"); push_number (1); safe_apply_master_ob ("set_policy", 2);
  fs_seq_hook = mlog_len;
  fs_path_guard = escapes_root;
  fs_sites_share ();

  long total;
  if (!strcmp (part, "paths")) total = NP * 2 * NOPS * 4;
  else if (!strcmp (part, "rewrite")) total = NR * NIN * NOPS * 3;
  else if (!strcmp (part, "reentrant")) total = (long) NFP * NOPS * NRV;
  else if (!strcmp (part, "faults")) total = (long) NFP * NOPS * NFK * NFE;
  else if (!strcmp (part, "legal")) total = 1025;
  else if (!strcmp (part, "inventory")) { load_inventory (vx_opt ("inv", "")); total = n_inv ? n_inv : 1; }
  else { fprintf (stderr, "unknown --part\n"); return 2; }
  vx_set_enum (total, elem, describe);
  int rc = vx_run (argc, argv, 0);
  const char *sites = vx_opt ("sites", 0);
  if (sites) write_sites (sites);
  return rc;
}
