/* C11 — heart_beat runs once per interval per enabled object; faults stay local.
 *
 * Explores, on the real src/backend.c (wrapper TU wrap/w_backend.c), all histories of bounded depth over
 *   {stop, tick, set_heart_beat(X,0|1|2), destruct(X), clone a heart-beat object (two programs),
 *    an uncaught error in an unrelated object outside any heart_beat (driver-level apply), a call_out of an unrelated
 *    object that raises in the call_out phase of the next tick}   (free choices)
 * from every initial population (3 objects, each off / interval 1 / interval 2), with budgeted deviations
 * chosen lazily at the moment a heart_beat is about to be invoked inside a round:
 *   hbop  : the script this heart_beat runs {self off, other->set_heart_beat(0|1|2), destruct self/other,
 *           clone a heart-beat object, error()}
 *   trunc : H1 sets heart_beat_flag at the k-th instruction from here (the timer firing inside the round)
 * Ticks are driven exactly like backend() does: call_heart_beat() inside save_context/setjmp/restore_context.
 * Oracle: the (tick, object) log written by the LPC objects against a lock-step cadence model. */
#include "hx.h"

extern void (*vw_hb_probe) (object_t *ob, int index, int to_do, int nobjs);
extern void vw_call_heart_beat (void);
extern int vw_num_hb_objs (void), vw_hb_index (void), vw_num_hb_to_do (void), vw_max_heart_beats (void), vw_hb_chunk (void);
extern object_t *vw_hb_ob (int i);
extern int vw_hb_ticks (int i), vw_hb_interval (int i);

#define NOBJ 4                  /* O0 = blueprint /hb/t, O1 O2 = clones of /hb/t, O3 = cloned during the history */
#define NMAX 2                  /* largest interval */
#define EPILOGUE (NMAX + 1)

typedef struct {
  int exists, destructed;
  int n;                        /* model: interval, 0 = off */
  int run_start;                /* first tick of the current run (enabled, constant n, complete ticks) */
  int last_call;                /* tick of the last call inside the run, -1 none */
  int called_this_tick;
} mobj;

static mobj M[NOBJ];
static object_t *OB[NOBJ], *LOGGER;
static int tickno, depth, maxticks, selftest, trunc_k, have_clone;
static int choices_on;
static int boom_pending;              /* a faulting call_out of the registry object is scheduled */
/* round state */
static volatile int in_round, round_insn, trunc_at, truncated, round_calls, grew;
static int vi_op = -1, vi_tgt = -1, vi_val = -1;

enum { C_HIST, C_TICKS, C_CALLS, C_REMOVALS_IN_ROUND, C_ERRORS, C_TRUNC, C_GROW_IN_ROUND, C_STALE_AFTER_ERROR, C_NEG_INDEX_BETWEEN, C_HBOPS };

static void fail_hist (const char *key, const char *fmt, ...) {
  char msg[500]; va_list ap; va_start (ap, fmt); vsnprintf (msg, sizeof msg, fmt, ap); va_end (ap);
  vx_fail (key, "%s", msg);
  vx_obs ("!! %s: %s", key, msg);
}

static int id_of (object_t *ob) { for (int i = 0; i < NOBJ; i++) if (OB[i] && OB[i] == ob) return i; return -1; }
static int live (int i) { return M[i].exists && !M[i].destructed; }

/* ------------------------------------------------------------------ in-round instrumentation */
static void check_cursor (const char *where) {
  int idx = vw_hb_index (), todo = vw_num_hb_to_do (), nobj = vw_num_hb_objs ();
  if (!(idx >= -1 && idx < (todo > 0 ? todo : 1) && todo >= 0 && todo <= nobj))
    fail_hist ("C11:round-cursor-out-of-bounds", "%s: heart_beat_index=%d num_hb_to_do=%d num_hb_objs=%d (tick %d)", where, idx, todo, nobj, tickno);
}

static void hook (void) {
  hx_insn_count++;
  if (!in_round) return;
  round_insn++;
  if (trunc_at && round_insn == trunc_at) { heart_beat_flag = 1; truncated = 1; vx_obs ("  [timer fires at instruction %d of the round]", round_insn); }
  check_cursor ("inside a heart_beat");
}

/* alternatives of the in-round script choice for object `self` */
typedef struct { int op, tgt, val; const char *name; } hbop;
static int build_hbops (int self, hbop *v) {
  int n = 0;
  v[n++] = (hbop) { 0, 0, 0, "none" };
  v[n++] = (hbop) { 1, self, 0, "self-off" };
  for (int t = 0; t < NOBJ; t++) if (t != self) for (int val = 0; val <= NMAX; val++) v[n++] = (hbop) { 2, t, val, "other-shb" };
  v[n++] = (hbop) { 3, self, 0, "destruct-self" };
  for (int t = 0; t < NOBJ; t++) if (t != self) v[n++] = (hbop) { 4, t, 0, "destruct-other" };
  v[n++] = (hbop) { 5, 3, 1, "clone-t" };
  v[n++] = (hbop) { 6, 3, 1, "clone-u" };
  v[n++] = (hbop) { 5, 3, 2, "clone-t2" };
  v[n++] = (hbop) { 7, self, 0, "error" };
  v[n++] = (hbop) { 10, self, 1, "destruct-self-then-set_heart_beat" };
  v[n++] = (hbop) { 10, self, 2, "destruct-self-then-set_heart_beat" };
  v[n++] = (hbop) { 8, self, 1, "self-shb" };
  v[n++] = (hbop) { 8, self, 2, "self-shb" };
  for (int t = 0; t < NOBJ; t++) v[n++] = (hbop) { 9, t, 1, "reload_object" };
  return n;
}

static void probe (object_t *ob, int index, int to_do, int nobjs) {
  int self = id_of (ob);
  round_calls++;
  vx_count (C_CALLS, 1);
  /* the cursor must point at the object that is being called */
  if (!(index >= 0 && index < to_do && to_do <= nobjs && vw_hb_ob (index) == ob))
    fail_hist ("C11:round-cursor-wrong-at-call", "calling heart_beat of O%d with heart_beat_index=%d num_hb_to_do=%d num_hb_objs=%d slot holds O%d", self, index, to_do, nobjs, id_of (vw_hb_ob (index)));
  if (ob->flags & O_DESTRUCTED) fail_hist ("C11:called-after-destruct", "driver invokes heart_beat of destructed object (O%d) in tick %d", self, tickno);
  if (!choices_on || self < 0) return;
  hbop v[40];
  int n = build_hbops (self, v);
  int c = vx_choose (n, "hbop");
  if (c) {
    hbop *h = &v[c];
    /* prune alternatives that are no-ops in this state (identical to "none") */
    if ((h->op == 2 || h->op == 4 || h->op == 9) && !live (h->tgt)) vx_child_exit (0);
    if (h->op == 9 && !query_heart_beat (OB[h->tgt])) vx_child_exit (0);      /* reload of an object without heart beat = other-shb(1) */
    if (h->op == 8 && query_heart_beat (ob) == h->val) vx_child_exit (0);       /* own interval unchanged, countdown just reset: no-op */
    if ((h->op == 5 || h->op == 6) && have_clone) vx_child_exit (0);
    if (h->op == 5 || h->op == 6) have_clone = 1;
    ob->variables[vi_op].u.number = h->op;
    ob->variables[vi_tgt].u.number = h->tgt;
    ob->variables[vi_val].u.number = h->val;
    vx_count (C_HBOPS, 1);
    vx_obs ("  [script for O%d in tick %d: %s tgt=O%d val=%d]", self, tickno, h->name, h->tgt, h->val);
  }
  if (trunc_k > 0) {
    int k = vx_choose (1 + trunc_k, "trunc");
    if (k) trunc_at = round_insn + k;
  }
}

/* ------------------------------------------------------------------ LPC access */
static svalue_t *lg (const char *fn, int nargs) {
  svalue_t *r = hx_apply (LOGGER, fn, nargs);
  if (!r) fail_hist ("C11:harness-lpc", "logger->%s failed: %s", fn, hx_last_error);
  return r;
}

static void fetch_clone (void) {
  if (OB[3]) return;
  push_number (3);
  svalue_t *r = lg ("ob", 1);
  if (r && r->type == T_OBJECT) { OB[3] = r->u.ob; add_ref (OB[3], "h_c11"); }
}

/* ------------------------------------------------------------------ model */
static int booms_seen;
static void new_epoch (int i, int n, int first_tick) { M[i].n = n; M[i].run_start = first_tick; M[i].last_call = -1; }

static void model_clone (int n, int from_t, int first_tick) {
  M[3].exists = 1; M[3].destructed = 0;
  new_epoch (3, n, first_tick);
  /* driver rule (clone_object: "We do not want the heart beat to be running for unused copied objects"):
     cloning a program switches off the heart beat of its blueprint */
  if (from_t && live (0) && M[0].n) new_epoch (0, 0, first_tick);
}

/* apply the log of one step; in_tick = 1 while processing a round */
static int process_log (int in_tick) {
  int err_by = -1;
  svalue_t *r = lg ("take_log", 0);
  if (!r || r->type != T_ARRAY) return -1;
  array_t *log = r->u.arr;
  for (int i = 0; i < log->size; i++) {
    array_t *e = log->item[i].u.arr;
    const char *what = e->item[0].u.string;
    int id = (int) e->item[1].u.number;
    if (!strcmp (what, "hb")) {
      vx_obs ("  hb O%d", id);
      if (id < 0 || id >= NOBJ) { fail_hist ("C11:unknown-object-called", "heart_beat in unknown object id %d", id); continue; }
      mobj *m = &M[id];
      if (!in_tick) fail_hist ("C11:called-outside-tick", "O%d heart_beat outside a tick", id);
      if (m->destructed) fail_hist ("C11:called-after-destruct", "O%d called in tick %d after it was destructed", id, tickno);
      else if (!m->n) fail_hist ("C11:called-while-disabled", "O%d called in tick %d although its heart beat is off", id, tickno);
      if (m->called_this_tick) fail_hist ("C11:called-twice-in-tick", "O%d called twice in tick %d", id, tickno);
      m->called_this_tick++;
    } else if (!strcmp (what, "op")) {
      const char *op = e->item[2].u.string;
      int tgt = (int) e->item[3].u.number, val = (int) e->item[4].u.number;
      vx_obs ("  op by O%d: %s O%d %d", id, op, tgt, val);
      if (!strcmp (op, "shb")) {
        if (tgt >= 0 && tgt < NOBJ && live (tgt)) {
          if (in_tick && !val && M[tgt].n) vx_count (C_REMOVALS_IN_ROUND, 1);
          if (!(selftest == 1 && tgt == id && !val)) new_epoch (tgt, val, tickno + 1);
        }
      } else if (!strcmp (op, "reload")) {
        /* reload_object(): everything of the object is switched off, then its create() enables interval val */
        if (tgt >= 0 && tgt < NOBJ && live (tgt)) { if (in_tick && M[tgt].n) vx_count (C_REMOVALS_IN_ROUND, 1); new_epoch (tgt, val, tickno + 1); }
      } else if (!strcmp (op, "dest")) {
        if (tgt >= 0 && tgt < NOBJ && live (tgt)) {
          if (in_tick && M[tgt].n) vx_count (C_REMOVALS_IN_ROUND, 1);
          M[tgt].destructed = 1; new_epoch (tgt, 0, tickno + 1);
        }
      } else if (!strcmp (op, "clone-t") || !strcmp (op, "clone-u")) {
        int ok = e->size > 5 ? (int) e->item[5].u.number : 0;
        if (!ok) fail_hist ("C11:harness-clone-failed", "clone inside heart_beat returned 0");
        else model_clone (val, !strcmp (op, "clone-t"), tickno + 1);
      } else if (!strcmp (op, "err")) err_by = id;
    } else if (!strcmp (what, "boom")) {
      vx_obs ("  unrelated object raises an uncaught error%s", in_tick ? " (call_out phase)" : "");
      booms_seen++;
    }
  }
  return err_by;
}

/* what the driver says after every step vs the model */
static void check_status (const char *when) {
  fetch_clone ();
  for (int i = 0; i < NOBJ; i++) {
    if (!M[i].exists || !OB[i]) continue;
    int want = M[i].destructed ? 0 : M[i].n;
    int got = query_heart_beat (OB[i]);
    if (got != want) {
      if (want == 0) fail_hist ("C11:still-enabled", "%s: query_heart_beat(O%d) = %d, expected 0 (off/destructed/errored)", when, i, got);
      else if (got == 0) fail_hist ("C11:switched-off-unexpectedly", "%s: query_heart_beat(O%d) = 0, expected %d", when, i, want);
      else fail_hist ("C11:wrong-interval", "%s: query_heart_beat(O%d) = %d, expected %d", when, i, got, want);
    }
    if (!M[i].destructed) {
      push_number (i);
      svalue_t *r = lg ("qhb", 1);
      if (r && r->type == T_NUMBER && r->u.number != want) fail_hist ("C11:query_heart_beat-efun-differs", "%s: LPC query_heart_beat(O%d) = %ld, expected %d", when, i, (long) r->u.number, want);
    }
  }
  /* heart_beats() efun == model's enabled set */
  svalue_t *r = lg ("hb_ids", 0);
  if (r && r->type == T_ARRAY) {
    int seen[NOBJ] = { 0 };
    for (int k = 0; k < r->u.arr->size; k++) {
      long id = (long) r->u.arr->item[k].u.number;
      if (id < 0 || id >= NOBJ) { fail_hist ("C11:heart_beats-efun-foreign-element", "%s: heart_beats() lists an element that is not a live registered object (%ld)", when, id); continue; }
      if (seen[id]++) fail_hist ("C11:heart_beats-efun-duplicate", "%s: heart_beats() lists O%ld twice", when, id);
      if (!live ((int) id) || !M[id].n) fail_hist ("C11:heart_beats-efun-lists-disabled", "%s: heart_beats() lists O%ld whose heart beat is off", when, id);
    }
    for (int i = 0; i < NOBJ; i++) if (live (i) && M[i].n && !seen[i]) fail_hist ("C11:heart_beats-efun-misses-enabled", "%s: heart_beats() does not list O%d (interval %d)", when, i, M[i].n);
  }
  /* the driver's own list */
  for (int k = 0; k < vw_num_hb_objs (); k++) {
    object_t *o = vw_hb_ob (k);
    if (!o) continue;
    if (o->flags & O_DESTRUCTED) fail_hist ("C11:destructed-object-in-heart-beat-list", "%s: slot %d holds a destructed object (O%d)", when, k, id_of (o));
    if (!(o->flags & O_HEART_BEAT)) fail_hist ("C11:list-entry-without-flag", "%s: slot %d (O%d) has no O_HEART_BEAT", when, k, id_of (o));
  }
}

/* cadence: in every window of n consecutive complete ticks of a run there is exactly one call */
static void cadence_after_complete_tick (void) {
  for (int i = 0; i < NOBJ; i++) {
    mobj *m = &M[i];
    if (!live (i) || !m->n || m->run_start > tickno) continue;
    int ref = m->last_call >= m->run_start ? m->last_call : m->run_start - 1;
    if (m->called_this_tick) {
      if (m->last_call >= m->run_start && tickno - m->last_call != m->n)
        fail_hist ("C11:wrong-spacing", "O%d (interval %d) called in tick %d, previous call in tick %d of the same run of complete ticks", i, m->n, tickno, m->last_call);
      m->last_call = tickno;
    } else if (tickno - ref >= m->n)
      fail_hist ("C11:heart-beat-missed", "O%d (interval %d, enabled since before tick %d) not called in complete tick %d (last call in run: %d)", i, m->n, m->run_start, tickno, m->last_call);
  }
}

static void break_runs (void) { for (int i = 0; i < NOBJ; i++) { M[i].run_start = tickno + 1; M[i].last_call = -1; } }

static void do_tick (int with_choices) {
  error_context_t econ;
  volatile int err = 0;
  tickno++;
  hx_clock += 2;
  vx_count (C_TICKS, 1);
  vx_obs ("tick %d", tickno);
  for (int i = 0; i < NOBJ; i++) M[i].called_this_tick = 0;
  int max0 = vw_max_heart_beats ();
  svalue_t *errs0 = safe_apply_master_ob ("query_errors", 0);
  int nerr0 = (errs0 && errs0 != (svalue_t *) -1 && errs0->type == T_ARRAY) ? errs0->u.arr->size : 0;
  choices_on = with_choices;
  round_insn = 0; trunc_at = 0; truncated = 0; round_calls = 0;
  heart_beat_flag = 1;          /* the timer has fired: this is why backend() calls call_heart_beat() */
  save_context (&econ);
  if (setjmp (econ.context)) {
    restore_context (&econ);    /* as backend(): the rest of the round is abandoned */
    err = 1;
  } else {
    eval_cost = CONFIG_INT (__MAX_EVAL_COST__);
    in_round = 1;
    vw_call_heart_beat ();
  }
  in_round = 0;
  pop_context (&econ);
  choices_on = 0;
  if (vw_max_heart_beats () != max0) vx_count (C_GROW_IN_ROUND, 1);
  if (truncated) vx_count (C_TRUNC, 1);

  int booms0 = booms_seen;
  int err_by = process_log (1);
  if (booms_seen != booms0) {
    /* the scheduled call_out fired: its error is caught inside call_out(), it must be reported and change nothing else */
    boom_pending = 0;
    svalue_t *e1 = safe_apply_master_ob ("query_errors", 0);
    int n1 = (e1 && e1 != (svalue_t *) -1 && e1->type == T_ARRAY) ? e1->u.arr->size : 0;
    if (n1 != nerr0 + 1 + (err ? 1 : 0)) fail_hist ("C11:error-not-reported", "call_out error: master error_handler saw %d errors in this tick", n1 - nerr0);
    nerr0++;
  } else if (boom_pending && !err) fail_hist ("C11:harness-lpc", "scheduled faulting call_out did not fire in a tick that reached the call_out phase");
  if (err) {
    vx_count (C_ERRORS, 1);
    vx_obs ("  round abandoned by an error (O%d)", err_by);
    if (err_by < 0) fail_hist ("C11:unexpected-error-in-round", "an error nobody scripted left the round: %s", hx_master_str ("query_last_error"));
    else if (live (err_by) && selftest != 2) new_epoch (err_by, 0, tickno + 1);   /* an error switches off that object's heart beat, only that */
    svalue_t *errs1 = safe_apply_master_ob ("query_errors", 0);
    int nerr1 = (errs1 && errs1 != (svalue_t *) -1 && errs1->type == T_ARRAY) ? errs1->u.arr->size : 0;
    if (nerr1 != nerr0 + 1) fail_hist ("C11:error-not-reported", "heart_beat error: master error_handler saw %d errors", nerr1 - nerr0);
    if (vw_num_hb_to_do () || vw_hb_index ()) vx_count (C_STALE_AFTER_ERROR, 1);
  } else if (err_by >= 0) fail_hist ("C11:error-swallowed", "O%d raised an error in heart_beat but the round carried on", err_by);

  if (!err && !truncated) {
    cadence_after_complete_tick ();
  } else break_runs ();
  remove_destructed_objects ();       /* as the backend loop does before the next poll */
  check_status ("after tick");
}

/* ------------------------------------------------------------------ harness-level ops between ticks */
static long call_ob (int i, const char *fn, int nargs) {
  svalue_t *r = hx_apply (OB[i], fn, nargs);
  if (!r) { fail_hist ("C11:harness-lpc", "O%d->%s failed: %s", i, fn, hx_last_error); return -1; }
  return r->type == T_NUMBER ? (long) r->u.number : 0;
}

static void top_shb (int i, int v) {
  push_number (v);
  long r = call_ob (i, "shb", 1);
  vx_obs ("top: O%d set_heart_beat(%d) -> query %ld", i, v, r);
  new_epoch (i, v, tickno + 1);
}
static void top_destruct (int i) {
  hx_apply (OB[i], "die", 0);
  vx_obs ("top: destruct O%d", i);
  M[i].destructed = 1; new_epoch (i, 0, tickno + 1);
}
static void top_clone (int from_t, int n) {
  push_constant_string (from_t ? "/hb/t" : "/hb/u"); push_number (3); push_number (n);
  svalue_t *r = lg ("make", 3);
  vx_obs ("top: clone %s interval %d", from_t ? "/hb/t" : "/hb/u", n);
  if (!r || r->type != T_OBJECT) { fail_hist ("C11:harness-clone-failed", "top-level clone failed: %s", hx_last_error); return; }
  have_clone = 1;
  model_clone (n, from_t, tickno + 1);
  fetch_clone ();
}

static int canon (char *b, int len, int step) {
  int n = snprintf (b, len, "s%d t%d f%d c%d mx%d idx%d todo%d chb%d bp%d|", step, tickno, heart_beat_flag, have_clone, vw_max_heart_beats (), vw_hb_index (), vw_num_hb_to_do (), id_of (current_heart_beat), boom_pending);
  for (int k = 0; k < vw_num_hb_objs (); k++) n += snprintf (b + n, len - n, "%d:%d:%d,", id_of (vw_hb_ob (k)), vw_hb_interval (k), vw_hb_ticks (k));
  n += snprintf (b + n, len - n, "|");
  for (int i = 0; i < NOBJ; i++) {
    mobj *m = &M[i];
    int rs = tickno + 1 - m->run_start; if (rs > NMAX + 1) rs = NMAX + 1;
    int lc = m->last_call >= m->run_start && m->last_call > 0 ? tickno - m->last_call : -1; if (lc > NMAX + 1) lc = NMAX + 1;
    n += snprintf (b + n, len - n, "%d%d%d:%d:%d;", m->exists, m->destructed, m->n, m->n ? rs : 0, m->n ? lc : 0);
  }
  return n;
}

static void body (void) {
  char cb[600];
  /* initial population: O0..O2 each off / interval 1 / interval 2, enabled in id order */
  int init = (int) vx_opt_long ("init", -1);
  if (init < 0) {
    /* --inits=a,b,c restricts the initial populations (codes 0..26, base 3: O0 + 3*O1 + 9*O2) */
    const char *lst = vx_opt ("inits", 0);
    if (lst) {
      int v[27], n = 0;
      for (const char *q = lst; *q && n < 27; ) { v[n++] = (int) strtol (q, (char **) &q, 10); if (*q == ',') q++; }
      init = v[vx_choose_free (n, "init")];
    } else init = vx_choose_free (27, "init");
  }
  for (int i = 0, c = init; i < 3; i++, c /= 3) if (c % 3) top_shb (i, c % 3);
  (void) process_log (0);
  check_status ("after init");
  if (selftest == 3) { push_number (2); lg ("set_drop", 1); }

  int ticks = 0;
  for (int step = 0; step < depth; step++) {
    vx_state (cb, (size_t) canon (cb, sizeof cb, step));
    /* 0 stop | 1 tick | 2.. shb(X,v) 4x3 | destruct(X) 4 | clone-t(1) clone-u(1) clone-t(2) | unrelated uncaught error | schedule a faulting call_out | reload_object(X) 4 | X: destruct(self) then set_heart_beat(1) 4 */
    int op = vx_choose_free (2 + NOBJ * 3 + NOBJ + 3 + 2 + NOBJ + NOBJ, "step");
    if (op == 0) break;
    if (op == 1) {
      if (ticks >= maxticks) vx_child_exit (0);
      ticks++;
      do_tick (1);
      continue;
    }
    op -= 2;
    if (op < NOBJ * 3) {
      int i = op / 3, v = op % 3;
      if (!live (i)) vx_child_exit (0);
      if (!v && !M[i].n) vx_child_exit (0);              /* switching off what is off: no-op */
      top_shb (i, v);
    } else if (op < NOBJ * 3 + NOBJ) {
      int i = op - NOBJ * 3;
      if (!live (i)) vx_child_exit (0);
      top_destruct (i);
    } else if (op < NOBJ * 3 + NOBJ + 3) {
      int k = op - NOBJ * 3 - NOBJ;
      if (have_clone) vx_child_exit (0);
      top_clone (k != 1, k == 2 ? 2 : 1);
    } else if (op == NOBJ * 3 + NOBJ + 3) {
      /* an uncaught error outside any heart_beat: driver-level apply (same kind of error context as backend()) of a
         function of an unrelated object without heart beat.  Nobody's heart beat may change. */
      svalue_t *errs0 = safe_apply_master_ob ("query_errors", 0);
      int n0 = (errs0 && errs0 != (svalue_t *) -1 && errs0->type == T_ARRAY) ? errs0->u.arr->size : 0;
      svalue_t *r = hx_apply (LOGGER, "boom", 0);
      vx_obs ("top: unrelated uncaught error -> %s", r ? "no error?!" : hx_last_error);
      if (r) fail_hist ("C11:harness-lpc", "boom() did not raise");
      svalue_t *errs1 = safe_apply_master_ob ("query_errors", 0);
      int n1 = (errs1 && errs1 != (svalue_t *) -1 && errs1->type == T_ARRAY) ? errs1->u.arr->size : 0;
      if (n1 != n0 + 1) fail_hist ("C11:error-not-reported", "unrelated error: master error_handler saw %d errors", n1 - n0);
    } else if (op >= NOBJ * 3 + NOBJ + 5 + NOBJ) {
      /* X destructs itself and then calls set_heart_beat(1) on its destructed self (the harness still holds X) */
      int i = op - (NOBJ * 3 + NOBJ + 5 + NOBJ);
      if (!live (i)) vx_child_exit (0);
      push_number (1);
      hx_apply (OB[i], "zombie", 1);
      vx_obs ("top: O%d destructs itself, then set_heart_beat(1)", i);
    } else if (op >= NOBJ * 3 + NOBJ + 5) {
      int i = op - (NOBJ * 3 + NOBJ + 5);
      if (!live (i) || !M[i].n) vx_child_exit (0);        /* without heart beat it equals set_heart_beat(X,1) */
      push_number (-1); push_number (i); push_number (1);
      lg ("reload", 3);
      vx_obs ("top: reload_object(O%d), its create() enables interval 1", i);
    } else {
      if (boom_pending) vx_child_exit (0);
      svalue_t *r = lg ("sched_boom", 0);
      vx_obs ("top: unrelated object schedules a call_out that raises an uncaught error");
      if (r) boom_pending = 1;
    }
    booms_seen = 0;
    if (process_log (0) >= 0) fail_hist ("C11:harness-lpc", "error op outside a tick");
    if (vw_hb_index () < 0) vx_count (C_NEG_INDEX_BETWEEN, 1);
    check_status ("after op");
  }
  /* epilogue: clean ticks, nobody interferes; every enabled object must keep its cadence */
  for (int k = 0; k < EPILOGUE; k++) do_tick (0);
  vx_count (C_HIST, 1);
}

int main (int argc, char **argv) {
  char mud[PATH_MAX];
  snprintf (mud, sizeof mud, "%s/mudlib/base", hx_verif_dir ());
  vx_init_args (argc, argv);
  depth = (int) vx_opt_long ("depth", 3);
  maxticks = (int) vx_opt_long ("ticks", 4);
  selftest = (int) vx_opt_long ("selftest", 0);
  trunc_k = (int) vx_opt_long ("trunc", 1);
  hx_boot (mud, "", 0);
  vx_count_name (C_HIST, "histories_completed");
  vx_count_name (C_TICKS, "ticks_run");
  vx_count_name (C_CALLS, "heart_beat_calls");
  vx_count_name (C_REMOVALS_IN_ROUND, "removals_inside_a_round");
  vx_count_name (C_ERRORS, "rounds_abandoned_by_error");
  vx_count_name (C_TRUNC, "rounds_truncated_by_timer");
  vx_count_name (C_GROW_IN_ROUND, "list_grew_inside_a_round");
  vx_count_name (C_STALE_AFTER_ERROR, "stale_cursor_after_error");
  vx_count_name (C_NEG_INDEX_BETWEEN, "negative_index_between_ticks");
  vx_count_name (C_HBOPS, "scripted_heart_beats");
#ifdef NEOLITH_VERIF
  neolith_verif_insn_hook = hook;
#else
#error "C11 needs the H1 hook (NEOLITH_VERIF)"
#endif
  vw_hb_probe = probe;
  LOGGER = hx_load ("/hb/log", 0);
  if (!LOGGER) { fprintf (stderr, "cannot load /hb/log: %s\n", hx_last_error); return 2; }
  add_ref (LOGGER, "h_c11");
  {
    push_constant_string ("/hb/t"); push_number (0);     /* before /hb/u, which inherits (and would load) it */
    svalue_t *r = hx_apply (LOGGER, "loadbp", 2);
    if (!r || r->type != T_OBJECT) { fprintf (stderr, "cannot load /hb/t: %s\n", hx_last_error); return 2; }
    OB[0] = r->u.ob; add_ref (OB[0], "h_c11");
    if (!hx_load ("/hb/u", 0)) { fprintf (stderr, "cannot load /hb/u: %s\n", hx_last_error); return 2; }
    for (int i = 1; i <= 2; i++) {
      push_constant_string ("/hb/t"); push_number (i); push_number (0);
      r = hx_apply (LOGGER, "make", 3);
      if (!r || r->type != T_OBJECT) { fprintf (stderr, "cannot clone /hb/t: %s\n", hx_last_error); return 2; }
      OB[i] = r->u.ob; add_ref (OB[i], "h_c11");
    }
  }
  for (int i = 0; i < 3; i++) { M[i].exists = 1; M[i].last_call = -1; M[i].run_start = 1; }
  {
    unsigned short ty;
    vi_op = find_global_variable (OB[1]->prog, "op", &ty);
    vi_tgt = find_global_variable (OB[1]->prog, "tgt", &ty);
    vi_val = find_global_variable (OB[1]->prog, "val", &ty);
    object_t *u = hx_find ("hb/u");
    if (vi_op < 0 || vi_tgt < 0 || vi_val < 0 || !u || find_global_variable (u->prog, "op", &ty) != vi_op ||
        find_global_variable (u->prog, "tgt", &ty) != vi_tgt || find_global_variable (u->prog, "val", &ty) != vi_val) {
      fprintf (stderr, "script variables not found where expected (%d %d %d)\n", vi_op, vi_tgt, vi_val); return 2;
    }
  }
  return vx_run (argc, argv, body);
}
