/* C13 — input framing ignores packet boundaries and survives any byte stream.
 *
 * The real backend()/process_io()/get_user_data()/copy_chars()/get_user_command() run on the
 * scripted runtime (env/net.c).  One "run" = one fresh connection (fresh interactive_t) that is
 * fed one byte stream cut into reads in one particular way, with the command phase placed in one
 * particular way, then the lines the user object received are read back.
 *
 * vx --enum enumerates streams (or sweep parameters); inside one element ALL segmentations and
 * command-phase placements of that stream are run and compared with the unsegmented run.
 *
 * Build variants: h_c13 (real MAX_TEXT 2048) and h_c13s (wrap/w_comm_scaled.c with VW_MAX_TEXT=48,
 * struct layout unchanged; the unused part of text[] is a canary).
 */
#include "hx.h"
#include "net.h"
#include "src/comm.h"
#include "src/main.h"
#include "async/async_queue.h"

extern int vw_max_text (void);
#define REAL_TEXT ((int) sizeof (((interactive_t *) 0)->text))

enum { PT_TELNET, PT_ASCII, PT_BINARY, PT_CONSOLE };
static const char *port_name[] = { "telnet", "ascii", "binary", "console" };
enum { M_BATCH, M_ONE, M_DRAIN };       /* commands only at the end / one command turn after each read / all pending commands after each read */
static const char *mode_name[] = { "cmds-at-end", "one-turn-per-read", "drain-after-read" };

#define LOGMAX 20000
#define MAXSEG 8192
typedef struct {
  int port, mode, poison, single;
  const unsigned char *s; int n;
  const int *seg; int nseg;
  int probe;                    /* console: after the stream, an empty line and then "ok" are typed */
  int act, k, via;              /* behaviour axis: on its k-th line the user object 1 errors, 2 destructs itself, 3 exec()s away; lines via 0 process_input, 1 input_to, 2 command */
} plan_t;
typedef struct {
  unsigned char u[LOGMAX]; int ulen, ucount;
  unsigned char g[2048]; int glen, gcount;
  int dropped;                  /* the driver closed the connection by itself */
  int connected;
  int reads, cycles;
  int gone;                     /* behaviour axis: the user object destructed itself */
  long final_live, final_end;   /* text_end - text_start and text_end when the run was harvested */
} result_t;

static int MT;                  /* logical MAX_TEXT of the comm.c under test */
static int selftest;
static plan_t *P; static result_t *R;
static env_cli *C;
static int ph, segi, idle, fed_all, probe_step;
static size_t arrived;
static object_t *user_ob;
static long n_runs, n_reads;
static int eof_by_read;

/* ------------------------------------------------------------------ reporting */
static void describe_plan (char *buf, size_t len) {
  size_t o = 0;
  o += (size_t) snprintf (buf + o, len - o, "port=%s MAX_TEXT=%d %s%s stream[%d]=", port_name[P->port], MT, mode_name[P->mode], P->single ? " single-char" : "", P->n);
  if (P->n <= 40) for (int i = 0; i < P->n && o + 4 < len; i++) o += (size_t) snprintf (buf + o, len - o, "%02x", P->s[i]);
  else {
    for (int i = 0; i < 8; i++) o += (size_t) snprintf (buf + o, len - o, "%02x", P->s[i]);
    o += (size_t) snprintf (buf + o, len - o, "..");
    for (int i = P->n - 10; i < P->n; i++) o += (size_t) snprintf (buf + o, len - o, "%02x", P->s[i]);
  }
  o += (size_t) snprintf (buf + o, len - o, " reads=");
  for (int i = 0; i < P->nseg && i < 12 && o + 8 < len; i++) o += (size_t) snprintf (buf + o, len - o, "%s%d", i ? "+" : "", P->seg[i]);
  if (P->nseg > 12) o += (size_t) snprintf (buf + o, len - o, "+..(%d reads)", P->nseg);
}
static void failp (const char *key, const char *fmt, ...) {
  char msg[420], d[360]; va_list ap;
  va_start (ap, fmt); vsnprintf (msg, sizeof msg, fmt, ap); va_end (ap);
  describe_plan (d, sizeof d);
  vx_fail (key, "%s :: %s", msg, d);
  vx_obs ("!! %s: %s :: %s", key, msg, d);
}
static char *show_log (const unsigned char *b, int len) {
  static char out[4][700]; static int r; char *o = out[r = (r + 1) & 3]; size_t k = 0;
  o[0] = 0;
  for (int i = 0; i + 2 <= len && k < 600;) {
    int l = b[i] | (b[i + 1] << 8); i += 2;
    k += (size_t) snprintf (o + k, 690 - k, "[");
    for (int j = 0; j < l && k < 600; j++) {
      unsigned char c = b[i + j];
      if (l > 48 && j == 20) { k += (size_t) snprintf (o + k, 690 - k, "..(%d bytes).." , l); j = l - 8; continue; }
      if (c >= 0x20 && c < 0x7f && c != '\\') o[k++] = (char) c; else k += (size_t) snprintf (o + k, 690 - k, "\\x%02x", c);
    }
    i += l;
    k += (size_t) snprintf (o + k, 690 - k, "]");
  }
  o[k] = 0;
  return o;
}

/* ------------------------------------------------------------------ the scripted world */
static interactive_t *cur_ip (void) {
  if (!all_users) return 0;
  if (P->port == PT_CONSOLE) return all_users[0];
  for (int i = 1; i < max_users; i++) if (all_users[i] && C && all_users[i]->fd == C->fd) return all_users[i];
  return 0;
}

/* (iii) buffer invariants, checked at every point where the harness gets control */
static void check_inv (const char *when, int mid) {
  interactive_t *ip = cur_ip ();
  if (!ip) return;
  if (selftest == 3 && R->reads == 2) ip->text_end = MT;
  if (ip->text_start < 0 || ip->text_start > ip->text_end || ip->text_end >= MT) {
    failp ("C13:invariant:text_start<=text_end<MAX_TEXT", "%s: text_start=%ld text_end=%ld", when, (long) ip->text_start, (long) ip->text_end);
    /* keep the process usable for the remaining elements of the batch */
    ip->text_start = ip->text_end = 0; ip->text[0] = 0;
  } else if (!mid && P->port != PT_ASCII && P->port != PT_BINARY && ip->text[ip->text_end] != 0)
    failp ("C13:invariant:text-not-terminated", "%s: text[text_end=%ld] = 0x%02x", when, (long) ip->text_end, (unsigned char) ip->text[ip->text_end]);
  int st = ip->state & 0xf;
  if ((st == 6 || st == 7) && (ip->sb_pos < 0 || ip->sb_pos > SB_SIZE))
    failp ("C13:invariant:sb_pos<=SB_SIZE", "%s: sb_pos=%d", when, ip->sb_pos);
  for (int i = MT; i < REAL_TEXT; i++)
    if ((unsigned char) ip->text[i] != (unsigned char) P->poison) {
      failp ("C13:overflow:write-past-MAX_TEXT", "%s: text[%d] (logical MAX_TEXT %d) was overwritten with 0x%02x", when, i, MT, (unsigned char) ip->text[i]);
      break;
    }
}

static long recv_hook (env_cli *c, size_t avail_unused, size_t want) {
  (void) avail_unused;
  R->reads++; n_reads++;
  check_inv ("before read", 1);     /* we are inside get_user_data(): termination is restored after the read */
  if (P->mode == M_BATCH && arrived == c->in_pos && segi < P->nseg) arrived += (size_t) P->seg[segi++];
  size_t avail = arrived - c->in_pos;
  if (avail == 0) return c->peer_closed ? 0 : -EWOULDBLOCK;
  long n = (long) (avail < want ? avail : want);        /* want == 0 -> 0, exactly what recv() does */
  if (selftest == 1 && P->nseg > 1 && segi == 1 && n > 1 && c->in_pos == 0) { c->in_pos++; n--; }   /* broken environment: loses a byte at the first boundary */
  return n;
}

static void harvest (void) {
  interactive_t *ip = cur_ip ();
  object_t *ob;
  if (P->act) {                 /* behaviour axis: the log is kept by /c13/logd */
    ob = find_object_by_name ("/c13/logd");
    if (!ob) { failp ("C13:harness:no-logd", "log object missing"); return; }
  } else {
    if (!ip || !ip->ob || (ip->ob->flags & O_DESTRUCTED)) { R->dropped = 1; return; }
    ob = ip->ob;
  }
  if (ip) { R->final_live = (long) (ip->text_end - ip->text_start); R->final_end = (long) ip->text_end; }
  for (int v = 0; v < 2; v++) {
    svalue_t *sv = &ob->variables[v];
    if (sv->type != T_ARRAY) continue;
    unsigned char *out = v ? R->g : R->u; int cap = v ? (int) sizeof R->g : LOGMAX; int o = 0, cnt = 0;
    for (int i = 0; i < sv->u.arr->size; i++) {
      svalue_t *e = &sv->u.arr->item[i];
      const unsigned char *d = 0; int l = 0;
      if (e->type == T_STRING) { d = (const unsigned char *) e->u.string; l = (int) strlen (e->u.string); }
      else if (e->type == T_BUFFER) { d = e->u.buf->item; l = (int) e->u.buf->size; }
      if (o + 2 + l > cap) break;
      out[o] = (unsigned char) (l & 0xff); out[o + 1] = (unsigned char) (l >> 8);
      if (l) memcpy (out + o + 2, d, (size_t) l);
      o += 2 + l; cnt++;
    }
    if (v) { R->glen = o; R->gcount = cnt; } else { R->ulen = o; R->ucount = cnt; }
  }
}

static void poison_ip (interactive_t *ip) {
  /* new_interactive() leaves text[1..], sb_buf[], sb_pos indeterminate (DXALLOC, no memset): give them a known adversarial content */
  memset (ip->text + 1, P->poison, (size_t) REAL_TEXT - 1);
  memset (ip->sb_buf, P->poison, SB_SIZE);
}

static int emit_read (io_event_t *ev, int max) {
  if (P->port == PT_CONSOLE) return env_ev_console (ev, 0);
  int k = 1;
  if (P->mode == M_BATCH) { k = P->nseg - segi + (arrived > C->in_pos); if (k > max) k = max; if (k > 400) k = 400; if (k < 1) k = 1; }
  for (int i = 0; i < k; i++) env_ev_cli (ev, i, C, EVENT_READ);
  return k;
}

static void console_push (int from_seg, int upto_seg) {
  static char tmp[CONSOLE_MAX_LINE];
  size_t off = 0;
  for (int i = 0; i < from_seg; i++) off += (size_t) P->seg[i];
  for (int i = from_seg; i < upto_seg; i++) {
    int l = P->seg[i];
    if (l > CONSOLE_MAX_LINE - 1) l = CONSOLE_MAX_LINE - 1;
    memcpy (tmp, P->s + off, (size_t) l); tmp[l] = 0;
    check_inv ("before console chunk", 0);
    async_queue_enqueue (g_console_queue, tmp, (size_t) l + 1);      /* exactly what console_worker does with each read() */
    off += (size_t) P->seg[i];
    R->reads++; n_reads++;
  }
}

static int wait_hook (io_event_t *ev, int max, struct timeval *tmo) {
  (void) tmo;
  R->cycles++;
  interactive_t *ip;
  switch (ph) {
  case 0:
    if (P->port == PT_CONSOLE) { ph = 1; goto connected; }
    C = env_connect (P->port);
    ph = 1;
    return env_ev_listen (ev, 0, P->port);
  case 1:
  connected:
    ip = cur_ip ();
    if (!ip) { R->connected = 0; env_shutdown (); ph = 9; return 0; }
    R->connected = 1;
    user_ob = ip->ob;
    poison_ip (ip);
    if (P->port != PT_CONSOLE) env_client_send (C, P->s, (size_t) P->n);
    arrived = 0; segi = 0; idle = 0; fed_all = 0; probe_step = 0;
    ph = 2;
    /* fall through */
  case 2:
    ip = cur_ip ();
    if (!ip && P->act == 2) { harvest (); R->gone = 1; env_shutdown (); ph = 9; return 0; }    /* the user object destructed itself, as scripted */
    if (!ip) { R->dropped = 1; env_shutdown (); ph = 9; return 0; }
    check_inv ("cycle", 0);
    if (R->cycles > 8L * P->n + 4096) {       /* backstop: a correct driver consumes at least one byte or one command per cycle */
      failp ("C13:input-never-consumed", "after %d cycles %zu of %d bytes are still unread", R->cycles, C ? (size_t) P->n - C->in_pos : 0, P->n);
      env_shutdown (); ph = 9; return 0;
    }
    /* the driver itself asked for another console event (post_completion): the real eventfd would be readable at once */
    if (P->port == PT_CONSOLE && env_posted_completions && R->cycles < 200000) { env_posted_completions = 0; return env_ev_console (ev, 0); }
    if (P->mode == M_DRAIN && (ip->iflags & CMD_IN_BUF) && idle < P->n + 8) { idle++; return 0; }
    idle = 0;
    if (P->port == PT_CONSOLE) {
      if (segi >= P->nseg) { ph = 3; goto drain; }
      int upto = P->mode == M_BATCH ? (P->nseg - segi > 200 ? segi + 200 : P->nseg) : segi + 1;
      console_push (segi, upto); segi = upto;
      return env_ev_console (ev, 0);
    }
    if (C->in_pos >= (size_t) P->n) { ph = 3; goto drain; }
    if (P->mode != M_BATCH && arrived == C->in_pos && segi < P->nseg) arrived += (size_t) P->seg[segi++];
    return emit_read (ev, max);
  case 3:
  drain:
    ip = cur_ip ();
    if (!ip && P->act == 2) { harvest (); R->gone = 1; env_shutdown (); ph = 9; return 0; }
    if (!ip) { R->dropped = 1; env_shutdown (); ph = 9; return 0; }
    check_inv ("drain", 0);
    if (P->port == PT_CONSOLE && env_posted_completions && R->cycles < 200000) { env_posted_completions = 0; return env_ev_console (ev, 0); }
    if ((ip->iflags & CMD_IN_BUF) && idle < P->n + 8) { idle++; return 0; }
    if (ip->iflags & CMD_IN_BUF) failp ("C13:command-flag-stuck", "CMD_IN_BUF still set after %d idle cycles", idle);
    if (P->port == PT_CONSOLE && P->probe && probe_step < 2) {
      /* the stream has been handled and every complete command executed: now the operator presses Enter, then types a short line */
      static const char *probe_chunk[2] = { "\n", "ok\n" };
      async_queue_enqueue (g_console_queue, probe_chunk[probe_step], strlen (probe_chunk[probe_step]) + 1);
      probe_step++; idle = 0;
      return env_ev_console (ev, 0);
    }
    harvest ();
    if (P->port == PT_CONSOLE) { env_shutdown (); ph = 9; return 0; }
    env_client_close (C);
    arrived = C->in_pos = C->in_len;
    ph = 4;
    /* the connection ends: either the runtime reports a hang-up, or (--family=eof) a read returns 0 */
    return env_ev_cli (ev, 0, C, eof_by_read ? EVENT_READ : EVENT_CLOSE);
  case 4:
    if (cur_ip ()) failp ("C13:harness:not-closed", "connection still there after EOF");
    env_shutdown (); ph = 9;
    return 0;
  default:
    env_shutdown ();
    return 0;
  }
}

static void set_pol_n (const char *k, long v) { push_constant_string (k); push_number (v); safe_apply_master_ob ("set_policy", 2); }
static void set_behaviour (plan_t *p) {
  static int cur_act = -1, cur_k = -1, cur_via = -1;
  if ((p->act != 0) != (cur_act > 0) || cur_act < 0) {
    push_constant_string ("user_file"); push_constant_string (p->act ? "/c13/buser.c" : "/c13/user.c");
    safe_apply_master_ob ("set_policy", 2);
  }
  if (p->act != cur_act) { set_pol_n ("c13_act", p->act); cur_act = p->act; }
  if (p->k != cur_k) { set_pol_n ("c13_k", p->k); cur_k = p->k; }
  if (p->via != cur_via) { set_pol_n ("c13_via", p->via); cur_via = p->via; }
  if (p->act) {
    object_t *ld = find_object_by_name ("/c13/logd");
    if (ld) hx_apply (ld, "reset_log", 0);
  }
}
static void do_remove (void *a) { remove_interactive ((object_t *) a, 0); }

static void run (plan_t *p, result_t *r) {
  P = p; R = r;
  r->ulen = r->ucount = r->glen = r->gcount = r->dropped = r->connected = r->reads = r->cycles = r->gone = 0;
  ph = 0; C = 0;
  g_proceeding_shutdown = 0;
  MAIN_OPTION (console_mode) = p->port == PT_CONSOLE;
  env_console_capture = 1; env_console_out_len = 0; env_posted_completions = 0;
  env_wait_hook = wait_hook; env_recv_hook = recv_hook;
  n_runs++;
  set_behaviour (p);
  backend ();
  /* leave the world as we found it */
  if (p->port == PT_CONSOLE && all_users && all_users[0]) hx_guard (do_remove, all_users[0]->ob);
  if (p->port == PT_CONSOLE && g_console_queue) { async_queue_destroy (g_console_queue); g_console_queue = 0; }
  for (int i = 0; i < 5; i++) if (external_port[i].port && external_port[i].fd >= 0) { close (external_port[i].fd); external_port[i].fd = -1; env_listen_fd[i] = -1; }
  for (int i = 0; i < ENV_MAXCLI; i++) env_clients[i].used = 0;
  g_proceeding_shutdown = 0;
  vx_count (0, 1); vx_count (1, r->reads); vx_count (2, r->ucount);
}

static int same_u (result_t *a, result_t *b) { return a->ulen == b->ulen && !memcmp (a->u, b->u, (size_t) a->ulen); }
static int same_g (result_t *a, result_t *b) { return a->glen == b->glen && !memcmp (a->g, b->g, (size_t) a->glen); }

/* ------------------------------------------------------------------ family: all short streams x all segmentations */
enum { S_a, S_b, S_CR, S_LF, S_NUL, S_BS, S_DEL, S_IAC, S_WILL, S_DO, S_SB, S_SE, S_OPT, S_E4, NSYM };
static const unsigned char opt3[3] = { 31 /* NAWS */, 24 /* TTYPE */, 34 /* LINEMODE */ };
static unsigned char sym_byte (int s, int pos) {
  switch (s) {
  case S_a: return 'a'; case S_b: return 'b'; case S_CR: return '\r'; case S_LF: return '\n'; case S_NUL: return 0;
  case S_BS: return '\b'; case S_DEL: return 0x7f; case S_IAC: return 255; case S_WILL: return 251; case S_DO: return 253;
  case S_SB: return 250; case S_SE: return 240; case S_OPT: return opt3[pos % 3]; default: return 0xe4;
  }
}
static int Lmax = 4, nalpha = NSYM, port = PT_TELNET, single;
static const int alpha4[4] = { S_a, S_b, S_CR, S_LF };
static const int alpha8[8] = { S_a, S_CR, S_LF, S_BS, S_IAC, S_SB, S_SE, S_OPT };
static const int alpha10[10] = { S_a, S_CR, S_LF, S_NUL, S_BS, S_IAC, S_DO, S_SB, S_SE, S_OPT };

static long short_total (void) { long t = 0, p = 1; for (int l = 1; l <= Lmax; l++) { p *= nalpha; t += p; } return t; }
static int short_decode (long idx, unsigned char *out) {
  long p = 1; int l;
  for (l = 1; l <= Lmax; l++) { p *= nalpha; if (idx < p) break; idx -= p; }
  for (int i = l - 1; i >= 0; i--) {
    int d = (int) (idx % nalpha); idx /= nalpha;
    int s = nalpha == 4 ? alpha4[d] : nalpha == 8 ? alpha8[d] : nalpha == 10 ? alpha10[d] : d;
    out[i] = sym_byte (s, i);
  }
  return l;
}

/* RFC 854 token boundaries: which bytes are telnet command/negotiation bytes and which are data */
static void tokenize (const unsigned char *s, int n, unsigned char *is_data, unsigned char *D, int *nd) {
  int st = 0, k = 0;            /* 0 data, 1 after IAC, 2 option byte expected, 3 in SB, 4 in SB after IAC */
  for (int i = 0; i < n; i++) {
    is_data[i] = 0;
    switch (st) {
    case 0: if (s[i] == 255) st = 1; else { is_data[i] = 1; D[k++] = s[i]; } break;
    case 1:
      if (s[i] == 255) { is_data[i] = 2; if (selftest != 2) D[k++] = 255; st = 0; }   /* selftest 2: broken model forgets that IAC IAC is data */
      else if (s[i] >= 251 && s[i] <= 254) st = 2;
      else if (s[i] == 250) st = 3;
      else st = 0;
      break;
    case 2: st = 0; break;
    case 3: if (s[i] == 255) st = 4; break;
    case 4: st = (s[i] == 240) ? 0 : 3; break;
    }
  }
  *nd = k;
}

static int is_subseq (const unsigned char *f, int nf, const unsigned char *d, int nd) {
  int j = 0;
  for (int i = 0; i < nf; i++) { while (j < nd && d[j] != f[i]) j++; if (j == nd) return 0; j++; }
  return 1;
}
static int flat (result_t *r, unsigned char *out) {
  int k = 0;
  for (int i = 0; i + 2 <= r->ulen;) { int l = r->u[i] | (r->u[i + 1] << 8); memcpy (out + k, r->u + i + 2, (size_t) l); k += l; i += 2 + l; }
  return k;
}

static result_t ref, ref2, got, red;

static void metamorphic (const unsigned char *s, int n, int cut_from, int cut_len, const char *key, const char *what) {
  unsigned char t[16]; int one[1];
  memcpy (t, s, (size_t) cut_from); memcpy (t + cut_from, s + cut_from + cut_len, (size_t) (n - cut_from - cut_len));
  int tn = n - cut_len;
  red.ulen = 0; red.ucount = 0;
  if (tn > 0) { one[0] = tn; plan_t q = { port, M_DRAIN, 0xA5, 0, t, tn, one, 1 }; run (&q, &red); }
  one[0] = n; plan_t back = { port, M_DRAIN, 0xA5, 0, s, n, one, 1 }; P = &back;      /* for the report */
  /* the clause is about the content of lines: whether an empty line is delivered at all (it is after CR LF, it is
   * not after a bare NUL) is a matter of line termination, which only the differential oracle looks at */
  unsigned char A[128], B[128]; int na = 0, nb = 0;
  for (int i = 0; i + 2 <= ref.ulen;) { int l = ref.u[i] | (ref.u[i + 1] << 8); if (l) { memcpy (A + na, ref.u + i, (size_t) l + 2); na += l + 2; } i += 2 + l; }
  for (int i = 0; i + 2 <= red.ulen;) { int l = red.u[i] | (red.u[i + 1] << 8); if (l) { memcpy (B + nb, red.u + i, (size_t) l + 2); nb += l + 2; } i += 2 + l; }
  if (na != nb || memcmp (A, B, (size_t) na))
    failp (key, "%s: delivered %s, without the edited pair %s", what, show_log (ref.u, ref.ulen), show_log (red.u, red.ulen));
}

static void elem_short (long idx) {
  safe_apply_master_ob ("clear_mlog", 0);       /* the verification master logs every connect(): keep that array small */
  unsigned char s[16]; int n = short_decode (idx, s);
  int seg[16], one[1] = { n };
  plan_t p = { port, M_DRAIN, 0xA5, single, s, n, one, 1 };
  run (&p, &ref);
  if (!ref.connected) { failp ("C13:harness:no-connection", "connection was not established"); return; }
  if (ref.ucount || ref.gcount) vx_count (3, 1);
  if (vx_enum_index () % 997 == 0 || vx_replaying ()) { char d[360]; describe_plan (d, sizeof d); vx_obs ("ref %s -> cmds %s neg %s", d, show_log (ref.u, ref.ulen), show_log (ref.g, ref.glen)); }
  if (ref.dropped) failp ("C13:connection-dropped", "driver closed the connection while processing the stream");
  /* indeterminate memory must not be observable */
  p.poison = 0x5A;
  run (&p, &ref2);
  if (!single && port != PT_CONSOLE && (!same_u (&ref, &ref2) || !same_g (&ref, &ref2)))
    failp ("C13:uninitialised-memory-observable", "what the user object receives depends on the initial content of the (never initialised) buffers: with 0xA5 %s %s, with 0x5A %s %s",
           show_log (ref.u, ref.ulen), show_log (ref.g, ref.glen), show_log (ref2.u, ref2.ulen), show_log (ref2.g, ref2.glen));
  p.poison = 0xA5;
  /* (i) all segmentations x command-phase placements against the unsegmented run */
  for (unsigned mask = 0; mask < (1u << (n - 1)); mask++) {
    int ns = 0, len = 1;
    for (int i = 0; i < n - 1; i++) { if (mask & (1u << i)) { seg[ns++] = len; len = 1; } else len++; }
    seg[ns++] = len;
    for (int mode = 0; mode < 3; mode++) {
      if (mask == 0 && mode == M_DRAIN) continue;       /* that is the reference */
      if (mask == 0 && mode == M_ONE) continue;         /* one read: identical to batch */
      static plan_t q; q = (plan_t) { port, mode, 0xA5, single, s, n, seg, ns };
      run (&q, &got);
      vx_count (4, 1);
      if (single || port == PT_CONSOLE) continue;       /* single-char mode, console: memory safety and buffer invariants only */
      if (got.dropped && !ref.dropped) failp ("C13:connection-dropped", "driver closed the connection while processing the stream");
      int same = same_u (&ref, &got);
      if (port == PT_BINARY) {      /* one buffer per read is the documented interface: the byte sequence is what must not change */
        unsigned char fa[64], fb[64]; int la = flat (&ref, fa), lb = flat (&got, fb);
        same = la == lb && !memcmp (fa, fb, (size_t) la);
      }
      if (!same) {
        char key[80]; snprintf (key, sizeof key, "C13:%s:commands-depend-on-read-boundaries", port_name[port]);
        failp (key, "unsegmented delivery %s, this delivery %s", show_log (ref.u, ref.ulen), show_log (got.u, got.ulen));
      }
      if (!same_g (&ref, &got)) {
        char key[80]; snprintf (key, sizeof key, "C13:%s:negotiation-callbacks-depend-on-read-boundaries", port_name[port]);
        failp (key, "unsegmented %s, this delivery %s", show_log (ref.g, ref.glen), show_log (got.g, got.glen));
      }
    }
  }
  if (single || port == PT_CONSOLE) return;
  P = &p;
  /* (ii) explicit clauses */
  unsigned char isd[16], D[16], F[64]; int nd, nf = flat (&ref, F);
  if (port == PT_TELNET) {
    tokenize (s, n, isd, D, &nd);
    if (!is_subseq (F, nf, D, nd))
      failp ("C13:telnet:negotiation-bytes-in-command-text", "delivered text %s is not made of the data bytes of the stream", show_log (ref.u, ref.ulen));
  } else { for (int i = 0; i < n; i++) { isd[i] = 1; D[i] = s[i]; } nd = n; }
  if (port == PT_BINARY) {
    if (nf != n || memcmp (F, s, (size_t) n)) failp ("C13:binary:bytes-altered", "buffers %s do not concatenate to the stream", show_log (ref.u, ref.ulen));
  }
  if (port == PT_ASCII) {
    int last = -1; for (int i = 0; i < n; i++) if (s[i] == '\n') last = i;
    unsigned char E[64]; int ne = 0, st = 0;
    for (int i = 0; i <= last; i++) if (s[i] == '\n') { int l = i - st; E[ne++] = (unsigned char) l; E[ne++] = 0; memcpy (E + ne, s + st, (size_t) l); ne += l; st = i + 1; }
    /* a line-mode line is cut at the first NUL by the string type; compare up to that */
    unsigned char E2[64]; int ne2 = 0;
    for (int i = 0; i < ne;) { int l = E[i]; int l2 = 0; while (l2 < l && E[i + 2 + l2]) l2++; E2[ne2++] = (unsigned char) l2; E2[ne2++] = 0; memcpy (E2 + ne2, E + i + 2, (size_t) l2); ne2 += l2; i += 2 + l; }
    if (ref.ulen != ne2 || memcmp (ref.u, E2, (size_t) ne2)) failp ("C13:ascii:lines-not-the-LF-separated-lines", "delivered %s, LF-separated lines are %s", show_log (ref.u, ref.ulen), show_log (E2, ne2));
  }
  if (port == PT_TELNET) {
    /* IAC IAC is one data byte 0xFF: the stream with the pair replaced by an ordinary byte must give the same lines with 'b' for 0xFF */
    for (int i = 0; i + 1 < n; i++) {
      if (s[i] != 255 || s[i + 1] != 255 || isd[i + 1] != 2 || (i >= 1 && s[i - 1] == '\r')) continue;
      unsigned char t[16]; int one[1];
      memcpy (t, s, (size_t) i); t[i] = 'b'; memcpy (t + i + 1, s + i + 2, (size_t) (n - i - 2));
      int tn = n - 1; one[0] = tn;
      static plan_t q; q = (plan_t) { port, M_DRAIN, 0xA5, 0, t, tn, one, 1 };
      /* only meaningful when this is the only 0xFF the stream can deliver and 'b' does not occur otherwise */
      int other = 0; for (int j = 0; j < n; j++) if (j != i && j != i + 1 && (s[j] == 255 || s[j] == 'b')) other = 1;
      if (other) continue;
      run (&q, &red);
      for (int j = 0; j + 2 <= red.ulen;) { int l = red.u[j] | (red.u[j + 1] << 8); for (int k = 0; k < l; k++) if (red.u[j + 2 + k] == 'b') red.u[j + 2 + k] = 255; j += 2 + l; }
      P = &p;
      if (!same_u (&ref, &red))
        failp ("C13:telnet:IAC-IAC-is-not-one-0xFF-data-byte", "delivered %s, with an ordinary byte in place of IAC IAC (shown as ff) %s", show_log (ref.u, ref.ulen), show_log (red.u, red.ulen));
    }
  }
  if (port == PT_TELNET || port == PT_CONSOLE) {
    for (int i = 0; i < n; i++) {
      if (!(s[i] == '\b' || s[i] == 0x7f) || isd[i] != 1) continue;
      int line_start = i == 0 || (port == PT_TELNET ? (i >= 2 && s[i - 2] == '\r' && s[i - 1] == '\n' && isd[i - 2] == 1 && isd[i - 1] == 1)
                                                      : (s[i - 1] == '\r' || s[i - 1] == '\n'));
      if (line_start) metamorphic (s, n, i, 1, "C13:edit:backspace-at-line-start-not-ignored", "BS/DEL at the start of a line must have no effect");
      else if (i >= 1 && isd[i - 1] == 1 && (s[i - 1] == 'a' || s[i - 1] == 'b' || s[i - 1] == 0xe4) && !(i >= 2 && s[i - 2] == '\r'))
        metamorphic (s, n, i - 1, 2, "C13:edit:backspace-does-not-erase-previous-char", "x BS must equal the stream without both");
    }
  }
}

/* ------------------------------------------------------------------ family: mudlib behaviour on line k x all segmentations */
static const int via_of_port[4][3] = { { 0, 1, 2 }, { 0, -1, -1 }, { 0, -1, -1 }, { 0, 1, 2 } };
static int KMAX = 3;
static long behave_total (void) { return short_total () * 3 * KMAX * 3; }
static void elem_behave (long idx) {
  int via_i = (int) (idx % 3); idx /= 3;
  int k = (int) (idx % KMAX); idx /= KMAX;
  int act = 1 + (int) (idx % 3); idx /= 3;
  int via = via_of_port[port][via_i];
  if (via < 0) return;
  if (act == 3 && via == 1) return;                    /* a pending input_to() stays bound to the old object: not a meaningful combination */
  if (port == PT_BINARY && act == 2) return;           /* one buffer per read: which bytes arrive before the k-th buffer depends on the reads by definition */
  unsigned char s[16]; int n = short_decode (idx, s);
  int seg[16], one[1] = { n };
  safe_apply_master_ob ("clear_mlog", 0); safe_apply_master_ob ("clear_errors", 0);
  static plan_t p; p = (plan_t) { port, M_DRAIN, 0xA5, 0, s, n, one, 1, 0, act, k, via };
  run (&p, &ref);
  if (!ref.connected) { failp ("C13:harness:no-connection", "connection was not established"); return; }
  if (ref.ucount <= k) return;                          /* the stream has no line k: the scripted behaviour never happens */
  vx_count (3, 1);
  if (vx_replaying ()) { char d[360]; describe_plan (d, sizeof d); vx_obs ("ref %s act=%d k=%d via=%d -> %s", d, act, k, via, show_log (ref.u, ref.ulen)); }
  static const char *act_name[] = { "", "error", "destruct", "exec" }, *via_name[] = { "process_input", "input_to", "command" };
  /* explicit: on the line-mode port every complete line is delivered exactly once, in order (up to line k if the object destructs itself) */
  if (port == PT_ASCII) {
    unsigned char E[96]; int ne = 0, st = 0, cnt = 0;
    for (int i = 0; i < n; i++) if (s[i] == '\n') { int l = i - st; if (act == 2 && cnt > k) break; E[ne++] = (unsigned char) l; E[ne++] = 0; memcpy (E + ne, s + st, (size_t) l); ne += l; st = i + 1; cnt++; }
    if (ref.ulen != ne || memcmp (ref.u, E, (size_t) ne)) {
      P = &p;
      failp ("C13:ascii:lines-wrong-when-process_input-misbehaves", "process_input() does '%s' on line %d: delivered %s, the lines sent are %s", act_name[act], k, show_log (ref.u, ref.ulen), show_log (E, ne));
    }
  }
  for (unsigned mask = 1; mask < (1u << (n - 1)); mask++) {
    int ns = 0, len = 1;
    for (int i = 0; i < n - 1; i++) { if (mask & (1u << i)) { seg[ns++] = len; len = 1; } else len++; }
    seg[ns++] = len;
    for (int mode = 0; mode < 3; mode++) {
      static plan_t q; q = (plan_t) { port, mode, 0xA5, 0, s, n, seg, ns, 0, act, k, via };
      run (&q, &got);
      vx_count (4, 1);
      if (port == PT_CONSOLE) continue;                 /* console: memory safety and buffer invariants only */
      if (got.dropped && !ref.dropped) failp ("C13:connection-dropped", "driver closed the connection while processing the stream");
      int same = same_u (&ref, &got);
      if (port == PT_BINARY) { unsigned char fa[64], fb[64]; int la = flat (&ref, fa), lb = flat (&got, fb); same = la == lb && !memcmp (fa, fb, (size_t) la); }
      if (!same) {
        char key[100]; snprintf (key, sizeof key, "C13:%s:lines-depend-on-read-boundaries-when-%s-%ss", port_name[port], via_name[via], act_name[act]);
        failp (key, "on line %d the %s does '%s': unsegmented delivery %s, this delivery %s", k, via_name[via], act_name[act], show_log (ref.u, ref.ulen), show_log (got.u, got.ulen));
      }
    }
  }
}

/* failures of the sweeps: a failure that shows only when several reads are handled before any command turn (possible
 * with a completion-based runtime or the console queue, not with one epoll event per descriptor) gets its own key */
static char seen_keys[8][100]; static int n_seen;
static void failm (const char *key, const char *fmt, ...) {
  char msg[420], k2[160]; va_list ap;
  va_start (ap, fmt); vsnprintf (msg, sizeof msg, fmt, ap); va_end (ap);
  if (P->mode != M_BATCH) {
    int f = 0; for (int i = 0; i < n_seen; i++) if (!strcmp (seen_keys[i], key)) f = 1;
    if (!f && n_seen < 8) snprintf (seen_keys[n_seen++], 100, "%s", key);
    failp (key, "%s", msg);
    return;
  }
  for (int i = 0; i < n_seen; i++) if (!strcmp (seen_keys[i], key)) return;      /* already reported for this element in a one-read-per-poll mode */
  snprintf (k2, sizeof k2, "%s:only-with-several-reads-per-poll", key);
  failp (k2, "%s", msg);
}
static const int mode_order[3] = { M_ONE, M_DRAIN, M_BATCH };

/* ------------------------------------------------------------------ sweeps (long lines, bursts of short lines, sub-negotiations) */
static unsigned char big[3 * 2048 + 4200];
static int segbuf[MAXSEG];
static int chunk_sizes[16], n_chunks;
static int *nvals, n_nvals;
static int sweep_kind;          /* 0 long line, 1 burst of short lines, 2 sub-negotiation */

static void init_chunks (void) {
  int c[] = { 1, 2, 3, 7, MT / 3 - 1, MT / 3, MT / 3 + 1, MT - 1, MT, MT + 1, 1 << 20 };
  n_chunks = 0;
  for (unsigned i = 0; i < sizeof c / sizeof c[0]; i++) {
    int dup = 0; for (int j = 0; j < n_chunks; j++) if (chunk_sizes[j] == c[i]) dup = 1;
    if (!dup && c[i] > 0) chunk_sizes[n_chunks++] = c[i];
  }
}
static int make_seg (int n, int chunk) {
  int ns = 0, left = n;
  while (left > 0 && ns < MAXSEG - 1) { int l = left < chunk ? left : chunk; segbuf[ns++] = l; left -= l; }
  if (left > 0) segbuf[ns - 1] += left;
  return ns ? ns : (segbuf[0] = 0, 1);
}
static const char *term (void) { return port == PT_TELNET ? "\r\n" : "\n"; }

/* the logged lines of a run as an array of (ptr,len) */
static int lines_of (result_t *r, const unsigned char **ptr, int *len, int max) {
  int k = 0;
  for (int i = 0; i + 2 <= r->ulen && k < max;) { int l = r->u[i] | (r->u[i + 1] << 8); ptr[k] = r->u + i + 2; len[k] = l; k++; i += 2 + l; }
  return k;
}

/* The statement's first sentence (lines depend only on the bytes) is about the telnet and ASCII ports.  For the console only the
 * second one applies: no memory errors (sanitizer, canary), bounded buffering (buffer invariants, checked at every step), over-long
 * lines are cut or discarded -- i.e. they do not stay in the way: once everything has been handled, an empty line and then a
 * short line typed by the operator must get through -- and the console user survives. */
static void console_verdict (int k, const unsigned char **lp, int *ll, const char *what, int n) {
  if (got.dropped) { failp ("C13:console:user-removed-by-input", "%s %d: the console user was removed", what, n); return; }
  if (k == 0 || ll[k - 1] != 2 || memcmp (lp[k - 1], "ok", 2))
    failp (got.final_live < MT / 2 ? "C13:console:input-stuck:buffer-never-compacted" : "C13:console:input-stuck:over-long-line-never-discarded",
           "%s %d: afterwards the operator types an empty line and then \"ok\": \"ok\" is not delivered (last delivered: %s); the buffer holds %ld unprocessed bytes, text_end=%ld of %d",
           what, n, k ? show_log (lp[k - 1] - 2, ll[k - 1] + 2) : "nothing", got.final_live, got.final_end, MT);
}

static void elem_long (long idx) {
  n_seen = 0;
  safe_apply_master_ob ("clear_mlog", 0);
  int n = nvals[idx / n_chunks], chunk = chunk_sizes[idx % n_chunks];
  int tl = (int) strlen (term ());
  for (int i = 0; i < n; i++) big[i] = (unsigned char) ('a' + i % 23);
  int tot = n;
  memcpy (big + tot, term (), (size_t) tl); tot += tl;
  memcpy (big + tot, "ok", 2); tot += 2;
  memcpy (big + tot, term (), (size_t) tl); tot += tl;
  int ns = make_seg (tot, chunk);
  for (int mi = 0; mi < 3; mi++) {
    int mode = mode_order[mi];
    if (chunk >= tot && mode == M_DRAIN) continue;
    if (port == PT_CONSOLE && chunk > CONSOLE_MAX_LINE - 1) { ns = make_seg (tot, CONSOLE_MAX_LINE - 1); }
    static plan_t q; q = (plan_t) { port, mode, 0xA5, 0, big, tot, segbuf, ns, port == PT_CONSOLE };
    run (&q, &got);
    vx_count (4, 1);
    if (got.ucount) vx_count (3, 1);
    if (vx_replaying ()) vx_obs ("n=%d chunk=%d %s -> %s", n, chunk, mode_name[mode], show_log (got.u, got.ulen));
    const unsigned char *lp[64]; int ll[64]; int k = lines_of (&got, lp, ll, 64);
    if (port == PT_CONSOLE) { console_verdict (k, lp, ll, "long line", n); continue; }
    if (got.dropped) { failm ("C13:connection-dropped-by-long-line", "line of %d bytes: the driver closed the connection instead of cutting or discarding the line", n); continue; }
    /* (iv) every delivered line but the last is a cut of the long line; the last is the short line, intact */
    if (k == 0 || ll[k - 1] != 2 || memcmp (lp[k - 1], "ok", 2)) {
      char key[128]; snprintf (key, sizeof key, "C13:%s:short-line-after-long-line-not-delivered-intact", port_name[port]);
      failm (key, "line of %d bytes then \"ok\": delivered %s", n, show_log (got.u, got.ulen));
    }
    int sum = 0;
    for (int j = 0; j < k - 1; j++) {
      sum += ll[j];
      int okcut = ll[j] == 0 || memmem (big, (size_t) n, lp[j], (size_t) ll[j]) != 0;   /* a contiguous cut of the line */
      if (ll[j] > n || !okcut) {
        char key[96]; snprintf (key, sizeof key, "C13:%s:long-line-delivered-altered", port_name[port]);
        failm (key, "line of %d bytes: delivered piece of %d bytes is not a cut of it: %s", n, ll[j], show_log (got.u, got.ulen));
      }
    }
    if (sum > n) failm ("C13:long-line-duplicated", "line of %d bytes: %d bytes delivered", n, sum);
    if (n > 0 && n <= MT / 2 && !(k == 2 && ll[0] == n)) {
      char key[96]; snprintf (key, sizeof key, "C13:%s:line-shorter-than-half-buffer-not-intact", port_name[port]);
      failm (key, "line of %d bytes (MAX_TEXT %d) delivered as %s", n, MT, show_log (got.u, got.ulen));
    }
    if (k >= 2 && ll[0] == n) vx_count (5, 1);         /* delivered whole */
  }
}

/* burst: k short lines of m characters; every one of them is short, so all must arrive, in order */
static int burst_m[8], n_burst_m, kstep = 1;
static void elem_lines (long idx) {
  n_seen = 0;
  safe_apply_master_ob ("clear_mlog", 0);
  int chunk = chunk_sizes[idx % n_chunks]; long r = idx / n_chunks;
  int m = burst_m[r % n_burst_m]; int k = (int) (r / n_burst_m) + 1;
  int tl = (int) strlen (term ()), tot = 0;
  k = 1 + (k - 1) * kstep;
  if ((long) k * (m + tl) > 3L * MT + 64) return;      /* beyond the sweep range for this line length */
  if (m == 0 && port == PT_CONSOLE) return;             /* the console drops empty lines by design (no ' \b' marker as on the telnet port) */
  for (int j = 0; j < k; j++) {
    for (int i = 0; i < m; i++) big[tot++] = (unsigned char) ('a' + (j + i) % 23);
    if (m >= 2) { big[tot - m] = (unsigned char) ('A' + j % 26); }
    memcpy (big + tot, term (), (size_t) tl); tot += tl;
  }
  int ns = make_seg (tot, chunk);
  if (port == PT_CONSOLE && chunk > CONSOLE_MAX_LINE - 1) ns = make_seg (tot, CONSOLE_MAX_LINE - 1);
  for (int mi = 0; mi < 3; mi++) {
    int mode = mode_order[mi];
    if (chunk >= tot && mode == M_DRAIN) continue;
    static plan_t q; q = (plan_t) { port, mode, 0xA5, 0, big, tot, segbuf, ns, port == PT_CONSOLE };
    run (&q, &got);
    vx_count (4, 1);
    if (got.ucount) vx_count (3, 1);
    if (vx_replaying ()) vx_obs ("k=%d m=%d chunk=%d %s -> %d lines", k, m, chunk, mode_name[mode], got.ucount);
    if (port == PT_CONSOLE) { const unsigned char *lp[4096]; static int ll[4096]; int kk = lines_of (&got, lp, ll, 4096); console_verdict (kk, lp, ll, "burst of short lines, bytes", tot); continue; }
    if (got.dropped) { failm ("C13:connection-dropped-by-burst", "%d lines of %d characters: the driver closed the connection", k, m); continue; }
    /* expected log */
    int o = 0, bad = -1, gi = 0, pos = 0;
    for (int j = 0; j < k && bad < 0; j++) {
      if (gi + 2 > got.ulen) { bad = j; break; }
      int l = got.u[gi] | (got.u[gi + 1] << 8);
      if (l != m || memcmp (got.u + gi + 2, big + pos, (size_t) m)) bad = j;
      gi += 2 + l; pos += m + tl;
    }
    (void) o;
    if (bad >= 0 || got.ucount != k) {
      char key[128]; snprintf (key, sizeof key, "C13:%s:short-lines-lost-in-burst", port_name[port]);
      failm (key, "%d lines of %d characters (%d bytes, MAX_TEXT %d) in reads of %d: %d lines delivered, first wrong/missing is #%d: %s", k, m, tot, MT, chunk, got.ucount, bad, show_log (got.u, got.ulen > 200 ? 200 : got.ulen));
    }
  }
}

/* sub-negotiations: IAC SB opt first payload.. [IAC SE] "ok" CR LF */
static const unsigned char sb_opts[] = { 24, 31, 34, 99, 1 };
static const unsigned char sb_first[] = { 0, 1, 3 };
static int sb_maxpay;
static void elem_sb (long idx) {
  safe_apply_master_ob ("clear_mlog", 0);       /* the verification master logs every connect(): keep that array small */
  int chunk_i = (int) (idx % 4); idx /= 4;
  int terminated = (int) (idx % 2); idx /= 2;
  int quoted = (int) (idx % 2); idx /= 2;
  int first = sb_first[idx % 3]; idx /= 3;
  int opt = sb_opts[idx % 5]; idx /= 5;
  int pay = (int) idx;          /* payload bytes after the option byte */
  static const int sbchunks[4] = { 1 << 20, 1, 2, 7 };
  int tot = 0;
  big[tot++] = 255; big[tot++] = 250; big[tot++] = (unsigned char) opt;
  for (int i = 0; i < pay; i++) {
    if (i == 0) big[tot++] = (unsigned char) first;
    else if (quoted) { big[tot++] = 255; big[tot++] = 255; }
    else big[tot++] = (unsigned char) (opt == 34 && first == 3 ? (i % 3 == 2 ? 2 : 1 + i % 7) : 'p' + i % 5);
  }
  if (terminated) { big[tot++] = 255; big[tot++] = 240; }
  memcpy (big + tot, "ok\r\n", 4); tot += 4;
  int ns = make_seg (tot, sbchunks[chunk_i]);
  result_t *res[2] = { &ref, &ref2 };
  for (int pz = 0; pz < 2; pz++) {
    static plan_t q; q = (plan_t) { PT_TELNET, pz ? M_ONE : M_DRAIN, pz ? 0x5A : 0xA5, 0, big, tot, segbuf, ns };
    run (&q, res[pz]);
    vx_count (4, 1);
    if (res[pz]->ucount || res[pz]->gcount) vx_count (3, 1);
    if (vx_replaying ()) vx_obs ("opt=%d first=%d pay=%d quoted=%d term=%d chunk=%d -> cmds %s neg %s", opt, first, pay, quoted, terminated, sbchunks[chunk_i], show_log (res[pz]->u, res[pz]->ulen), show_log (res[pz]->g, res[pz]->glen > 120 ? 120 : res[pz]->glen));
    if (res[pz]->dropped) { failp ("C13:connection-dropped", "sub-negotiation of %d bytes: the driver closed the connection", pay); continue; }
    const unsigned char *lp[8]; int ll[8]; int k = lines_of (res[pz], lp, ll, 8);
    if (terminated && !(k == 1 && ll[0] == 2 && !memcmp (lp[0], "ok", 2)))
      failp ("C13:telnet:line-after-subnegotiation-wrong", "IAC SB %d + %d payload bytes IAC SE then \"ok\": delivered %s", opt, pay, show_log (res[pz]->u, res[pz]->ulen));
    if (!terminated && k != 0)
      failp ("C13:telnet:unterminated-subnegotiation-leaks", "unterminated IAC SB %d + %d bytes: delivered %s", opt, pay, show_log (res[pz]->u, res[pz]->ulen));
  }
  if (!ref.dropped && !ref2.dropped && (!same_u (&ref, &ref2) || !same_g (&ref, &ref2)))
    failp ("C13:telnet:short-subnegotiation-reads-uninitialised-sb_buf", "IAC SB %d with %d payload bytes: callbacks depend on the initial content of sb_buf: %s vs %s", opt, pay, show_log (ref.g, ref.glen > 100 ? 100 : ref.glen), show_log (ref2.g, ref2.glen > 100 ? 100 : ref2.glen));
}

static void describe (long idx, char *buf, size_t len) {
  const char *fam = vx_opt ("family", "short");
  if (!strcmp (fam, "behave")) {
    long i = idx; int via_i = (int) (i % 3); i /= 3; int k = (int) (i % KMAX); i /= KMAX; int act = 1 + (int) (i % 3); i /= 3;
    unsigned char s[16]; int n = short_decode (i, s); size_t o = (size_t) snprintf (buf, len, "%s act=%d line=%d via=%d stream ", port_name[port], act, k, via_of_port[port][via_i]);
    for (int j = 0; j < n; j++) o += (size_t) snprintf (buf + o, len - o, "%02x ", s[j]);
  } else if (!strcmp (fam, "short") || !strcmp (fam, "single") || !strcmp (fam, "eof")) {
    unsigned char s[16]; int n = short_decode (idx, s); size_t o = (size_t) snprintf (buf, len, "%s stream ", port_name[port]);
    for (int i = 0; i < n; i++) o += (size_t) snprintf (buf + o, len - o, "%02x ", s[i]);
  } else if (!strcmp (fam, "long")) snprintf (buf, len, "%s long line n=%d chunk=%d MAX_TEXT=%d", port_name[port], nvals[idx / n_chunks], chunk_sizes[idx % n_chunks], MT);
  else if (!strcmp (fam, "lines")) { long r = idx / n_chunks; snprintf (buf, len, "%s burst k=1+%d*%ld m=%d chunk=%d MAX_TEXT=%d", port_name[port], kstep, r / n_burst_m, burst_m[r % n_burst_m], chunk_sizes[idx % n_chunks], MT); }
  else snprintf (buf, len, "sub-negotiation element %ld", idx);
}

static void body (void) { vx_obs ("use --enum"); }
/* a fresh 6 KB interactive_t per connection: keep ASan's quarantine small so that memory does not grow */
const char *__asan_default_options (void) { return "quarantine_size_mb=16"; }

int main (int argc, char **argv) {
  char mud[PATH_MAX];
  vx_init_args (argc, argv);
  snprintf (mud, sizeof mud, "%s/mudlib/base", hx_verif_dir ());
  hx_boot (mud, "Port 4000:telnet\nPort 4001:ascii\nPort 4002:binary\n", 0);
  push_constant_string ("user_file"); push_constant_string ("/c13/user.c");
  safe_apply_master_ob ("set_policy", 2);
  MT = vw_max_text ();
  selftest = (int) vx_opt_long ("selftest", 0);
  const char *pn = vx_opt ("port", "telnet");
  for (int i = 0; i < 4; i++) if (!strcmp (pn, port_name[i])) port = i;
  const char *fam = vx_opt ("family", "short");
  Lmax = (int) vx_opt_long ("L", 4);
  nalpha = (int) vx_opt_long ("alpha", NSYM);
  if (nalpha != 4 && nalpha != 8 && nalpha != 10) nalpha = NSYM;
  init_chunks ();
  vx_count_name (0, "connections"); vx_count_name (1, "reads"); vx_count_name (2, "commands_delivered");
  vx_count_name (3, "nontrivial"); vx_count_name (4, "deliveries_compared"); vx_count_name (5, "long_lines_delivered_whole");
  if (!strcmp (fam, "eof")) { eof_by_read = 1; fam = "short"; }
  if (!strcmp (fam, "behave")) {
    if (nalpha == NSYM) nalpha = 4;
    KMAX = (int) vx_opt_long ("kmax", 3);
    hx_load ("/c13/logd", 0);
    vx_set_enum (behave_total (), elem_behave, describe);
  } else if (!strcmp (fam, "short") || !strcmp (fam, "single")) {
    single = !strcmp (fam, "single");
    if (single) { push_constant_string ("c13_single"); push_number (1); safe_apply_master_ob ("set_policy", 2); }
    vx_set_enum (short_total (), elem_short, describe);
  } else if (!strcmp (fam, "long")) {
    int cap = 3 * MT + 8;
    nvals = malloc (sizeof (int) * (size_t) (cap + 200));
    if (vx_opt_long ("around", 0)) {
      int b[] = { 0, MT / 16, MT / 3, MT / 2, MT - 3 * (MT / 16), MT - 2, MT - 1, MT, 2 * MT, 3 * MT };
      for (unsigned i = 0; i < sizeof b / sizeof b[0]; i++) for (int d = -4; d <= 4; d++) {
        int v = b[i] + d, dup = 0; if (v < 0) continue;
        for (int j = 0; j < n_nvals; j++) if (nvals[j] == v) dup = 1;
        if (!dup) nvals[n_nvals++] = v;
      }
    } else for (int v = 0; v <= 3 * MT; v++) nvals[n_nvals++] = v;
    vx_set_enum ((long) n_nvals * n_chunks, elem_long, describe);
  } else if (!strcmp (fam, "lines")) {
    int ms[] = { 0, 1, 2, 5, MT / 25, MT / 4 };
    for (int i = 0; i < 6; i++) { int dup = 0; for (int j = 0; j < n_burst_m; j++) if (burst_m[j] == ms[i]) dup = 1; if (!dup) burst_m[n_burst_m++] = ms[i]; }
    kstep = (int) vx_opt_long ("kstep", 1);
    long kmax = vx_opt_long ("kmax", (3L * MT / 3 + kstep) / kstep);
    vx_set_enum (kmax * n_burst_m * n_chunks, elem_lines, describe);
  } else if (!strcmp (fam, "sb")) {
    sb_maxpay = (int) vx_opt_long ("maxpay", SB_SIZE + 3);
    vx_set_enum ((long) (sb_maxpay + 1) * 5 * 3 * 2 * 2 * 4, elem_sb, describe);
  }
  return vx_run (argc, argv, body);
}
