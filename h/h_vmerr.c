/* h_vmerr.c — see h_vmerr.h */
#include "h_vmerr.h"
#include "efuns_opcode.h"

#include <sys/wait.h>
#include <sys/prctl.h>
#include <sys/syscall.h>
#include <signal.h>

/* ------------------------------------------------------------------ one element = one process
 * vx forks one child per batch; forking every element from the single vx parent limits the rate to what one
 * process can fork, so the batch child (a pristine copy of the initialised driver that never runs LPC itself)
 * forks a grandchild per element.  The vx slot is shared memory, so vx_fail/vx_obs/vx_count of the grandchild land
 * in the batch child's record. */
unsigned vm_elem_alarm_s = 20;
static int run_once (void (*fn) (long), long idx, unsigned alarm_s) {
  fflush (0);
  pid_t pid = fork ();
  if (pid < 0) return -1;
  if (pid == 0) {
    prctl (PR_SET_PDEATHSIG, SIGKILL);
    alarm (alarm_s);
    fn (idx);
    fflush (0);
    syscall (SYS_exit_group, 0);
  }
  int st = 0;
  while (waitpid (pid, &st, 0) < 0) {}
  return st;
}

int vm_run_isolated (void (*fn) (long), long idx) {
  int st = run_once (fn, idx, vm_elem_alarm_s);
  if (st == -1) { vx_fail ("VM-HARNESS:fork", "fork failed"); return -1; }
  /* an element that ran out of time is run once more, alone in its batch slot and with 15x the time, before it is called a hang
   * (elements take milliseconds; on a loaded machine a process can be stalled for seconds) */
  if (WIFSIGNALED (st) && WTERMSIG (st) == SIGALRM) st = run_once (fn, idx, vm_elem_alarm_s * 15);
  vx_scan_now ();
  if (WIFSIGNALED (st)) {
    char key[80];
    if (WTERMSIG (st) == SIGALRM) snprintf (key, sizeof key, "hang:element");
    else snprintf (key, sizeof key, "died:signal%d:element", WTERMSIG (st));
    vx_fail (key, "element %ld ended with signal %d [%s]", idx, WTERMSIG (st), vm_ctx_desc);
  } else if (WIFEXITED (st) && WEXITSTATUS (st) != 0) {
    char key[80]; snprintf (key, sizeof key, "died:exit%d:element", WEXITSTATUS (st));
    vx_fail (key, "element %ld exited with status %d", idx, WEXITSTATUS (st));
  }
  return st;
}

/* ------------------------------------------------------------------ failure records, de-duplicated across processes
 * A vx slot holds 48 failure records per batch; a frequent key must not crowd out a rare one, so every key is
 * recorded at most VM_KEYCAP times per run; the exact totals are kept in shared memory and written next to --out. */
#include <sys/mman.h>
#define VM_NKEYS 512
#define VM_KEYCAP 6
typedef struct { char key[160]; volatile long n; } vm_keyrec;
static vm_keyrec *keytab;
void vm_shared_init (void) {
  keytab = mmap (0, sizeof (vm_keyrec) * VM_NKEYS, PROT_READ | PROT_WRITE, MAP_SHARED | MAP_ANONYMOUS, -1, 0);
  if (keytab == MAP_FAILED) { perror ("mmap"); exit (2); }
}
void vm_fail (const char *key, const char *fmt, ...) {
  char msg[700]; va_list ap;
  va_start (ap, fmt); vsnprintf (msg, sizeof msg, fmt, ap); va_end (ap);
  long n = 1;
  if (keytab && vx_in_child ()) {
    unsigned h = 2166136261u; for (const char *q = key; *q; q++) h = (h ^ (unsigned char) *q) * 16777619u;
    for (int probe = 0; probe < VM_NKEYS; probe++) {
      vm_keyrec *r = &keytab[(h + (unsigned) probe) % VM_NKEYS];
      if (!r->key[0]) {            /* claim: first byte last */
        char first = 0;
        if (__sync_bool_compare_and_swap (&r->key[0], first, key[0])) snprintf (r->key + 1, sizeof r->key - 1, "%s", key + 1);
      }
      /* a concurrent claimer may still be writing the tail: wait for the terminator to settle */
      for (int spin = 0; spin < 1000 && r->key[0] == key[0] && strncmp (r->key, key, sizeof r->key - 1) && !r->key[strlen (key)]; spin++) {}
      if (!strncmp (r->key, key, sizeof r->key - 1)) { n = __sync_add_and_fetch (&r->n, 1); break; }
    }
  }
  if (n <= VM_KEYCAP || vx_replaying ()) vx_fail (key, "%s", msg);
  else vx_count (15, 1);
}
void vm_write_key_totals (const char *path) {
  if (!keytab || !path) return;
  FILE *f = fopen (path, "w");
  if (!f) return;
  fputs ("{", f);
  int first = 1;
  for (int i = 0; i < VM_NKEYS; i++) if (keytab[i].key[0]) { fprintf (f, "%s\"%s\": %ld", first ? "" : ", ", keytab[i].key, keytab[i].n); first = 0; }
  fputs ("}\n", f);
  fclose (f);
}

/* ------------------------------------------------------------------ snapshot */
/* wrap/w_vmerr_array.c (linked by the C05 / C06 harnesses only) */
extern int vw_sort_ftc_depth (void) __attribute__ ((weak));
void vm_snap_take (vm_snap *s) {
  s->sp = sp; s->fp = fp; s->csp = csp; s->pc = pc;
  s->cur = current_object; s->prev = previous_ob; s->cg = command_giver;
  s->rd = vw_restrict_destruct (); s->chb = current_heart_beat; s->cint = current_interactive;
  s->prog = current_prog; s->caller_type = caller_type;
  s->fio = function_index_offset; s->vio = variable_index_offset;
  s->cgsp = vw_cgsp_depth (); s->ecd = vw_ec_depth (); s->nobj = vw_num_objects_this_thread ();
  s->isa = illegal_sentence_action; s->in_err = vw_in_error (); s->in_meh = vw_in_mudlib_error_handler ();
  s->sortd = vw_sort_ftc_depth ? vw_sort_ftc_depth () : 0;
}

static const char *obname (object_t *o) { return o ? (o->name ? o->name : "?") : "0"; }

unsigned vm_ignore_fields, vm_changed_fields;
int vm_snap_diff (const vm_snap *a, const vm_snap *b, int sp_delta, int with_pc, const char *scope, const char *ctx) {
  int n = 0, bit = 0; char key[200];
#define DIFF(cond, field, fmt, ...) do { unsigned mybit = 1u << bit++; if (cond) { vm_changed_fields |= mybit; if (!(vm_ignore_fields & mybit)) { n++; snprintf (key, sizeof key, "C05:%s-not-restored:%s", field, scope); \
      vm_fail (key, fmt " [%s]", __VA_ARGS__, ctx); vx_obs ("!! %s", key); } } } while (0)
  DIFF (b->sp != a->sp + sp_delta, "sp", "value stack pointer is off by %ld slots", (long) (b->sp - (a->sp + sp_delta)));
  DIFF (b->csp != a->csp, "csp", "control stack pointer is off by %ld frames", (long) (b->csp - a->csp));
  DIFF (b->fp != a->fp, "fp", "frame pointer differs by %ld slots", (long) (b->fp - a->fp));
  DIFF (with_pc && b->pc != a->pc, "pc", "pc differs (%p -> %p)", (void *) a->pc, (void *) b->pc);
  DIFF (b->cur != a->cur, "current_object", "current_object was /%s, now /%s", obname (a->cur), obname (b->cur));
  DIFF (b->prev != a->prev, "previous_ob", "previous_ob was /%s, now /%s", obname (a->prev), obname (b->prev));
  DIFF (b->prog != a->prog, "current_prog", "current_prog was %s, now %s", a->prog ? a->prog->name : "0", b->prog ? b->prog->name : "0");
  DIFF (b->caller_type != a->caller_type, "caller_type", "caller_type was %d, now %d", a->caller_type, b->caller_type);
  DIFF (b->fio != a->fio, "function_index_offset", "function_index_offset was %d, now %d", a->fio, b->fio);
  DIFF (b->vio != a->vio, "variable_index_offset", "variable_index_offset was %d, now %d", a->vio, b->vio);
  /* a saved command giver that has been destructed meanwhile may come back as itself or as 0 */
  DIFF (b->cg != a->cg && !(b->cg == 0 && a->cg && (a->cg->flags & O_DESTRUCTED)), "command_giver", "command_giver was /%s, now /%s", obname (a->cg), obname (b->cg));
  DIFF (b->cgsp != a->cgsp, "command_giver_stack", "command giver save-stack depth was %d, now %d", a->cgsp, b->cgsp);
  DIFF (b->ecd != a->ecd, "error_context_chain", "error context chain depth was %d, now %d", a->ecd, b->ecd);
  DIFF (b->rd != a->rd, "restrict_destruct", "restrict_destruct was /%s, now /%s", obname (a->rd), obname (b->rd));
  DIFF (b->nobj != a->nobj, "num_objects_this_thread", "num_objects_this_thread was %d, now %d", a->nobj, b->nobj);
  DIFF (b->isa != a->isa, "illegal_sentence_action", "illegal_sentence_action was %d, now %d", a->isa, b->isa);
  DIFF (b->in_err != a->in_err, "in_error", "in_error was %d, now %d", a->in_err, b->in_err);
  DIFF (b->in_meh != a->in_meh, "in_mudlib_error_handler", "in_mudlib_error_handler was %d, now %d", a->in_meh, b->in_meh);
  DIFF (b->chb != a->chb, "current_heart_beat", "current_heart_beat was /%s, now /%s", obname (a->chb), obname (b->chb));
  DIFF (b->cint != a->cint, "current_interactive", "current_interactive was /%s, now /%s", obname (a->cint), obname (b->cint));
  DIFF (b->sortd != a->sortd, "sort_array_descriptor_chain", "%d sort_array() callback descriptors were linked, now %d", a->sortd, b->sortd);
#undef DIFF
  return n;
}

/* ------------------------------------------------------------------ hook */
long vm_insn, vm_fault_at;
int vm_inj_mode, vm_fired, vm_fault_ctx, vm_catch_seen, vm_catch_err, vm_expect_done, vm_selftest;
char vm_ctx_desc[600];
char vm_cval[VM_MAXCVAL][300];
int vm_ncval;
static int armed, driver_depth;
static control_stack_t *expect_csp;      /* save_csp of the catch that must receive the injected value */
static char exp_catch[80], exp_driver[80];

#define MAXMON 64
static struct { vm_snap s; const char *resume; int expect; } mon[MAXMON];
static int nmon;

const char *vm_noinj_name = "no-fault";
const char *vm_ctx_name (void) {
  switch (vm_fault_ctx) {
  case VM_CTX_CATCH: return "fault-caught";
  case VM_CTX_DRIVER: return "fault-uncaught";
  case VM_CTX_OTHER: return "fault-swallowed-by-safe_apply";
  default: return vm_noinj_name;
  }
}
const char *vm_expected_catch_text (void) { return exp_catch; }
const char *vm_expected_driver_text (void) { return exp_driver; }

static void catch_done (int i) {
  vm_snap now; char scope[64];
  vm_snap_take (&now);
  vm_catch_seen++;
  if (vm_selftest == 2 && vm_fired) now.cg = (object_t *) &now;     /* self-test: corrupt the observation */
  snprintf (scope, sizeof scope, "catch-point:%s", vm_ctx_name ());
  vm_snap_diff (&mon[i].s, &now, 1, 0, scope, vm_ctx_desc);
  if (sp >= start_of_stack && !(sp->type == T_NUMBER && sp->u.number == 0)) {
    /* catches evaluated by the master's own error_handler() are not errors handed to it: keep them out of the list that is
     * matched against the master's log */
    if (current_object != master_ob && vm_ncval < VM_MAXCVAL) snprintf (vm_cval[vm_ncval++], sizeof vm_cval[0], "%s", hx_canon_s (sp));
    vm_catch_err++;
  }
  if (mon[i].expect) {
    const char *got = hx_canon_s (sp);
    vm_expect_done = 1;
    if (strcmp (got, exp_catch)) {
      vm_fail ("C05:catch:wrong-value", "catch yielded %.200s, expected %s [%s]", got, exp_catch, vm_ctx_desc);
      vx_obs ("!! catch yielded %.200s, expected %s", got, exp_catch);
    }
  }
}

object_t *vm_giver;
object_t *vm_fault_object;   /* if set, the fault position counts only the dispatches executed with this current_object */
static long insn_obj;
long vm_insn_in_object (void) { return insn_obj; }
static void hook (void) {
  vm_insn++;
  if (!armed) return;
  if (vm_fault_object && current_object == vm_fault_object) insn_obj++;
  /* catch monitor */
  while (nmon && mon[nmon - 1].s.csp > csp) nmon--;
  if (nmon && mon[nmon - 1].s.csp == csp && mon[nmon - 1].resume == pc) { catch_done (nmon - 1); nmon--; }
  if (EXTRACT_UCHAR (pc) == F_CATCH && nmon < MAXMON) {
    unsigned short off;
    ((char *) &off)[0] = pc[1]; ((char *) &off)[1] = pc[2];
    vm_snap_take (&mon[nmon].s);
    mon[nmon].resume = pc + 1 + off;
    mon[nmon].expect = 0;
    nmon++;
  }
  if (vm_fault_at && (vm_fault_object ? (current_object == vm_fault_object && insn_obj == vm_fault_at) : vm_insn == vm_fault_at) && !vm_fired) {
    vm_fired = 1;
    if (vw_ec_top_is_catch ()) {
      vm_fault_ctx = VM_CTX_CATCH;
      expect_csp = vw_ec_top_csp ();
      for (int i = nmon - 1; i >= 0; i--) if (mon[i].s.csp == expect_csp) { mon[i].expect = 1; break; }
    } else vm_fault_ctx = vw_ec_depth () == driver_depth ? VM_CTX_DRIVER : VM_CTX_OTHER;
    if (vm_giver && !(vm_giver->flags & O_DESTRUCTED) && !vw_restrict_destruct ()) {
      /* "the failing evaluation destructs the object that was this_player() when the context was saved, then raises" */
      error_context_t ge;
      if (save_context (&ge)) {
        if (!setjmp (ge.context)) destruct_object (vm_giver); else restore_context (&ge);
        pop_context (&ge);
      }
    }
    if (vm_inj_mode == VM_INJ_ERROR) error ("*verif fault %ld\n", vm_fault_at);
    else {
      array_t *a = allocate_array (2);
      a->item[0].type = T_NUMBER; a->item[0].u.number = 1;
      a->item[1].type = T_STRING; a->item[1].subtype = STRING_SHARED; a->item[1].u.string = make_shared_string ("t");
      free_svalue (&catch_value, "verif throw");
      catch_value.type = T_ARRAY; catch_value.u.arr = a;
      throw_error ();
    }
  }
}

void vm_hook_arm (long fault_at, int mode, int driver_ec_depth) {
  vm_insn = 0; insn_obj = 0; vm_fault_at = fault_at; vm_inj_mode = mode; vm_fired = 0; vm_fault_ctx = VM_CTX_NONE;
  vm_catch_seen = vm_catch_err = vm_expect_done = 0; nmon = 0; vm_ncval = 0; expect_csp = 0;
  driver_depth = driver_ec_depth;
  if (mode == VM_INJ_THROW) {
    snprintf (exp_catch, sizeof exp_catch, "({1,\"t\"})");
    snprintf (exp_driver, sizeof exp_driver, "*Throw with no catch.\n");
  } else {
    snprintf (exp_catch, sizeof exp_catch, "\"*verif fault %ld\\x0a\"", fault_at);
    snprintf (exp_driver, sizeof exp_driver, "*verif fault %ld\n", fault_at);
  }
  armed = 1;
#ifdef NEOLITH_VERIF
  neolith_verif_insn_hook = hook;
#endif
}
void vm_hook_disarm (void) { armed = 0; nmon = 0; }

/* ------------------------------------------------------------------ nesting shapes
 * g<i-1>() reaches g<i>() through frame kind k_i.  @N = i, @T = this_object(). */
const vm_kind vm_kinds[] = {
  { "call",        "", "", "g@N()", 0 },
  { "inherited",   "", "", "::inh@N()", 0 },
  { "call_other",  "", "", "\"/c05/oth\"->relay(this_object(), \"g@N\")", 0 },
  { "co_array",    "", "", "sizeof(call_other(({ find_object(\"/c05/oth\") }), \"relay\", this_object(), \"g@N\"))", 0 },
  { "lfunp",       "", "", "evaluate((: g@N :))", 0 },
  { "functional",  "", "", "evaluate((: g@N() + $1 :), 0)", 0 },
  { "anonfunc",    "", "", "evaluate(function(int a) { return g@N() + a; }, 0)", 0 },
  { "efunp",       "", "", "evaluate((: call_other, \"/c05/oth\", \"relay\" :), this_object(), \"g@N\")", 0 },
  { "boundfp",     "", "", "evaluate((: cb@N, t, \"bound\" :))", 0 },
  { "simul_efun",  "", "", "vm_relay(this_object(), \"g@N\")", 0 },
  { "catch",       "", "", "catch(g@N())", 0 },
  { "filter_fp",   "", "", "sizeof(filter(({ \"e\" }), (: cb@N :)))", 0 },
  { "filter_name", "", "", "sizeof(filter(({ \"e\" }), \"cb@N\", this_object()))", 0 },
  { "filter_map",  "", "", "sizeof(filter(([ \"k\" : 1 ]), (: cb@N :)))", 0 },
  { "map_array",   "", "", "sizeof(map(({ \"e\" }), (: cb@N :)))", 0 },
  { "map_mapping", "", "", "sizeof(map(([ \"k\" : 1 ]), (: cb@N :)))", 0 },
  { "map_string",  "", "", "map(\"a\", (: cb@N :))", 0 },
  { "sort_fp",     "", "", "sizeof(sort_array(({ 2, 1 }), (: cb@N :)))", 0 },
  { "sort_name",   "", "", "sizeof(sort_array(({ 2, 1 }), \"cb@N\", this_object()))", 0 },
  { "unique_array", "", "", "sizeof(unique_array(({ \"e\" }), (: cb@N :)))", 0 },
  { "unique_mapping", "", "", "sizeof(unique_mapping(({ \"e\" }), (: cb@N :)))", 0 },
  { "implode_fp",  "", "", "implode(({ 1, 2 }), (: cb@N :))", 0 },
  { "create_load", "", "\"/c05/reg\"->arm(this_object(), \"g@N\");", "load_object(\"/c05/ld@N\")", VMK_LOADS },
  { "init_global", "", "\"/c05/reg\"->arm(this_object(), \"g@N\");", "load_object(\"/c05/lg@N\")", VMK_LOADS },
  { "create_clone", "", "", "new(\"/c05/cl\", this_object(), \"g@N\")", 0 },
  { "init_move",   "object rm, mb, it;", "rm = new(\"/c05/room\"); mb = new(\"/c05/mob\"); it = new(\"/c05/item\"); mb->go(rm); it->arm(this_object(), \"g@N\", \"init\");", "it->go(rm)", 0 },
  { "move_or_destruct", "object bx, it;", "bx = new(\"/c05/room\"); it = new(\"/c05/item\"); it->go(bx); it->arm(this_object(), \"g@N\", \"mod\");", "bx->dest()", 0 },
  { "verb_string", "object mb;", "mb = new(\"/c05/mob\"); mb->arm(this_object(), \"g@N\");", "mb->cmd(\"vs x\")", 0 },
  { "verb_funp",   "object mb;", "mb = new(\"/c05/mob\"); mb->arm(this_object(), \"g@N\");", "mb->cmd(\"vf y\")", 0 },
  { "catch_tell",  "object it;", "it = new(\"/c05/item\"); it->arm(this_object(), \"g@N\", \"tell\");", "tell_object(it, \"hi\")", 0 },
  { "present_id",  "object bx, it;", "bx = new(\"/c05/room\"); it = new(\"/c05/item\"); it->go(bx); it->arm(this_object(), \"g@N\", \"id\");", "present(\"zz\", bx)", 0 },
  { "m_valid_read", "", "master()->set_hook(\"valid_read\", this_object(), \"g@N\");", "file_size(\"/c05/oth.c\")", 0 },
  { "m_object_name", "", "master()->set_hook(\"object_name\", this_object(), \"g@N\");", "sprintf(\"%O\", this_object())", VMK_SWALLOW },
  { "m_creator_file", "", "master()->set_hook(\"creator_file\", this_object(), \"g@N\");", "new(\"/c05/cl\")", 0 },
  { "m_valid_object", "", "master()->set_hook(\"valid_object\", this_object(), \"g@N\");", "load_object(\"/c05/lv@N\")", VMK_LOADS },
  { "m_valid_seteuid", "", "master()->set_hook(\"valid_seteuid\", this_object(), \"g@N\");", "seteuid(getuid())", 0 },
  { "m_valid_bind", "", "master()->set_hook(\"valid_bind\", this_object(), \"g@N\");", "bind((: file_name :), find_object(\"/c05/oth\"))", 0 },
  { "m_valid_override", "", "master()->set_hook(\"valid_override\", this_object(), \"g@N\");", "load_object(\"/c05/ov@N\")", VMK_LOADS | VMK_COMPILE | VMK_SWALLOW },
};
const int vm_nkinds = sizeof vm_kinds / sizeof vm_kinds[0];

int vm_kind_index (const char *name) {
  for (int i = 0; i < vm_nkinds; i++) if (!strcmp (vm_kinds[i].name, name)) return i;
  return -1;
}

/* genuine error sites used as the leaf (second part of C05) */
static const char *leaf_body[] = {
  /* 0: ordinary leaf */
  "  mixed a = ({ 1, \"x\", ([ \"k\" : ({ 2 }) ]) });\n  string s = \"ab\" + sizeof(a);\n  mapping m = ([ s : a ]);\n  mixed e; int n;\n"
  "  hits++;\n  a[0] = m[s][1] + s;\n  foreach (e in a) { n += sizeof(e) ? 1 : 0; }\n  foreach (s, e in m) { n += sizeof(e); }\n"
  "  switch (n) { case 0: n = 1; break; case 3..9: n += 2; break; default: n = 0; }\n  s = s[0..1] + s[<1..<1];\n",
  "  mixed t = ({ \"leaf\" }); hits++;\n  error(\"boom\\n\");\n",
  "  mixed t = ({ \"leaf\" }); hits++;\n  throw(({ \"thrown\", t }));\n",
  "  mixed t = ({ \"leaf\" }); int z; hits++;\n  z = sizeof(t) / z;\n",
  "  mixed t = ({ \"leaf\" }); hits++;\n  t = t[sizeof(t) + 1];\n",
  "  mixed t = ({ \"leaf\" }); mixed z = 1; hits++;\n  t = ({ t, \"x\" + (t - z) });\n",
  "  mixed t = ({ \"leaf\" }); mixed z = 0; hits++;\n  t = ({ t, z->foo() });\n",
  "  mixed t = ({ \"leaf\" }); mixed z = 5; hits++;\n  t = ({ t, explode(z, \"x\") });\n",
  "  mixed t = ({ \"leaf\" }); mixed z = ({ \"q\" }); hits++;\n  t = ({ t, sprintf(\"%d\", z) });\n",
  "  mixed t = ({ \"leaf\" }); hits++;\n  foreach (mixed e in ({ 1, 2 })) { mapping m = ([ e : t ]); t = ({ t, m[e][5] }); }\n",
  "  mixed t = ({ \"leaf\" }); hits++;\n  t = ({ t, deep(0) });\n",
  "  mixed t = ({ \"leaf\" }); hits++;\n  while (1) t = ({ sizeof(t) });\n",
  "  mixed t = ({ \"leaf\" }); hits++;\n  t = ({ t, wide(0) });\n",
  "  mixed t = ({ \"leaf\" }); hits++;\n  t = ({ t, load_object(\"/c05/nonexistent\") , \"/c05/nonexistent2\"->foo() });\n",
  "  mixed t = ({ \"leaf\" }); hits++;\n  t = ({ t, load_object(\"/c05/bad@N\") });\n",
  "  mixed t = ({ \"leaf\" }); hits++;\n  destruct(this_object()); t = ({ t, g1() + cb1(1, 2) });\n  error(\"after destruct\\n\");\n",
  "  mixed t = ({ \"leaf\" }); mixed *sprd = ({ 1, 2, 3 }); int z; hits++;\n  t = ({ t, va(sprd..., sizeof(t) / z) });\n",
  /* the object that was this_player() at the driver's entry / at the outer catch (pass --giver=1) is destructed, then the error */
  "  mixed t = ({ \"leaf\" }); object pz = find_object(\"/c05/pl\"); hits++;\n  if (pz) destruct(pz);\n  error(\"entry giver destructed\\n\");\n",
};
/* leaves 0..NBASE-1 come from leaf_body[]; leaves NBASE.. are the family "callback efun with an unresolvable / wrong callback":
 * form x target, the error is raised by the efun's own argument processing before any callback instruction runs */
static const char *base_leaf_names[] = { "plain", "error()", "throw()", "div-by-zero", "index-out-of-bounds", "bad-operand", "call_other-on-0",
  "efun-bad-argument", "sprintf-error", "index-in-foreach", "too-deep-recursion", "eval-cost", "stack-overflow", "load-missing", "load-compile-error", "destruct-self-then-error", "error-after-varargs-spread", "destruct-entry-command-giver-then-error" };
#define NBASE ((int) (sizeof leaf_body / sizeof leaf_body[0]))
static const char *cb_form_name[] = { "filter(array)", "filter(mapping)", "map(array)", "map(mapping)", "map(string)", "sort_array", "unique_array",
  "unique_mapping", "implode", "call_out", "add_action", "input_to", "filter(array,extra-args)", "map(mapping,extra-args)" };
static const char *cb_form_expr[] = { "filter(arr, F, T)", "filter(m, F, T)", "map(arr, F, T)", "map(m, F, T)", "map(str, F, T)", "sort_array(arr, F, T)",
  "unique_array(arr, F, T)", "unique_mapping(arr, F, T)", "implode(arr, F, T)", "call_out(F, 1, arr, m)", "add_action(F, \"bv\", 0, arr)", "input_to(F, 0, arr, m)",
  "filter(arr, F, T, m, arr)", "map(m, F, T, arr, str)" };
static const char *cb_tgt_name[] = { "target-0", "target-destructed-object", "target-unloadable-file", "target-without-that-function", "target-is-a-float", "callback-is-a-float" };
static const char *cb_tgt_stmt[] = { "T = 0;", "dz = load_object(\"/c05/lv4\"); destruct(dz); T = dz;", "T = \"/no/such/file\";", "T = this_object();", "T = 3.5;", "F = 3.5; T = this_object();" };
#define NCBFORM ((int) (sizeof cb_form_name / sizeof *cb_form_name))
#define NCBTGT ((int) (sizeof cb_tgt_name / sizeof *cb_tgt_name))
const char *vm_leaf_names[18 + 14 * 6 + 1];
int vm_nleaves;
__attribute__ ((constructor)) static void vm_init_leaves (void) {
  static char nm[14 * 6][80];
  int n = 0;
  for (int i = 0; i < NBASE; i++) vm_leaf_names[n++] = base_leaf_names[i];
  for (int f = 0; f < NCBFORM; f++) for (int t = 0; t < NCBTGT; t++) { snprintf (nm[f * NCBTGT + t], sizeof nm[0], "bad-callback:%s:%s", cb_form_name[f], cb_tgt_name[t]); vm_leaf_names[n++] = nm[f * NCBTGT + t]; }
  vm_nleaves = n;
}


int vm_shape_possible (const int *kinds, int depth) {
  int compiling = 0;
  for (int i = 0; i < depth; i++) {
    if (compiling && (vm_kinds[kinds[i]].flags & VMK_LOADS)) return 0;
    if (vm_kinds[kinds[i]].flags & VMK_COMPILE) compiling = 1;
  }
  return 1;
}

static size_t subst (char *out, size_t len, size_t n, const char *tpl, int N) {
  for (; *tpl && n + 24 < len; tpl++) {
    if (tpl[0] == '@' && tpl[1] == 'N') { n += (size_t) snprintf (out + n, len - n, "%d", N); tpl++; }
    else out[n++] = *tpl;
  }
  out[n] = 0;
  return n;
}

void vm_shape_name (const int *kinds, int depth, char *buf, size_t len) {
  size_t n = 0; buf[0] = 0;
  for (int i = 0; i < depth && n + 40 < len; i++) n += (size_t) snprintf (buf + n, len - n, "%s%s", i ? ">" : "", vm_kinds[kinds[i]].name);
}

int vm_shape_text (const int *kinds, int depth, int leaf, char *buf, size_t len) {
  size_t n = 0;
#define P(...) do { if (n + 400 < len) n += (size_t) snprintf (buf + n, len - n, __VA_ARGS__); } while (0)
  P ("// generated nesting shape\ninherit \"/c05/pad\";\ninherit \"/c05/base\";\n");
  P ("int hits; int lvl; mixed keep = ({ \"keep\" });\n");
  P ("void create() { seteuid(getuid()); }\nint query_hits() { return hits; }\nint query_lvl() { return lvl; }\n");
  P ("int va(mixed *a...) { return sizeof(a); }\n");
  P ("int deep(int d) { mixed t = ({ d }); return deep(d + 1) + sizeof(t); }\n");
  P ("int wide(int d) { mixed a, b, c, e, f, g, h, i, j, k, l, m, n, o, p, q, r, s, t, u; return wide(d + 1) + wide(d + 2); }\n");
  for (int i = 1; i <= VM_MAXDEPTH; i++) P ("int g%d();\n", i);
  for (int i = 1; i <= VM_MAXDEPTH; i++) P ("mixed cb%d(mixed a, mixed b) { mixed t = ({ a, b }); return g%d(); }\n", i, i);
  for (int i = depth + 1; i <= VM_MAXDEPTH; i++) P ("int g%d() { return 0; }\n", i);
  /* leaf */
  if (depth == 0) P ("int g0() {\n"); else P ("int g%d() {\n", depth);
  if (leaf < NBASE) n = subst (buf, len, n, leaf_body[leaf], depth);
  else {
    int f = (leaf - NBASE) / NCBTGT, t = (leaf - NBASE) % NCBTGT;
    P ("  mixed t = ({ \"leaf\" }); mixed arr = ({ \"a\", ({ 1 }), ([ \"k\" : \"v\" ]) }); mapping m = ([ \"k1\" : ({ 1 }), ({ \"key\" }) : \"val\" ]);\n"
       "  string str = \"xyz\"; mixed T, F = \"nosuch_fn\"; object dz; hits++;\n  %s\n  t = ({ t, %s });\n", cb_tgt_stmt[t], cb_form_expr[f]);
  }
  P ("  return %d;\n}\n", depth + 100);
  for (int i = depth - 1; i >= 0; i--) {
    const vm_kind *k = &vm_kinds[kinds[i]];
    P ("int g%d() {\n  mixed t = ({ \"L%d\", allocate(2), keep }); mixed r; ", i, i);
    n = subst (buf, len, n, k->decl, i + 1);
    P ("\n  lvl = %d;\n  ", i);
    n = subst (buf, len, n, k->pre, i + 1);
    P ("\n  r = ({ t, \"s\" + %d, ", i);
    n = subst (buf, len, n, k->expr, i + 1);
    P (" });\n  lvl = %d;\n  return sizeof(r) + %d;\n}\n", i, i);
  }
  P ("mixed run_u() { mixed t = ({ \"u\" }); return ({ t, g0() }); }\n");
  P ("mixed run_c() { mixed t = ({ \"c\" }); mixed e = catch(g0()); return ({ t, e }); }\n");
#undef P
  return (int) n;
}

/* ------------------------------------------------------------------ helpers, probe */
static const char *helpers[] = { "/c05/pad", "/c05/base", "/c05/oth", "/c05/reg", "/c05/cl", "/c05/room", "/c05/item", "/c05/mob", "/probe/p", "/probe/box", "/probe/thing", "/probe/liv", 0 };

void vm_preload_helpers (void) {
  for (int i = 0; helpers[i]; i++)
    if (!hx_load (helpers[i], 0)) { fprintf (stderr, "cannot load %s: %s\n", helpers[i], hx_last_error); exit (2); }
}

long vm_master_int (const char *fn, int nargs) {
  svalue_t *r = safe_apply_master_ob (fn, nargs);
  if (!r || r == (svalue_t *) -1 || r->type != T_NUMBER) return -1;
  return (long) r->u.number;
}
char *vm_master_text (const char *fn, int nargs) {
  svalue_t *r = safe_apply_master_ob (fn, nargs);
  if (!r || r == (svalue_t *) -1 || r->type != T_STRING) return "";
  static char buf[9000];
  snprintf (buf, sizeof buf, "%s", r->u.string);
  return buf;
}

void vm_clear_hooks (void) {
  object_t *reg = hx_find ("/c05/reg");
  safe_apply_master_ob ("clear_hooks", 0);
  if (reg) hx_apply (reg, "clear", 0);
}

static void sweep (void *unused) { (void) unused; call_out (); }

int vm_probe (char *out, size_t len) {
  object_t *p = hx_find ("/probe/p");
  size_t n = 0;
  out[0] = 0;
  if (!p) { snprintf (out, len, "probe object missing"); return 1; }
  svalue_t *r = hx_apply (p, "run", 0);
  n += (size_t) snprintf (out + n, len - n, "run=%s\n", r ? hx_canon_s (r) : hx_last_error);
  hx_clock += 2; current_time = hx_clock;
  if (hx_guard (sweep, 0)) n += (size_t) snprintf (out + n, len - n, "sweep-error=%s\n", hx_last_error);
  r = hx_apply (p, "fin", 0);
  n += (size_t) snprintf (out + n, len - n, "fin=%s\n", r ? hx_canon_s (r) : hx_last_error);
  n += (size_t) snprintf (out + n, len - n, "idle: sp=%ld csp=%ld cg=%s cur=%s ecd=%d cgsp=%d\n", (long) (sp - start_of_stack), (long) (csp - control_stack),
                          command_giver ? "set" : "0", current_object ? "set" : "0", vw_ec_depth (), vw_cgsp_depth ());
  return 0;
}
