/* progdump.c — see progdump.h.  Modelled on lib/lpc/program/disassemble.c (disassemble(), dump_line_numbers())
 * of the tree under test, but (a) nothing printed depends on an address and (b) every read is bounds-checked. */
#include <config.h>
#include "std.h"
#include "lpc/program.h"
#include "lpc/lex.h"
#include "lpc/include/function.h"
#include "src/interpret.h"
#include "src/simul_efun.h"
#include "progdump.h"
#include <stdarg.h>

typedef struct { char *b; size_t n, cap; } tb_t;
static int problems;

static void tb_put (tb_t *t, const char *s, size_t l) {
  if (t->n + l + 1 > t->cap) {
    while (t->n + l + 1 > t->cap) t->cap = t->cap ? t->cap * 2 : 8192;
    t->b = realloc (t->b, t->cap);
  }
  memcpy (t->b + t->n, s, l);
  t->n += l;
  t->b[t->n] = 0;
}
/* minimal formatter for the hot paths (%s %d %u %x %lld %zu %td with optional 0-padding width); anything else falls back to vsnprintf */
static void tb_num (tb_t *t, unsigned long long v, int neg, int base, int width, int zero) {
  char tmp[32]; int k = 0;
  do { int d = (int) (v % (unsigned) base); tmp[k++] = (char) (d < 10 ? '0' + d : 'a' + d - 10); v /= (unsigned) base; } while (v);
  if (neg) tmp[k++] = '-';
  while (k < width) tmp[k++] = zero ? '0' : ' ';
  char out[32]; for (int i = 0; i < k; i++) out[i] = tmp[k - 1 - i];
  tb_put (t, out, (size_t) k);
}
static void tb_f (tb_t *t, const char *fmt, ...) {
  va_list ap;
  va_start (ap, fmt);
  for (const char *p = fmt; *p; ) {
    if (*p != '%') { const char *q = p; while (*q && *q != '%') q++; tb_put (t, p, (size_t) (q - p)); p = q; continue; }
    const char *spec = p++;
    int zero = 0, width = 0, lng = 0;
    if (*p == '0') { zero = 1; p++; }
    while (*p >= '0' && *p <= '9') width = width * 10 + (*p++ - '0');
    while (*p == 'l') { lng++; p++; }
    if (*p == 'z' || *p == 't') { lng = 2; p++; }
    switch (*p) {
    case 's': { const char *z = va_arg (ap, const char *); if (!z) z = "(null)"; tb_put (t, z, strlen (z)); p++; break; }
    case 'd': { long long v = lng >= 1 ? (lng == 1 ? va_arg (ap, long) : va_arg (ap, long long)) : va_arg (ap, int); tb_num (t, v < 0 ? 0ULL - (unsigned long long) v : (unsigned long long) v, v < 0, 10, width, zero); p++; break; }
    case 'u': { unsigned long long v = lng >= 1 ? (lng == 1 ? va_arg (ap, unsigned long) : va_arg (ap, unsigned long long)) : va_arg (ap, unsigned); tb_num (t, v, 0, 10, width, zero); p++; break; }
    case 'x': { unsigned long long v = lng >= 1 ? (lng == 1 ? va_arg (ap, unsigned long) : va_arg (ap, unsigned long long)) : va_arg (ap, unsigned); tb_num (t, v, 0, 16, width, zero); p++; break; }
    case '%': tb_put (t, "%", 1); p++; break;
    default: {
      /* rare (%.17g): one conversion through libc */
      char one[16], tmp[64]; size_t k = (size_t) (p - spec) + 1;
      if (k >= sizeof one) k = sizeof one - 1;
      memcpy (one, spec, k); one[k] = 0;
      if (*p == 'g' || *p == 'f') snprintf (tmp, sizeof tmp, one, va_arg (ap, double)); else { tmp[0] = '?'; tmp[1] = 0; }
      tb_put (t, tmp, strlen (tmp));
      p++;
    }
    }
  }
  va_end (ap);
}
static void tb_problem (tb_t *t, const char *fmt, ...) {
  char tmp[512];
  va_list ap;
  va_start (ap, fmt);
  vsnprintf (tmp, sizeof tmp, fmt, ap);
  va_end (ap);
  problems++;
  tb_f (t, "!! %s\n", tmp);
}
static void tb_str (tb_t *t, const char *s, int maxlen) {
  if (!s) { tb_put (t, "0", 1); return; }
  tb_put (t, "\"", 1);
  for (int i = 0; s[i] && (maxlen < 0 || i < maxlen); i++) {
    unsigned char c = (unsigned char) s[i];
    if (c == '"' || c == '\\') { char e[3] = { '\\', (char) c, 0 }; tb_put (t, e, 2); }
    else if (c == '\n') tb_put (t, "\\n", 2);
    else if (c < 0x20 || c >= 0x7f) tb_f (t, "\\x%02x", c);
    else tb_put (t, (char *) &c, 1);
  }
  tb_put (t, "\"", 1);
}

int pd_last_problems (void) { return problems; }

uint64_t pd_hash (const char *s) {
  uint64_t h = 1469598103934665603ULL;
  for (; *s; s++) { h ^= (unsigned char) *s; h *= 1099511628211ULL; }
  return h;
}

int pd_diff (const char *a, const char *b, char *out, size_t n) {
  int line = 1;
  const char *la = a, *lb = b;
  if (!strcmp (a, b)) { if (n) out[0] = 0; return 0; }
  for (;;) {
    const char *ea = strchr (la, '\n'), *eb = strchr (lb, '\n');
    size_t na = ea ? (size_t) (ea - la) : strlen (la), nb = eb ? (size_t) (eb - lb) : strlen (lb);
    if (na != nb || memcmp (la, lb, na) || !ea || !eb) {
      snprintf (out, n, "line %d: [%.*s] | [%.*s]", line, (int) (na > 150 ? 150 : na), la, (int) (nb > 150 ? 150 : nb), lb);
      return 1;
    }
    la = ea + 1; lb = eb + 1; line++;
  }
}

/* ------------------------------------------------------------------ tables */
static int fcmp (const void *a, const void *b) {
  const compiler_function_t *x = *(compiler_function_t *const *) a, *y = *(compiler_function_t *const *) b;
  int c = strcmp (x->name ? x->name : "", y->name ? y->name : "");
  if (c) return c;
  return (int) x->address - (int) y->address;
}

static const char *safe_function_name (program_t *prog, int index) {
  /* function_name() of program.c with a depth guard */
  for (int depth = 0; depth < 64; depth++) {
    if (index < 0 || index >= prog->num_functions_total) return "<bad-index>";
    runtime_function_u *fe = FIND_FUNC_ENTRY (prog, index);
    if (!(prog->function_flags[index] & NAME_INHERITED)) {
      if (fe->def.f_index >= prog->num_functions_defined) return "<bad-f_index>";
      return prog->function_table[fe->def.f_index].name;
    }
    if (fe->inh.offset >= prog->num_inherited) return "<bad-inherit>";
    int idx = fe->inh.index;
    prog = prog->inherit[fe->inh.offset].prog;
    index = idx;
  }
  return "<loop>";
}

static void dump_tables (tb_t *t, program_t *p, int flags) {
  int i;
  if (!(flags & PD_NO_NAME)) { tb_put (t, "program ", 8); tb_str (t, p->name, -1); tb_put (t, "\n", 1); }
  tb_f (t, "sizes: program=%u functions_total=%u functions_defined=%u strings=%u vars_total=%u vars_defined=%u inherited=%u classes=%u total_size=%d flags=%x\n",
        p->program_size, p->num_functions_total, p->num_functions_defined, p->num_strings, p->num_variables_total,
        p->num_variables_defined, p->num_inherited, p->num_classes, p->total_size, p->flags);
  tb_f (t, "heart_beat: %d", p->heart_beat);
  if (p->heart_beat >= 0) tb_f (t, " (%s)", safe_function_name (p, p->heart_beat));
  tb_put (t, "\n", 1);

  /* defined functions, sorted by name */
  tb_put (t, "[functions defined, by name]\n", 29);
  compiler_function_t **fs = calloc ((size_t) p->num_functions_defined + 1, sizeof *fs);
  for (i = 0; i < p->num_functions_defined; i++) fs[i] = &p->function_table[i];
  qsort (fs, p->num_functions_defined, sizeof *fs, fcmp);
  for (i = 0; i < p->num_functions_defined; i++) {
    compiler_function_t *f = fs[i];
    int ri = f->runtime_index;
    tb_f (t, "  %s type=%x addr=%04x ri=%d", f->name ? f->name : "<null>", (unsigned) f->type, (unsigned) f->address, ri);
    if (ri < p->num_functions_total) {
      unsigned fl = p->function_flags[ri];
      tb_f (t, " flags=%04x", fl);
      if (!(fl & NAME_INHERITED)) {
        runtime_function_u *fe = FIND_FUNC_ENTRY (p, ri);
        tb_f (t, " narg=%u nlocal=%u", fe->def.num_arg, fe->def.num_local);
      }
    } else tb_problem (t, "runtime index %d of %s out of range", ri, f->name);
    if (p->type_start) {
      int k = (int) (f - p->function_table);
      unsigned st = p->type_start[k];
      if (st == INDEX_START_NONE) tb_put (t, " argtypes=none", 14);
      else if (ri < p->num_functions_total && !(p->function_flags[ri] & NAME_INHERITED)) {
        int na = FIND_FUNC_ENTRY (p, ri)->def.num_arg;
        tb_put (t, " argtypes=", 10);
        for (int a = 0; a < na; a++) tb_f (t, "%x,", (unsigned) p->argument_types[st + a]);
      }
    }
    tb_put (t, "\n", 1);
  }
  free (fs);
  /* the order apply()/find_matching_function() rely on: ascending name *pointers*, "#…" last */
  for (i = 0; i + 1 < p->num_functions_defined; i++) {
    char *a = p->function_table[i].name, *b = p->function_table[i + 1].name;
    if (b && b[0] == '#') continue;
    if (a && a[0] == '#') { tb_problem (t, "function table: #-entry at %d is not last", i); continue; }
    if (!(a < b)) tb_problem (t, "function table not in ascending name-pointer order at %d (%s, %s)", i, a, b);
  }

  tb_put (t, "[runtime function table]\n", 25);
  for (i = 0; i < p->num_functions_total; i++) {
    unsigned fl = p->function_flags[i];
    runtime_function_u *fe = FIND_FUNC_ENTRY (p, i);
    if (fl & NAME_INHERITED)
      tb_f (t, "  %d: flags=%04x inherit=%u index=%u -> %s\n", i, fl, fe->inh.offset, fe->inh.index, safe_function_name (p, i));
    else {
      if (fe->def.f_index >= p->num_functions_defined) {
        tb_f (t, "  %d: flags=%04x def f_index out of range\n", i, fl);
        tb_problem (t, "runtime entry %d: f_index %u >= %u", i, fe->def.f_index, p->num_functions_defined);
      } else
        tb_f (t, "  %d: flags=%04x def %s narg=%u nlocal=%u\n", i, fl, p->function_table[fe->def.f_index].name, fe->def.num_arg, fe->def.num_local);
    }
  }
#ifdef COMPRESS_FUNCTION_TABLES
  if (p->function_compressed) {
    compressed_offset_table_t *c = p->function_compressed;
    int n_ov = (int) c->first_defined - (int) c->num_compressed;
    tb_f (t, "[compressed] first_defined=%u first_overload=%u num_compressed=%u num_deleted=%u index=", c->first_defined,
          c->first_overload, c->num_compressed, c->num_deleted);
    for (i = 0; i < n_ov && i < 70000; i++) tb_f (t, "%u,", c->index[i]);
    tb_put (t, "\n", 1);
  }
#endif
  tb_put (t, "[variables]\n", 12);
  for (i = 0; i < p->num_variables_defined; i++) tb_f (t, "  %d: %s type=%x\n", i, p->variable_table[i], (unsigned) p->variable_types[i]);
  tb_put (t, "[strings]\n", 10);
  for (i = 0; i < p->num_strings; i++) { tb_f (t, "  %d: ", i); tb_str (t, p->strings[i], -1); tb_put (t, "\n", 1); }
  tb_put (t, "[inherits]\n", 11);
  for (i = 0; i < p->num_inherited; i++)
    tb_f (t, "  %d: %s fio=%u vio=%u mod=%x\n", i, p->inherit[i].prog ? p->inherit[i].prog->name : "<null>", p->inherit[i].function_index_offset,
          p->inherit[i].variable_index_offset, p->inherit[i].type_mod);
  tb_put (t, "[classes]\n", 10);
  for (i = 0; i < p->num_classes; i++) {
    class_def_t *c = &p->classes[i];
    tb_f (t, "  %d: %s size=%u index=%u:", i, c->name < p->num_strings ? p->strings[c->name] : "<bad>", c->size, c->index);
    for (int m = 0; m < c->size; m++) {
      class_member_entry_t *e = &p->class_members[c->index + m];
      tb_f (t, " %s/%x", e->name < p->num_strings ? p->strings[e->name] : "<bad>", (unsigned) e->type);
    }
    tb_put (t, "\n", 1);
  }
}

static void dump_lines (tb_t *t, program_t *p) {
  if (!p->line_info || !p->file_info) { tb_put (t, "[lines] none\n", 13); return; }
  unsigned short *fi = p->file_info;
  unsigned char *li_end = (unsigned char *) fi + fi[0];
  unsigned char *li = (unsigned char *) (fi + fi[1]);
  if (p->line_info != li) tb_problem (t, "line_info does not point at file_info[file_info[1]]");
  tb_f (t, "[file_info] bytes=%u off=%u\n", fi[0], fi[1]);
  for (unsigned short *q = fi + 2; q + 1 < (unsigned short *) li; q += 2) {
    tb_f (t, "  %u lines of file %u ", q[0], q[1]);
    if (q[1] >= 1 && q[1] <= p->num_strings) tb_str (t, p->strings[q[1] - 1], -1);
    else tb_put (t, "<none>", 6);
    tb_put (t, "\n", 1);
  }
  tb_put (t, "[line_info]\n", 12);
  int addr = 0;
  while (li + 2 < li_end) {
    int sz = *li++;
    short s;
    COPY_SHORT (&s, li);
    li += 2;
    tb_f (t, "  %04x+%d: %d\n", addr, sz, (int) s);
    addr += sz;
  }
  if (addr != p->program_size) tb_f (t, "  (covers %d of %u code bytes)\n", addr, p->program_size);
}

/* ------------------------------------------------------------------ disassembly */
typedef struct { char *s; unsigned short addr; } sw_ent;
static int swcmp (const void *a, const void *b) {
  const sw_ent *x = a, *y = b;
  if (!x->s || !y->s) return (x->s != 0) - (y->s != 0);
  return strcmp (x->s, y->s);
}

static int in_string_table (program_t *p, const char *s) {
  for (int i = 0; i < p->num_strings; i++) if (p->strings[i] == s) return i;
  return -1;
}

#define NEED(k) do { if (pc + (k) > end) { tb_problem (t, "instruction at %04x runs past %04x", (unsigned) (ip - code), (unsigned) end_off); return; } } while (0)

static void dis (tb_t *t, program_t *prog, ptrdiff_t start, ptrdiff_t end_off, int depth) {
  char *code = prog->program, *pc = code + start, *end = code + end_off, *ip;
  unsigned short sarg;
  int iarg;
  if (depth > 40) { tb_problem (t, "switch nesting too deep"); return; }
  while (pc < end) {
    ip = pc;
    int instr = EXTRACT_UCHAR (pc++);
    tb_f (t, "%04x: ", (unsigned) (ip - code));
    switch (instr) {
    case F_PUSH: {
      NEED (1);
      int n = EXTRACT_UCHAR (pc++);
      static const char *what[] = { "string", "number", "global", "local" };
      NEED (n);
      tb_put (t, "push", 4);
      while (n--) {
        int j = EXTRACT_UCHAR (pc++);
        int w = (j & PUSH_WHAT) >> 6, v = j & PUSH_MASK;
        tb_f (t, " %s %d", what[w], v);
        if (w == 0) { tb_put (t, "=", 1); if (v < prog->num_strings) tb_str (t, prog->strings[v], 24); else tb_put (t, "<range>", 7); }
      }
      tb_put (t, "\n", 1);
      continue;
    }
    case F_BRANCH_NE: case F_BRANCH_GE: case F_BRANCH_LE: case F_BRANCH_EQ: case F_BRANCH:
    case F_BRANCH_WHEN_ZERO: case F_BRANCH_WHEN_NON_ZERO: case F_LOR: case F_LAND:
      NEED (2);
      COPY_SHORT (&sarg, pc);
      tb_f (t, "%s +%u (%04x)\n", query_opcode_name (instr), sarg, (unsigned) (pc - code + sarg));
      pc += 2;
      continue;
    case F_NEXT_FOREACH: case F_BBRANCH_LT: case F_BBRANCH_WHEN_ZERO: case F_BBRANCH_WHEN_NON_ZERO: case F_BBRANCH:
      NEED (2);
      COPY_SHORT (&sarg, pc);
      tb_f (t, "%s -%u (%04x)\n", query_opcode_name (instr), sarg, (unsigned) (pc - code - sarg) & 0xffff);
      pc += 2;
      continue;
    case F_FOREACH: {
      NEED (2);
      int fl = EXTRACT_UCHAR (pc++);
      tb_f (t, "foreach %s %s %d", (fl & 4) ? "mapping" : "array", (fl & 1) ? "global" : "local", EXTRACT_UCHAR (pc++));
      if (fl & 4) { NEED (1); tb_f (t, ", %s %d", (fl & 2) ? "global" : "local", EXTRACT_UCHAR (pc++)); }
      tb_put (t, "\n", 1);
      continue;
    }
    case F_CATCH:
      NEED (2);
      COPY_SHORT (&sarg, pc);
      tb_f (t, "catch %04x\n", sarg);
      pc += 2;
      continue;
    case F_AGGREGATE: case F_AGGREGATE_ASSOC:
      NEED (2);
      COPY_SHORT (&sarg, pc);
      tb_f (t, "%s %u\n", query_opcode_name (instr), sarg);
      pc += 2;
      continue;
    case F_MEMBER: case F_MEMBER_LVALUE: case F_EXPAND_VARARGS: case F_SSCANF: case F_PARSE_COMMAND: case F_BYTE:
      NEED (1);
      tb_f (t, "%s %d\n", query_opcode_name (instr), EXTRACT_UCHAR (pc++));
      continue;
    case F_NBYTE:
      NEED (1);
      tb_f (t, "-byte -%d\n", EXTRACT_UCHAR (pc++));
      continue;
    case F_NEW_EMPTY_CLASS: case F_NEW_CLASS: {
      NEED (1);
      int w = EXTRACT_UCHAR (pc++);
      tb_f (t, "%s %d ", query_opcode_name (instr), w);
      if (w < prog->num_classes && prog->classes[w].name < prog->num_strings) tb_str (t, prog->strings[prog->classes[w].name], -1);
      else tb_put (t, "<range>", 7);
      tb_put (t, "\n", 1);
      continue;
    }
    case F_CALL_FUNCTION_BY_ADDRESS:
      NEED (3);
      COPY_SHORT (&sarg, pc);
      tb_f (t, "call %u %s nargs=%d\n", sarg, sarg < prog->num_functions_total ? safe_function_name (prog, sarg) : "<range>", EXTRACT_UCHAR (pc + 2));
      pc += 3;
      continue;
    case F_CALL_INHERITED: {
      NEED (4);
      int w = EXTRACT_UCHAR (pc++);
      COPY_SHORT (&sarg, pc);
      if (w < prog->num_inherited && prog->inherit[w].prog) {
        program_t *np = prog->inherit[w].prog;
        tb_f (t, "call_inherited %d %s::%s (%u) nargs=%d\n", w, np->name, sarg < np->num_functions_total ? safe_function_name (np, sarg) : "<range>", sarg,
              EXTRACT_UCHAR (pc + 2));
      } else tb_f (t, "call_inherited %d <range> %u nargs=%d\n", w, sarg, EXTRACT_UCHAR (pc + 2));
      pc += 3;
      continue;
    }
    case F_GLOBAL_LVALUE: case F_GLOBAL:
      NEED (1);
      iarg = EXTRACT_UCHAR (pc++);
      tb_f (t, "%s %d %s\n", query_opcode_name (instr), iarg, iarg < prog->num_variables_total ? variable_name (prog, iarg) : "<range>");
      continue;
    case F_LOOP_INCR: case F_TRANSFER_LOCAL: case F_LOCAL: case F_LOCAL_LVALUE: case F_VOID_ASSIGN_LOCAL:
      NEED (1);
      tb_f (t, "%s LV%d\n", query_opcode_name (instr), EXTRACT_UCHAR (pc++));
      continue;
    case F_WHILE_DEC:
      NEED (3);
      COPY_SHORT (&sarg, pc + 1);
      tb_f (t, "while_dec LV%d -%u (%04x)\n", EXTRACT_UCHAR (pc), sarg, (unsigned) (pc + 1 - code - sarg) & 0xffff);
      pc += 3;
      continue;
    case F_LOOP_COND_NUMBER: {
      NEED (7);
      int lv = EXTRACT_UCHAR (pc++);
      COPY_INT (&iarg, pc);
      pc += 4;
      COPY_SHORT (&sarg, pc);
      tb_f (t, "loop_cond_number LV%d < %d -%u (%04x)\n", lv, iarg, sarg, (unsigned) (pc - code - sarg) & 0xffff);
      pc += 2;
      continue;
    }
    case F_LOOP_COND_LOCAL: {
      NEED (4);
      int lv = EXTRACT_UCHAR (pc++), lv2 = EXTRACT_UCHAR (pc++);
      COPY_SHORT (&sarg, pc);
      tb_f (t, "loop_cond_local LV%d < LV%d -%u (%04x)\n", lv, lv2, sarg, (unsigned) (pc - code - sarg) & 0xffff);
      pc += 2;
      continue;
    }
    case F_STRING:
      NEED (2);
      COPY_SHORT (&sarg, pc);
      pc += 2;
      tb_f (t, "string %u ", sarg);
      if (sarg < prog->num_strings) tb_str (t, prog->strings[sarg], 24); else tb_put (t, "<range>", 7);
      tb_put (t, "\n", 1);
      continue;
    case F_SHORT_STRING:
      NEED (1);
      iarg = EXTRACT_UCHAR (pc++);
      tb_f (t, "short_string %d ", iarg);
      if (iarg < prog->num_strings) tb_str (t, prog->strings[iarg], 24); else tb_put (t, "<range>", 7);
      tb_put (t, "\n", 1);
      continue;
    case F_SIMUL_EFUN:
      NEED (3);
      COPY_SHORT (&sarg, pc);
      tb_f (t, "simul_efun %u %s nargs=%d\n", sarg, (simuls && simuls[sarg].func) ? simuls[sarg].func->name : "?", EXTRACT_UCHAR (pc + 2));
      pc += 3;
      continue;
    case F_FUNCTION_CONSTRUCTOR: {
      NEED (1);
      int kind = EXTRACT_UCHAR (pc++);
      switch (kind) {
      case FP_SIMUL:
        NEED (2); LOAD_SHORT (sarg, pc);
        tb_f (t, "(::) simul %u %s\n", sarg, (simuls && simuls[sarg].func) ? simuls[sarg].func->name : "?");
        break;
      case FP_EFUN:
        NEED (2); LOAD_SHORT (sarg, pc);
        tb_f (t, "(::) efun %s\n", sarg < MAX_INSTRS && instrs[sarg].name ? instrs[sarg].name : "?");
        break;
      case FP_LOCAL:
        NEED (2); LOAD_SHORT (sarg, pc);
        tb_f (t, "(::) local %u %s\n", sarg, sarg < prog->num_functions_total ? safe_function_name (prog, sarg) : "<range>");
        break;
      case FP_FUNCTIONAL: case FP_FUNCTIONAL | FP_NOT_BINDABLE:
        NEED (3);
        COPY_SHORT (&sarg, pc + 1);
        tb_f (t, "(::) functional%s nparam=%d ends=%04x\n", (kind & FP_NOT_BINDABLE) ? " nobind" : "", EXTRACT_UCHAR (pc), (unsigned) (pc + 3 + sarg - code));
        pc += 3;
        break;
      case FP_ANONYMOUS: case FP_ANONYMOUS | FP_NOT_BINDABLE:
        NEED (4);
        COPY_SHORT (&sarg, pc + 2);
        tb_f (t, "(::) anonymous%s narg=%d nlocal=%d ends=%04x\n", (kind & FP_NOT_BINDABLE) ? " nobind" : "", EXTRACT_UCHAR (pc), EXTRACT_UCHAR (pc + 1),
              (unsigned) (pc + 4 + sarg - code));
        pc += 4;
        break;
      default:
        tb_f (t, "(::) kind %d\n", kind);
        tb_problem (t, "unknown function constructor kind %d at %04x", kind, (unsigned) (ip - code));
      }
      continue;
    }
    case F_NUMBER:
      NEED (4);
      COPY_INT (&iarg, pc);
      pc += 4;
      tb_f (t, "number %d\n", iarg);
      continue;
    case F_LONG: {
      int64_t l;
      NEED (8);
      COPY_LONG (&l, pc);
      pc += 8;
      tb_f (t, "long %lld\n", (long long) l);
      continue;
    }
    case F_REAL: {
      double d;
      NEED (8);
      COPY_FLOAT (&d, pc);
      pc += 8;
      tb_f (t, "real %.17g\n", d);
      continue;
    }
    case F_SWITCH: {
      unsigned short stable, etable, def;
      NEED (7);
      unsigned ttype = EXTRACT_UCHAR (pc);
      COPY_SHORT (&stable, pc + 1);
      COPY_SHORT (&etable, pc + 3);
      COPY_SHORT (&def, pc + 5);
      tb_f (t, "switch type=%02x table=%04x-%04x default=%04x\n", ttype, stable, etable, def);
      ptrdiff_t body = pc - code + 7;
      if (!(body <= stable && stable <= etable && etable <= end_off)) {
        tb_problem (t, "switch at %04x: table bounds %04x-%04x outside %04x-%04x", (unsigned) (ip - code), stable, etable, (unsigned) body, (unsigned) end_off);
        return;
      }
      dis (t, prog, body, stable, depth + 1);
      tb_f (t, "      table of %04x:\n", (unsigned) (ip - code));
      char *q = code + stable, *qe = code + etable;
      if (ttype == 0xfe) {
        int k = 0;
        while (q + 2 <= qe - 4) { COPY_SHORT (&sarg, q); tb_f (t, "\t%d: %04x\n", k++, sarg); q += 2; }
        if (q + 4 <= qe) { COPY_INT (&iarg, q); tb_f (t, "\tminval %d\n", iarg); }
      } else if ((ttype >> 4) == 0xf) {
        while (q + SWITCH_CASE_SIZE <= qe) {
          intptr_t v;
          COPY_PTR (&v, q);
          COPY_SHORT (&sarg, q + sizeof (char *));
          tb_f (t, "\t%lld\t%04x\n", (long long) v, sarg);
          q += SWITCH_CASE_SIZE;
        }
      } else {
        int n = (int) ((qe - q) / SWITCH_CASE_SIZE), k = 0, unsorted = 0;
        sw_ent *e = calloc ((size_t) n + 1, sizeof *e);
        char *prev = 0;
        while (q + SWITCH_CASE_SIZE <= qe) {
          COPY_PTR (&e[k].s, q);
          COPY_SHORT (&e[k].addr, q + sizeof (char *));
          if (k && !(prev < e[k].s)) unsorted = 1;
          prev = e[k].s;
          if (e[k].s && in_string_table (prog, e[k].s) < 0) {
            tb_problem (t, "string switch at %04x: entry %d is not a pointer into the program's string table", (unsigned) (ip - code), k);
            e[k].s = "<foreign-pointer>";
          }
          k++;
          q += SWITCH_CASE_SIZE;
        }
        if (unsorted) tb_problem (t, "string switch at %04x: table not in ascending pointer order", (unsigned) (ip - code));
        qsort (e, (size_t) k, sizeof *e, swcmp);
        for (int j = 0; j < k; j++) { tb_put (t, "\t", 1); tb_str (t, e[j].s, -1); tb_f (t, "\t%04x\n", e[j].addr); }
        free (e);
      }
      pc = code + etable;
      continue;
    }
    case F_EFUNV:
      NEED (2);
      iarg = EXTRACT_UCHAR (pc++);
      instr = EXTRACT_UCHAR (pc++) + ONEARG_MAX;
      tb_f (t, "%s nargs=%d\n", query_opcode_name (instr), iarg);
      continue;
    case F_EFUN0: case F_EFUN1: case F_EFUN2: case F_EFUN3:
      NEED (1);
      iarg = instr - F_EFUN0;
      instr = EXTRACT_UCHAR (pc++) + ONEARG_MAX;
      tb_f (t, "%s nargs=%d\n", query_opcode_name (instr), iarg);
      continue;
    default:
      tb_f (t, "%s\n", query_opcode_name (instr));
      continue;
    }
  }
  if (pc != end) tb_problem (t, "disassembly of %04x-%04x ended at %04x", (unsigned) start, (unsigned) end_off, (unsigned) (pc - code));
}

static int addr_cmp (const void *a, const void *b) { return *(const int *) a - *(const int *) b; }

char *pd_dump (program_t *prog, int flags) {
  tb_t t = { 0, 0, 0 };
  problems = 0;
  tb_put (&t, "", 0);
  if (!prog) { tb_put (&t, "<no program>\n", 13); return t.b; }
  dump_tables (&t, prog, flags);
  if (!(flags & PD_NO_LINES)) dump_lines (&t, prog);
  if (!(flags & PD_NO_CODE)) {
    tb_put (&t, "[code]\n", 7);
    size_t before = t.n;
    dis (&t, prog, 0, prog->program_size, 0);
    /* every locally defined function must start at an instruction boundary of the linear sweep */
    int nf = 0, *fa = calloc ((size_t) prog->num_functions_defined + 1, sizeof (int));
    for (int i = 0; i < prog->num_functions_defined; i++) {
      int ri = prog->function_table[i].runtime_index;
      if (ri < prog->num_functions_total && !(prog->function_flags[ri] & (NAME_INHERITED | NAME_NO_CODE))) fa[nf++] = prog->function_table[i].address;
    }
    qsort (fa, (size_t) nf, sizeof (int), addr_cmp);
    const char *scan = t.b + before;
    for (int i = 0; i < nf; i++) {
      char pat[16];
      snprintf (pat, sizeof pat, "\n%04x: ", (unsigned) fa[i]);
      if (!strstr (scan - 1, pat))
        tb_problem (&t, "function address %04x is not an instruction boundary", (unsigned) fa[i]);
    }
    free (fa);
  }
  return t.b;
}
