/* shared between h_c02.c (driver, oracles) and h_c02_sweep.c (size-sweep generators) */
#pragma once
#include <stddef.h>

typedef struct { unsigned char *b; size_t n, cap; } sb_t;
void sb_reset (sb_t *s);
void sb_put (sb_t *s, const void *p, size_t n);
void sb_puts (sb_t *s, const char *z);
void sb_printf (sb_t *s, const char *fmt, ...);

extern int c02_maxlocals;          /* num_local_variables_allowed of this run */
extern const char *c02_lib;        /* absolute path of the scratch mudlib */

/* size sweeps: prepares files in the scratch mudlib (called once in the parent before the driver is booted) */
void sweep_prepare (int thorough);
long sweep_total (void);
/* generates the source text of case idx into `out`; desc = printable description; returns expectation:
 *  +1 must compile, -1 must be rejected with an error, 0 either */
int sweep_gen (long idx, sb_t *out, char *desc, size_t dlen);
/* measures the filler statements of the code-size family; size_of compiles a text and returns program_size (or -1) */
void sweep_calibrate (int (*size_of) (const unsigned char *, size_t));
int sweep_calibration_export (int *v, int max);
void sweep_calibration_import (const int *v, int n);
/* cases with a history: text compiled just before the case (returns 0 = none); index of the case whose outcome this one must equal (-1 none);
 * 1 = the case must start from the locals tables of a freshly booted driver */
int sweep_prev (long idx, sb_t *out, char *desc, size_t dlen);
long sweep_ref (long idx);
int sweep_fresh (long idx);
int sweep_mode (long idx);
