/* C03 — compiled bytecode computes what LPC semantics define.
 *
 * Enumeration harness (E2): element i is the generated unit <dir>/u<i>.c (many small functions,
 * written by gen/lpcgen.py; <dir> is a scratch mudlib).  The unit is compiled by the real compiler, every
 * entry function is called through a driver-style apply with the arguments listed in its marker line,
 * and one line per entry is written to <dir>/u<i>.out:
 *
 *      name \t V \t canonical text of the returned value
 *      name \t E \t text of the runtime error
 *      name \t C \t first compile diagnostic (entry compiled alone after the whole unit failed)
 *
 * The verdicts (sibling agreement, reference evaluator) are computed by checks/C03.py from these lines.
 *
 * Unit format:   text before the first "//@ " line = prelude (globals, macros, inherit, helpers)
 *                //@ <entry-name> [arg ...]      starts a block; arg = i<dec> | f<strtod text> | s<hex bytes>
 */
#include "hx.h"
#include <sys/stat.h>

#define MAXENT 4000
typedef struct { char name[48]; char args[400]; long start, end; } entry;

static char dir[PATH_MAX];
static long nfiles, start_at, only_one, force_split;
static char *text; static long tlen, prelude_end;
static entry ent[MAXENT]; static int nent;

static int read_unit (long idx) {
  char p[PATH_MAX + 32];
  snprintf (p, sizeof p, "%s/u%05ld.c", dir, idx);
  FILE *f = fopen (p, "rb");
  if (!f) return 0;
  fseek (f, 0, SEEK_END); tlen = ftell (f); fseek (f, 0, SEEK_SET);
  free (text);
  text = malloc ((size_t) tlen + 2);
  if (fread (text, 1, (size_t) tlen, f) != (size_t) tlen) { fclose (f); return 0; }
  fclose (f);
  text[tlen] = 0;
  nent = 0; prelude_end = -1;
  for (long i = 0; i < tlen;) {
    long e = i; while (e < tlen && text[e] != '\n') e++;
    if (!strncmp (text + i, "//@ ", 4)) {
      if (prelude_end < 0) prelude_end = i;
      if (nent) ent[nent - 1].end = i;
      if (nent >= MAXENT) return 0;
      entry *en = &ent[nent++];
      long k = i + 4, n = 0;
      while (k < e && text[k] != ' ' && n < (long) sizeof en->name - 1) en->name[n++] = text[k++];
      en->name[n] = 0;
      while (k < e && text[k] == ' ') k++;
      n = e - k; if (n > (long) sizeof en->args - 1) n = sizeof en->args - 1;
      memcpy (en->args, text + k, (size_t) n); en->args[n] = 0;
      en->start = i; en->end = tlen;
    }
    i = e + 1;
  }
  if (prelude_end < 0) prelude_end = tlen;
  return 1;
}

static int hexv (int c) { return c <= '9' ? c - '0' : (c | 32) - 'a' + 10; }

static int push_args (const char *a) {
  int n = 0;
  while (*a) {
    while (*a == ' ') a++;
    if (!*a) break;
    const char *e = a; while (*e && *e != ' ') e++;
    if (*a == 'i') push_number ((int64_t) strtoll (a + 1, 0, 10));
    else if (*a == 'f') push_real (strtod (a + 1, 0));
    else if (*a == 's') {
      size_t l = (size_t) (e - a - 1) / 2;
      char *s = malloc (l + 1);
      for (size_t i = 0; i < l; i++) s[i] = (char) (hexv (a[1 + 2 * i]) * 16 + hexv (a[2 + 2 * i]));
      s[l] = 0;
      copy_and_push_string (s);
      free (s);
    } else push_number (0);
    n++;
    a = e;
  }
  return n;
}

static void put_escaped (FILE *o, const char *s, int max) {
  for (int n = 0; *s && n < max; s++, n++) {
    if (*s == '\n') { if (!s[1]) break; fputs ("\\n", o); }
    else if (*s == '\t') fputs ("\\t", o);
    else if (*s == '\r') fputs ("\\r", o);
    else fputc (*s, o);
  }
}

static void first_compile_error (char *buf, size_t len) {
  snprintf (buf, len, "compile failed");
  svalue_t *r = safe_apply_master_ob ("take_cerrs", 0);
  if (!r || r == (svalue_t *) -1 || r->type != T_ARRAY) return;
  for (int i = 0; i < r->u.arr->size; i++) {
    svalue_t *s = &r->u.arr->item[i];
    if (s->type != T_STRING || strstr (s->u.string, "Warning:")) continue;
    snprintf (buf, len, "%s", s->u.string);
    return;
  }
}
static void drop_cerrs (void) { safe_apply_master_ob ("take_cerrs", 0); }

static void call_entry (FILE *o, object_t *ob, entry *en) {
  svalue_t *sp0 = sp;
  int n = push_args (en->args);
  svalue_t *r = hx_apply (ob, en->name, n);
  if (!r && sp > sp0) pop_n_elems ((int) (sp - sp0));   /* hx_apply leaves the pushed arguments behind after an error */
  fprintf (o, "%s\t", en->name);
  if (r) { fputs ("V\t", o); fputs (hx_canon_s (r), o); }
  else { fputs ("E\t", o); put_escaped (o, hx_last_error, 300); }
  fputc ('\n', o);
  fflush (o);
  vx_count (0, 1);
}

static void elem (long idx) {
  char p[PATH_MAX + 32], oname[64];
  if (!read_unit (idx)) { vx_fail ("C03:harness:unit-unreadable", "cannot read unit %ld in %s", idx, dir); return; }
  snprintf (p, sizeof p, "%s/u%05ld.out", dir, idx);
  FILE *o = fopen (p, start_at > 0 ? "a" : "w");
  if (!o) { vx_fail ("C03:harness:out-unwritable", "%s", p); return; }
  drop_cerrs ();
  snprintf (oname, sizeof oname, "/u%05ld.c", idx);
  object_t *ob = 0;
  if (!force_split) {
    /* a compiler crash on the whole unit must not be blamed on an entry: the resumed run compiles entry by entry */
    fputs ("#compiling\n", o); fflush (o);
    ob = hx_load (oname, 0);
    fputs ("#compiled\n", o); fflush (o);
  }
  if (ob) {
    drop_cerrs ();
    for (int k = (int) start_at; k < nent; k++) call_entry (o, ob, &ent[k]);
  } else {
    /* the unit does not compile as a whole: compile and run every block alone (prelude + block) */
    drop_cerrs ();
    vx_count (1, 1);
    for (int k = (int) start_at; k < nent; k++) {
      entry *en = &ent[k];
      size_t bl = (size_t) (en->end - en->start);
      char *one = malloc ((size_t) prelude_end + bl + 2);
      memcpy (one, text, (size_t) prelude_end);
      memcpy (one + prelude_end, text + en->start, bl);
      one[prelude_end + bl] = 0;
      snprintf (oname, sizeof oname, "/u%05ld_%d.c", idx, k);
      snprintf (p, sizeof p, "%s%s", dir, oname);
      FILE *tf = fopen (p, "wb");
      if (tf) { fwrite (one, 1, (size_t) prelude_end + bl, tf); fclose (tf); }
      free (one);
      object_t *o1 = hx_load (oname, 0);
      unlink (p);
      if (!o1) {
        char msg[600];
        first_compile_error (msg, sizeof msg);
        fprintf (o, "%s\tC\t", en->name); put_escaped (o, msg, 300); fputc ('\n', o);
        fflush (o);
        vx_count (2, 1);
      } else {
        drop_cerrs ();
        call_entry (o, o1, en);
      }
    }
  }
  fputs ("#done\n", o);
  fclose (o);
}

static void describe (long idx, char *buf, size_t len) { snprintf (buf, len, "unit %s/u%05ld.c", dir, idx); }
static void body (void) { elem (only_one); }

int main (int argc, char **argv) {
  vx_init_args (argc, argv);
  /* the unit directory is the mudlib: it holds copies of mudlib/c03/{master,simul_efun,base}.c and the units uNNNNN.c */
  snprintf (dir, sizeof dir, "%s", vx_opt ("dir", "/nonexistent"));
  nfiles = vx_opt_long ("nfiles", 0);
  start_at = vx_opt_long ("start", 0);
  only_one = vx_opt_long ("unit", 0);
  force_split = vx_opt_long ("split", 0);
  hx_boot (dir, "MaxArraySize 65535\nMaxMappingSize 65535\n", 0);
  vx_count_name (0, "functions_called");
  vx_count_name (1, "units_split_after_compile_error");
  vx_count_name (2, "entries_rejected_by_compiler");
  if (!hx_load ("/base", 0)) { fprintf (stderr, "cannot load /base: %s\n", hx_last_error); return 2; }
  vx_set_enum (nfiles, elem, describe);
  return vx_run (argc, argv, body);
}
