/* h_netloop.h — helpers shared by the C09 and C12 harnesses (both run the real backend() on env/net.c).
 * Everything is static: each harness is one TU. */
#pragma once
#include "hx.h"
#include "net.h"
#include "src/comm.h"
#include "src/main.h"
#include "src/stem.h"
#include <elf.h>
#include <link.h>
#include <sys/mman.h>
#include <sys/stat.h>

/* ------------------------------------------------------------------ address of a function-local static, by symbol name
 * (read-only observation: e.g. "s_next_user." of get_user_command() in comm.c).  Returns 0 if absent or ambiguous. */
static int nl_phdr_cb (struct dl_phdr_info *info, size_t size, void *data) {
  (void) size;
  if (!*(uintptr_t *) data && (!info->dlpi_name || !info->dlpi_name[0])) *(uintptr_t *) data = (uintptr_t) info->dlpi_addr + 1;
  return 0;
}
static void *nl_static_addr (const char *prefix) {
  uintptr_t base1 = 0;
  dl_iterate_phdr (nl_phdr_cb, &base1);
  uintptr_t base = base1 ? base1 - 1 : 0;
  int fd = open ("/proc/self/exe", O_RDONLY);
  if (fd < 0) return 0;
  struct stat st;
  if (fstat (fd, &st)) { close (fd); return 0; }
  unsigned char *m = mmap (0, (size_t) st.st_size, PROT_READ, MAP_PRIVATE, fd, 0);
  close (fd);
  if (m == MAP_FAILED) return 0;
  Elf64_Ehdr *eh = (Elf64_Ehdr *) m;
  Elf64_Shdr *sh = (Elf64_Shdr *) (m + eh->e_shoff);
  void *found = 0; int nfound = 0;
  size_t pl = strlen (prefix);
  for (int i = 0; i < eh->e_shnum; i++) {
    if (sh[i].sh_type != SHT_SYMTAB) continue;
    Elf64_Sym *sym = (Elf64_Sym *) (m + sh[i].sh_offset);
    size_t n = sh[i].sh_size / sizeof (Elf64_Sym);
    const char *str = (const char *) (m + sh[sh[i].sh_link].sh_offset);
    for (size_t k = 0; k < n; k++) {
      const char *nm = str + sym[k].st_name;
      if (ELF64_ST_TYPE (sym[k].st_info) != STT_OBJECT) continue;
      if (strncmp (nm, prefix, pl)) continue;
      if (nm[pl] && nm[pl] != '.') continue;
      found = (void *) (base + sym[k].st_value); nfound++;
    }
  }
  munmap (m, (size_t) st.st_size);
  return nfound == 1 ? found : 0;
}

/* ------------------------------------------------------------------ the child's stderr (a memfd installed by vx): debug log + "@@" lines */
static off_t nl_log_pos;
typedef void (*nl_line_fn) (const char *line);
/* calls fn for every complete line written to fd 2 since the last call */
static void nl_drain_log (nl_line_fn fn) {
  static char *buf; static size_t cap;
  off_t end = lseek (2, 0, SEEK_END);
  if (end <= nl_log_pos) return;
  size_t n = (size_t) (end - nl_log_pos);
  if (n + 1 > cap) { cap = n + 4096; buf = realloc (buf, cap); }
  ssize_t r = pread (2, buf, n, nl_log_pos);
  if (r <= 0) return;
  buf[r] = 0;
  char *p = buf;
  for (;;) {
    char *nl = strchr (p, '\n');
    if (!nl) break;             /* incomplete last line stays for the next call */
    *nl = 0;
    fn (p);
    p = nl + 1;
  }
  nl_log_pos += p - buf;
}

/* ------------------------------------------------------------------ connection table helpers */
static int nl_slot_of (interactive_t *ip) {
  if (!all_users || !ip) return -1;
  for (int i = 0; i < max_users; i++) if (all_users[i] == ip) return i;
  return -1;
}
static int nl_slot_of_fd (int fd) {
  if (!all_users) return -1;
  for (int i = 1; i < max_users; i++) if (all_users[i] && all_users[i]->fd == fd) return i;
  return -1;
}
static int nl_client_live (env_cli *c) { return c->used && c->accepted && !c->driver_closed; }
static int nl_out_contains (env_cli *c, size_t from, const char *needle) {
  if (from > c->out_len) return 0;
  return memmem (c->out + from, c->out_len - from, needle, strlen (needle)) != 0;
}

/* master policy (data) */
static void nl_policy_s (const char *k, const char *v) {
  push_constant_string ((char *) k); push_constant_string ((char *) v);
  safe_apply_master_ob ("set_policy", 2);
}
static void nl_policy_i (const char *k, long v) {
  push_constant_string ((char *) k); push_number (v);
  safe_apply_master_ob ("set_policy", 2);
}

/* load the sanitizer's symbolizer tables once in the parent: every forked child that has to print a report
 * inherits them instead of parsing the debug information again (a crash path costs ~150 ms otherwise) */
extern int __sanitizer_symbolize_pc (void *pc, const char *fmt, char *out, size_t len) __attribute__ ((weak));
static void nl_warm_symbolizer (void) {
  char b[512];
  if (__sanitizer_symbolize_pc) {
    __sanitizer_symbolize_pc ((void *) ((char *) backend + 8), "%f %s:%l", b, sizeof b);
    __sanitizer_symbolize_pc ((void *) ((char *) process_io + 8), "%f %s:%l", b, sizeof b);
  }
}
