/* c19_tsan.h — turn ThreadSanitizer reports found in this process's stderr (the vx memfd) into
 * finding keys "tsan:<kind>:<access>@<file>:<function>|<access>@<file>:<function>" (pair of access
 * sites = first repo frame of each of the two stacks, sorted).  Included by the free-running C19 harnesses. */
#pragma once
#include <stdio.h>
#include <stdlib.h>
#include <string.h>
#include <unistd.h>
#include "vx.h"
static const char *c19_tsan_what = "";
static int c19_tsan_variant;
static const char *repo_pfx (void) { const char *p = getenv ("VX_REPO_PREFIX"); return p && *p ? p : "/repo/"; }
/* first frame of a stack that lies in the repo: "file.c:function" */
static void site_of (char *stack, char *out, size_t len) {
  snprintf (out, len, "?");
  for (char *l = stack; l && *l; ) {
    char *nl = strchr (l, '\n'); if (nl) *nl = 0;
    char *p = l; while (*p == ' ') p++;
    if (*p != '#') { if (nl) *nl = '\n'; break; }
    char fn[100] = "", path[300] = "";
    if (sscanf (p, "#%*d %99s %299s", fn, path) == 2 && !strncmp (path, repo_pfx (), strlen (repo_pfx ()))) {
      char *c = strchr (path, ':'); if (c) *c = 0;
      char *b = strrchr (path, '/');
      snprintf (out, len, "%s:%s", b ? b + 1 : path, fn);
      if (nl) *nl = '\n';
      return;
    }
    if (nl) { *nl = '\n'; l = nl + 1; } else break;
  }
}
static void scan_tsan (off_t from) {
  off_t end = lseek (2, 0, SEEK_END);
  if (end <= from) return;
  size_t n = (size_t) (end - from);
  char *buf = malloc (n + 1);
  ssize_t r = pread (2, buf, n, from);
  if (r <= 0) { free (buf); return; }
  buf[r] = 0;
  for (char *w = strstr (buf, "WARNING: ThreadSanitizer: "); w; ) {
    char *next = strstr (w + 10, "WARNING: ThreadSanitizer: ");
    if (next) next[-1] = 0;
    char kind[60]; size_t kl = strcspn (w + 26, "(\n"); if (kl >= sizeof kind) kl = sizeof kind - 1;
    memcpy (kind, w + 26, kl); kind[kl] = 0;
    while (kl && kind[kl - 1] == ' ') kind[--kl] = 0;
    for (char *q = kind; *q; q++) if (*q == ' ') *q = '-';
    char s1[200] = "?", s2[200] = "?", a1[12] = "", a2[12] = "";
    /* first access: line after the "WARNING" line; second: after "Previous ..." */
    char *l1 = strchr (w, '\n');
    if (l1) {
      l1++;
      while (*l1 == ' ') l1++;
      sscanf (l1, "%11s", a1);
      char *st = strchr (l1, '\n'); if (st) { char *cp = strdup (st + 1); site_of (cp, s1, sizeof s1); free (cp); }
    }
    char *pv = strstr (w, "Previous ");
    if (pv) {
      sscanf (pv + 9, "%11s", a2);
      char *st = strchr (pv, '\n'); if (st) { char *cp = strdup (st + 1); site_of (cp, s2, sizeof s2); free (cp); }
    }
    for (char *q = a1; *q; q++) if (*q >= 'A' && *q <= 'Z') *q += 32;
    char k1[230], k2[230], key[220];
    snprintf (k1, sizeof k1, "%s@%s", a1, s1); snprintf (k2, sizeof k2, "%s@%s", a2, s2);
    if (strcmp (k1, k2) > 0) { char t[230]; strcpy (t, k1); strcpy (k1, k2); strcpy (k2, t); }
    if (!strcmp (s1, "?") && !strcmp (s2, "?")) { w = next; continue; }        /* no repo frame on either side: the harness's own accesses */
    snprintf (key, sizeof key, "tsan:%s:%s|%s", kind, k1, k2);
    char first[400]; size_t fl = strcspn (w, "\n"); if (fl >= sizeof first) fl = sizeof first - 1; memcpy (first, w, fl); first[fl] = 0;
    vx_fail (key, "%s ; sites: %s vs %s (free-running %s variant %d)", first, k1, k2, c19_tsan_what, c19_tsan_variant);
    w = next;
  }
  free (buf);
}
