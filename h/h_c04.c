/* C04 — every evaluation is bounded by the configured limits.
 * E2 + H1: one harness boot per limit configuration (--conf=E,D,K,A,S,B); every program of the corpus (loop forms x
 * bodies, recursion through every call mechanism, catch nestings, value builders in doubling / +1 loops, refused-then-
 * used containers) is run once under a hook that watches instruction count, call depth, value stack height and the size
 * of the value on top of the stack at every instruction boundary; afterwards every value reachable from the object's
 * variables and the return value is measured, and "a limit error was raised but code after the outermost catch ran"
 * is reported as catch having swallowed it. */
#include "h_vmerr.h"
#include "efuns_opcode.h"

extern int vw_nerrors, vw_limit_mask;
extern char vw_last_error_text[200], vw_first_limit_text[120];
extern void vw_reset_errors (void);

static long E, D, K, A, S, B, M;       /* the configuration (M = MaxMappingSize, default = A) */
static const char *master_mode = "plain";
static int selftest;

/* ------------------------------------------------------------------ corpus */
typedef struct { char name[96]; char kind; char *text; } prog_t;   /* kind: L limit delivery, V value builder, R refused-then-used */
static prog_t *progs; static long nprogs;

static char *subst_limits (const char *t) {
  size_t cap = strlen (t) * 2 + 4096, n = 0;
  char *o = malloc (cap);
  for (; *t; t++) {
    if (n + 64 > cap) { cap *= 2; o = realloc (o, cap); }
    if (t[0] == '@' && strchr ("EDKAMSB", t[1])) {
      long v = t[1] == 'E' ? E : t[1] == 'D' ? D : t[1] == 'K' ? K : t[1] == 'A' ? A : t[1] == 'M' ? M : t[1] == 'S' ? S : B;
      n += (size_t) sprintf (o + n, "%ld", v);
      t++;
    } else o[n++] = *t;
  }
  o[n] = 0;
  return o;
}

static const char *PRELUDE =
  "int flag; mixed gv; mixed gw; mixed *one = ({ 1 }); mixed *two = ({ 2, 1 });\n"
  "void on_clone();\n"
  "void create() { seteuid(getuid()); if (clonep() && function_exists(\"on_clone\", this_object())) on_clone(); }\n"
  "int query_flag() { return flag; }\n"
  "int nop() { return 1; }\n"
  "int cb(mixed a, mixed b) { return 1; }\n"
  "void spin() { while (1) ; }\n"
  "int bad() { return 1 / flag; }\n";
static const char *RUN =
  "mixed run() { mixed e = catch(body()); flag = 1; return e; }\n";

static void add_prog (char kind, const char *name, const char *helpers, const char *body) {
  progs = realloc (progs, (size_t) (nprogs + 1) * sizeof *progs);
  prog_t *p = &progs[nprogs++];
  snprintf (p->name, sizeof p->name, "%s", name);
  p->kind = kind;
  size_t len = strlen (PRELUDE) + strlen (helpers) + strlen (body) + strlen (RUN) + 200;
  char *t = malloc (len);
  snprintf (t, len, "%s%s\nvoid body() {\n%s\n}\n%s", PRELUDE, helpers, body, RUN);
  p->text = subst_limits (t);
  free (t);
}

static void build_corpus (void) {
  char name[120], body[4000], helpers[3000];
  /* ---- loops: every loop form x body */
  static const char *lf_name[] = { "while(1)", "for(;;)", "do-while(1)", "while(i--)", "for-i<const", "for-i<local", "foreach-nested", "foreach-mapping" };
  static const char *lf[] = {
    "  while (1) { %s }", "  for (;;) { %s }", "  do { %s } while (1);", "  i = 1000000; while (i--) { %s }",
    "  for (i = 0; i < 1000000; i++) { %s }", "  n = 1000000; for (i = 0; i < n; i++) { %s }",
    "  big = allocate(@A); foreach (x in big) foreach (y in big) foreach (z in big) foreach (w in big) { %s }",
    "  m = ([ 1:1, 2:2, 3:3, 4:4, 5:5, 6:6, 7:7, 8:8 ]); foreach (x, y in m) foreach (z, w in m) foreach (x, y in m) foreach (z, w in m) { %s }" };
  static const char *lb_name[] = { "empty", "call", "catch-expr", "catch-block", "efun-callback", "catch-of-loop", "call_other",
                                   /* a REAL run-time error caught in every iteration (the error path runs the master's error_handler() each time) */
                                   "catch-of-division-by-zero", "catch-of-error()", "catch-of-index-out-of-bounds", "catch-of-call_other-on-0", "catch-of-error-in-callee",
                                   "catch-block-of-bad-operand", "catch-of-sprintf-error", "catch-of-throw", "catch-of-catch-of-division-by-zero", "catch-of-error-in-efun-callback",
                                   "catch-of-failing-load" };
  static const char *lb[] = { ";", "nop();", "catch(nop());", "catch { nop(); };", "filter(one, (: cb :));", "catch(spin());", "this_object()->nop();",
                              "catch(1 / flag);", "catch(error(\"x\"));", "catch(one[3]);", "catch(call_other(flag, \"nop\"));", "catch(bad());",
                              "catch { gv = 1; gw = gv + one; };", "catch(sprintf(\"%d\", \"x\"));", "catch(throw(1));", "catch(catch(1 / flag));", "catch(filter(one, (: bad :)));",
                              "catch(load_object(\"/c04/no-such-file\"));" };
  for (unsigned f = 0; f < sizeof lf / sizeof *lf; f++)
    for (unsigned b = 0; b < sizeof lb / sizeof *lb; b++) {
      char loop[1200];
      snprintf (loop, sizeof loop, lf[f], lb[b]);
      snprintf (body, sizeof body, "  int i, n; mixed x, y, z, w; mixed *big; mapping m;\n%s", loop);
      snprintf (name, sizeof name, "loop:%s:%s", lf_name[f], lb_name[b]);
      add_prog ('L', name, "", body);
    }
  /* ---- a master apply made by an efun spends the whole budget (policy "burn"): the evaluation that called the efun must end there,
   * whether the driver safe_apply()s that master function or not, at every depth of the calling code (the function the driver
   * calls itself = first control frame, one call deeper, below run()'s catch) */
  {
    static const struct { const char *apply, *call; } ma[] = {
      { "object_name", "gv = sprintf(\"%O\", this_object());" }, { "valid_read", "gv = read_file(\"/c04/big.txt\", 1, 1);" },
      { "valid_write", "gv = write_file(\"/c04/out.tmp\", \"x\", 1);" }, { "valid_seteuid", "gv = seteuid(getuid());" },
      { "creator_file", "gv = new(\"/c04/p\");" }, { "valid_object", "gv = load_object(\"/c04/lo\");" }, { "valid_bind", "gv = bind((: nop :), this_object());" } };
    static const struct { const char *name, *fmt; } form[] = {
      { "loop", "  master()->set_policy(\"burn\", \"%s\");\n  while (1) { %s }" },
      { "loop-of-catch", "  master()->set_policy(\"burn\", \"%s\");\n  while (1) { catch { %s }; }" },
      { "once-then-loop", "  master()->set_policy(\"burn\", \"%s\");\n  %s\n  master()->set_policy(\"burn\", 0);\n  while (1) ;" },
      { "once-in-catch-then-loop", "  master()->set_policy(\"burn\", \"%s\");\n  catch { %s };\n  master()->set_policy(\"burn\", 0);\n  while (1) ;" } };
    for (unsigned a = 0; a < sizeof ma / sizeof *ma; a++)
      for (unsigned f = 0; f < sizeof form / sizeof *form; f++)
        for (int depth = 0; depth < 3; depth++) {
          char inner[900];
          snprintf (inner, sizeof inner, form[f].fmt, ma[a].apply, ma[a].call);
          if (depth == 1) { snprintf (helpers, sizeof helpers, "void lp() {\n%s\n}", inner); snprintf (body, sizeof body, "  lp();"); }
          else { helpers[0] = 0; snprintf (body, sizeof body, "%s", inner); }
          snprintf (name, sizeof name, "master-burn:%s:%s:%s", ma[a].apply, form[f].name, depth == 0 ? "first-frame:entry=body" : depth == 1 ? "second-frame:entry=body" : "below-catch");
          add_prog ('L', name, helpers, body);
        }
  }
  /* ---- catch nestings around an endless loop / endless recursion */
  add_prog ('L', "catch:catch(loop)", "", "  catch(spin());");
  add_prog ('L', "catch:catch(catch(loop))", "", "  catch(catch(spin()));");
  add_prog ('L', "catch:catch(catch(catch(loop)))", "", "  catch(catch(catch(spin())));");
  add_prog ('L', "catch:catch-block{loop}", "", "  catch { while (1) ; };");
  add_prog ('L', "catch:loop-then-more", "", "  mixed e = catch(spin()); gv = e; while (1) ;");
  add_prog ('L', "catch:while(1)catch(catch(loop))", "", "  while (1) catch(catch(spin()));");
  /* ---- recursion through every call mechanism */
  struct { const char *name, *helpers, *body; } rec[] = {
    { "direct", "int f() { return f() + 1; }", "  f();" },
    { "mutual", "int g(); int f() { return g() + 1; } int g() { return f() + 1; }", "  f();" },
    { "3-cycle", "int g(); int h(); int f() { return g() + 1; } int g() { return h() + 1; } int h() { return f() + 1; }", "  f();" },
    { "local-funptr", "int f() { return evaluate((: f :)) + 1; }", "  f();" },
    { "functional", "int f() { return evaluate((: f() + $1 :), 1); }", "  f();" },
    { "anonymous-function", "int f() { return evaluate(function(int a) { return f() + a; }, 1); }", "  f();" },
    { "efun-funptr", "int f() { return evaluate((: call_other, this_object(), \"f\" :)) + 1; }", "  f();" },
    { "bound-funptr", "int f(mixed a) { return evaluate((: f, ({ a }) :)) + 1; }", "  f(1);" },
    { "bound-funptr-12-args", "int f(mixed a, mixed b, mixed c, mixed d, mixed e, mixed g, mixed h, mixed i, mixed j, mixed k, mixed l, mixed m) { return evaluate((: f, a, b, c, d, e, g, h, i, j, k, l, m :)) + 1; }", "  f(1,2,3,4,5,6,7,8,9,10,11,12);" },
    { "call_other", "int f() { return this_object()->f() + 1; }", "  f();" },
    { "simul_efun", "int f() { return vm_relay(this_object(), \"f\") + 1; }", "  f();" },
    { "filter", "int f(mixed x) { filter(one, (: f :)); return 1; }", "  f(1);" },
    { "filter-by-name", "int f(mixed x) { filter(one, \"f\", this_object()); return 1; }", "  f(1);" },
    { "filter-mapping", "int f(mixed x, mixed y) { filter(([ 1:1 ]), (: f :)); return 1; }", "  f(1, 1);" },
    { "map-array", "int f(mixed x) { map(one, (: f :)); return 1; }", "  f(1);" },
    { "map-mapping", "int f(mixed x, mixed y) { map(([ 1:1 ]), (: f :)); return 1; }", "  f(1, 1);" },
    { "map-string", "int f(mixed x) { map(\"a\", (: f :)); return 65; }", "  f(1);" },
    { "sort_array", "int f(mixed x, mixed y) { sort_array(two, (: f :)); return 1; }", "  f(1, 2);" },
    { "unique_array", "int f(mixed x) { unique_array(one, (: f :)); return 1; }", "  f(1);" },
    { "unique_mapping", "int f(mixed x) { unique_mapping(one, (: f :)); return 1; }", "  f(1);" },
    { "implode-function", "mixed f(mixed x, mixed y) { return implode(two, (: f :)); }", "  f(1, 2);" },
    { "catch", "int f() { catch(f()); return 1; }", "  f();" },
    { "catch(catch)", "int f() { catch(catch(f())); return 1; }", "  f();" },
    { "catch(catch(catch))", "int f() { catch(catch(catch(f()))); return 1; }", "  f();" },
    { "catch-in-loop", "int f() { while (1) catch(f()); return 1; }", "  f();" },
    { "create-of-clone", "int go; int query_go() { return go; } void set_go() { go = 1; }\nvoid on_clone() { if (\"/c04/p\"->query_go()) new(\"/c04/p\"); }", "  set_go(); new(\"/c04/p\");" },
    { "wide-frames", "int w(int d) { mixed a, b, c, e, f, g, h, i, j, k, l, m, n, o, p, q, r, s, t, u; return w(d + 1) + 1; }", "  w(0);" },
    { "many-arguments", "int w(mixed a, mixed b, mixed c, mixed d, mixed e, mixed f, mixed g, mixed h, mixed i, mixed j, mixed k, mixed l) { return w(a, b, c, d, e, f, g, h, i, j, k, l) + 1; }", "  w(1,2,3,4,5,6,7,8,9,10,11,12);" },
    { "varargs-spread", "int w(mixed *a...) { return w(a..., a...) + 1; }", "  w(1, 2);" },
  };
  for (unsigned i = 0; i < sizeof rec / sizeof *rec; i++) { snprintf (name, sizeof name, "recursion:%s", rec[i].name); add_prog ('L', name, rec[i].helpers, rec[i].body); }
  /* ---- wide expressions: many values pushed by one instruction / one expression */
  {
    char agg[3000]; size_t n;
    for (int kind = 0; kind < 4; kind++) {
      static const char *what[] = { "locals", "globals", "strings", "numbers" };
      static const char *item[] = { "a", "gv", "\"s\"", "7" };
      for (int cnt = 30; cnt <= 120; cnt *= 2) {
        n = 0; agg[0] = 0;
        for (int i = 0; i < cnt; i++) n += (size_t) snprintf (agg + n, sizeof agg - n, "%s%s", i ? "," : "", item[kind]);
        snprintf (body, sizeof body, "  mixed a = 1; gv = 2;\n  gw = sizeof(({ %s }));", agg);
        snprintf (name, sizeof name, "wide:aggregate-of-%d-%s", cnt, what[kind]);
        add_prog ('L', name, "", body);
        snprintf (body, sizeof body, "  mixed a = 1; gv = 2;\n  gw = va(%s);", agg);
        snprintf (name, sizeof name, "wide:call-with-%d-%s", cnt, what[kind]);
        add_prog ('L', name, "int va(mixed *a...) { return sizeof(a); }", body);
      }
    }
  }
  /* ---- argument lists merged by the driver: call_other(ob, ({ "fn", args... })) and bound funptr arguments */
  for (int cnt = 15; cnt <= 120; cnt *= 2) {
    char agg[1500]; size_t n = 0;
    for (int i = 0; i < cnt; i++) n += (size_t) snprintf (agg + n, sizeof agg - n, ",%d", i);
    snprintf (body, sizeof body, "  gw = call_other(this_object(), ({ \"va\" %s }));", agg);
    snprintf (name, sizeof name, "wide:call_other-with-%d-args-in-array", cnt);
    add_prog ('L', name, "int va(mixed *a...) { return sizeof(a); }", body);
    snprintf (body, sizeof body, "  gw = call_other(({ this_object() }), ({ \"va\" %s }));", agg);
    snprintf (name, sizeof name, "wide:call_other-on-array-with-%d-args-in-array", cnt);
    add_prog ('L', name, "int va(mixed *a...) { return sizeof(a); }", body);
    snprintf (body, sizeof body, "  function f = (: va %s :);\n  gw = evaluate(f, 1, 2);", agg);
    snprintf (name, sizeof name, "wide:funptr-with-%d-bound-args", cnt);
    add_prog ('L', name, "int va(mixed *a...) { return sizeof(a); }", body);
    snprintf (body, sizeof body, "  function f = (: call_other, this_object(), \"va\" %s :);\n  gw = evaluate(f, 1, 2);", agg);
    snprintf (name, sizeof name, "wide:efun-funptr-with-%d-bound-args", cnt);
    add_prog ('L', name, "int va(mixed *a...) { return sizeof(a); }", body);
  }
  /* ---- the value stack filled to within a few slots of StackSize by temporaries of ONE expression (no frames needed), then a site
   * that reserves / pushes 10 values at once; every alignment around the end of the stack.  All of it runs inside run()'s catch. */
  {
    static const char *site_name[] = { "callee-with-10-locals", "F_PUSH-10-locals", "spread-10", "call_other-array-args-10", "bound-funptr-10-args",
                                       "efun-callback-10-extra-args", "call_other-on-array-10-args", "aggregate-10-numbers", "catch-of-callee-with-10-locals",
                                       "catch-of-spread-10" };
    static const char *site_expr[] = { "w10()", "va(a, a, a, a, a, a, a, a, a, a)", "va(ten...)", "call_other(this_object(), ({ \"va\" }) + ten)", "evaluate(f10)",
                                       "sizeof(filter(one, (: cb10 :), 1, 2, 3, 4, 5, 6, 7, 8, 9, 10))", "sizeof(call_other(({ this_object() }), \"va\", a, a, a, a, a, a, a, a, a, a))",
                                       "sizeof(({ 1, 2, 3, 4, 5, 6, 7, 8, 9, 10 }))", "sizeof(({ catch(w10()) }))", "sizeof(({ catch(va(ten...)) }))" };
    static const char *site_helpers = "int va(mixed *a...) { return sizeof(a); }\nint pad(mixed *a...) { return sizeof(a); }\nint w10() { mixed b, c, d, e, f, g, h, i, j, k; return 1; }\n"
      "mixed *ten = ({ 1, 2, 3, 4, 5, 6, 7, 8, 9, 10 });\nfunction f10 = (: va, 1, 2, 3, 4, 5, 6, 7, 8, 9, 10 :);\n"
      "int cb10(mixed x, mixed b, mixed c, mixed d, mixed e, mixed f, mixed g, mixed h, mixed i, mixed j, mixed k) { return 1; }\n";
    for (unsigned st = 0; A >= 10 && st < sizeof site_name / sizeof *site_name; st++)   /* the helpers need arrays of 10 */
      for (int off = -12; off <= 16; off++) {
        int pad = (int) K - 5 - 10 - 4 + off;
        if (pad < 1) continue;
        char padding[1200]; size_t n = 0;
        for (int i = 0; i < pad && n + 8 < sizeof padding; i++) n += (size_t) snprintf (padding + n, sizeof padding - n, "7, ");
        /* (a big literal aggregate is compiled piecewise; the arguments of a call are really all on the stack) */
        snprintf (body, sizeof body, "  mixed a = 1;\n  gw = pad(%s%s);", padding, site_expr[st]);
        snprintf (name, sizeof name, "stack-edge:%s:pad%+d", site_name[st], off);
        add_prog ('L', name, site_helpers, body);
      }
  }
  /* ---- endless recursion through catch started one and two frames deeper (which of push_control_stack() / save_context() in
   * do_catch() meets the depth limit depends on the parity) */
  add_prog ('L', "recursion:catch:+1-frame", "int f() { catch(f()); return 1; }\nint h1() { return f(); }", "  h1();");
  add_prog ('L', "recursion:catch:+2-frames", "int f() { catch(f()); return 1; }\nint h1() { return f(); }\nint h2() { return h1(); }", "  h2();");
  add_prog ('L', "recursion:catch-block:+1-frame", "int f() { catch { f(); }; return 1; }\nint h1() { return f(); }", "  h1();");
  add_prog ('L', "recursion:catch(catch):+1-frame", "int f() { catch(catch(f())); return 1; }\nint h1() { return f(); }", "  h1();");
  add_prog ('L', "recursion:wide-frames-in-catch", "int w(int d) { mixed a, b, c, e, f, g, h, i, j, k, l, m, n, o, p, q, r, s, t, u; catch(w(d + 1)); return 1; }", "  w(0);");
  add_prog ('L', "recursion:wide-frames-in-catch:+1-frame", "int w(int d) { mixed a, b, c, e, f, g, h, i, j, k, l, m, n, o, p, q, r, s, t, u; catch(w(d + 1)); return 1; }\nint h1() { return w(0); }", "  h1();");
  add_prog ('L', "recursion:spread-in-catch", "int w(mixed *a...) { catch(w(a..., a...)); return 1; }", "  w(1, 2);");
  add_prog ('L', "recursion:catch(f(allocate(N)...))", "int va(mixed *a...) { return sizeof(a); }", "  catch(va(allocate(@A)...));\n  catch(va(allocate(@A)..., allocate(@A)...));");
  /* ---- value builders: doubling loop, +1 loop, each step inside a catch ("refused, then used normally") and not */
  struct { const char *name, *init, *step; } vb[] = {
    { "string:v=v+v", "\"ab\"", "v = v + v;" },
    { "string:v+=v", "\"ab\"", "v += v;" },
    { "string:v+=\"x\"", "repeat_string(\"a\", @S - 3)", "v += \"x\";" },
    { "string:v=v+\"x\"", "repeat_string(\"a\", @S - 3)", "v = v + \"x\";" },
    { "string:v=\"x\"+v", "repeat_string(\"a\", @S - 3)", "v = \"x\" + v;" },
    { "string:v=v+int", "repeat_string(\"a\", @S - 8)", "v = v + 12345;" },
    { "string:v=int+v", "repeat_string(\"a\", @S - 8)", "v = 12345 + v;" },
    { "string:v+=int", "repeat_string(\"a\", @S - 8)", "v += 12345;" },
    { "string:v=v+float", "repeat_string(\"a\", @S - 8)", "v = v + 1.5;" },
    { "string:gv=gv+gv(global)", "\"ab\"", "gv = v; gv = gv + gv; v = gv;" },
    { "string:repeat_string", "\"ab\"", "v = repeat_string(v, 2);" },
    { "string:repeat_string-big", "\"ab\"", "v = repeat_string(\"ab\", 1 + strlen(v));" },
    { "string:replace_string", "\"aa\"", "v = replace_string(v, \"a\", \"aa\");" },
    { "string:sprintf-%s%s", "\"ab\"", "v = sprintf(\"%s%s\", v, v);" },
    { "string:sprintf-pad", "\"ab\"", "v = sprintf(\"%\" + (strlen(v) * 2) + \"s\", v);" },
    { "string:sprintf-pad-star", "\"ab\"", "v = sprintf(\"%*s\", strlen(v) * 2, v);" },
    { "string:implode", "\"ab\"", "v = implode(({ v, v }), \"\");" },
    { "string:implode-many", "\"ab\"", "v = implode(explode(repeat_string(\"xy,\", strlen(v)), \",\"), \"\");" },
    { "string:range-assign", "\"ab\"", "w = v; v[0..0] = w;" },
    { "string:read_bytes", "\"ab\"", "v = read_bytes(\"/c04/big.txt\", 0, strlen(v) * 2);" },
    { "string:read_file", "\"ab\"", "v = read_file(\"/c04/big.txt\", 1, strlen(v));" },
    { "string:upper+lower", "\"ab\"", "v = upper_case(v) + lower_case(v);" },
    { "string:capitalize(v+v)", "\"ab\"", "v = capitalize(v + v);" },
    { "string:save_variable", "\"ab\"", "v = save_variable(({ v, v }));" },
    { "string:array-of-string+=", "({ \"ab\" })", "v[0] += v[0];" },
    { "string:mapping-of-string+=", "([ 1 : \"ab\" ])", "v[1] += v[1];" },
    { "array:v=v+v", "({ 1, 2 })", "v = v + v;" },
    { "array:v+=v", "({ 1, 2 })", "v += v;" },
    { "array:v+=({1})", "allocate(@A - 3)", "v += ({ 1 });" },
    { "array:v=v+({1})", "allocate(@A - 3)", "v = v + ({ 1 });" },
    { "array:allocate", "({ 1, 2 })", "v = allocate(sizeof(v) * 2);" },
    { "array:allocate+allocate", "({ 1, 2 })", "v = allocate(sizeof(v)) + allocate(sizeof(v));" },
    { "array:explode", "({ 1, 2 })", "v = explode(repeat_string(\"a,\", sizeof(v) * 2), \",\");" },
    { "array:explode-chars", "({ 1, 2 })", "v = explode(repeat_string(\"a\", sizeof(v) * 2), \"\");" },
    { "array:range-assign", "({ 1, 2 })", "w = v; v[0..0] = w;" },
    { "array:map", "({ 1, 2 })", "v = map(v, (: ({ $1, $1 }) :)); v = v[0] + v[sizeof(v) - 1] + v[0] + v[sizeof(v) - 1];" },
    { "array:filter(v+v)", "({ 1, 2 })", "v = filter(v + v, (: 1 :));" },
    { "array:sort_array(v+v)", "({ 1, 2 })", "v = sort_array(v + v, 1);" },
    { "array:keys", "({ 1, 2 })", "w = ([]); for (j = 0; j < sizeof(v) * 2; j++) w[j] = 1; v = keys(w);" },
    { "array:values", "({ 1, 2 })", "w = ([]); for (j = 0; j < sizeof(v) * 2; j++) w[j] = 1; v = values(w);" },
    { "array:copy+copy", "({ 1, 2 })", "v = copy(v) + copy(v);" },
    { "array:unique_array", "({ 1, 2 })", "v = unique_array(v + v, (: $1 :)); v = v[0] + v[0] + v[0];" },
    { "array:regexp", "({ \"a\", \"b\" })", "v = regexp(v + v, \".\");" },
    { "array:call_other-array", "({ 1, 2 })", "n = sizeof(v) * 2; w = allocate(n); for (j = 0; j < n; j++) w[j] = this_object(); v = call_other(w, \"nop\");" },
    { "array:all_inventory", "({ 1, 2 })", "for (j = 0; j < sizeof(v); j++) new(\"/c04/p\")->move_to(this_object()); v = all_inventory(this_object());" },
    { "array:children", "({ 1, 2 })", "for (j = 0; j < sizeof(v); j++) new(\"/c04/p\"); v = children(\"/c04/p\");" },
    { "mapping:insert-by-index", "nearfull()", "v[sizeof(v)] = 1;" },
    { "mapping:v+=([k:1])", "nearfull()", "v += ([ sizeof(v) : 1 ]);" },
    { "mapping:v=v+([k:1])", "nearfull()", "v = v + ([ sizeof(v) : 1 ]);" },
    { "mapping:v=v+shifted(v)", "([ 0 : 0 ])", "w = ([]); n = sizeof(v); foreach (x, y in v) w[x + n] = 1; v = v + w;" },
    { "mapping:v+=shifted(v)", "([ 0 : 0 ])", "w = ([]); n = sizeof(v); foreach (x, y in v) w[x + n] = 1; v += w;" },
    { "mapping:unique_mapping", "([ 0 : 0 ])", "w = ([]); n = sizeof(v) * 2; for (j = 0; j < n; j++) w[j] = 1; v = unique_mapping(keys(w), (: $1 :));" },
    { "mapping:map", "([ 0 : 0 ])", "w = ([]); n = sizeof(v); foreach (x, y in v) w[x + n] = 1; v = map(v + w, (: $2 :));" },
    { "mapping:allocate_mapping", "([ 0 : 0 ])", "w = allocate_mapping(sizeof(v) * 2); n = sizeof(v) * 2; for (j = 0; j < n; j++) w[j] = 1; v = w;" },
    { "mapping:restore_variable", "([ 0 : 0 ])", "w = ([]); n = sizeof(v) * 2; for (j = 0; j < n; j++) w[j] = 1; v = restore_variable(save_variable(w));" },
    { "mapping:v*w(compose)", "([ 0 : 0 ])", "w = ([]); n = sizeof(v) * 2; for (j = 0; j < n; j++) w[j] = j; v = w * w;" },
    /* self-append / self-add where the variable is the ONLY holder of the container (the driver has in-place fast paths for that);
     * the template stores gv = v after every step, so the other holder is dropped first */
    { "array:v+=v(sole-holder)", "({ 1, 2 })", "gv = 0; v += v;" },
    { "array:v=v+v(sole-holder)", "({ 1, 2 })", "gv = 0; v = v + v;" },
    { "array:v+=({1})(sole-holder)", "allocate(@A - 3)", "gv = 0; v += ({ 1 });" },
    { "array:v=v+({1})(sole-holder)", "allocate(@A - 3)", "gv = 0; v = v + ({ 1 });" },
    { "array:global+=global(sole-holder)", "({ 1, 2 })", "gv = 0; if (!i) gw = v; v = 0; gw += gw; v = gw; gw = 0;" },
    { "array:global=global+global(sole-holder)", "({ 1, 2 })", "gv = 0; if (!i) gw = v; v = 0; gw = gw + gw; v = gw; gw = 0;" },
    { "array:element+=element(sole-holder)", "({ ({ 1, 2 }) })", "gv = 0; v[0] += v[0];" },
    { "array:mapping-value+=itself(sole-holder)", "([ 1 : ({ 1, 2 }) ])", "gv = 0; v[1] += v[1];" },
    { "string:v+=v(sole-holder)", "\"ab\"", "gv = 0; v += v;" },
    { "string:v=v+v(sole-holder)", "\"ab\"", "gv = 0; v = v + v;" },
    { "string:v+=\"x\"(sole-holder)", "repeat_string(\"a\", @S - 3)", "gv = 0; v += \"x\";" },
    { "mapping:v+=v(sole-holder)", "nearfull()", "gv = 0; v += v;" },
    { "mapping:v+=shifted(v)(sole-holder)", "([ 0 : 0 ])", "gv = 0; w = ([]); n = sizeof(v); foreach (x, y in v) w[x + n] = 1; v += w; w = 0;" },
    { "mapping:v+=([k:1])(sole-holder)", "nearfull()", "gv = 0; v += ([ sizeof(v) : 1 ]);" },
    { "mapping:insert-by-index(sole-holder)", "nearfull()", "gv = 0; v[sizeof(v)] = 1;" },
    { "buffer:v+=v(sole-holder)", "allocate_buffer(2)", "gv = 0; v += v;" },
    { "buffer:v=v+v(sole-holder)", "allocate_buffer(2)", "gv = 0; v = v + v;" },
    /* string-producing paths of += whose left side is a number */
    { "string:int+=string", "repeat_string(\"a\", @S - 8)", "w = 12345678; w += v; v = w;" },
    { "string:float+=string", "repeat_string(\"a\", @S - 8)", "w = 1.5; w += v; v = w;" },
    { "string:int+=string(sole-holder)", "repeat_string(\"a\", @S - 8)", "gv = 0; w = 12345678; w += v; v = w; w = 0;" },
    { "string:global-int+=string", "repeat_string(\"a\", @S - 8)", "gw = 7; gw += v; v = gw; gw = 0;" },
    { "string:array-element-int+=string", "repeat_string(\"a\", @S - 8)", "w = ({ 7 }); w[0] += v; v = w[0];" },
    { "string:read_buffer(buffer)", "\"ab\"", "n = strlen(v) * 2; if (n > @B) n = @B; w = allocate_buffer(n); for (j = 0; j < n; j++) w[j] = 65; v = read_buffer(w);" },
    { "string:read_buffer(buffer,start,len)", "\"ab\"", "n = strlen(v) * 2; if (n > @B - 1) n = @B - 1; w = allocate_buffer(n + 1); for (j = 0; j <= n; j++) w[j] = 66; v = read_buffer(w, 1, n);" },
    { "string:set_bit", "\"\"", "v = set_bit(v, 6 * (strlen(v) + 1) * 2);" },
    { "string:strwrap", "repeat_string(\"ab \", (@S - 3) / 3)", "v = strwrap(v, 2, 2);" },
    { "array:restore_variable(text)", "({ 1, 2 })", "n = sizeof(v) * 2; w = \"({\"; for (j = 0; j < n; j++) w += \"1,\"; w += \"})\"; v = restore_variable(w);" },
    { "mapping:restore_variable(text)", "([ 0 : 0 ])", "n = sizeof(v) * 2; w = \"([\"; for (j = 0; j < n; j++) w += j + \":1,\"; w += \"])\"; v = restore_variable(w);" },
    { "mapping:unique_mapping(array)", "([ 0 : 0 ])", "n = sizeof(v) * 2; w = allocate(n); for (j = 0; j < n; j++) w[j] = j; v = unique_mapping(w, (: $1 :));" },
    { "mapping:unique_mapping(array,by-name)", "([ 0 : 0 ])", "n = sizeof(v) * 2; w = allocate(n); for (j = 0; j < n; j++) w[j] = j; v = unique_mapping(w, \"ident\", this_object());" },
    { "mapping:map(mapping-from-array-keys)", "([ 0 : 0 ])", "n = sizeof(v) * 2; w = ([]); for (j = 0; j < n; j++) w[j] = j; v = map(w, (: $2 :));" },
    { "mapping:filter(mapping)", "([ 0 : 0 ])", "n = sizeof(v) * 2; w = ([]); for (j = 0; j < n; j++) w[j] = j; v = filter(w, (: 1 :));" },
    { "mapping:copy", "([ 0 : 0 ])", "n = sizeof(v) * 2; w = ([]); for (j = 0; j < n; j++) w[j] = j; v = copy(w) + ([ n : 1 ]);" },
    { "array:unique_array(many-groups)", "({ 1, 2 })", "n = sizeof(v) * 2; w = allocate(n); for (j = 0; j < n; j++) w[j] = j; v = unique_array(w, (: $1 :));" },
    { "buffer:v=v+v", "allocate_buffer(2)", "v = v + v;" },
    { "buffer:v+=v", "allocate_buffer(2)", "v += v;" },
    { "buffer:allocate_buffer", "allocate_buffer(2)", "v = allocate_buffer(sizeof(v) * 2);" },
    { "buffer:range-assign", "allocate_buffer(2)", "w = v; v[0..0] = w;" },
    { "buffer:read_buffer", "allocate_buffer(2)", "v = read_buffer(\"/c04/big.txt\", 0, sizeof(v) * 2);" },
  };
  for (unsigned i = 0; i < sizeof vb / sizeof *vb; i++)
    for (int guarded = 0; guarded < 2; guarded++) {
      snprintf (body, sizeof body,
                "  mixed v = %s; mixed w, x, y; int i, j, n; mixed e;\n"
                "  for (i = 0; i < 9; i++) { %s%s%s gv = v; }\n  gw = sizeof(v);",
                vb[i].init, guarded ? "e = catch { " : "", vb[i].step, guarded ? " };" : "");
      snprintf (name, sizeof name, "build:%s:%s", vb[i].name, guarded ? "each-step-in-catch" : "plain");
      add_prog ('V', name, "void move_to(object o) { move_object(o); }\nmixed ident(mixed x) { return x; }\nmapping nearfull() { mapping m = ([]); int i; for (i = 0; i < @M - 3; i++) m[i] = i; return m; }", body);
    }
  /* ---- binary operations for every size relation of the operands: |a| < |b|, |a| = |b|, |a| > |b| (a from 1 entry to the limit L
   * itself), result sizes L, L+1, L+9, operands disjoint or half overlapping, on every container kind that has a limit */
  {
    static const struct { const char *kind, *mk, *lim; int dedupes; } ck[] = {
      { "mapping", "mkm", "@M", 1 }, { "array", "mka", "@A", 0 }, { "string", "mks", "@S", 0 }, { "buffer", "mkb", "@B", 0 } };
    static const struct { const char *name, *expr; unsigned kinds; int dedupes; } op[] = {
      { "a+b", "v = a + b;", 15, 0 }, { "a+=b", "a += b; v = a;", 15, 0 }, { "temporary+b", "v = %s(na, 0) + b;", 15, 0 }, { "a+temporary", "v = a + %s(nb, na - ov);", 15, 0 },
      { "global+=b", "gw = a; a = 0; gw += b; v = gw; gw = 0;", 3, 0 }, { "element+=b", "w = ({ a }); a = 0; w[0] += b; v = w[0];", 3, 0 },
      { "a|b", "v = a | b;", 2, 1 }, { "a&b", "v = a & b;", 2, 1 }, { "a-b", "v = a - b;", 2, 1 }, { "a*b", "v = a * b;", 1, 1 },
      { "sprintf(a,b)", "v = sprintf(\"%%s%%s\", a, b);", 4, 0 }, { "implode(a,b)", "v = implode(({ a, b }), \"\");", 4, 0 } };
    static const struct { const char *name, *na; } split[] = {
      { "left=1", "1" }, { "left=L/6", "L / 6" }, { "left=L/2-1", "L / 2 - 1" }, { "left=half", "(L + d) / 2" }, { "left=L/2+1", "L / 2 + 1" },
      { "left=L-1", "L - 1" }, { "left=L", "L" } };
    static const int dd[] = { 0, 1, 9 };
    static const char *pair_helpers =
      "mixed mkm(int n, int off) { mapping m = ([]); int i; for (i = 0; i < n; i++) m[off + i] = i; return m; }\n"
      "mixed mka(int n, int off) { mixed *r = allocate(n); int i; for (i = 0; i < n; i++) r[i] = off + i; return r; }\n"
      "mixed mks(int n, int off) { return repeat_string(\"a\", n); }\n"
      "mixed mkb(int n, int off) { return allocate_buffer(n); }\n";
    for (unsigned c = 0; c < sizeof ck / sizeof *ck; c++)
      for (unsigned o = 0; o < sizeof op / sizeof *op; o++) {
        if (!(op[o].kinds & (1u << c))) continue;
        for (unsigned sp_ = 0; sp_ < sizeof split / sizeof *split; sp_++)
          for (unsigned di = 0; di < sizeof dd / sizeof *dd; di++)
            for (int ovl = 0; ovl < 2; ovl++) {
              if (ovl && !(ck[c].dedupes || op[o].dedupes)) continue;     /* overlapping contents only matter where equal keys / elements merge */
              for (int guarded = 0; guarded < 2; guarded++) {
                char expr[200]; snprintf (expr, sizeof expr, op[o].expr, ck[c].mk);
                snprintf (body, sizeof body,
                          "  int L = %s, d = %d, na = %s, ov, nb; mixed a, b, v, w, e;\n"
                          "  if (na < 0) na = 0; ov = %s; nb = L + d - na + ov; if (nb < 0) return;\n"
                          "  a = %s(na, 0); b = %s(nb, na - ov);\n"
                          "  %s%s%s\n  gv = v; gw = sizeof(v);",
                          ck[c].lim, dd[di], split[sp_].na, ovl ? "(na < L + d - na ? na : L + d - na) / 2" : "0", ck[c].mk, ck[c].mk,
                          guarded ? "e = catch { " : "", expr, guarded ? " };" : "");
                snprintf (name, sizeof name, "pair:%s:%s:%s:%s:union=L%+d:%s", ck[c].kind, op[o].name, ovl ? "overlapping" : "disjoint", split[sp_].name, dd[di], guarded ? "in-catch" : "plain");
                add_prog ('V', name, pair_helpers, body);
              }
            }
      }
  }
  /* ---- string (+) number: the left operand is within 0..25 characters of MaxStringLength, the right one is an int or a float whose
   * text has 1..20 (int) or up to ~310 (float) characters */
  {
    static const int kk[] = { 0, 1, 2, 3, 5, 8, 12, 19, 20, 21, 25 };
    static const struct { const char *name, *lit; } num[] = { { "int-1-digit", "7" }, { "int-7-digits", "1234567" }, { "int-20-chars", "(-9223372036854775807)" },
                                                               { "float-short", "1.5" }, { "float-300-digits", "1.0e300" } };
    static const struct { const char *name, *expr; } sop[] = { { "a+n", "v = a + n;" }, { "a+=n", "a += n; v = a;" }, { "n+a", "v = n + a;" }, { "global+=n", "gw = a; a = 0; gw += n; v = gw; gw = 0;" } };
    for (unsigned k = 0; k < sizeof kk / sizeof *kk; k++)
      for (unsigned nn = 0; nn < sizeof num / sizeof *num; nn++)
        for (unsigned o = 0; o < sizeof sop / sizeof *sop; o++)
          for (int guarded = 0; guarded < 2; guarded++) {
            snprintf (body, sizeof body, "  mixed a, v, e; mixed n = %s; int la = @S - %d;\n  if (la < 0) return;\n  a = repeat_string(\"a\", la);\n  %s%s%s\n  gv = v; gw = 0;",
                      num[nn].lit, kk[k], guarded ? "e = catch { " : "", sop[o].expr, guarded ? " };" : "");
            snprintf (name, sizeof name, "pair:string-number:%s:%s:left=L-%d:%s", sop[o].name, num[nn].name, kk[k], guarded ? "in-catch" : "plain");
            add_prog ('V', name, "", body);
          }
  }
  /* literal aggregates larger than the limit */
  {
    char agg[6000]; size_t n = 0;
    for (int i = 0; i < 70; i++) n += (size_t) snprintf (agg + n, sizeof agg - n, "%s%d", i ? "," : "", i);
    snprintf (body, sizeof body, "  gv = ({ %s });", agg);
    add_prog ('V', "build:array:literal-70", "", body);
    n = 0;
    for (int i = 0; i < 70; i++) n += (size_t) snprintf (agg + n, sizeof agg - n, "%s%d:%d", i ? "," : "", i, i);
    snprintf (body, sizeof body, "  gv = ([ %s ]);", agg);
    add_prog ('V', "build:mapping:literal-70", "", body);
    n = 0;
    for (int i = 0; i < 21; i++) n += (size_t) snprintf (agg + n, sizeof agg - n, "%s\"0123456789\"", i ? " + " : "");
    snprintf (body, sizeof body, "  gv = nop() ? %s : \"\";", agg);
    add_prog ('V', "build:string:literal-concat-210", "", body);
  }
  /* ---- refused k times inside catch, then used normally */
  for (int k = 1; k <= 32; k = k < 4 ? k + 1 : k * 2) {
    snprintf (body, sizeof body,
              "  mapping m = ([]); int i; mixed e; string bad = \"\";\n"
              "  for (i = 0; i < @M; i++) m[\"k\" + i] = i;\n"
              "  for (i = 0; i < %d; i++) { e = catch(m[\"n\" + i] = 1); if (!e) bad += \" insert-\" + i + \"-accepted\"; }\n"
              "  if (sizeof(m) != @M) bad += \" sizeof=\" + sizeof(m);\n"
              "  if (sizeof(keys(m)) != @M) bad += \" keys=\" + sizeof(keys(m));\n"
              "  for (i = 0; i < @M; i++) if (m[\"k\" + i] != i) bad += \" lost-k\" + i;\n"
              "  for (i = 0; i < %d; i++) if (!undefinedp(m[\"n\" + i])) bad += \" ghost-n\" + i;\n"
              "  m[\"k0\"] = 77; if (m[\"k0\"] != 77) bad += \" overwrite\";\n"
              "  map_delete(m, \"k1\"); e = catch(m[\"fresh\"] = 5); if (e || m[\"fresh\"] != 5 || sizeof(m) != @M) bad += \" insert-after-delete:\" + e;\n"
              "  gv = m; gw = bad;\n  if (bad != \"\") error(\"REFUSED-THEN-USED\" + bad + \"\\n\");", k, k);
    snprintf (name, sizeof name, "refused:mapping-insert-x%d", k);
    add_prog ('R', name, "", body);
    snprintf (body, sizeof body,
              "  mixed *a = allocate(@A); int i; mixed e; string bad = \"\";\n"
              "  for (i = 0; i < %d; i++) { e = catch(a += ({ i })); if (!e) bad += \" append-accepted\"; e = catch(a = a + ({ i })); if (!e) bad += \" add-accepted\"; }\n"
              "  if (sizeof(a) != @A) bad += \" sizeof=\" + sizeof(a);\n"
              "  a[0] = 5; a[@A - 1] = 6; if (a[0] != 5 || a[@A - 1] != 6) bad += \" store\";\n"
              "  gv = a; gw = bad;\n  if (bad != \"\") error(\"REFUSED-THEN-USED\" + bad + \"\\n\");", k);
    snprintf (name, sizeof name, "refused:array-append-x%d", k);
    add_prog ('R', name, "", body);
  }
  (void) helpers;
}

/* ------------------------------------------------------------------ monitors */
static long insns, insns_prog, max_depth, max_sp, bound_insns;
static int monitoring, runaway;
static char viol[8][300]; static char viol_key[8][120]; static int nviol;

static void note (const char *key, const char *fmt, ...) {
  for (int i = 0; i < nviol; i++) if (!strcmp (viol_key[i], key)) return;
  if (nviol >= 8) return;
  va_list ap; va_start (ap, fmt); vsnprintf (viol[nviol], sizeof viol[0], fmt, ap); va_end (ap);
  snprintf (viol_key[nviol], sizeof viol_key[0], "%s", key);
  nviol++;
}

static const char *opname (int op) { extern const char *query_opcode_name (int); return query_opcode_name (op); }
static int last_op;

static void check_value (svalue_t *v, const char *where, int depth) {
  if (depth > 5) return;
  switch (v->type) {
  case T_STRING: {
    size_t l = strlen (v->u.string);
    /* the text of an error the driver has just raised (what catch yields) is not built by an operator or efun: not judged */
    if (vw_nerrors && vw_last_error_text[0] && !strncmp (v->u.string, vw_last_error_text, 28)) break;
    if ((long) l > S) { char key[120]; snprintf (key, sizeof key, "C04:string-longer-than-MaxStringLength"); note (key, "a string of %zu bytes exists (MaxStringLength %ld) %s: \"%.40s...\"", l, S, where, v->u.string); }
    break; }
  case T_ARRAY: case T_CLASS:
    if (v->type == T_ARRAY && (long) v->u.arr->size > A) { char key[120]; snprintf (key, sizeof key, "C04:array-larger-than-MaxArraySize"); note (key, "an array of %d elements exists (MaxArraySize %ld) %s", v->u.arr->size, A, where); }
    for (int i = 0; i < v->u.arr->size && i < 200; i++) check_value (&v->u.arr->item[i], where, depth + 1);
    break;
  case T_MAPPING: {
    mapping_t *m = v->u.map;
    if ((long) m->count > M) { char key[120]; snprintf (key, sizeof key, "C04:mapping-larger-than-MaxMappingSize"); note (key, "a mapping of %d entries exists (MaxMappingSize %ld) %s", m->count, M, where); }
    int seen = 0;
    for (int i = 0; i <= m->table_size && seen < 200; i++) for (mapping_node_t *n = m->table[i]; n; n = n->next) { seen++; check_value (&n->values[0], where, depth + 1); check_value (&n->values[1], where, depth + 1); }
    break; }
  case T_BUFFER:
    if ((long) v->u.buf->size > B) { char key[120]; snprintf (key, sizeof key, "C04:buffer-larger-than-MaxBufferSize"); note (key, "a buffer of %u bytes exists (MaxBufferSize %ld) %s", v->u.buf->size, B, where); }
    break;
  default: break;
  }
}

static void hook (void) {
  if (!monitoring) return;
  insns++;
  /* the bound is about the program; what the master's error_handler() executes is paid from the budgets the driver re-arms for it */
  if (current_object != master_ob) insns_prog++;
  long d = csp - control_stack + 1;
  if (d > max_depth) max_depth = d;
  long h = sp - start_of_stack + 1;
  if (h > max_sp) max_sp = h;
  if (d > D) note ("C04:call-depth-exceeds-MaxCallDepth", "%ld control frames are active (MaxCallDepth %ld)", d, D);
  /* the configured size is what is allocated; end_of_stack keeps 5 slots of it as slack for instructions that push without checking */
  if (sp >= start_of_stack + K) {
    char key[120]; snprintf (key, sizeof key, "C04:value-stack-beyond-StackSize");
    note (key, "sp is %ld slots past the configured StackSize %ld after %s", (long) (sp - (start_of_stack + K)) + 1, K, opname (last_op));
  }
  /* only a value of the running function (argument, local, temporary): what an efun has parked below the frame of its callback
   * (filter()'s per-element flag buffer is a T_STRING of array size + 1 bytes) is scratch space, not an LPC value */
  if (sp >= start_of_stack && sp < start_of_stack + K && sp >= fp) {
    char where[80]; snprintf (where, sizeof where, "on-the-stack-after-%s", opname (last_op));
    /* only the value itself, not what it contains: containers are walked at the end of the evaluation */
    svalue_t *v = sp;
    if (v->type == T_STRING || v->type == T_BUFFER) check_value (v, where, 5);
    else if (v->type == T_ARRAY && (long) v->u.arr->size > A) check_value (v, where, 5);
    else if (v->type == T_MAPPING && (long) v->u.map->count > M) check_value (v, where, 5);
  }
  last_op = EXTRACT_UCHAR (pc);
  if (last_op == F_EFUN0 || last_op == F_EFUN1 || last_op == F_EFUN2 || last_op == F_EFUN3) last_op = EXTRACT_UCHAR (pc + 1) + ONEARG_MAX;
  else if (last_op == F_EFUNV) last_op = EXTRACT_UCHAR (pc + 2) + ONEARG_MAX;
  if (insns > bound_insns * 20) {
    runaway = 1;
    vx_fail ("C04:runaway-evaluation", "%ld instructions executed in one evaluation (MaxEvaluationCost %ld, bound 3x = %ld); aborted at 20x the bound [%s]", insns, bound_insns / 3, bound_insns, vm_ctx_desc);
    vx_obs ("!! runaway after %ld instructions", insns);
    vx_child_exit (0);
  }
}

/* ------------------------------------------------------------------ element */
static void do_load (void *p) { prog_t *pr = p; (void) pr; }
static void elem1 (long idx) {
  prog_t *p = &progs[idx];
  snprintf (vm_ctx_desc, sizeof vm_ctx_desc, "%s conf E=%ld D=%ld K=%ld A=%ld S=%ld B=%ld M=%ld master=%s", p->name, E, D, K, A, S, B, M, master_mode);
  vx_obs ("%s", vm_ctx_desc);
  /* compile and create() with a generous budget: the evaluation under test is run() */
  CONFIG_INT (__MAX_EVAL_COST__) = 1000000;
  object_t *ob = hx_load ("/c04/p.c", p->text);
  /* value builders and refused-then-used programs are about the size limits: they get a budget they cannot exhaust */
  long budget = p->kind == 'L' ? E : 200000;
  CONFIG_INT (__MAX_EVAL_COST__) = (int) budget;
  if (!ob) { vx_fail ("C04:harness:program-does-not-compile", "%s: %s", p->name, hx_last_error); return; }
  add_ref (ob, "harness");
  safe_apply_master_ob ("clear_errors", 0);
  vw_reset_errors ();
  insns = insns_prog = max_depth = max_sp = 0; nviol = 0; runaway = 0; bound_insns = 3 * budget; last_op = 0;
#ifdef NEOLITH_VERIF
  neolith_verif_insn_hook = hook;
#endif
  monitoring = 1;
  /* ":entry=body" in the name: the driver calls body() directly (the code under test runs in the FIRST control frame) */
  svalue_t *r = hx_apply (ob, strstr (p->name, ":entry=body") ? "body" : "run", 0);
  monitoring = 0;
  int limit = vw_limit_mask;
  char ltext[120]; snprintf (ltext, sizeof ltext, "%s", vw_first_limit_text);
  char etext[200]; snprintf (etext, sizeof etext, "%s", hx_last_error);
  char rtext[300]; snprintf (rtext, sizeof rtext, "%.290s", r ? hx_canon_s (r) : "ERROR");
  int r_ok = r != 0, r_zero = r && r->type == T_NUMBER && r->u.number == 0;   /* r is a static slot: the next apply overwrites it */
  if (selftest == 1) insns_prog += 4 * budget;
  if (selftest == 2 && r_zero) limit |= 1;
  vx_obs ("  -> %.200s %.150s  insns=%ld max_depth=%ld max_sp=%ld errors=%d limit_mask=%d", rtext, r ? "" : etext, insns, max_depth, max_sp, vw_nerrors, limit);
  vx_count (0, 1);
  if (limit) vx_count (1, 1);
  if (vw_nerrors) vx_count (2, 1);

  if (insns_prog > bound_insns)
    vx_fail ("C04:instructions-exceed-3x-MaxEvaluationCost", "%ld instructions in one evaluation (%ld with the master's error handler), MaxEvaluationCost %ld (bound 3x) [%s]", insns_prog, insns, budget, vm_ctx_desc);
  /* values reachable from the object and the return value */
  CONFIG_INT (__MAX_EVAL_COST__) = 1000000;
  if (r) check_value (r, "returned", 0);
  if (!(ob->flags & O_DESTRUCTED)) for (int i = 0; i < (int) ob->prog->num_variables_total; i++) check_value (&ob->variables[i], "in-a-variable", 0);
  for (int i = 0; i < nviol; i++) {
    /* name the builder in the key: that is the call site */
    char key[220];
    char b[96]; snprintf (b, sizeof b, "%s", p->name);
    if (p->kind == 'V') { char *c = strrchr (b, ':'); if (c && (!strcmp (c, ":plain") || !strcmp (c, ":each-step-in-catch"))) *c = 0; }
    if (!strncmp (b, "loop:", 5)) snprintf (b, sizeof b, "loop");
    if (!strncmp (b, "stack-edge:", 11)) { char *c = strstr (b, ":pad"); if (c) *c = 0; }
    if (!strncmp (b, "pair:", 5)) { char *c = strstr (b, ":left="); if (c) *c = 0; }        /* the sizes are in the message */
    snprintf (key, sizeof key, "%s:%s", viol_key[i], b);
    vx_fail (key, "%s [%s]", viol[i], vm_ctx_desc);
    vx_obs ("!! %s", key);
  }
  /* a limit error must reach the driver: code after the outermost catch must not run */
  int flag = -1;
  if (!(ob->flags & O_DESTRUCTED)) { svalue_t *f = hx_apply (ob, "query_flag", 0); if (f && f->type == T_NUMBER) flag = (int) f->u.number; }
  /* bit 8 alone: "*Can't catch too deep recursion" raised by do_catch() itself because no frame is left for the catch */
  if ((limit & 15) && (flag == 1 || r_ok)) {
    char key[200], cls[100]; snprintf (cls, sizeof cls, "%s", p->name);
    /* class of program: for loops the body decides, otherwise the program name */
    if (!strncmp (cls, "loop:", 5)) { char *c = strrchr (cls, ':'); snprintf (cls, sizeof cls, "loop-body:%s", c ? c + 1 : ""); }
    if (!strncmp (cls, "stack-edge:", 11)) { char *c = strstr (cls, ":pad"); if (c) *c = 0; }   /* the alignment is in the message */
    if (!strncmp (cls, "pair:", 5)) { char *c = strstr (cls, ":left="); if (c) *c = 0; }
    snprintf (key, sizeof key, "C04:catch-swallowed-limit-error:%s:%s", (limit & 1) ? "eval-cost" : (limit & 2) ? "call-depth" : (limit & 4) ? "stack-overflow" : "call-depth-at-catch", cls);
    vx_fail (key, "\"%.60s\" was raised but the evaluation went on after the outermost catch (flag=%d, result %.100s) [%s]", ltext, flag, rtext, vm_ctx_desc);
  }
  if (p->kind == 'R' && !r_zero) {
    char key[200]; snprintf (key, sizeof key, "C04:%s", p->name);
    char *x = strrchr (key, '-'); if (x) *x = 0;       /* drop the repetition count */
    vx_fail (key, "container not usable as before after refused inserts: %.250s %.150s [%s]", rtext, r_ok ? "" : etext, vm_ctx_desc);
  }
}
static void elem (long idx) { snprintf (vm_ctx_desc, sizeof vm_ctx_desc, "%s", progs[idx].name); vm_run_isolated (elem1, idx); }
static void describe (long idx, char *buf, size_t len) {
  snprintf (buf, len, "prog=%s\nconf=%ld,%ld,%ld,%ld,%ld,%ld,%ld\nmaster=%s\n%s", progs[idx].name, E, D, K, A, S, B, M, master_mode, progs[idx].text);
}

int main (int argc, char **argv) {
  char mud[PATH_MAX], conf[400];
  snprintf (mud, sizeof mud, "%s/mudlib/vm", hx_verif_dir ());
  vx_init_args (argc, argv);
  selftest = (int) vx_opt_long ("selftest", 0);
  const char *cs = vx_opt ("conf", "400,12,80,64,200,64");
  M = -1;
  if (sscanf (cs, "%ld,%ld,%ld,%ld,%ld,%ld,%ld", &E, &D, &K, &A, &S, &B, &M) < 6) { fprintf (stderr, "bad --conf\n"); return 2; }
  if (M < 0) M = A;
  master_mode = vx_opt ("master", "plain");
  snprintf (conf, sizeof conf, "MaxEvaluationCost 1000000\nMaxCallDepth %ld\nStackSize %ld\nMaxArraySize %ld\nMaxMappingSize %ld\nMaxStringLength %ld\nMaxBufferSize %ld\n", D, K, A, M, S, B);
  hx_boot (mud, conf, 0);
  if (strcmp (master_mode, "plain")) {
    /* a master whose error_handler() itself runs a catch / a safe_apply (sprintf("%O")) before it logs */
    copy_and_push_string (!strcmp (master_mode, "catch") ? "eh_catch" : !strcmp (master_mode, "catchok") ? "eh_catch_ok" : "eh_objname"); push_number (1);
    safe_apply_master_ob ("set_policy", 2);
  }
  (void) do_load;
  build_corpus ();
  const char *only = vx_opt ("prog", 0);
  if (only) {
    long j = -1;
    for (long i = 0; i < nprogs; i++) if (!strcmp (progs[i].name, only)) j = i;
    if (j < 0) { fprintf (stderr, "no program named %s\n", only); return 2; }
    progs[0] = progs[j]; nprogs = 1;
  }
  /* --progkinds=LR: only the programs of these kinds (the value builders 'V' do not depend on the evaluation limits and the master) */
  const char *pk = vx_opt ("progkinds", 0);
  if (pk && !only) { long j = 0; for (long i = 0; i < nprogs; i++) if (strchr (pk, progs[i].kind)) progs[j++] = progs[i]; nprogs = j; }
  if (vx_opt ("list", 0)) { for (long i = 0; i < nprogs; i++) printf ("%ld %c %s\n", i, progs[i].kind, progs[i].name); return 0; }
  vx_count_name (0, "evaluations_run"); vx_count_name (1, "limit_error_raised"); vx_count_name (2, "any_error_raised");
  fprintf (stderr, "h_c04: conf E=%ld D=%ld K=%ld A=%ld M=%ld S=%ld B=%ld master=%s programs=%ld\n", E, D, K, A, M, S, B, master_mode, nprogs);
  vx_set_enum (nprogs, elem, describe);
  return vx_run (argc, argv, 0);
}
