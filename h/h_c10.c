/* C10 — call_out fires exactly once, on time, and can be cancelled.
 * Explores all op histories (depth-bounded) x tick spacings x callback scripts (deviation-bounded)
 * on the real lib/efuns/call_out.c, in lock-step with a reference scheduler. */
#include "hx.h"

extern long vw_call_out_time (void);
extern int vw_co_pending (void);
extern int vw_co_canon (char *buf, int len);

enum { S_NONE, S_ERR, S_CO1, S_CO32, S_CO31, S_CO33, S_RMH, S_RMN, S_DEST, S_COFP32, S_FINDH, NSCRIPT };
static const char *script_name[] = { "none", "err", "co1", "co32", "co31", "co33", "rmh", "rmn", "dest", "cofp32", "findh" };

typedef struct {
  int id, owner, fp;            /* owner 0 = A (blueprint), 1 = B (clone) */
  long due;
  int pending;                  /* 1 = scheduled and not yet fired/removed/dropped */
  int fired;
  int script, starget;          /* script to run inside the callback, and the entry it refers to */
} ent;

#define MAXE 12
static ent M[MAXE];
static int nM;
static object_t *A, *B;
static int B_alive = 1;
static long T;                  /* virtual now */
static int depth, selftest, shared;
static int errors_expected;
static int cb_owner;             /* owner of the callback whose script entries follow in the log */

static void fail_hist (const char *key, const char *fmt, ...) {
  char msg[500]; va_list ap; va_start (ap, fmt); vsnprintf (msg, sizeof msg, fmt, ap); va_end (ap);
  vx_fail (key, "%s", msg);
  vx_obs ("!! %s: %s", key, msg);
}

static long call_int (object_t *ob, const char *fn, int nargs) {
  svalue_t *r = hx_apply (ob, fn, nargs);
  if (!r) { vx_obs ("  %s -> ERROR %s", fn, hx_last_error); return -999999; }
  return r->type == T_NUMBER ? (long) r->u.number : -999998;
}

static object_t *owner_ob (int o) { return o ? B : A; }

static ent *new_ent (int owner, int fp, long due) {
  if (nM >= MAXE) return 0;
  ent *e = &M[nM];
  memset (e, 0, sizeof *e);
  e->id = nM; e->owner = owner; e->fp = fp; e->due = due; e->pending = 1; e->starget = -1;
  nM++;
  return e;
}

static void install_script (ent *e) {
  /* tell the LPC object what entry e does inside its callback */
  object_t *ob = owner_ob (e->owner);
  array_t *a;
  const char *op = 0; long a1 = 0, a2 = 0; int n = 1;
  switch (e->script) {
  case S_ERR: op = "err"; break;
  case S_DEST: op = "dest"; break;
  case S_CO1: op = "co"; a2 = 1; n = 3; break;
  case S_CO32: op = "co"; a2 = 32; n = 3; break;
  case S_CO31: op = "co"; a2 = 31; n = 3; break;
  case S_CO33: op = "co"; a2 = 33; n = 3; break;
  case S_COFP32: op = "cofp"; a2 = 32; n = 3; break;
  case S_RMH: op = "rmh"; a1 = e->starget; n = 2; break;
  case S_RMN: op = "rmn"; a1 = e->starget; n = 2; break;
  case S_FINDH: op = "findh"; a1 = e->starget; n = 2; break;
  default: return;
  }
  if (n == 3) {                 /* the entry created inside the callback gets the next id */
    if (nM >= MAXE) { e->script = S_NONE; return; }
    a1 = -1;                    /* id decided at firing time: see below */
  }
  a = allocate_array (n);
  a->item[0].type = T_STRING; a->item[0].subtype = STRING_SHARED; a->item[0].u.string = make_shared_string (op);
  if (n >= 2) { a->item[1].type = T_NUMBER; a->item[1].u.number = a1; }
  if (n >= 3) { a->item[2].type = T_NUMBER; a->item[2].u.number = a2; }
  push_number (e->id);
  push_refed_array (a);
  hx_apply (ob, "set_script", 2);
}

/* entries created by scripts need an id that the model and LPC agree on: reserve it at install time */
static int reserve_child (ent *e) {
  if (nM >= MAXE) return -1;
  ent *c = &M[nM];
  memset (c, 0, sizeof *c);
  c->id = nM; c->owner = e->owner; c->pending = 0; c->starget = -1;
  nM++;
  return c->id;
}


/* shared-name mode: remove_call_out("cbs") / find_call_out("cbs") may pick ANY pending string-named call_out of the
 * calling object (the statement does not say which).  The oracle: exactly one candidate disappears and the value
 * returned is that entry's time remaining; with no candidate the answer is -1 and nothing disappears. */
static int is_candidate (ent *m, int owner) { return m->pending && !m->fp && m->owner == owner; }

static int owed;                /* removals inside the running sweep whose victim is one of the entries flagged `maybe` */
static int maybe[MAXE];

static void resolve_shared_remove (int owner, long ret, const long *probe, const char *key) {
  /* an entry overdue by exactly one second has time left -1, which is also "not found": such a candidate is ambiguous */
  int ncand = 0, gone = -1, ngone = 0, namb = 0;
  for (int i = 0; i < nM; i++) if (is_candidate (&M[i], owner)) {
    ncand++;
    if (probe[i] != -1) continue;
    if (M[i].due - T == -1) namb++; else { gone = i; ngone++; }
  }
  if (!ncand) { if (ret != -1) fail_hist (key, "remove_call_out(shared name) returned %ld with nothing pending under that name", ret); return; }
  if (ngone == 1) {
    if (ret != M[gone].due - T) fail_hist (key, "remove_call_out(shared name) removed #%d (left %ld) but returned %ld", gone, M[gone].due - T, ret);
    M[gone].pending = 0;
    return;
  }
  if (ngone == 0 && namb > 0 && ret == -1) {      /* one of the ambiguous ones went: the end of the sweep tells which */
    for (int i = 0; i < nM; i++) if (is_candidate (&M[i], owner) && probe[i] == -1 && M[i].due - T == -1) maybe[i] = 1;
    owed++;
    return;
  }
  fail_hist ("C10:remove-by-name-removed-wrong-number", "remove_call_out(shared name) returned %ld and made %d of %d pending entries disappear", ret, ngone, ncand);
  for (int i = 0; i < nM; i++) if (is_candidate (&M[i], owner) && probe[i] == -1 && M[i].due - T != -1) M[i].pending = 0;
}

/* end of a sweep: of the entries flagged `maybe`, exactly `owed` must not have fired */
static void settle_maybe (void) {
  int left = 0;
  for (int i = 0; i < nM; i++) if (maybe[i] && !M[i].fired && M[i].due <= T) left++;   /* (a later remove by handle may have cleared `pending`) */
  /* each deferred removal either took one of the flagged entries or - when an earlier one had already taken them -
     found nothing: at least one and at most `owed` of them must be gone */
  if (owed && (left < 1 || left > owed)) fail_hist ("C10:remove-by-name-removed-wrong-number", "%d by-name removals inside the sweep, but %d of the overdue candidates did not fire", owed, left);
  for (int i = 0; i < nM; i++) { if (maybe[i] && M[i].pending && M[i].due <= T) M[i].pending = 0; maybe[i] = 0; }
  owed = 0;
}

static void get_probe (long *probe) {
  for (int i = 0; i < MAXE; i++) probe[i] = -1;
  svalue_t *r = hx_apply (A, "probe", 0);
  if (r && r->type == T_ARRAY) for (int i = 0; i < r->u.arr->size && i < MAXE; i++) probe[i] = (long) r->u.arr->item[i].u.number;
}

static void check_finds (const char *when) {
  /* find_call_out by handle and by name must report due - now for every pending entry, -1 otherwise */
  for (int i = 0; i < nM; i++) {
    ent *e = &M[i];
    if (e->owner == 1 && !B_alive) continue;
    if (e->due == 0 && !e->pending && !e->fired) continue;   /* reserved, never scheduled */
    push_number (e->id);
    long r = call_int (A, "findh", 1);
    long want = e->pending ? e->due - T : -1;
    if (r != want) fail_hist ("C10:find-by-handle-wrong-time", "%s: find_call_out(handle of #%d) = %ld, expected %ld (due %ld now %ld)", when, e->id, r, want, e->due, T);
    if (!e->fp) {
      push_number (e->id);
      r = call_int (owner_ob (e->owner), "findn", 1);
      if (shared) {             /* any pending candidate's time left, or -1 if there is none */
        int ok = 0, ncand = 0;
        for (int j = 0; j < nM; j++) if (is_candidate (&M[j], e->owner)) { ncand++; if (r == M[j].due - T) ok = 1; }
        if (!ncand) ok = r == -1;
        if (!ok) fail_hist ("C10:find-by-name-wrong-time", "%s: find_call_out(shared name) = %ld matches no pending entry of the object", when, r);
      } else
      if (r != want) fail_hist ("C10:find-by-name-wrong-time", "%s: find_call_out(\"cb%d\") = %ld, expected %ld", when, e->id, r, want);
    }
  }
}

static void drop_owner (int owner) {
  for (int i = 0; i < nM; i++) if (M[i].owner == owner && M[i].pending) M[i].pending = 0;
}

/* process the LPC log produced during one sweep to time T */
static void process_log (int in_tick) {
  svalue_t *r = hx_apply (A, "take_log", 0);
  if (!r || r->type != T_ARRAY) { fail_hist ("C10:harness-log", "take_log failed: %s", hx_last_error); return; }
  array_t *log = r->u.arr;
  long last_due = -1;
  for (int i = 0; i < log->size; i++) {
    array_t *e = log->item[i].u.arr;
    const char *what = e->item[0].u.string;
    if (!strcmp (what, "fire")) {
      int id = (int) e->item[1].u.number;
      const char *arg = e->item[2].u.string;
      long at = (long) e->item[3].u.number;
      vx_obs ("  fire #%d arg=%s at=%ld", id, arg, at);
      if (id < 0 || id >= nM) { fail_hist ("C10:fired-unknown", "callback with unknown id %d", id); continue; }
      ent *m = &M[id];
      char want[16]; snprintf (want, sizeof want, "a%d", id);
      if (strcmp (arg, want)) fail_hist ("C10:wrong-arguments", "#%d fired with arg %s", id, arg);
      if (!in_tick) fail_hist ("C10:fired-outside-tick", "#%d fired outside a tick", id);
      if (m->fired) fail_hist ("C10:fired-twice", "#%d fired twice", id);
      else if (!m->pending) fail_hist ("C10:fired-after-remove", "#%d fired although removed/dropped/never scheduled", id);
      else if (m->due > T) fail_hist ("C10:fired-early", "#%d fired at %ld, due %ld", id, T, m->due);
      if (m->due < last_due) fail_hist ("C10:fired-out-of-time-order", "#%d (due %ld) fired after an entry due %ld", id, m->due, last_due);
      if (m->due > last_due) last_due = m->due;
      m->fired = 1; m->pending = 0;
      cb_owner = m->owner;
      if (m->script == S_ERR) errors_expected++;
      if (m->script == S_DEST) { if (m->owner == 1) { B_alive = 0; drop_owner (1); } }
    } else if (!strcmp (what, "cb-co") || !strcmp (what, "cb-cofp")) {
      int id = (int) e->item[1].u.number; long d = (long) e->item[2].u.number;
      vx_obs ("  %s #%d d=%ld", what, id, d);
      if (id >= 0 && id < nM) { M[id].pending = 1; M[id].due = T + (d < 1 ? 1 : d); M[id].fp = !strcmp (what, "cb-cofp"); }
    } else if (!strcmp (what, "cb-rmh") || !strcmp (what, "cb-rmn")) {
      int id = (int) e->item[1].u.number; long ret = (long) e->item[2].u.number;
      vx_obs ("  %s #%d -> %ld", what, id, ret);
      if (shared && !strcmp (what, "cb-rmn")) {
        /* shared-name mode: the removal acts on the CALLER's one name, whatever entry the script pointed at */
        long probe[MAXE]; for (int j = 0; j < MAXE; j++) probe[j] = -1;
        if (e->size > 3 && e->item[3].type == T_ARRAY)
          for (int j = 0; j < e->item[3].u.arr->size && j < MAXE; j++) probe[j] = (long) e->item[3].u.arr->item[j].u.number;
        if (!(cb_owner == 1 && !B_alive)) resolve_shared_remove (cb_owner, ret, probe, "C10:remove-in-callback-wrong-time");
        continue;
      }
      if (id >= 0 && id < nM && !(M[id].owner == 1 && !B_alive)) {   /* entries of a destructed owner are not probed */
        ent *m = &M[id];
        /* by name: only the caller's own string-named call_outs can be found */
        int byname = !strcmp (what, "cb-rmn");
        int findable = m->pending && !(byname && (m->fp || m->owner != cb_owner));
        long want = findable ? m->due - T : -1;
        if (ret != want) fail_hist ("C10:remove-in-callback-wrong-time", "%s(#%d) inside a callback returned %ld, expected %ld", what, id, ret, want);
        if (findable) m->pending = 0;
      }
    } else if (!strcmp (what, "cb-findh")) {
      int id = (int) e->item[1].u.number; long ret = (long) e->item[2].u.number;
      vx_obs ("  %s #%d -> %ld", what, id, ret);
      if (id >= 0 && id < nM && !(M[id].owner == 1 && !B_alive)) {
        long want = M[id].pending ? M[id].due - T : -1;
        if (ret != want) fail_hist ("C10:find-in-callback-wrong-time", "find_call_out(handle #%d) inside a callback returned %ld, expected %ld", id, ret, want);
      }
    }
  }
}

static void do_tick (long s, int hbco_d) {
  T += s; hx_clock = T; current_time = T;
  vx_obs ("tick +%ld -> %ld", s, T);
  if (hbco_d) {
    /* a call_out issued after the clock advanced but before the sweep (as a heart_beat does) */
    ent *e = new_ent (0, 0, T + (hbco_d < 1 ? 1 : hbco_d));
    if (e) {
      push_number (e->id); push_number (hbco_d);
      long h = call_int (A, "co", 2);
      vx_obs ("  hb-phase co #%d d=%d h=%ld", e->id, hbco_d, h);
    }
  }
  svalue_t *errs0 = safe_apply_master_ob ("query_errors", 0);
  int nerr0 = (errs0 && errs0 != (svalue_t *) -1 && errs0->type == T_ARRAY) ? errs0->u.arr->size : 0;
  errors_expected = 0;
  error_context_t econ;
  save_context (&econ);
  if (setjmp (econ.context)) {
    restore_context (&econ);
    fail_hist ("C10:error-escaped-call_out", "an error escaped call_out() to the backend level");
  } else {
    eval_cost = CONFIG_INT (__MAX_EVAL_COST__);
    static int skipped;
    if (selftest == 1 && !skipped) skipped = 1;   /* self-test: the environment loses one sweep */
    else call_out ();
  }
  pop_context (&econ);
  process_log (1);
  if (shared) settle_maybe ();
  /* everything due must have fired */
  for (int i = 0; i < nM; i++)
    if (M[i].pending && M[i].due <= T)
      fail_hist ("C10:not-fired-on-time", "#%d due %ld still pending after tick at %ld (delay class: due-issue crosses wheel)", i, M[i].due, T);
  svalue_t *errs1 = safe_apply_master_ob ("query_errors", 0);
  int nerr1 = (errs1 && errs1 != (svalue_t *) -1 && errs1->type == T_ARRAY) ? errs1->u.arr->size : 0;
  /* every injected error must be reported; extra reports are allowed (a funptr call_out whose owner was
     destructed is dropped with an "Owner of function pointer is destructed" error — dropped all the same) */
  if (nerr1 - nerr0 < errors_expected) fail_hist ("C10:error-not-reported", "%d callback errors raised, %d reported to master", errors_expected, nerr1 - nerr0);
  if (vw_call_out_time () != T) fail_hist ("C10:sweep-incomplete", "call_out_time %ld != now %ld after sweep", vw_call_out_time (), T);
}

static const int tick_sp[] = { 1, 2, 31, 32, 33, 70 };
static const int co_d[] = { 1, -1, 2, 31, 32, 33, 64 };
#define NTICK 6
#define NCO 7

static void body (void) {
  char canon[3000];
  for (int step = 0; step < depth; step++) {
    /* canonical state: wheel + model + what is still to come */
    int n = vw_co_canon (canon, 2000);
    n += snprintf (canon + n, sizeof canon - n, "|step=%d|B=%d|now%%32=%ld|", step, B_alive, T & 31);
    for (int i = 0; i < nM && n < (int) sizeof canon - 60; i++)
      n += snprintf (canon + n, sizeof canon - n, "%d:%d:%ld:%d:%d:%d:%d;", i, M[i].pending, M[i].pending ? M[i].due - T : 0, M[i].fired, M[i].script, M[i].starget, M[i].fp);
    vx_state (canon, (size_t) n);

    int nops = NTICK + NCO + 2 + 2 + 1 + 3;
    int op = vx_choose_free (nops, "op");
    if (op < NTICK) {
      int hb = vx_choose (1 + NCO, "hbco");
      do_tick (tick_sp[op], hb ? co_d[hb - 1] : 0);
    } else if (op < NTICK + NCO + 2 + 2) {
      int k = op - NTICK, owner = 0, fp = 0, d;
      if (k < NCO) d = co_d[k];
      else if (k < NCO + 2) { fp = 1; d = k == NCO ? 1 : 32; }
      else { owner = 1; d = k == NCO + 2 ? 2 : 32; }
      if (owner == 1 && !B_alive) { vx_obs ("skip: B gone"); continue; }
      ent *e = new_ent (owner, fp, T + (d < 1 ? 1 : d));
      if (!e) { vx_obs ("skip: table full"); continue; }
      int sc = vx_choose (NSCRIPT, "script");
      e->script = sc;
      if (sc == S_RMH || sc == S_RMN || sc == S_FINDH) {
        /* target: the most recently issued other entry */
        e->starget = e->id > 0 ? e->id - 1 : -1;
        if (e->starget < 0) e->script = S_NONE;
      }
      if (sc == S_DEST && owner == 0) e->script = S_NONE;   /* never destruct the log holder */
      if (e->script == S_CO1 || e->script == S_CO32 || e->script == S_CO31 || e->script == S_CO33 || e->script == S_COFP32) {
        int cid = reserve_child (e);
        if (cid < 0) e->script = S_NONE;
        else {
          /* install with the reserved id */
          array_t *a = allocate_array (3);
          a->item[0].type = T_STRING; a->item[0].subtype = STRING_SHARED;
          a->item[0].u.string = make_shared_string (e->script == S_COFP32 ? "cofp" : "co");
          a->item[1].type = T_NUMBER; a->item[1].u.number = cid;
          a->item[2].type = T_NUMBER;
          a->item[2].u.number = e->script == S_CO1 ? 1 : e->script == S_CO31 ? 31 : e->script == S_CO33 ? 33 : 32;
          push_number (e->id); push_refed_array (a);
          hx_apply (owner_ob (owner), "set_script", 2);
        }
      } else install_script (e);
      push_number (e->id); push_number (d);
      long h = call_int (owner_ob (owner), fp ? "cofp" : "co", 2);
      vx_obs ("%s #%d owner=%c d=%d script=%s -> handle %ld", fp ? "cofp" : "co", e->id, owner ? 'B' : 'A', d, script_name[e->script], h);
      if (h <= 0) fail_hist ("C10:call_out-no-handle", "call_out returned %ld", h);
    } else {
      int k = op - (NTICK + NCO + 4);
      if (k == 0) {             /* destruct B at top level */
        if (!B_alive) { vx_obs ("skip: B gone"); continue; }
        hx_apply (B, "selfdestruct", 0);
        B_alive = 0; drop_owner (1);
        vx_obs ("destruct B");
      } else if (k == 1 || k == 2) {   /* remove the most recently issued still-pending entry by handle / by name */
        int t = -1;
        for (int i = nM - 1; i >= 0; i--) if (M[i].pending && (k == 1 || !M[i].fp) && (M[i].owner == 0 || B_alive)) { t = i; break; }
        if (t < 0) {              /* nothing pending: removing a fired/unknown one must give -1 */
          /* (entries of a destructed owner are "dropped": the statement does not say what
             find/remove report for them before the wheel reaches them, so they are not probed) */
          for (int i = 0; i < nM; i++) if (M[i].owner == 0 || B_alive) { t = i; break; }
          if (t < 0) { vx_obs ("skip: nothing to remove"); continue; }
        }
        push_number (t);
        long r = call_int (k == 1 ? A : owner_ob (M[t].owner), k == 1 ? "rmh" : "rmn", 1);
        if (k == 2 && shared) {
          long probe[MAXE]; get_probe (probe);
          vx_obs ("rmn(shared) by owner %c -> %ld", M[t].owner ? 'B' : 'A', r);
          resolve_shared_remove (M[t].owner, r, probe, "C10:remove-by-name-wrong-time");
          check_finds ("after op"); process_log (0);
          continue;
        }
        int findable = M[t].pending && !(k == 2 && M[t].fp);
        long want = findable ? M[t].due - T : -1;
        vx_obs ("%s #%d -> %ld", k == 1 ? "rmh" : "rmn", t, r);
        if (r != want) fail_hist (k == 1 ? "C10:remove-by-handle-wrong-time" : "C10:remove-by-name-wrong-time", "remove_call_out(#%d) returned %ld, expected %ld", t, r, want);
        if (findable) M[t].pending = 0;
      } else {                  /* remove_call_out() with no argument: all of A's */
        call_int (A, "rmall", 0);
        for (int i = 0; i < nM; i++) if (M[i].owner == 0 && M[i].pending) M[i].pending = 0;
        vx_obs ("rmall A");
      }
    }
    check_finds ("after op");
    process_log (0);
    if (selftest == 2 && nM > 0) M[0].due++;     /* self-test: corrupt the model */
  }
  /* epilogue: run the clock far enough that everything pending must fire */
  long far = 0;
  for (int i = 0; i < nM; i++) if (M[i].pending && M[i].due - T > far) far = M[i].due - T;
  if (far > 0) { do_tick (far, 0); }
  do_tick (40, 0);
  for (int i = 0; i < nM; i++) if (M[i].pending) fail_hist ("C10:never-fired", "#%d (due %ld) never fired", i, M[i].due);
  if (vw_co_pending () != 0 && B_alive) fail_hist ("C10:wheel-not-empty", "%d entries left in the wheel", vw_co_pending ());
  vx_count (0, nM > 0);
}

int main (int argc, char **argv) {
  char mud[PATH_MAX];
  snprintf (mud, sizeof mud, "%s/mudlib/base", hx_verif_dir ());
  vx_init_args (argc, argv);
  depth = (int) vx_opt_long ("depth", 3);
  selftest = (int) vx_opt_long ("selftest", 0);
  shared = (int) vx_opt_long ("shared", 0);
  hx_boot (mud, "", 0);
  vx_count_name (0, "histories_with_call_out");
  A = hx_load ("/co/t", 0);
  if (!A) { fprintf (stderr, "cannot load /co/t: %s\n", hx_last_error); return 2; }
  {
    error_context_t econ; save_context (&econ);
    if (setjmp (econ.context)) { restore_context (&econ); pop_context (&econ); fprintf (stderr, "clone failed\n"); return 2; }
    current_object = master_ob;
    B = clone_object ("/co/t", 0);
    current_object = 0;
    pop_context (&econ);
  }
  if (!B) { fprintf (stderr, "cannot clone\n"); return 2; }
  add_ref (B, "harness");
  T = hx_clock;
  if (shared) { push_number (1); hx_apply (A, "set_shared", 1); }
  return vx_run (argc, argv, body);
}
