/* hx.c — harness support library (compiled with the same instrumentation as the repo). */
#include "hx.h"
#include <locale.h>
#include <sys/stat.h>
#include <dlfcn.h>

time_t hx_clock = 1000000000;
char hx_last_error[8300];
long hx_insn_count;
static char verif_dir[PATH_MAX];
static char scratch[PATH_MAX];

/* ---------------------------------------------------------------- wrapped libc for driver objects */
time_t __real_time (time_t *t);
time_t __wrap_time (time_t *t) { if (t) *t = hx_clock; return hx_clock; }
int __wrap_gettimeofday (struct timeval *tv, void *tz) { (void) tz; if (tv) { tv->tv_sec = hx_clock; tv->tv_usec = 0; } return 0; }

extern int __sanitizer_symbolize_pc (void *pc, const char *fmt, char *out, size_t len) __attribute__ ((weak));
static void where (void *pc, char *buf, size_t n) {
  buf[0] = 0;
  Dl_info di;
  if (dladdr (pc, &di) && di.dli_sname) snprintf (buf, n, "%s", di.dli_sname);
  else snprintf (buf, n, "?");
}
void __real_exit (int) __attribute__ ((noreturn));
void __real__exit (int) __attribute__ ((noreturn));
void __real_abort (void) __attribute__ ((noreturn));
void __wrap_exit (int code) {
  if (!vx_in_child ()) __real_exit (code);
  char w[200]; where (__builtin_return_address (0), w, sizeof w);
  char key[260]; snprintf (key, sizeof key, "driver-exit:exit(%d):%s", code, w);
  vx_fail (key, "driver code called exit(%d) from %s", code, w);
  vx_child_exit (0);
  __real__exit (0);
}
void __wrap__exit (int code) {
  if (!vx_in_child ()) __real__exit (code);
  char w[200]; where (__builtin_return_address (0), w, sizeof w);
  char key[260]; snprintf (key, sizeof key, "driver-exit:_exit(%d):%s", code, w);
  vx_fail (key, "driver code called _exit(%d) from %s", code, w);
  vx_child_exit (0);
  __real__exit (0);
}
void __wrap_abort (void) {
  if (!vx_in_child ()) __real_abort ();
  char w[200]; where (__builtin_return_address (0), w, sizeof w);
  char key[260]; snprintf (key, sizeof key, "driver-exit:abort:%s", w);
  vx_fail (key, "driver code called abort() from %s", w);
  vx_child_exit (0);
  __real__exit (0);
}

/* ---------------------------------------------------------------- boot */
const char *hx_verif_dir (void) {
  if (!verif_dir[0]) {
    const char *e = getenv ("VERIF_DIR");
    snprintf (verif_dir, sizeof verif_dir, "%s", e ? e : "/verif");
  }
  return verif_dir;
}

static pid_t scratch_owner;
static void cleanup_scratch (void) {
  if (scratch[0] && getpid () == scratch_owner) {
    char cmd[PATH_MAX + 16];
    snprintf (cmd, sizeof cmd, "rm -rf '%s'", scratch);
    if (system (cmd)) {}
  }
}
const char *hx_scratch_dir (void) {
  if (!scratch[0]) {
    char b[PATH_MAX];
    snprintf (b, sizeof b, "%s/build/scratch", hx_verif_dir ());
    mkdir (b, 0755);
    snprintf (scratch, sizeof scratch, "%s/build/scratch/p%d", hx_verif_dir (), (int) getpid ());
    mkdir (scratch, 0755);
    scratch_owner = getpid ();
    atexit (cleanup_scratch);
  }
  return scratch;
}

static void default_hook (void) { hx_insn_count++; }

void hx_boot (const char *mudlib_abs, const char *conf_extra, void (*patch) (void)) {
  char conf[PATH_MAX];
  error_context_t econ;
  setlocale (LC_ALL, "C.UTF-8");
  snprintf (conf, sizeof conf, "%s/hx.conf", hx_scratch_dir ());
  FILE *f = fopen (conf, "w");
  if (!f) { perror (conf); __real_exit (2); }
  fprintf (f, "MudlibDir %s\nSimulEfunFile /simul_efun.c\nMasterFile /master.c\nLogWithDate No\n%s", mudlib_abs,
           conf_extra ? conf_extra : "");
  fclose (f);
  debug_set_log_with_date (0);
  init_stem (0, 0, conf);
  init_config (MAIN_OPTION (config_file));
  unlink (conf);
  if (patch) patch ();
  if (chdir (CONFIG_STR (__MUD_LIB_DIR__)) == -1) { perror ("chdir mudlib"); __real_exit (2); }
  init_strings (CONFIG_INT (__SHARED_STRING_HASH_TABLE_SIZE__), CONFIG_INT (__MAX_STRING_LENGTH__));
  init_lpc_compiler (CONFIG_INT (__MAX_LOCAL_VARIABLES__), CONFIG_STR (__INCLUDE_DIRS__));
  setup_simulate ();
  eval_cost = CONFIG_INT (__MAX_EVAL_COST__);
  current_time = boot_time = hx_clock;
#ifdef NEOLITH_VERIF
  neolith_verif_insn_hook = default_hook;
#endif
  save_context (&econ);
  if (setjmp (econ.context)) {
    restore_context (&econ);
    pop_context (&econ);
    fprintf (stderr, "hx_boot: error while loading simul_efun/master\n");
    __real_exit (2);
  }
  init_simul_efun (CONFIG_STR (__SIMUL_EFUN_FILE__));
  init_master (CONFIG_STR (__MASTER_FILE__));
  pop_context (&econ);
}

/* ---------------------------------------------------------------- driver-style entries */
static void fetch_master_error (void) {
  /* verification master keeps the text of the last error it was handed */
  hx_last_error[0] = 0;
  if (!master_ob || (master_ob->flags & O_DESTRUCTED)) return;
  svalue_t *r = safe_apply_master_ob ("query_last_error", 0);
  if (r && r != (svalue_t *) -1 && r->type == T_STRING) snprintf (hx_last_error, sizeof hx_last_error, "%s", r->u.string);
}

svalue_t *hx_apply_origin (object_t *ob, const char *fn, int nargs, int origin) {
  error_context_t econ;
  svalue_t *ret;
  hx_last_error[0] = 0;
  if (!save_context (&econ)) { pop_n_elems (nargs); snprintf (hx_last_error, sizeof hx_last_error, "*hx: too deep"); return 0; }
  if (setjmp (econ.context)) {
    restore_context (&econ);
    pop_context (&econ);
    fetch_master_error ();
    if (!hx_last_error[0]) snprintf (hx_last_error, sizeof hx_last_error, "*unknown error");
    return 0;
  }
  eval_cost = CONFIG_INT (__MAX_EVAL_COST__);
  ret = apply (fn, ob, nargs, origin);
  pop_context (&econ);
  if (!ret) snprintf (hx_last_error, sizeof hx_last_error, "*hx: no such function %s", fn);
  return ret;
}
svalue_t *hx_apply (object_t *ob, const char *fn, int nargs) { return hx_apply_origin (ob, fn, nargs, ORIGIN_DRIVER); }

int hx_guard (void (*fn) (void *), void *arg) {
  error_context_t econ;
  hx_last_error[0] = 0;
  if (!save_context (&econ)) return 1;
  if (setjmp (econ.context)) {
    restore_context (&econ);
    pop_context (&econ);
    fetch_master_error ();
    if (!hx_last_error[0]) snprintf (hx_last_error, sizeof hx_last_error, "*unknown error");
    return 1;
  }
  eval_cost = CONFIG_INT (__MAX_EVAL_COST__);
  fn (arg);
  pop_context (&econ);
  return 0;
}

struct load_arg { const char *name, *text; object_t *ob; };
static void do_load (void *p) { struct load_arg *a = p; a->ob = load_object (a->name, a->text); }
object_t *hx_load (const char *name, const char *text) {
  struct load_arg a = { name, text, 0 };
  if (hx_guard (do_load, &a)) return 0;
  return a.ob;
}
object_t *hx_find (const char *name) { return find_object_by_name (name); }

/* ---------------------------------------------------------------- canonical text */
typedef struct { char *b; size_t n, cap; int depth; } cbuf;
static void cput (cbuf *c, const char *s) { size_t l = strlen (s); if (c->n + l + 1 < c->cap) { memcpy (c->b + c->n, s, l); c->n += l; c->b[c->n] = 0; } }
static void cputf (cbuf *c, const char *fmt, ...) { char t[512]; va_list ap; va_start (ap, fmt); vsnprintf (t, sizeof t, fmt, ap); va_end (ap); cput (c, t); }
static void canon1 (cbuf *c, svalue_t *v);

static int cmpstr (const void *a, const void *b) { return strcmp (*(char *const *) a, *(char *const *) b); }

static void canon_map (cbuf *c, mapping_t *m) {
  int cnt = 0, k = 0;
  for (int i = 0; i <= m->table_size; i++) for (mapping_node_t *n = m->table[i]; n; n = n->next) cnt++;
  char **ent = calloc ((size_t) cnt + 1, sizeof (char *));
  for (int i = 0; i <= m->table_size; i++)
    for (mapping_node_t *n = m->table[i]; n; n = n->next) {
      cbuf e = { malloc (4096), 0, 4096, c->depth };
      e.b[0] = 0;
      canon1 (&e, &n->values[0]); cput (&e, ":"); canon1 (&e, &n->values[1]);
      ent[k++] = e.b;
    }
  qsort (ent, (size_t) cnt, sizeof (char *), cmpstr);
  cput (c, "([");
  for (int i = 0; i < cnt; i++) { if (i) cput (c, ","); cput (c, ent[i]); free (ent[i]); }
  cput (c, "])");
  if (cnt != m->count) cputf (c, "!count=%d", m->count);
  free (ent);
}

static void canon1 (cbuf *c, svalue_t *v) {
  if (c->depth > 6) { cput (c, "..."); return; }
  c->depth++;
  switch (v->type) {
  case T_NUMBER: cputf (c, "%s%lld", v->subtype == T_UNDEFINED ? "u" : "", (long long) v->u.number); break;
  case T_REAL: cputf (c, "f%.17g", v->u.real); break;
  case T_STRING: {
    cput (c, "\"");
    for (const unsigned char *s = (const unsigned char *) v->u.string; *s; s++) {
      if (c->n + 8 >= c->cap) break;
      if (*s == '"' || *s == '\\') cputf (c, "\\%c", *s);
      else if (*s < 0x20 || *s == 0x7f) cputf (c, "\\x%02x", *s);
      else { char t[2] = { (char) *s, 0 }; cput (c, t); }
    }
    cput (c, "\"");
    break;
  }
  case T_ARRAY:
    cput (c, "({");
    for (int i = 0; i < v->u.arr->size; i++) { if (i) cput (c, ","); canon1 (c, &v->u.arr->item[i]); }
    cput (c, "})");
    break;
  case T_CLASS:
    cput (c, "class(");
    for (int i = 0; i < v->u.arr->size; i++) { if (i) cput (c, ","); canon1 (c, &v->u.arr->item[i]); }
    cput (c, ")");
    break;
  case T_MAPPING: canon_map (c, v->u.map); break;
  case T_OBJECT:
    if (v->u.ob->flags & O_DESTRUCTED) cput (c, "0d"); else cputf (c, "ob:/%s", v->u.ob->name);
    break;
  case T_FUNCTION: cput (c, "fn"); break;
  case T_BUFFER:
    cput (c, "buf:");
    for (unsigned i = 0; i < v->u.buf->size && i < 64; i++) cputf (c, "%02x", v->u.buf->item[i]);
    break;
  default: cputf (c, "type%x", v->type);
  }
  c->depth--;
}

void hx_canon (svalue_t *v, char *buf, size_t len) {
  cbuf c = { buf, 0, len, 0 };
  if (len) buf[0] = 0;
  if (!v) { cput (&c, "NULL"); return; }
  canon1 (&c, v);
}

char *hx_canon_s (svalue_t *v) {
  static char bufs[4][16384]; static int k;
  char *b = bufs[k++ & 3];
  hx_canon (v, b, sizeof bufs[0]);
  return b;
}

char *hx_master_str (const char *fn) {
  svalue_t *r = safe_apply_master_ob (fn, 0);
  if (!r || r == (svalue_t *) -1) return "NULL";
  return hx_canon_s (r);
}

void hx_std_counts (void) {
  vx_count_name (0, "nontrivial");
}
