/* C18 — runtime errors are reported at the right file and line with a correct trace (DESIGN §3 C18).
 *
 * vx --enum over the cases written by gen/c18.py.  A case = a set of source files, the object to load, the function
 * to apply, and the generator's record of every active frame at the failing statement (file, line, function, object,
 * program; innermost last).  The harness writes the files into its scratch mudlib, loads and calls, and compares the
 * record with what the verification master's error_handler received (error mapping: file, line, object, program,
 * trace = get_svalue_trace()) and with the text dump_trace() prints when there is no mudlib handler.
 *
 * case file format (one case):
 *   CASE <id> <label…>\n   FILE <path> <nbytes>\n<bytes>\n   LOAD <object>\n   CALL <function>\n   BIN <0|1>\n
 *   RUN <path> <line> <codebytes>\n (optional: generated code of that line must be exactly that long)
 *   FRAME <file> <line> <function> <object> <program>\n …   ERR <substring>\n   END\n
 */
#include "hx.h"
#include <sys/mman.h>
#include <sys/stat.h>
#include <fcntl.h>

static char libdir[PATH_MAX];
static char *cases; static size_t cases_len;
static long *case_off; static long ncases;
static int verbose, selftest, mode_notrace;

typedef struct { char file[200]; int line; char fn[80], ob[200], prog[200]; int fp; } frame_t;

static void make_lib (void) {
  char cmd[4 * PATH_MAX];
  snprintf (libdir, sizeof libdir, "%s/lib", hx_scratch_dir ());
  snprintf (cmd, sizeof cmd, "mkdir -p '%s' && cp -r '%s/mudlib/base/.' '%s/' && cp '%s/c18/%s' '%s/master.c' && mkdir -p '%s/c18bin'", libdir, hx_verif_dir (), libdir, libdir,
            mode_notrace ? "master_nohandler.c" : "master.c", libdir, libdir);
  if (system (cmd)) { fprintf (stderr, "cannot create scratch mudlib\n"); exit (2); }
}

static void load_cases (const char *path) {
  int fd = open (path, O_RDONLY);
  struct stat st;
  if (fd < 0 || fstat (fd, &st)) { perror (path); exit (2); }
  cases_len = (size_t) st.st_size;
  cases = mmap (0, cases_len + 1, PROT_READ, MAP_PRIVATE, fd, 0);
  if (cases == MAP_FAILED) { perror ("mmap"); exit (2); }
  long cap = 1024; case_off = malloc (sizeof (long) * (size_t) cap);
  /* index: "CASE " at line start; FILE payloads are skipped by their byte count */
  size_t p = 0;
  while (p < cases_len) {
    if (!strncmp (cases + p, "CASE ", 5)) {
      if (ncases == cap) { cap *= 2; case_off = realloc (case_off, sizeof (long) * (size_t) cap); }
      case_off[ncases++] = (long) p;
    }
    if (!strncmp (cases + p, "FILE ", 5)) {
      const char *e = memchr (cases + p, '\n', cases_len - p);
      long n = 0; char path2[300];
      sscanf (cases + p, "FILE %299s %ld", path2, &n);
      p = (size_t) (e - cases) + 1 + (size_t) n;
      if (p < cases_len && cases[p] == '\n') p++;
      continue;
    }
    const char *e = memchr (cases + p, '\n', cases_len - p);
    if (!e) break;
    p = (size_t) (e - cases) + 1;
  }
}

static void mkdirs (char *path) {
  for (char *q = path + 1; *q; q++) if (*q == '/') { *q = 0; mkdir (path, 0755); *q = '/'; }
}

static void describe (long idx, char *buf, size_t len) {
  if (idx < 0 || idx >= ncases) { snprintf (buf, len, "?"); return; }
  const char *s = cases + case_off[idx];
  size_t n = strcspn (s, "\n");
  snprintf (buf, len, "%.*s", (int) (n > len - 1 ? len - 1 : n), s);
}

static char written[64][300]; static int nwritten;

static void cleanup_files (void) {
  for (int i = 0; i < nwritten; i++) unlink (written[i]);
  nwritten = 0;
}

/* expected code length of a source line, from the program's own line table */
static int run_length_of_line (program_t *prog, const char *file, int line) {
  unsigned char *li = prog->line_info, *end = (unsigned char *) prog->file_info + prog->file_info[0];
  int total = 0;
  for (; li + 2 < end; li += 3) {
    short abs; int fi, l;
    COPY_SHORT (&abs, li + 1);
    if (translate_absolute_line (abs, &prog->file_info[2], (prog->file_info[1] - 2) * sizeof (short), &fi, &l)) continue;
    if (l == line && fi >= 1 && fi <= prog->num_strings && !strcmp (prog->strings[fi - 1], file)) total += li[0];
  }
  return total;
}

/* capture what dump_trace() prints: stderr is redirected into a memfd around the call */
static int cap_fd = -1, saved_err = -1;
static void cap_begin (void) { if (cap_fd < 0) cap_fd = memfd_create ("c18cap", 0); if (ftruncate (cap_fd, 0)) {} lseek (cap_fd, 0, SEEK_SET); fflush (stderr); saved_err = dup (2); dup2 (cap_fd, 2); }
static char *cap_end (void) {
  static char buf[65536];
  fflush (stderr);
  dup2 (saved_err, 2); close (saved_err);
  off_t n = lseek (cap_fd, 0, SEEK_END);
  if (n > (off_t) sizeof buf - 1) n = sizeof buf - 1;
  ssize_t r = pread (cap_fd, buf, (size_t) n, 0);
  buf[r > 0 ? r : 0] = 0;
  if (write (2, buf, strlen (buf)) < 0) {}      /* keep it in the child's log for vx */
  return buf;
}

static void strip_ansi (char *s) {
  char *o = s;
  while (*s) { if (*s == 0x1b && s[1] == '[') { s += 2; while (*s && *s != 'm') s++; if (*s) s++; continue; } *o++ = *s++; }
  *o = 0;
}

static void element (long idx) {
  const char *s = cases + case_off[idx], *end = cases + cases_len;
  char label[300], load[200] = "", call[80] = "f0", err[100] = "", runfile[200] = "";
  frame_t fr[16]; int nfr = 0, bin = 0, runline = 0, runbytes = -1;
  describe (idx, label, sizeof label);
  nwritten = 0;
  while (s < end) {
    const char *e = memchr (s, '\n', (size_t) (end - s));
    if (!e) break;
    if (!strncmp (s, "FILE ", 5)) {
      char rel[300], abs[PATH_MAX]; long n = 0;
      sscanf (s, "FILE %299s %ld", rel, &n);
      snprintf (abs, sizeof abs, "%s/%s", libdir, rel);
      mkdirs (abs);
      FILE *f = fopen (abs, "wb");
      if (!f) { vx_fail ("C18:harness:cannot-write", "%s: %s", abs, strerror (errno)); return; }
      fwrite (e + 1, 1, (size_t) n, f);
      fclose (f);
      if (nwritten < 64) snprintf (written[nwritten++], sizeof written[0], "%s", abs);
      s = e + 1 + n;
      if (s < end && *s == '\n') s++;
      continue;
    }
    if (!strncmp (s, "PRELUDE ", 8)) {
      /* history: something else is compiled first (it may fail); the expectation of the case does not depend on it */
      char po[200];
      if (sscanf (s, "PRELUDE %199s", po) == 1) { hx_load (po, 0); safe_apply_master_ob ("clear_errors", 0); vx_count (5, 1); }
    }
    else if (!strncmp (s, "PRELOAD ", 8)) { char po[200]; if (sscanf (s, "PRELOAD %199s", po) == 1 && !hx_load (po, 0)) { vx_fail ("C18:harness:case-does-not-load", "%s: cannot load %s: %s", label, po, hx_last_error); cleanup_files (); return; } }
    else if (!strncmp (s, "LOAD ", 5)) sscanf (s, "LOAD %199s", load);
    else if (!strncmp (s, "CALL ", 5)) sscanf (s, "CALL %79s", call);
    else if (!strncmp (s, "BIN ", 4)) bin = atoi (s + 4);
    else if (!strncmp (s, "RUN ", 4)) sscanf (s, "RUN %199s %d %d", runfile, &runline, &runbytes);
    else if (!strncmp (s, "ERR ", 4)) snprintf (err, sizeof err, "%.*s", (int) (e - s - 4 > 99 ? 99 : e - s - 4), s + 4);
    else if (!strncmp (s, "FRAME ", 6) && nfr < 15) {
      frame_t *f = &fr[nfr]; int fp = 0;
      if (sscanf (s, "FRAME %199s %d %79s %199s %199s %d", f->file, &f->line, f->fn, f->ob, f->prog, &fp) >= 5) {
        if (fp) {     /* a call through a function pointer is shown as a pseudo frame followed by the frame of the called function */
          frame_t real = *f;
          snprintf (f->file, sizeof f->file, "%s", ""); f->line = 0; snprintf (f->fn, sizeof f->fn, "<function>"); snprintf (f->prog, sizeof f->prog, "<function>");
          snprintf (f->ob, sizeof f->ob, "%s", nfr ? fr[nfr - 1].ob : real.ob); f->fp = 1;
          nfr++; fr[nfr] = real; fr[nfr].fp = 0;
        }
        nfr++;
      }
    }
    else if (!strncmp (s, "END", 3)) break;
    s = e + 1;
  }
  if (selftest == 1 && nfr) fr[nfr - 1].line++;             /* self-test: the generator's record is off by one line */
  if (selftest == 2 && nfr > 1) { frame_t t = fr[0]; fr[0] = fr[nfr - 1]; fr[nfr - 1] = t; }   /* self-test: record lists the innermost frame first */

  safe_apply_master_ob ("clear_errors", 0);
  if (bin) { push_constant_string ("save_binary"); push_number (1); safe_apply_master_ob ("set_policy", 2); }
  char *printed = 0;
  int round = 0;
  if (mode_notrace) cap_begin ();
  object_t *ob = hx_load (load, 0);
  if (mode_notrace) printed = cap_end ();
  if (!ob) {
    /* the error may be raised while loading (global initialisers, create()): then the record is compared below */
    svalue_t *er = safe_apply_master_ob ("query_errors", 0);
    if (mode_notrace ? !strstr (printed, ", in program /") : !(er && er != (svalue_t *) -1 && er->type == T_ARRAY && er->u.arr->size)) {
      vx_fail ("C18:harness:case-does-not-load", "%s: cannot load %s: %s", label, load, hx_last_error);
      cleanup_files (); return;
    }
  }
  if (bin && ob) {
    /* second life: destruct everything of this case, reload — now from the saved binaries */
    char bpath[PATH_MAX]; struct stat st;
    snprintf (bpath, sizeof bpath, "%s/c18bin/%s.b", libdir, load[0] == '/' ? load + 1 : load);
    if (stat (bpath, &st)) { vx_fail ("C18:harness:no-binary-saved", "%s: %s was not written", label, bpath); cleanup_files (); return; }
    for (object_t *o = obj_list, *nx; o; o = nx) { nx = o->next_all; if (!strncmp (o->name, "c18/t", 5) && !(o->flags & O_DESTRUCTED)) destruct_object (o); }
    remove_destructed_objects ();
    safe_apply_master_ob ("clear_errors", 0);
    ob = hx_load (load, 0);
    if (!ob) { vx_fail ("C18:harness:binary-does-not-load", "%s: %s", label, hx_last_error); cleanup_files (); return; }
    vx_count (2, 1);
  }
  if (ob && runbytes >= 0) {
    int got = run_length_of_line (ob->prog, runfile, runline);
    if (got != runbytes) { vx_fail ("C18:harness:generator-miscalibrated", "%s: line %d of %s generates %d bytes, generator assumed %d", label, runline, runfile, got, runbytes); cleanup_files (); return; }
    vx_count (3, 1);
  }
second_round:
  if (ob) {
    if (mode_notrace) cap_begin ();
    svalue_t *r = hx_apply (ob, call, 0);
    if (mode_notrace) printed = cap_end ();
    if (r) { vx_fail ("C18:harness:no-error-raised", "%s: %s() returned %s", label, call, hx_canon_s (r)); cleanup_files (); return; }
  }
  vx_count (0, 1);

  if (!mode_notrace) {
    svalue_t *er = safe_apply_master_ob ("query_errors", 0);
    if (!er || er == (svalue_t *) -1 || er->type != T_ARRAY || !er->u.arr->size) { vx_fail ("C18:not-reported-to-master", "%s: the master's error_handler was not called (%s)", label, hx_last_error); cleanup_files (); return; }
    array_t *rec = er->u.arr->item[0].u.arr;          /* the first error of the run */
    const char *etext = rec->item[0].type == T_STRING ? rec->item[0].u.string : "";
    const char *efile = rec->item[1].type == T_STRING ? rec->item[1].u.string : "(none)";
    long eline = rec->item[2].type == T_NUMBER ? (long) rec->item[2].u.number : -1;
    const char *eob = rec->item[3].type == T_STRING ? rec->item[3].u.string : "(none)";
    const char *eprog = rec->item[4].type == T_STRING ? rec->item[4].u.string : "(none)";
    array_t *tr = rec->size > 6 && rec->item[6].type == T_ARRAY ? rec->item[6].u.arr : 0;
    frame_t *in = &fr[nfr - 1];
    if (verbose) {
      vx_obs ("%s", label);
      vx_obs (" error=%.60s file=%s line=%ld object=%s program=%s", etext, efile, eline, eob, eprog);
      for (int i = 0; tr && i < tr->size; i++) { array_t *f = tr->item[i].u.arr; vx_obs ("  frame %d: %s", i, hx_canon_s (&tr->item[i])); (void) f; }
    }
    if (err[0] && !strstr (etext, err)) vx_fail ("C18:wrong-error", "%s: error text [%.80s] does not contain [%s]", label, etext, err);
    char kind[40] = "plain";
    { const char *k = strstr (label, "ctx="); if (k) { size_t n = strcspn (k + 4, " \n"); if (n > 38) n = 38; memcpy (kind, k + 4, n); kind[n] = 0; } }
    char key[200];
    if (strcmp (efile, in->file)) { snprintf (key, sizeof key, "C18:handler-file-wrong:%s", kind); vx_fail (key, "%s: error_handler got file %s, the failing statement is in %s (line %d)", label, efile, in->file, in->line); }
    else if (eline != in->line) { snprintf (key, sizeof key, "C18:handler-line-wrong:%s", kind); vx_fail (key, "%s: error_handler got %s line %ld, the failing statement is at line %d", label, efile, eline, in->line); }
    if (strcmp (eob + (eob[0] == '/'), in->ob)) { snprintf (key, sizeof key, "C18:handler-object-wrong:%s", kind); vx_fail (key, "%s: error_handler got object %s, expected %s", label, eob, in->ob); }
    if (strcmp (eprog, in->prog)) { snprintf (key, sizeof key, "C18:handler-program-wrong:%s", kind); vx_fail (key, "%s: error_handler got program %s, expected %s", label, eprog, in->prog); }
    if (!tr) vx_fail ("C18:no-trace", "%s: error mapping carries no trace", label);
    else {
      if (tr->size != nfr) {
        snprintf (key, sizeof key, "C18:trace-frame-count:%s", kind);
        vx_fail (key, "%s: trace has %d frames, %d calls are active", label, tr->size, nfr);
      }
      for (int i = 0; i < nfr && i < tr->size; i++) {
        array_t *f = tr->item[i].u.arr;
        const char *tfn = f->item[0].type == T_STRING ? f->item[0].u.string : "(none)";
        const char *tob = f->item[1].type == T_STRING ? f->item[1].u.string : "(none)";
        const char *tpr = f->item[2].type == T_STRING ? f->item[2].u.string : "(none)";
        const char *tfi = f->item[3].type == T_STRING ? f->item[3].u.string : "(none)";
        long tli = f->item[4].type == T_NUMBER ? (long) f->item[4].u.number : -1;
        const char *where = (i == nfr - 1) ? "innermost" : "outer";
        if (strcmp (tfn, fr[i].fn)) { snprintf (key, sizeof key, "C18:trace-function-wrong:%s:%s", where, kind); vx_fail (key, "%s: frame %d is %s(), expected %s()", label, i, tfn, fr[i].fn); }
        if (strcmp (tob + (tob[0] == '/'), fr[i].ob)) { snprintf (key, sizeof key, "C18:trace-object-wrong:%s:%s", where, kind); vx_fail (key, "%s: frame %d object %s, expected %s", label, i, tob, fr[i].ob); }
        if (strcmp (tpr, fr[i].prog)) { snprintf (key, sizeof key, "C18:trace-program-wrong:%s:%s", where, kind); vx_fail (key, "%s: frame %d program %s, expected %s", label, i, tpr, fr[i].prog); }
        if (strcmp (tfi, fr[i].file)) { snprintf (key, sizeof key, "C18:trace-file-wrong:%s:%s", where, kind); vx_fail (key, "%s: frame %d (%s) file %s, expected %s line %d", label, i, tfn, tfi, fr[i].file, fr[i].line); }
        else if (tli != fr[i].line) { snprintf (key, sizeof key, "C18:trace-line-wrong:%s:%s", where, kind); vx_fail (key, "%s: frame %d (%s) at %s line %ld, expected line %d", label, i, tfn, tfi, tli, fr[i].line); }
      }
      vx_count (1, nfr);
    }
  } else if (printed) {
    /* no mudlib handler: the driver prints "\tfn() at /file:line, in program /prog (object ob)" per frame, innermost last */
    static char text[65536]; snprintf (text, sizeof text, "%s", printed); strip_ansi (text);
    if (verbose) vx_obs ("%s\n%s", label, text);
    int i = 0; char key[200];
    char kind[40] = "plain";
    { const char *k = strstr (label, "ctx="); if (k) { size_t n = strcspn (k + 4, " \n"); if (n > 38) n = 38; memcpy (kind, k + 4, n); kind[n] = 0; } }
    int headers = 0;
    for (char *ls = text; ls && *ls; ) {
      char *nl = strchr (ls, '\n');
      if (nl) *nl = 0;
      if (ls[0] == '{' && ++headers > 1) break;        /* a later error of the same run (after a catch): not this record */
      char *at = strstr (ls, " at "), *ip = strstr (ls, ", in program /"), *obp = strstr (ls, " (object ");
      if (ls[0] == '\t' && at && ip && obp && at < ip && ip < obp) {
        char fn[100], loc[300], file[300] = "", prog[300], obn[300]; int line = 0;
        snprintf (fn, sizeof fn, "%.*s", (int) (at - ls - 1 > 98 ? 98 : at - ls - 1), ls + 1);
        snprintf (loc, sizeof loc, "%.*s", (int) (ip - at - 4 > 298 ? 298 : ip - at - 4), at + 4);
        snprintf (prog, sizeof prog, "%.*s", (int) (obp - ip - 14 > 298 ? 298 : obp - ip - 14), ip + 14);
        snprintf (obn, sizeof obn, "%s", obp + 9); { char *q = strrchr (obn, ')'); if (q) *q = 0; }
        { char *c = strrchr (loc, ':'); if (loc[0] == '/' && c) { *c = 0; snprintf (file, sizeof file, "%s", loc + 1); line = atoi (c + 1); } }
        size_t fl = strlen (fn); if (fl > 2 && !strcmp (fn + fl - 2, "()")) fn[fl - 2] = 0;
        if (i < nfr) {
          const char *want = !strcmp (fr[i].fn, "<function>") ? "(function)" : !strcmp (fr[i].fn, "CATCH") ? "(catch)" : fr[i].fn;
          if (strcmp (fn, want)) { snprintf (key, sizeof key, "C18:printed-function-wrong:%s", kind); vx_fail (key, "%s: printed frame %d is %s, expected %s", label, i, fn, want); }
          if (strcmp (file, fr[i].file) || line != fr[i].line) { snprintf (key, sizeof key, "C18:printed-line-wrong:%s:%s", i == nfr - 1 ? "innermost" : "outer", kind); vx_fail (key, "%s: printed frame %d (%s) at [%s] = /%s:%d, expected /%s:%d", label, i, fn, loc, file, line, fr[i].file, fr[i].line); }
          if (strcmp (prog, fr[i].prog)) { snprintf (key, sizeof key, "C18:printed-program-wrong:%s", kind); vx_fail (key, "%s: printed frame %d program /%s, expected /%s", label, i, prog, fr[i].prog); }
          if (strcmp (obn, fr[i].ob)) { snprintf (key, sizeof key, "C18:printed-object-wrong:%s", kind); vx_fail (key, "%s: printed frame %d object %s, expected %s", label, i, obn, fr[i].ob); }
        }
        i++;
      }
      if (!nl) break;
      *nl = '\n'; ls = nl + 1;
    }
    if (i != nfr) { snprintf (key, sizeof key, "C18:printed-frame-count:%s", kind); vx_fail (key, "%s: %d trace lines printed, %d calls are active:\n%.600s", label, i, nfr, text); }
    vx_count (1, nfr);
  }
  if (ob && round == 0 && !(ob->flags & O_DESTRUCTED) && function_exists ("zother", ob, 0)) {
    /* second round: other functions pass through the same control-stack slots, then the same failing call again
       (now found through the apply cache); the report must be the same */
    svalue_t *z = hx_apply (ob, "zother", 0);
    if (z) {
      round = 1;
      snprintf (label + strlen (label), sizeof label - strlen (label), " [second call]");
      safe_apply_master_ob ("clear_errors", 0);
      vx_count (4, 1);
      goto second_round;
    }
  }
  /* leave the world as it was: objects of this case are destructed, files removed */
  for (object_t *o = obj_list, *nx; o; o = nx) { nx = o->next_all; if (!strncmp (o->name, "c18/t", 5) && !(o->flags & O_DESTRUCTED)) destruct_object (o); }
  remove_destructed_objects ();
  if (bin) { push_constant_string ("save_binary"); push_number (0); safe_apply_master_ob ("set_policy", 2); }
  cleanup_files ();
}

int main (int argc, char **argv) {
  vx_init_args (argc, argv);
  verbose = (int) vx_opt_long ("verbose", 0);
  selftest = (int) vx_opt_long ("selftest", 0);
  mode_notrace = (int) vx_opt_long ("no-handler", 0);
  const char *cf = vx_opt ("cases", 0);
  if (!cf) { fprintf (stderr, "need --cases=<file written by gen/c18.py>\n"); return 2; }
  load_cases (cf);
  make_lib ();
  hx_boot (libdir, "SaveBinaryDir /c18bin\n", 0);
  vx_count_name (0, "errors_raised"); vx_count_name (1, "frames_compared"); vx_count_name (2, "loaded_from_binary"); vx_count_name (3, "code_lengths_verified"); vx_count_name (4, "repeated_through_apply_cache"); vx_count_name (5, "after_a_prelude_compile");
  {
    extern int __sanitizer_symbolize_pc (void *, const char *, char *, size_t) __attribute__ ((weak));
    char sym[256];
    if (__sanitizer_symbolize_pc) __sanitizer_symbolize_pc ((void *) load_object, "%f", sym, sizeof sym);
  }
  vx_set_enum (ncases, element, describe);
  return vx_run (argc, argv, 0);
}
