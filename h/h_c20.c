/* C20 — uid/euid change only as the master allows; without euid no object creation.
 *
 * Explores all histories of bounded depth over
 *   actor x in {A0..A3, master}  x  { load / clone / call_other-load a file of creator c in {Root,BB,w1,w2},
 *                                     seteuid(0 | own uid | another uid | "Root"), export_uid(y) }
 * on the real lib/efuns/uids.c and give_uid_to_object/load_object/clone_object of src/simulate.c, under every
 * master policy (valid_seteuid refuse / approve / own-uid-only) x (creator_file by directory / 0 / non-string /
 * always the backbone uid), in lock-step with a (uid, euid) model that has exactly the rules of the property;
 * every valid_seteuid / creator_file apply must be in the master's log with the right arguments. */
#include "hx.h"
#include <ctype.h>
#include "lib/efuns/uids.h"

#define NACT 4
#define MASTER NACT             /* actor index of the master */
#define MAXW 24
#define NCRE 4
static const char *cre_dir[NCRE] = { "r", "bb", "w1", "w2" };
static const char *cre_uid[NCRE] = { "Root", "BB", "w1", "w2" };
static const char load_files[] = "bcdefg";

typedef struct {
  object_t *ob;
  char name[48];                /* object name without the leading slash */
  char uid[16], euid[16];       /* "" = 0 */
  int nouid;                    /* model: created with uid 0 (defect class) */
  int cre, clone;
} wobj;

static wobj W[MAXW];            /* world: W[act[i]] are the actors */
static int nW;
static int act[NACT + 1];       /* world index of each actor, -1 = free slot; act[MASTER] = master */
static int nloaded[NCRE];       /* how many of b..g were loaded */
static int bp_a[NCRE];          /* world index of blueprint /<dir>/a, -1 if not loaded */
static object_t *READER;
static int depth, selftest, pol_vs, pol_cf, base_objs, master_nv;

enum { C_HIST, C_CREATED, C_REFUSED_CREATE, C_SETEUID_OK, C_SETEUID_REFUSED, C_EXPORT_OK, C_EXPORT_REFUSED, C_EXPORT_ERR, C_BACKBONE, C_MASTER_APPLIES };

static void fail_hist (const char *key, const char *fmt, ...) {
  char msg[500]; va_list ap; va_start (ap, fmt); vsnprintf (msg, sizeof msg, fmt, ap); va_end (ap);
  vx_fail (key, "%s", msg);
  vx_obs ("!! %s: %s", key, msg);
}

/* ------------------------------------------------------------------ master policies + log */
static void set_policy_n (const char *k, long v) { push_constant_string (k); push_number (v); hx_apply (master_ob, "set_policy", 2); }
static void set_policy_s (const char *k, const char *v) { push_constant_string (k); push_constant_string (v); hx_apply (master_ob, "set_policy", 2); }

/* model of master::creator_file(file) -> uid name the driver will use */
static const char *model_creator (const char *name /* no leading slash */) {
  switch (pol_cf) {
  case 1: case 2: return "NONAME";       /* 0 / non-string: the driver falls back to NONAME */
  case 3: return "BB";
  case 4: return "root";
  case 5: return "NONAME";               /* no creator_file() in the master: the driver falls back to NONAME */
  }
  if (!strncmp (name, "w1/", 3)) return "w1";
  if (!strncmp (name, "w2/", 3)) return "w2";
  if (!strncmp (name, "bb/", 3)) return "BB";
  return "Root";
}
/* 1 approved, 0 refused, -1 the master raises an error, -2 the master has no valid_seteuid(): neither is an approval */
static int model_valid_seteuid (wobj *x, const char *n) {
  if (pol_vs == 0) return 0;
  if (pol_vs == 1) return 1;
  if (pol_vs == 3) return -1;
  if (pol_vs == 4 && !strcmp (n, "Root")) return -1;
  if (pol_vs == 5) return -2;
  return !strcmp (n, x->uid);
}

/* expected master applies of the current op */
static char expect_log[8][120];
static int n_expect;
static void expect (const char *fmt, ...) { va_list ap; va_start (ap, fmt); vsnprintf (expect_log[n_expect++], 120, fmt, ap); va_end (ap); }

static void check_master_log (const char *opdesc) {
  svalue_t *r = hx_apply (master_ob, "query_mlog", 0);
  if (!r || r->type != T_ARRAY) { fail_hist ("C20:harness-lpc", "query_mlog failed: %s", hx_last_error); return; }
  array_t *a = r->u.arr;
  int k = 0;
  for (int i = 0; i < a->size; i++) {
    array_t *e = a->item[i].u.arr;
    const char *what = e->item[0].u.string;
    char got[160];
    if (!strcmp (what, "creator_file")) snprintf (got, sizeof got, "creator_file(%s)", e->item[1].type == T_STRING ? e->item[1].u.string : "?");
    else if (!strcmp (what, "valid_seteuid")) snprintf (got, sizeof got, "valid_seteuid(%s,%s)", e->item[1].type == T_STRING ? e->item[1].u.string : "?", e->item[2].type == T_STRING ? e->item[2].u.string : "?");
    else continue;
    vx_obs ("  master: %s", got);
    vx_count (C_MASTER_APPLIES, 1);
    if (selftest == 2 && k == 0 && n_expect) { k++; continue; }      /* self-test: pretend the first apply was not logged */
    if (k >= n_expect) fail_hist ("C20:unexpected-master-apply", "%s: master received %s which the rules do not call for", opdesc, got);
    else if (strcmp (got, expect_log[k])) fail_hist ("C20:master-apply-wrong-arguments", "%s: master received %s, expected %s", opdesc, got, expect_log[k]);
    k++;
  }
  if (selftest == 2 && n_expect) k--;
  if (k < n_expect) fail_hist ("C20:master-not-consulted", "%s: expected master apply %s did not happen", opdesc, expect_log[k < 0 ? 0 : k]);
  hx_apply (master_ob, "clear_mlog", 0);
  n_expect = 0;
}

/* ------------------------------------------------------------------ world */
static int add_world (object_t *ob, const char *uid, const char *euid, int cre, int clone) {
  if (nW >= MAXW) { fail_hist ("C20:harness-world-full", "world table full"); vx_child_exit (0); }
  wobj *w = &W[nW];
  memset (w, 0, sizeof *w);
  w->ob = ob; add_ref (ob, "h_c20");
  snprintf (w->name, sizeof w->name, "%s", ob->name);
  snprintf (w->uid, sizeof w->uid, "%s", uid ? uid : "");
  snprintf (w->euid, sizeof w->euid, "%s", euid ? euid : "");
  w->nouid = !uid || !*uid;
  w->cre = cre; w->clone = clone;
  return nW++;
}

static const char *lpc_str (object_t *reader, const char *fn, object_t *arg, char *buf, size_t n) {
  push_object (arg);
  svalue_t *r = hx_apply (reader, fn, 1);
  if (!r) { snprintf (buf, n, "<error %s>", hx_last_error); return buf; }
  if (r->type == T_STRING) snprintf (buf, n, "%s", r->u.string);
  else if (r->type == T_NUMBER && r->u.number == 0) buf[0] = 0;
  else snprintf (buf, n, "<type %d>", r->type);
  return buf;
}

static int count_objects (void) { int n = 0; for (object_t *o = obj_list; o; o = o->next_all) n++; return n; }

static int touched[2] = { -1, -1 }, first_new;
static int keep_going, nkinds = 3;

static void check_world (const char *when, int all) {
  int nouid = 0;
  for (int i = 0; i < nW; i++) {
    wobj *w = &W[i];
    const char *u = w->ob->uid ? w->ob->uid->name : 0, *e = w->ob->euid ? w->ob->euid->name : 0;
    if (!u) {
      fail_hist ("C20:object-without-uid", "%s: /%s has uid 0 (getuid() on it dereferences a null pointer)", when, w->name);
      nouid = 1;
      continue;
    }
    if (strcmp (u, w->uid)) fail_hist ("C20:uid-differs-from-model", "%s: uid of /%s is \"%s\", rules give \"%s\"", when, w->name, u, w->uid);
    if (strcmp (e ? e : "", w->euid)) fail_hist ("C20:euid-differs-from-model", "%s: euid of /%s is \"%s\", rules give \"%s\"", when, w->name, e ? e : "0", w->euid[0] ? w->euid : "0");
    if (!all && i != touched[0] && i != touched[1] && i < first_new) continue;    /* efun-level reads: objects the op touched or made */
    char b[200];
    if (strcmp (lpc_str (READER, "uid_of", w->ob, b, sizeof b), w->uid)) fail_hist ("C20:getuid-efun-differs", "%s: getuid(/%s) = \"%s\", rules give \"%s\"", when, w->name, b, w->uid);
    if (strcmp (lpc_str (READER, "euid_of", w->ob, b, sizeof b), w->euid)) fail_hist ("C20:geteuid-efun-differs", "%s: geteuid(/%s) = \"%s\", rules give \"%s\"", when, w->name, b, w->euid[0] ? w->euid : "0");
  }
  int n = count_objects ();
  if (n != base_objs + nW) fail_hist ("C20:object-count-differs", "%s: %d objects exist, the rules allow %d", when, n, base_objs + nW);
  /* an object without uid makes the next getuid()/valid_seteuid on it crash the driver: the history ends here
     (--keep-going=1 shows the crash) */
  if (nouid && !keep_going) vx_child_exit (0);
}

/* model of give_uid_to_object() for an object `name` created on behalf of loader L (never NULL here) */
static void model_give_uid (wobj *L, const char *name, const char **uid, const char **euid) {
  const char *c = model_creator (name);
  if (pol_cf != 5) expect ("creator_file(/%s)", name);
  if (!strcmp (L->uid, c)) { *uid = c; *euid = ""; return; }          /* same creator as the loader */
  /* backbone-trusted: inherits the loader's euid as uid and euid.  A loader without euid (only the master can get
     here) has nothing to hand down: the object then gets what creator_file said, like any untrusted object */
  if (!strcmp (c, "BB") && L->euid[0] && master_nv != 2) {      /* a master without get_bb_uid(): nobody is backbone-trusted */ *uid = L->euid; *euid = L->euid; vx_count (C_BACKBONE, 1); return; }
  *uid = c; *euid = "";
}

static void new_actor_slot (int wi) { for (int i = 0; i < NACT; i++) if (act[i] < 0) { act[i] = wi; return; } }

/* ------------------------------------------------------------------ ops */
enum { K_LOAD, K_CLONE, K_CALL };
static const char *kind_name[] = { "load_object", "clone_object", "call_other" };

static void op_create (int xa, int kind, int c) {
  wobj *x = &W[act[xa]];
  char file[64], desc[160];
  if (kind == K_CLONE) snprintf (file, sizeof file, "/%s/a", cre_dir[c]);
  else {
    if (nloaded[c] >= (int) strlen (load_files)) vx_child_exit (0);
    snprintf (file, sizeof file, "/%s/%c", cre_dir[c], load_files[nloaded[c]]);
  }
  snprintf (desc, sizeof desc, "%s(uid %s euid %s) %s %s", x->name, x->uid, x->euid[0] ? x->euid : "0", kind_name[kind], file);
  vx_obs ("%s", desc);
  int allowed = xa == MASTER || x->euid[0];
  if (selftest == 3) allowed = 1;                 /* self-test: the model forgets the "no euid, no creation" rule */
  int before = count_objects ();
  push_constant_string (file);
  svalue_t *r = hx_apply (x->ob, kind == K_LOAD ? "do_load" : kind == K_CLONE ? "do_clone" : "do_call", 1);
  int after = count_objects ();
  if (!allowed) {
    vx_count (C_REFUSED_CREATE, 1);
    if (r) fail_hist ("C20:created-without-euid", "%s succeeded although the caller's euid is 0", desc);
    else vx_obs ("  -> error %s", hx_last_error);
    if (after != before) fail_hist ("C20:created-without-euid", "%s: %d object(s) came into existence although the caller's euid is 0", desc, after - before);
    if (after != before || r) vx_child_exit (0);
    check_master_log (desc);
    return;
  }
  if (!r) { fail_hist ("C20:creation-failed", "%s failed: %s", desc, hx_last_error); vx_child_exit (0); }
  /* model: blueprint first (clone of an unloaded program), then the object itself */
  const char *u, *e;
  if (kind == K_CLONE && bp_a[c] < 0) {
    object_t *bp = hx_find (file + 1);
    if (!bp) { fail_hist ("C20:creation-failed", "%s: blueprint not found afterwards", desc); vx_child_exit (0); }
    model_give_uid (x, file + 1, &u, &e);
    bp_a[c] = add_world (bp, u, e, c, 0);
    vx_count (C_CREATED, 1);
  }
  object_t *nob = 0;
  if (kind == K_CALL) nob = hx_find (file + 1);
  else if (r->type == T_OBJECT) nob = r->u.ob;
  if (!nob) { fail_hist ("C20:creation-failed", "%s returned no object", desc); vx_child_exit (0); }
  model_give_uid (x, nob->name, &u, &e);
  int wi = add_world (nob, u, e, c, kind == K_CLONE);
  if (kind != K_CLONE) nloaded[c]++;
  new_actor_slot (wi);
  vx_count (C_CREATED, 1);
  vx_obs ("  -> /%s uid %s euid %s", nob->name, nob->uid ? nob->uid->name : "0", nob->euid ? nob->euid->name : "0");
  check_master_log (desc);
}

static void op_seteuid (int xa, int v) {
  wobj *x = &W[act[xa]];
  const char *n = 0;
  char desc[160];
  switch (v) {
  case 0: n = 0; break;
  case 1: n = x->uid; break;                                            /* own uid */
  case 2: n = !strcmp (x->uid, "w1") ? "w2" : "w1"; break;              /* somebody else's */
  case 3: n = "Root"; if (!strcmp (x->uid, "Root")) vx_child_exit (0); break;   /* same as "own" */
  case 4: {                                                               /* own uid with the case of every letter flipped */
    static char flip[16]; int k = 0;
    for (const char *q = x->uid; *q && k < 15; q++) flip[k++] = (char) (isupper ((unsigned char) *q) ? tolower ((unsigned char) *q) : toupper ((unsigned char) *q));
    flip[k] = 0; n = flip; if (!strcmp (flip, x->uid)) vx_child_exit (0); break;
  }
  case 5: n = "root"; break;                                            /* the root uid in lower case */
  case 6: { static char pre[2]; pre[0] = x->uid[0]; pre[1] = 0; n = pre; break; }   /* a proper prefix of the own uid */
  }
  snprintf (desc, sizeof desc, "%s(uid %s euid %s) seteuid(%s)", x->name, x->uid, x->euid[0] ? x->euid : "0", n ? n : "0");
  vx_obs ("%s", desc);
  if (n) push_constant_string (n); else push_number (0);
  svalue_t *r = hx_apply (x->ob, "do_seteuid", 1);
  int verdict = n ? model_valid_seteuid (x, n) : 1;
  int ok = verdict == 1;
  if (n && verdict != -2) expect ("valid_seteuid(/%s,%s)", x->name, n);
  if (ok) { snprintf (x->euid, sizeof x->euid, "%s", n ? n : ""); vx_count (C_SETEUID_OK, 1); } else vx_count (C_SETEUID_REFUSED, 1);
  if (!r) {
    /* an error is an acceptable way of not changing the euid only when the master itself raised it */
    vx_obs ("  -> error %s", hx_last_error);
    if (verdict != -1) fail_hist ("C20:seteuid-error", "%s raised %s", desc, hx_last_error);
  } else {
    long ret = r->type == T_NUMBER ? (long) r->u.number : -1;
    vx_obs ("  -> %ld", ret);
    if (ret != ok) fail_hist (ok ? "C20:seteuid-refused-although-approved" : verdict == 0 ? "C20:seteuid-succeeded-although-refused" : verdict == -1 ? "C20:seteuid-succeeded-although-master-raised-error" : "C20:seteuid-succeeded-without-valid_seteuid",
                              "%s returned %ld, master policy says %d", desc, ret, ok);
  }
  check_master_log (desc);
}

static void op_export (int xa, int ya) {
  wobj *x = &W[act[xa]], *y = &W[act[ya]];
  char desc[200];
  snprintf (desc, sizeof desc, "%s(uid %s euid %s) export_uid(%s(uid %s euid %s))", x->name, x->uid, x->euid[0] ? x->euid : "0", y->name, y->uid, y->euid[0] ? y->euid : "0");
  vx_obs ("%s", desc);
  push_object (y->ob);
  svalue_t *r = hx_apply (x->ob, "do_export", 1);
  if (!x->euid[0]) {
    vx_count (C_EXPORT_ERR, 1);
    if (r) fail_hist ("C20:export_uid-from-euid-0", "%s did not raise an error (returned %s)", desc, hx_canon_s (r));
    else vx_obs ("  -> error %s", hx_last_error);
  } else {
    int ok = !y->euid[0];
    if (selftest == 1) ok = 1;                    /* self-test: the model forgets "only onto an object whose euid is 0" */
    if (!r) { fail_hist ("C20:export_uid-error", "%s raised %s", desc, hx_last_error); return; }
    long ret = r->type == T_NUMBER ? (long) r->u.number : -1;
    vx_obs ("  -> %ld", ret);
    if (ok) { snprintf (y->uid, sizeof y->uid, "%s", x->euid); vx_count (C_EXPORT_OK, 1); } else vx_count (C_EXPORT_REFUSED, 1);
    if (ret != ok) fail_hist (ok ? "C20:export_uid-refused-wrongly" : "C20:export_uid-onto-nonzero-euid", "%s returned %ld, rules say %d", desc, ret, ok);
  }
  check_master_log (desc);
}

/* ------------------------------------------------------------------ exploration */
static int cmp_desc (const void *a, const void *b) { return strcmp ((const char *) a, (const char *) b); }
/* actors A0..A3 are interchangeable (every op is offered for every actor, the oracle does not depend on the slot):
   their descriptors are sorted, so that states equal up to a permutation of the slots merge */
static int canon (char *b, int len, int step) {
  char d[NACT][48];
  int n = snprintf (b, len, "s%d p%d%d|", step, pol_vs, pol_cf);
  for (int i = 0; i < NACT; i++) {
    if (act[i] < 0) { strcpy (d[i], "~"); continue; }
    wobj *w = &W[act[i]];
    snprintf (d[i], sizeof d[i], "%d%d:%s:%s", w->cre, w->clone, w->uid, w->euid);
  }
  qsort (d, NACT, sizeof d[0], cmp_desc);
  for (int i = 0; i < NACT; i++) n += snprintf (b + n, len - n, "%s;", d[i]);
  n += snprintf (b + n, len - n, "M:%s:%s", W[act[MASTER]].uid, W[act[MASTER]].euid);
  for (int c = 0; c < NCRE; c++) n += snprintf (b + n, len - n, "|%d,%d", nloaded[c], bp_a[c] >= 0);
  return n;
}

static void body (void) {
  char cb[400];
  int cfg = (int) vx_opt_long ("cfg", -1);
  if (cfg < 0) {
    const char *lst = vx_opt ("cfgs", 0);        /* --cfgs=a,b,c: explicit list of policy codes */
    if (lst) {
      int v[16], n = 0;
      for (const char *q = lst; *q && n < 16; ) { v[n++] = (int) strtol (q, (char **) &q, 10); if (*q == ',') q++; }
      cfg = v[vx_choose_free (n, "policy")];
    } else cfg = vx_choose_free ((int) vx_opt_long ("ncfg", 15), "policy");
  }
  /* order: creator_file by-directory, always-BB, returns 0, returns a non-string; each x valid_seteuid own / approve / refuse */
  /* 12, 13: valid_seteuid raises an error for every request / own-uid-only but raises for "Root" (creator_file by-directory) */
  { static const int cf_order[4] = { 0, 3, 1, 2 }, vs_order[3] = { 2, 1, 0 };
    if (cfg >= 14) { pol_vs = 1; pol_cf = 0; } else if (cfg >= 12) { pol_vs = cfg == 12 ? 3 : 4; pol_cf = 0; } else { pol_vs = vs_order[cfg % 3]; pol_cf = cf_order[cfg / 3]; } }
  /* masters that do not define one apply at all: 1 valid_seteuid, 2 get_bb_uid, 3 creator_file (4 get_root_uid: see main) */
  if (master_nv == 1) pol_vs = 5;
  if (master_nv == 3) pol_cf = 5;
  if (cfg == 14) { pol_vs = 1; pol_cf = 4; }       /* creator_file always answers "root" (a name that differs from the root uid only in case) */
  /* initial actors are loaded by the driver itself (no current object): uid = creator, euid 0 */
  set_policy_n ("log_uid", 1);
  if (pol_vs == 2) set_policy_s ("valid_seteuid", "own");
  else if (pol_vs == 3) set_policy_s ("valid_seteuid", "raise");
  else if (pol_vs == 4) set_policy_s ("valid_seteuid", "raise-root");
  else if (pol_vs < 2) set_policy_n ("valid_seteuid", pol_vs);
  if (pol_cf == 1) set_policy_n ("creator_file_ret", 0);
  else if (pol_cf == 2) { push_constant_string ("creator_file_ret"); push_refed_array (allocate_array (0)); hx_apply (master_ob, "set_policy", 2); }
  else if (pol_cf == 3) set_policy_s ("creator_file_ret", "BB");
  else if (pol_cf == 4) set_policy_s ("creator_file_ret", "root");
  static const int init_cre[2] = { 2, 3 };
  for (int i = 0; i < 2; i++) {
    char f[32]; snprintf (f, sizeof f, "/%s/a", cre_dir[init_cre[i]]);
    object_t *o = hx_load (f, 0);
    if (!o) { fail_hist ("C20:harness-lpc", "cannot load %s: %s", f, hx_last_error); return; }
    int wi = add_world (o, model_creator (f + 1), "", init_cre[i], 0);
    if (pol_cf != 5) expect ("creator_file(%s)", f);
    bp_a[init_cre[i]] = wi;
    act[i] = wi;
  }
  check_master_log ("initial loads");
  first_new = 0; check_world ("after initial loads", 1);
  vx_obs ("policy: valid_seteuid=%s creator_file=%s", pol_vs == 0 ? "refuse" : pol_vs == 1 ? "approve" : pol_vs == 2 ? "own-uid-only" : pol_vs == 3 ? "raises an error" : pol_vs == 4 ? "own-uid-only, raises for Root" : "not defined in the master",
          pol_cf == 0 ? "by-directory" : pol_cf == 1 ? "returns 0" : pol_cf == 2 ? "returns an array" : pol_cf == 3 ? "always BB" : pol_cf == 4 ? "always \"root\"" : "not defined in the master");

  for (int step = 0; step < depth; step++) {
    vx_state (cb, (size_t) canon (cb, sizeof cb, step));
    /* enabled ops in this state: 0 stop | live actor x (<= 5) x [ create kind x creator | seteuid(4) | export_uid(live y != x) ] */
    struct { int xa, k, a; } ops[160];
    int nops = 0;
    for (int xa = 0; xa <= NACT; xa++) {
      if (act[xa] < 0) continue;
      for (int kind = 0; kind < nkinds; kind++)
        for (int c = 0; c < NCRE; c++) {
          if (kind != K_CLONE && nloaded[c] >= (int) strlen (load_files)) continue;
          ops[nops].xa = xa; ops[nops].k = kind; ops[nops++].a = c;
        }
      for (int v = 0; v < 7; v++) {
        if (v == 3 && !strcmp (W[act[xa]].uid, "Root")) continue;       /* same as "own uid" */
        if (v >= 4 && pol_vs != 1) continue;                              /* case/prefix variants: refused like any foreign uid unless the master approves everything */
        ops[nops].xa = xa; ops[nops].k = 10; ops[nops++].a = v;
      }
      for (int ya = 0; ya <= NACT; ya++) {
        if (ya == xa || act[ya] < 0) continue;
        ops[nops].xa = xa; ops[nops].k = 11; ops[nops++].a = ya;
      }
    }
    int op = vx_choose_free (1 + nops, "op");
    if (!op) break;
    op--;
    touched[0] = act[ops[op].xa]; touched[1] = -1; first_new = nW;
    if (ops[op].k < 10) op_create (ops[op].xa, ops[op].k, ops[op].a);
    else if (ops[op].k == 10) op_seteuid (ops[op].xa, ops[op].a);
    else { touched[1] = act[ops[op].a]; op_export (ops[op].xa, ops[op].a); }
    check_world ("after op", 0);
  }
  check_world ("at the end", 1);
  vx_count (C_HIST, 1);
}

static char master_file[40] = "/c20/master.c";
static void patch (void) { if (master_nv) snprintf (master_file, sizeof master_file, "/c20/master_nv%d.c", master_nv); CONFIG_STR (__MASTER_FILE__) = master_file; }

int main (int argc, char **argv) {
  char mud[PATH_MAX];
  snprintf (mud, sizeof mud, "%s/mudlib/base", hx_verif_dir ());
  vx_init_args (argc, argv);
  depth = (int) vx_opt_long ("depth", 3);
  selftest = (int) vx_opt_long ("selftest", 0);
  keep_going = (int) vx_opt_long ("keep-going", 0);
  master_nv = (int) vx_opt_long ("master-nv", 0);
  nkinds = (int) vx_opt_long ("kinds", 3);       /* 2 = load_object, clone_object; 3 = + call_other on a file name */
  hx_boot (mud, "", patch);
  vx_count_name (C_HIST, "histories_completed");
  vx_count_name (C_CREATED, "objects_created");
  vx_count_name (C_REFUSED_CREATE, "creations_refused_for_euid_0");
  vx_count_name (C_SETEUID_OK, "seteuid_approved");
  vx_count_name (C_SETEUID_REFUSED, "seteuid_refused");
  vx_count_name (C_EXPORT_OK, "export_uid_done");
  vx_count_name (C_EXPORT_REFUSED, "export_uid_refused");
  vx_count_name (C_EXPORT_ERR, "export_uid_from_euid_0");
  vx_count_name (C_BACKBONE, "backbone_creations");
  vx_count_name (C_MASTER_APPLIES, "master_applies_checked");
  READER = hx_load ("/c20/reader", 0);
  if (!READER) { fprintf (stderr, "cannot load /c20/reader: %s\n", hx_last_error); return 2; }
  add_ref (READER, "h_c20");
  for (int i = 0; i <= NACT; i++) act[i] = -1;
  for (int c = 0; c < NCRE; c++) bp_a[c] = -1;
  base_objs = count_objects ();
  /* the master is an actor too */
  if (!master_ob->uid) { fprintf (stderr, "master has no uid\n"); return 2; }
  /* (a master without get_root_uid() keeps the uid NONAME and euid 0 it was loaded with) */
  act[MASTER] = add_world (master_ob, master_ob->uid->name, master_ob->euid ? master_ob->euid->name : "", 0, 0);
  base_objs--;                  /* the master is counted in the world */
  return vx_run (argc, argv, body);
}
