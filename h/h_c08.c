/* C08 — object names, inventories and destruction stay consistent.
 *
 * Explores all histories of bounded depth over
 *   {load a | load b (inherits a) | load b vetoed by valid_object | clone a | move(x,y) all pairs | destruct(x) |
 *    become living (enable_commands + set_living_name) | set_heart_beat + call_out | command "v" | tick | cleanup}
 * over a population of <= 4 objects (blueprints a, b; two clones of a), from four initial worlds, with budgeted
 * deviations decided at the entry of every hook (create / init / move_or_destruct / verb function / heart_beat / call_out callback):
 *   the hook's script {error(), move(any -> any), destruct(any), load a|b, clone, become living, any object calls
 *   set_heart_beat(1), verb returns 1}
 * The real src/simulate.c, lib/lpc/otable.c, lib/lpc/object.c, src/backend.c, lib/efuns/{inventory,command,call_out}.c.
 * After EVERY step: an invariant walker over the driver's own structures + an abstract world model (driven by the
 * ops and by the begin/end records the LPC side writes) compared with the driver structures and with the answers of
 * find_object/environment/all_inventory/deep_inventory/first+next_inventory/objects()/livings()/find_living()/present(). */
#include "hx.h"
#include "hash.h"

extern void vw_call_heart_beat (void);
extern int vw_num_hb_objs (void);
extern object_t *vw_hb_ob (int i);
extern int vw_otable_size (void), vw_objs_in_table (void), vw_otable_hash (const char *s);
extern object_t *vw_otable_bucket (int i);
extern int vw_sent_free_len (void);

#define NOBJ 4
static const char *obj_file[2] = { "/c08/a", "/c08/b" };

typedef struct {
  int st;                       /* 0 not loaded, 1 live, 2 destructed (waiting in obj_list_destruct), 3 destructed and cleaned up */
  int parent;                   /* -1 none */
  int living, lname;            /* lname: 0 none, 1 / 2 = first / second living name */
  int hb, co;
  int seq;                      /* order of entering the current environment: the newest is the head of the inventory */
} mobj;
static mobj M[NOBJ];
static object_t *OB[NOBJ];      /* current incarnation (ref held) */
static object_t *LOGGER;
static int nclone, pending_destructed, base_objs, depth, selftest, ohash;
static int choices_on, scripts_run, fails_run, hook_calls;
static int ticks_done, maxticks, seqno;
static char lname1[16] = "p", lname2[16] = "q";     /* two living names that collide in the living hash */

enum { C_HIST, C_STEPS, C_HOOKS, C_SCRIPTS, C_MOVES, C_DESTRUCTS, C_ERRORS, C_SILENT_DESTRUCTS, C_COMMANDS, C_VERBS, C_REENTRANT_LOADS, C_WALKS };

static int fatal_corruption;      /* a driver list is cyclic: going on would only make the driver spin */
static void fail_hist (const char *key, const char *fmt, ...) {
  char msg[560]; va_list ap; va_start (ap, fmt); vsnprintf (msg, sizeof msg, fmt, ap); va_end (ap);
  vx_fail (key, "%s", msg);
  vx_obs ("!! %s: %s", key, msg);
  if (strstr (key, "cycle") || strstr (key, "too-long")) fatal_corruption = 1;
}
static int live (int i) { return i >= 0 && i < NOBJ && M[i].st == 1; }
static int id_of (object_t *o) { if (!o) return -1; for (int i = 0; i < NOBJ; i++) if (OB[i] == o) return i; return -2; }

/* ------------------------------------------------------------------ H1: script decided at hookpoint() entry */
typedef struct { int op, a, b, ret; } script;
static int build_scripts (int kind, int self, script *v) {
  int n = 0;
  v[n++] = (script) { 0, 0, 0, 0 };
  v[n++] = (script) { 1, 0, 0, 0 };                                                    /* error() */
  for (int a = 0; a < NOBJ; a++) for (int b = 0; b < NOBJ; b++) v[n++] = (script) { 2, a, b, 0 };   /* move(a -> b) */
  for (int a = 0; a < NOBJ; a++) v[n++] = (script) { 3, a, 0, 0 };                        /* destruct(a) */
  v[n++] = (script) { 4, 0, 0, 0 }; v[n++] = (script) { 4, 1, 0, 0 };                     /* load a, load b */
  v[n++] = (script) { 5, 0, 0, 0 };                                                    /* clone a */
  v[n++] = (script) { 6, 0, 0, 0 };                                                    /* become living */
  for (int a = 0; a < NOBJ; a++) v[n++] = (script) { 9, a, 0, 0 };                        /* a (the object being destructed, self, another) calls set_heart_beat(1) */
  if (kind == 4) { v[n++] = (script) { 0, 0, 0, 1 }; v[n++] = (script) { 3, self, 0, 1 }; }   /* verb returns 1 (also after destructing itself) */
  return n;
}
static int really_live (int i) { return i >= 0 && i < NOBJ && OB[i] && !(OB[i]->flags & O_DESTRUCTED); }

static program_t *hp_prog; static int hp_addr = -1;
static int assign_id (object_t *ob) {
  int id;
  if (!strcmp (ob->name, "c08/a")) id = 0;
  else if (!strcmp (ob->name, "c08/b")) id = 1;
  else { id = 2 + nclone; nclone++; if (id > 3) return -1; }
  if (OB[id]) free_object (OB[id], "h_c08");
  OB[id] = ob; add_ref (ob, "h_c08");
  return id;
}

static void hook (void) {
  hx_insn_count++;
  if (!current_prog || !current_object) return;
  if (current_prog != hp_prog) {
    if (strcmp (current_prog->name, "c08/a.c")) return;
    hp_prog = current_prog; hp_addr = -1;
    for (int k = 0; k < current_prog->num_functions_defined; k++)
      if (!strcmp (current_prog->function_table[k].name, "hookpoint")) hp_addr = current_prog->function_table[k].address;
  }
  if (hp_addr < 0 || pc != current_prog->program + hp_addr) return;
  int kind = (int) fp[0].u.number;
  object_t *ob = current_object;
  int self = kind == 1 ? assign_id (ob) : id_of (ob);
  if (kind == 1 && self < 0) vx_child_exit (0);      /* a third clone: outside the population bound */
  static const char *kn[] = { "?", "create", "init", "move_or_destruct", "verb", "heart_beat", "call_out", "id", "poke", "catch_tell" };
  if (kind < 1 || kind > 9) return;
  hook_calls++;
  vx_count (C_HOOKS, 1);
  ob->variables[0].u.number = 0;
  /* this is where "the driver called a function in this object" is observed */
  if (ob->flags & O_DESTRUCTED) {
    char key[80]; snprintf (key, sizeof key, "C08:destructed-object-called:%s", kn[kind]);
    fail_hist (key, "%s() was called in O%d (/%s) which is destructed", kn[kind], self, ob->name);
  }
  if ((kind == 2 || kind == 4) && (!command_giver || (command_giver->flags & O_DESTRUCTED)))
    fail_hist (kind == 4 ? "C08:destructed-object-given-commands" : "C08:destructed-command-giver:init", "%s() in O%d runs with this_player() = %s", kn[kind], self, command_giver ? "a destructed object" : "0");
  if (kind == 4) vx_count (C_VERBS, 1);
  if (!choices_on || self < 0 || kind > 7) return;
  script v[40];
  int n = build_scripts (kind, self, v);
  int c = vx_choose (n, kn[kind]);
  if (!c) return;
  script *s = &v[c];
  /* prune scripts that are no-ops here (identical to "none") */
  if (s->op == 2 && (!really_live (s->a) || !really_live (s->b))) vx_child_exit (0);
  if (s->op == 3 && !really_live (s->a)) vx_child_exit (0);
  if (s->op == 5 && nclone >= 2) vx_child_exit (0);
  if (s->op == 6 && (ob->flags & O_ENABLE_COMMANDS)) vx_child_exit (0);
  if (s->op == 9 && (!really_live (s->a) || (OB[s->a]->flags & O_HEART_BEAT))) vx_child_exit (0);
  ob->variables[0].u.number = s->op | s->a << 8 | s->b << 16 | s->ret << 24;
  scripts_run++; if (s->op == 1) fails_run++;
  vx_count (C_SCRIPTS, 1);
  static const char *opn[] = { "return 1", "error()", "move", "destruct", "load", "clone", "become living", "?", "?", "set_heart_beat(1) in a" };
  vx_obs ("  [script in %s of O%d: %s a=O%d b=O%d%s]", kn[kind], self, opn[s->op], s->a, s->b, s->ret ? " ret 1" : "");
}

/* ------------------------------------------------------------------ abstract world, driven by the op records */
enum { FR_MOVE, FR_DEST, FR_MOD };
typedef struct { int type, ob, ok, implicit; } frame;
static frame FR[64]; static int nFR, nested_restrict, last_script_kind, last_hb_id = -1;
/* move_object("<name>"): the destination is loaded inside the efun, the link is made after its create() chain has finished */
static int lco_on, lco_x, lco_k;   /* a call_out of the registry object carrying object lco_x as argument is pending */
static int pend_on, pend_x, pend_t, pend_depth, pend_frame, shapes_on, shape_args_bad;

static int in_subtree (int x, int root) { for (int g = 0; x >= 0 && g < 8; x = M[x].parent, g++) if (x == root) return 1; return 0; }
static int head_of (int x) { int h = -1; for (int i = 0; i < NOBJ; i++) if (live (i) && M[i].parent == x && (h < 0 || M[i].seq > M[h].seq)) h = i; return h; }
static int has_children (int x) { for (int i = 0; i < NOBJ; i++) if (live (i) && M[i].parent == x) return 1; return 0; }
static void model_destructed (int x) {
  M[x].st = 2; M[x].parent = -1; M[x].living = 0; M[x].lname = 0; M[x].hb = 0; M[x].co = 0;
  pending_destructed++;
}
/* the driver finishes destructing x as soon as its inventory is empty */
static void settle (void) {
  while (nFR > 0 && FR[nFR - 1].type == FR_DEST && !has_children (FR[nFR - 1].ob)) {
    int x = FR[nFR - 1].ob;
    if (FR[nFR - 1].ok && live (x) && !(selftest == 2 && x == 1)) { model_destructed (x); vx_count (C_DESTRUCTS, 1); if (FR[nFR - 1].implicit) vx_count (C_SILENT_DESTRUCTS, 1); }
    nFR--;
  }
}
static int innermost_mod (void) { for (int k = nFR - 1; k >= 0; k--) if (FR[k].type == FR_MOD) return FR[k].ob; return -1; }
static void push_frame (int type, int ob, int ok, int implicit) { if (nFR < 64) FR[nFR++] = (frame) { type, ob, ok, implicit }; }

static void model_created (int id) {
  if (id < 0 || id >= NOBJ) return;
  if (M[id].st == 1) fail_hist ("C08:created-while-name-in-use", "create() ran in a new /%s while the model still has a live object of that name", id < 2 ? obj_file[id] + 1 : "c08/a#n");
  memset (&M[id], 0, sizeof M[id]);
  M[id].st = 1; M[id].parent = -1;
  /* driver rule (clone_object): cloning a program switches off the heart beat of its blueprint */
  if (id >= 2 && live (0)) M[0].hb = 0;
}

static int str_eq (svalue_t *v, const char *s) { return v->type == T_STRING && !strcmp (v->u.string, s); }
static long num (array_t *e, int k) { return (k < e->size && e->item[k].type == T_NUMBER) ? (long) e->item[k].u.number : -99; }

/* returns 1 if the records show something the model cannot follow */
static void process_log (int op_failed) {
  svalue_t *r = hx_apply (LOGGER, "take_log", 0);
  if (!r || r->type != T_ARRAY) { fail_hist ("C08:harness-lpc", "take_log failed: %s", hx_last_error); return; }
  array_t *log = r->u.arr;
  for (int i = 0; i < log->size; i++) {
    array_t *e = log->item[i].u.arr;
    svalue_t *w = &e->item[0];
    int id = (int) num (e, 1);
    if (str_eq (w, "create")) { vx_obs ("  create O%d", id); model_created (id); if (pend_on) pend_depth++; }
    else if (str_eq (w, "create-end")) ;
    else if (str_eq (w, "move-s-begin")) {
      int a = (int) num (e, 2), t = (int) num (e, 3);
      vx_obs ("  move O%d -> \"%s\" (by O%d)%s", a, obj_file[t], id, live (t) ? "" : " [not loaded: the efun loads it]");
      push_frame (FR_MOVE, a, 0, 0);
      pend_frame = nFR - 1; pend_on = 1; pend_x = a; pend_t = t; pend_depth = 0;
      if (live (t)) {         /* already there: linked at once */
        int ok = live (a) && !in_subtree (t, a);
        if (ok) { M[a].parent = t; M[a].seq = ++seqno; vx_count (C_MOVES, 1); }
        FR[pend_frame].ok = ok; pend_on = 0;
      }
    } else if (str_eq (w, "move-s-end")) {
      int a = (int) num (e, 2);
      while (nFR > 0 && !(FR[nFR - 1].type == FR_MOVE && FR[nFR - 1].ob == a)) nFR--;
      if (nFR > 0) { if (!FR[nFR - 1].ok) fail_hist ("C08:illegal-move-succeeded", "move_object(\"%s\") by O%d returned normally although the mover was destructed meanwhile, the destination did not survive its create(), or it would be inside itself", obj_file[num (e, 3) ? 1 : 0], a); nFR--; }
      pend_on = 0;
      settle ();
    }
    else if (str_eq (w, "co-arg")) { vx_obs ("  call_out with O%ld as argument (shape %ld)", num (e, 2), num (e, 3)); lco_on = 1; lco_x = (int) num (e, 2); lco_k = (int) num (e, 3); }
    else if (str_eq (w, "co-take")) {
      vx_obs ("  call_out callback receives O%ld, O%ld", num (e, 2), num (e, 3));
      for (int k = 2; k <= 3; k++) { long a = num (e, k); if (a == -2 || (a >= 0 && !live ((int) a))) fail_hist ("C08:reference-to-destructed-object-not-0", "a call_out argument that refers to a destructed object (O%ld) reaches the callback as an object", a); }
    }
    else if (str_eq (w, "present-begin")) vx_obs ("  present(\"thing\", O%ld)", num (e, 2));
    else if (str_eq (w, "present-end")) ;
    else if (str_eq (w, "id")) { vx_obs ("  id() in O%d", id); if (!live (id)) fail_hist ("C08:model-desync", "id() record from O%d which the model has as not live (%d)", id, M[id].st); }
    else if (str_eq (w, "shape-begin")) vx_obs ("  shape %ld: O%ld is pending on the stack while a later argument destructs it", num (e, 3), num (e, 2));
    else if (str_eq (w, "shape-arg")) { if (num (e, 2)) { shape_args_bad++; fail_hist ("C08:reference-to-destructed-object-not-0", "an argument that was pending on the stack while the object was destructed arrives in the callee as an object"); } }
    else if (str_eq (w, "shape-end")) { if (num (e, 4)) fail_hist ("C08:reference-to-destructed-object-not-0", "a local variable holding O%ld still reads as an object after the object was destructed", num (e, 2)); }
    else if (str_eq (w, "move-begin")) {
      int a = (int) num (e, 2), b = (int) num (e, 3);
      int ok = live (a) && live (b) && !in_subtree (b, a);
      vx_obs ("  move O%d -> O%d (by O%d)%s", a, b, id, ok ? "" : " [must fail]");
      if (ok && !(selftest == 1 && a == 2)) { M[a].parent = b; M[a].seq = ++seqno; vx_count (C_MOVES, 1); }   /* self-test 1: the model loses the moves of O2 */
      push_frame (FR_MOVE, a, ok, 0);
      if (!live (a) || !live (b)) fail_hist ("C08:destructed-object-handed-out", "LPC got hold of O%d/O%d for a move although one of them is destructed or not loaded", a, b);
    } else if (str_eq (w, "move-end")) {
      int a = (int) num (e, 2), b = (int) num (e, 3);
      while (nFR > 0 && !(FR[nFR - 1].type == FR_MOVE && FR[nFR - 1].ob == a)) nFR--;      /* inner frames closed by completion */
      if (nFR > 0) { if (!FR[nFR - 1].ok) fail_hist ("C08:illegal-move-succeeded", "move_object(O%d -> O%d) returned normally although O%d is O%d itself or inside it", a, b, b, a); nFR--; }
      settle ();
    } else if (str_eq (w, "dest-begin")) {
      int a = (int) num (e, 2);
      int im = innermost_mod ();
      int ok = live (a) && (im < 0 || im == a);
      vx_obs ("  destruct O%d (by O%d)%s", a, id, ok ? "" : " [must fail: inside move_or_destruct of another object]");
      push_frame (FR_DEST, a, ok, 0);
      if (ok) settle ();
    } else if (str_eq (w, "dest-end")) {
      int a = (int) num (e, 2);
      /* the frame must be settled by now */
      for (int k = 0; k < nFR; k++) if (FR[k].type == FR_DEST && FR[k].ob == a && !FR[k].implicit) {
        if (!FR[k].ok) fail_hist ("C08:restricted-destruct-succeeded", "destruct(O%d) from inside move_or_destruct of another object returned normally", a);
        else fail_hist ("C08:model-desync", "destruct(O%d) returned but the model still sees objects inside it", a);
        nFR = k; break;
      }
      settle ();
    } else if (str_eq (w, "mod")) {
      vx_obs ("  move_or_destruct in O%d (dest O%ld)", id, num (e, 2));
      if (!live (id)) fail_hist ("C08:model-desync", "move_or_destruct() record from O%d which the model has as not live (%d)", id, M[id].st);
      push_frame (FR_MOD, id, 1, 0);
    } else if (str_eq (w, "hook-end")) {
      if (num (e, 2) == 1 && pend_on) {
        if (pend_depth > 0) pend_depth--;
        if (pend_depth == 0 && live (pend_t) && pend_frame < nFR && !FR[pend_frame].ok) {
          /* the destination exists now: this is where the efun goes on to move_object() */
          int ok = live (pend_x) && !in_subtree (pend_t, pend_x);
          if (ok) { M[pend_x].parent = pend_t; M[pend_x].seq = ++seqno; vx_count (C_MOVES, 1); FR[pend_frame].ok = 1; pend_on = 0; }
        }
      }
      if (num (e, 2) == 3) {
        while (nFR > 0 && !(FR[nFR - 1].type == FR_MOD && FR[nFR - 1].ob == id)) nFR--;
        if (nFR > 0) nFR--;
        /* still the first object of the inventory that is being emptied: the driver destructs it now (and its own inventory gets its turn) */
        if (nFR > 0 && FR[nFR - 1].type == FR_DEST && live (id) && M[id].parent == FR[nFR - 1].ob && head_of (FR[nFR - 1].ob) == id) {
          /* ... unless the enclosing destruct was itself issued from a move_or_destruct hook: the driver's own
             destruct of the unmoved object then runs into "Only this_object() can be destructed from move_or_destruct"
             and the whole operation is abandoned with that error (nothing more is recorded) */
          if (innermost_mod () >= 0) { vx_obs ("  (driver cannot destruct unmoved O%d: nested in a move_or_destruct hook -> error expected)", id); nested_restrict = 1; }
          else push_frame (FR_DEST, id, 1, 1);
        }
        settle ();
      }
    } else if (str_eq (w, "init")) {
      int tp = (int) num (e, 2);
      vx_obs ("  init in O%d (this_player O%d)", id, tp);
      if (!live (id)) fail_hist ("C08:model-desync", "init() record from O%d which the model has as not live (%d)", id, M[id].st);
    } else if (str_eq (w, "verb")) {
      vx_obs ("  verb in O%d (this_player O%ld)", id, num (e, 2));
      if (!live (id)) fail_hist ("C08:model-desync", "verb record from O%d which the model has as not live (%d)", id, M[id].st);
    } else if (str_eq (w, "hb") || str_eq (w, "co")) {
      vx_obs ("  %s in O%d", w->u.string, id);
      nFR = 0;                  /* a new driver-level callback: whatever was open was abandoned by an error */
      if (w->u.string[0] == 'h') last_hb_id = id;
      if (!live (id)) fail_hist ("C08:model-desync", "%s record from O%d which the model has as not live (%d)", w->u.string, id, M[id].st);
      if (w->u.string[0] == 'c' && live (id)) M[id].co = 0;
    } else if (str_eq (w, "living")) { if (live (id)) { M[id].living = 1; M[id].lname = (id & 1) ? 2 : 1; } vx_obs ("  O%d becomes living \"%s\"", id, e->item[2].u.string); }
    else if (str_eq (w, "hb-on")) { int a = (int) num (e, 2); vx_obs ("  O%d calls set_heart_beat(1) (made to by O%d)", a, id); if (live (a)) M[a].hb = 1; }
    else if (str_eq (w, "timers")) { if (live (id)) { M[id].hb = 1; M[id].co = 1; } }
    else if (str_eq (w, "hook-script")) last_script_kind = (int) num (e, 2);
    else if (str_eq (w, "fail")) vx_obs ("  scripted error() in O%d", id);
    else if (str_eq (w, "nop")) vx_obs ("  (script target gone, no-op)");
    else if (str_eq (w, "load-begin") || str_eq (w, "clone-begin")) { if (id >= 0) vx_count (C_REENTRANT_LOADS, 1); vx_obs ("  %s %s (by O%d)", w->u.string, e->item[2].u.string, id); }
    else if (str_eq (w, "load-end") || str_eq (w, "clone-end") || str_eq (w, "cmd-begin") || str_eq (w, "cmd-end")) ;
  }
  /* an error that left the op abandons every frame that is still open */
  if (nFR > 0 && !op_failed) {
    for (int k = 0; k < nFR; k++) {
      if (FR[k].type == FR_MOVE && FR[k].ok) fail_hist ("C08:move-not-completed", "move of O%d neither completed nor raised an error", FR[k].ob);
      if (FR[k].type == FR_DEST && !FR[k].implicit) fail_hist ("C08:model-desync", "destruct(O%d) neither completed nor raised an error", FR[k].ob);
    }
  }
  nFR = 0; pend_on = 0;
}

/* ------------------------------------------------------------------ invariant walker over the driver's own structures */
#define MAXO 64
static void walk (const char *when) {
  object_t *all[MAXO]; int n = 0;
  vx_count (C_WALKS, 1);
  for (object_t *o = obj_list; o; o = o->next_all) {
    if (n >= MAXO) { fail_hist ("C08:obj_list-too-long", "%s: obj_list has more than %d entries (cycle?)", when, MAXO); return; }
    for (int k = 0; k < n; k++) if (all[k] == o) { fail_hist ("C08:obj_list-cycle", "%s: /%s occurs twice in obj_list", when, o->name); return; }
    all[n++] = o;
  }
#define IN_ALL(p) ({ int f_ = 0; for (int k_ = 0; k_ < n; k_++) if (all[k_] == (p)) f_ = 1; f_; })
  /* obj_list <-> name hash bijection */
  for (int k = 0; k < n; k++) {
    object_t *o = all[k];
    if (o->flags & O_DESTRUCTED) fail_hist ("C08:destructed-object-in-obj_list", "%s: /%s is destructed but still in obj_list", when, o->name);
    for (int j = 0; j < k; j++) if (!strcmp (all[j]->name, o->name)) fail_hist ("C08:two-live-objects-with-one-name", "%s: two objects named /%s in obj_list", when, o->name);
    int found = 0, cnt = 0;
    for (object_t *h = vw_otable_bucket (vw_otable_hash (o->name)); h && cnt < MAXO; h = h->next_hash, cnt++) if (h == o) found++;
    if (found != 1) fail_hist ("C08:live-object-not-in-name-hash", "%s: /%s is in obj_list but %d times in its hash chain", when, o->name, found);
  }
  int in_table = 0;
  for (int b = 0; b < vw_otable_size (); b++) {
    int cnt = 0;
    for (object_t *h = vw_otable_bucket (b); h; h = h->next_hash) {
      if (++cnt > MAXO) { fail_hist ("C08:name-hash-chain-cycle", "%s: bucket %d does not end", when, b); break; }
      in_table++;
      if (h->flags & O_DESTRUCTED) fail_hist ("C08:destructed-object-in-name-hash", "%s: /%s is destructed but still in the name hash", when, h->name);
      if (!IN_ALL (h)) fail_hist ("C08:name-hash-entry-not-in-obj_list", "%s: /%s is in the name hash but not in obj_list", when, h->name);
      if (vw_otable_hash (h->name) != b) fail_hist ("C08:name-hash-wrong-bucket", "%s: /%s sits in bucket %d", when, h->name, b);
    }
  }
  if (in_table != n || vw_objs_in_table () != n) fail_hist ("C08:name-hash-count-differs", "%s: %d objects in obj_list, %d in the hash chains, counter says %d", when, n, in_table, vw_objs_in_table ());
  /* inventories form a forest that agrees with super */
  for (int k = 0; k < n; k++) {
    object_t *o = all[k];
    int steps = 0;
    for (object_t *s = o->super; s; s = s->super) if (++steps > MAXO || s == o) { fail_hist ("C08:environment-cycle", "%s: /%s is (indirectly) inside itself", when, o->name); break; }
    if (o->super) {
      if (o->super->flags & O_DESTRUCTED) fail_hist ("C08:live-object-inside-destructed", "%s: /%s has a destructed environment /%s", when, o->name, o->super->name);
      int occ = 0, cnt = 0;
      for (object_t *c = o->super->contains; c && cnt < MAXO; c = c->next_inv, cnt++) if (c == o) occ++;
      if (occ != 1) fail_hist ("C08:environment-disagrees-with-inventory", "%s: environment of /%s is /%s, which lists it %d times", when, o->name, o->super->name, occ);
    } else if (o->next_inv) fail_hist ("C08:dangling-next_inv", "%s: /%s has no environment but a next_inv link to /%s", when, o->name, o->next_inv->name);
    int cnt = 0;
    for (object_t *c = o->contains; c; c = c->next_inv) {
      if (++cnt > MAXO) { fail_hist ("C08:inventory-chain-cycle", "%s: inventory of /%s does not end", when, o->name); break; }
      if (c->flags & O_DESTRUCTED) fail_hist ("C08:destructed-object-in-inventory", "%s: inventory of /%s lists destructed /%s", when, o->name, c->name);
      if (c->super != o) fail_hist ("C08:object-in-two-inventories", "%s: inventory of /%s lists /%s whose environment is /%s", when, o->name, c->name, c->super ? c->super->name : "0");
      if (!IN_ALL (c) && !(c->flags & O_DESTRUCTED)) fail_hist ("C08:inventory-lists-unknown-object", "%s: inventory of /%s lists /%s which is not in obj_list", when, o->name, c->name);
    }
    if ((o->flags & O_HEART_BEAT)) { int f = 0; for (int h = 0; h < vw_num_hb_objs (); h++) if (vw_hb_ob (h) == o) f++; if (f != 1) fail_hist ("C08:heart-beat-flag-without-slot", "%s: /%s has O_HEART_BEAT and %d slots", when, o->name, f); }
  }
  /* obj_list_destruct: exactly the destructed, not yet freed ones, fully unlinked */
  int nd = 0;
  for (object_t *o = obj_list_destruct; o; o = o->next_all) {
    if (++nd > MAXO) { fail_hist ("C08:obj_list_destruct-cycle", "%s: obj_list_destruct does not end", when); break; }
    if (!(o->flags & O_DESTRUCTED)) fail_hist ("C08:live-object-in-destruct-list", "%s: /%s is in obj_list_destruct without O_DESTRUCTED", when, o->name);
    if (o->super || o->contains || o->next_inv) fail_hist ("C08:destructed-object-still-linked", "%s: destructed /%s still has super/contains/next_inv", when, o->name);
    if (o->flags & O_ENABLE_COMMANDS) fail_hist ("C08:destructed-object-has-commands-enabled", "%s: destructed /%s has O_ENABLE_COMMANDS", when, o->name);
    if (o->flags & O_HEART_BEAT) fail_hist ("C08:destructed-object-has-heart-beat", "%s: destructed /%s has O_HEART_BEAT", when, o->name);
    if (o->living_name) fail_hist ("C08:destructed-object-has-living-name", "%s: destructed /%s still has living name %s", when, o->name, o->living_name);
    if (o->sent) fail_hist ("C08:destructed-object-has-sentences", "%s: destructed /%s still carries command sentences", when, o->name);
    if (IN_ALL (o)) fail_hist ("C08:object-in-both-lists", "%s: /%s is in obj_list and in obj_list_destruct", when, o->name);
  }
  if (nd != pending_destructed) fail_hist ("C08:destruct-list-count-differs", "%s: obj_list_destruct holds %d objects, %d were destructed since the last cleanup", when, nd, pending_destructed);
  for (int i = 0; i < NOBJ; i++) if (OB[i] && (OB[i]->flags & O_DESTRUCTED) && M[i].st == 2) {
    int f = 0, g = 0; for (object_t *o = obj_list_destruct; o && g < MAXO; o = o->next_all, g++) if (o == OB[i]) f++;
    if (f != 1) fail_hist ("C08:destructed-object-not-in-destruct-list", "%s: destructed O%d is %d times in obj_list_destruct", when, i, f);
  }
  /* living hash and heart-beat list hold no destructed object */
  for (int b = 0; b < CONFIG_INT (__LIVING_HASH_TABLE_SIZE__); b++) {
    int cnt = 0;
    for (object_t *o = hashed_living[b]; o; o = o->next_hashed_living) {
      if (++cnt > MAXO) { fail_hist ("C08:living-hash-cycle", "%s: living hash bucket %d does not end", when, b); break; }
      if (o->flags & O_DESTRUCTED) fail_hist ("C08:destructed-object-in-living-hash", "%s: destructed /%s is in the living hash as %s", when, o->name, o->living_name ? o->living_name : "?");
      else if (!IN_ALL (o)) fail_hist ("C08:living-hash-entry-not-in-obj_list", "%s: /%s in the living hash is not in obj_list", when, o->name);
      if (!o->living_name) fail_hist ("C08:living-hash-entry-without-name", "%s: /%s in the living hash has no living name", when, o->name);
    }
  }
  for (int h = 0; h < vw_num_hb_objs (); h++) { object_t *o = vw_hb_ob (h); if (o && (o->flags & O_DESTRUCTED)) fail_hist ("C08:destructed-object-in-heart-beat-list", "%s: destructed /%s has a heart-beat slot", when, o->name); }
  /* no sentence of a live object sits on the free list (a freed sentence that is still linked) -- bounded walk */
  for (int k = 0; k < n; k++) { int cnt = 0; for (sentence_t *s = all[k]->sent; s; s = s->next) { if (++cnt > 256) { fail_hist ("C08:sentence-chain-cycle", "%s: sentences of /%s do not end", when, all[k]->name); break; } if (!s->ob) { fail_hist ("C08:freed-sentence-still-linked", "%s: /%s carries a sentence without defining object", when, all[k]->name); break; } } }

  /* the abstract world against the driver's structures */
  if (n != base_objs + ({ int c_ = 0; for (int i = 0; i < NOBJ; i++) c_ += live (i); c_; }))
    fail_hist ("C08:object-count-differs", "%s: obj_list has %d objects, the model expects %d", when, n, base_objs + ({ int c_ = 0; for (int i = 0; i < NOBJ; i++) c_ += live (i); c_; }));
  for (int i = 0; i < NOBJ; i++) {
    object_t *o = OB[i];
    if (!o) { if (M[i].st) fail_hist ("C08:model-desync", "%s: model has O%d but the harness never saw it created", when, i); continue; }
    int dl = !(o->flags & O_DESTRUCTED);
    if (dl != (M[i].st == 1)) { fail_hist (dl ? "C08:object-survived-destruct" : "C08:object-destructed-unexpectedly", "%s: O%d (/%s) is %s, the model says %s", when, i, o->name ? o->name : "?", dl ? "live" : "destructed", M[i].st == 1 ? "live" : "destructed"); continue; }
    if (!dl) continue;
    int sup = id_of (o->super);
    if (sup != M[i].parent) fail_hist ("C08:environment-differs-from-model", "%s: environment of O%d is O%d, the model says O%d", when, i, sup, M[i].parent);
    if (!!(o->flags & O_ENABLE_COMMANDS) != M[i].living) fail_hist ("C08:living-flag-differs-from-model", "%s: O%d O_ENABLE_COMMANDS=%d, model %d", when, i, !!(o->flags & O_ENABLE_COMMANDS), M[i].living);
    if (!!(o->flags & O_HEART_BEAT) != M[i].hb) fail_hist ("C08:heart-beat-flag-differs-from-model", "%s: O%d O_HEART_BEAT=%d, model %d", when, i, !!(o->flags & O_HEART_BEAT), M[i].hb);
  }
}

/* ------------------------------------------------------------------ LPC-visible answers against the abstract world */
static long lgi (const char *fn, int nargs) {
  svalue_t *r = hx_apply (LOGGER, fn, nargs);
  if (!r) { fail_hist ("C08:harness-lpc", "logger->%s failed: %s", fn, hx_last_error); return -77; }
  return r->type == T_NUMBER ? (long) r->u.number : -78;
}
static int lga (const char *fn, int nargs, int *out, int max) {       /* int array result; -1 if 0 */
  svalue_t *r = hx_apply (LOGGER, fn, nargs);
  if (!r) { fail_hist ("C08:harness-lpc", "logger->%s failed: %s", fn, hx_last_error); return -2; }
  if (r->type != T_ARRAY) return -1;
  int n = r->u.arr->size < max ? r->u.arr->size : max;
  for (int i = 0; i < n; i++) out[i] = (int) r->u.arr->item[i].u.number;
  return n;
}
static unsigned set_of (const int *v, int n, const char *what, const char *when) {
  unsigned s = 0;
  for (int i = 0; i < n; i++) {
    if (v[i] == -3) fail_hist ("C08:efun-lists-non-object", "%s: %s contains an element that is not an object (a destructed one?)", when, what);
    else if (v[i] >= 0 && v[i] < NOBJ) { if (s & (1u << v[i])) fail_hist ("C08:efun-lists-object-twice", "%s: %s lists O%d twice", when, what, v[i]); s |= 1u << v[i]; }
  }
  return s;
}

static void observe (const char *when) {
  int v[32], n;
  char nm[64];
  for (int i = 0; i < NOBJ; i++) {
    /* find_object by name */
    if (OB[i]) {
      snprintf (nm, sizeof nm, "/%s", OB[i]->name);
      push_constant_string (nm);
      long f = lgi ("fo", 1);
      long want = live (i) ? i : -1;
      if (f != want) fail_hist (want < 0 ? "C08:destructed-object-found-by-name" : "C08:live-object-not-found-by-name", "%s: find_object(\"%s\") gives O%ld, expected O%ld", when, nm, f, want);
    }
    else if (i < 2) {
      /* find_object() of a name that is not loaded finds nothing and loads nothing (the object count is checked by the walker) */
      push_constant_string (obj_file[i]);
      long f = lgi ("fo", 1);
      if (f != -1) fail_hist ("C08:find_object-found-unloaded-name", "%s: find_object(\"%s\") = O%ld although nothing of that name is loaded", when, obj_file[i], f);
    }
    /* references read as 0 */
    if (M[i].st) {
      push_number (i);
      n = lga ("refs", 1, v, 3);
      for (int k = 0; k < n; k++) if (v[k] != live (i)) fail_hist (live (i) ? "C08:reference-to-live-object-reads-0" : "C08:reference-to-destructed-object-not-0",
                                                                  "%s: %s holding O%d reads as %s", when, k == 0 ? "array slot" : k == 1 ? "mapping value" : "variable", i, v[k] ? "an object" : "0");
    }
    if (!live (i)) continue;
    push_number (i);
    long e = lgi ("env", 1);
    if (e != M[i].parent) fail_hist ("C08:environment-efun-differs", "%s: environment(O%d) = O%ld, model O%d", when, i, e, M[i].parent);
    unsigned kids = 0, desc = 0;
    for (int j = 0; j < NOBJ; j++) if (live (j) && j != i) { if (M[j].parent == i) kids |= 1u << j; if (in_subtree (M[j].parent, i)) desc |= 1u << j; }
    push_number (i); n = lga ("inv", 1, v, 32);
    if (set_of (v, n, "all_inventory()", when) != kids) fail_hist ("C08:all_inventory-differs", "%s: all_inventory(O%d) = set %x, model %x", when, i, set_of (v, n, "all_inventory()", when), kids);
    push_number (i); n = lga ("chain", 1, v, 32);
    if (set_of (v, n, "first/next_inventory()", when) != kids) fail_hist ("C08:next_inventory-chain-differs", "%s: first/next_inventory walk of O%d = set %x, model %x", when, i, set_of (v, n, "first/next_inventory()", when), kids);
    push_number (i); n = lga ("deep", 1, v, 32);
    if (set_of (v, n, "deep_inventory()", when) != desc) fail_hist ("C08:deep_inventory-differs", "%s: deep_inventory(O%d) = set %x, model %x", when, i, set_of (v, n, "deep_inventory()", when), desc);
    if (M[i].parent >= 0) { push_number (i); push_number (M[i].parent); if (lgi ("pres", 2) != 1) fail_hist ("C08:present-differs", "%s: present(O%d, O%d) is 0 although O%d is inside", when, i, M[i].parent, i); }
    for (int j = 0; j < NOBJ; j++) if (live (j) && j != i && M[i].parent != j) { push_number (i); push_number (j); if (lgi ("pres", 2) != 0) fail_hist ("C08:present-differs", "%s: present(O%d, O%d) is non-zero although O%d is not inside", when, i, j, i); }
  }
  unsigned all = 0, liv = 0;
  for (int i = 0; i < NOBJ; i++) { if (live (i)) all |= 1u << i; if (live (i) && M[i].living) liv |= 1u << i; }
  n = lga ("allobs", 0, v, 32);
  if (set_of (v, n, "objects()", when) != all) fail_hist ("C08:objects-efun-differs", "%s: objects() lists set %x of the population, model %x", when, set_of (v, n, "objects()", when), all);
  n = lga ("liv", 0, v, 32);
  if (set_of (v, n, "livings()", when) != liv) fail_hist ("C08:livings-efun-differs", "%s: livings() lists set %x of the population, model %x", when, set_of (v, n, "livings()", when), liv);
  for (int name = 1; name <= 2; name++) {
    unsigned cand = 0;
    for (int i = 0; i < NOBJ; i++) if (live (i) && M[i].living && M[i].lname == name) cand |= 1u << i;
    push_constant_string (name == 1 ? lname1 : lname2);
    long f = lgi ("fl", 1);
    if (f >= 0 ? !(cand & (1u << f)) : (f == -1 ? cand != 0 : 1)) fail_hist (f >= 0 || f == -2 ? "C08:find_living-finds-wrong-object" : "C08:find_living-misses-living", "%s: find_living(\"%s\") = O%ld, model candidates %x", when, name == 1 ? lname1 : lname2, f, cand);
  }
  push_constant_string ("zz");
  if (lgi ("fl", 1) != -1) fail_hist ("C08:destructed-object-found-as-living", "%s: find_living(\"zz\") finds something: the name was only ever set by objects after they destructed themselves", when);
}

/* ------------------------------------------------------------------ top-level ops */
static int top_apply (object_t *ob, const char *fn, int nargs, const char *desc) {
  int scripts0 = scripts_run;
  svalue_t *r = hx_apply (ob, fn, nargs);
  int failed = !r;
  if (failed) { vx_count (C_ERRORS, 1); vx_obs ("  -> error %s", hx_last_error); }
  (void) scripts0; (void) desc;
  return failed;
}

static int heart_beat_fault;
static void after_step (int failed, const char *desc, int expect_fail) {
  process_log (failed);
  /* an error that left a heart_beat switches off that object's heart beat (C11) */
  if (heart_beat_fault) { if (last_hb_id >= 0 && live (last_hb_id)) M[last_hb_id].hb = 0; heart_beat_fault = 0; }
  /* self-test 3 breaks the environment: a destructed object is put back into the name hash behind the driver's back */
  if (selftest == 3) for (int i = 0; i < NOBJ; i++) if (OB[i] && (OB[i]->flags & O_DESTRUCTED) && M[i].st == 2 && !lookup_object_hash (OB[i]->name)) { enter_object_hash (OB[i]); break; }
  if (nested_restrict && !failed) fail_hist ("C08:model-desync", "%s: expected the nested move_or_destruct restriction to raise an error", desc);
  nested_restrict = 0;
  if (expect_fail < 0) expect_fail = failed;
  if (failed && !expect_fail && !scripts_run) fail_hist ("C08:unexpected-error", "%s raised an error although nothing was scripted to fail: %s", desc, hx_last_error);
  if (!failed && expect_fail) fail_hist ("C08:illegal-op-succeeded", "%s returned normally", desc);
  walk (desc);
  if (fatal_corruption) { vx_obs ("history ends here: a list of the driver is cyclic"); vx_child_exit (0); }
  observe (desc);
}

static int do_tick (void) {
  error_context_t econ;
  volatile int err = 0;
  svalue_t *e0 = safe_apply_master_ob ("query_errors", 0);
  int n0 = (e0 && e0 != (svalue_t *) -1 && e0->type == T_ARRAY) ? e0->u.arr->size : 0;
  hx_clock += 2;
  heart_beat_flag = 1;
  save_context (&econ);
  if (setjmp (econ.context)) { restore_context (&econ); err = 1; }
  else { eval_cost = CONFIG_INT (__MAX_EVAL_COST__); vw_call_heart_beat (); }
  pop_context (&econ);
  if (err && !scripts_run) fail_hist ("C08:unexpected-error", "an error left the heart-beat/call_out round: %s", hx_master_str ("query_last_error"));
  svalue_t *e1 = safe_apply_master_ob ("query_errors", 0);
  int n1 = (e1 && e1 != (svalue_t *) -1 && e1->type == T_ARRAY) ? e1->u.arr->size : 0;
  return err ? 1 : (n1 != n0 ? 2 : 0);
}

static void set_valid_object (int v) { push_constant_string ("valid_object"); push_number (v); hx_apply (master_ob, "set_policy", 2); }

enum { T_CO_ARG = 100, T_STOP = 0, T_LOAD_A, T_LOAD_B, T_LOAD_B_VETO, T_CLONE, T_MOVE, T_DEST, T_LIVING, T_TIMERS, T_CMD, T_TICK, T_CLEANUP, T_MOVE_S, T_LOAD_VIA, T_PRESENT, T_SHAPE };
typedef struct { int t, x, y; } top;

static void run_top (top o) {
  char desc[120];
  int failed = 0, expect_fail = 0, tick_err = 0;
  vx_count (C_STEPS, 1);
  scripts_run = fails_run = 0;
  switch (o.t) {
  case T_LOAD_A: case T_LOAD_B:
    snprintf (desc, sizeof desc, "load %s", obj_file[o.t == T_LOAD_B]); vx_obs ("%s", desc);
    push_number (-1); push_number (4 | (o.t == T_LOAD_B) << 8); failed = top_apply (LOGGER, "top", 2, desc); break;
  case T_LOAD_B_VETO:
    snprintf (desc, sizeof desc, "load /c08/b vetoed by valid_object%s", live (0) ? "" : " (the veto hits /c08/a, loaded on the way)"); vx_obs ("%s", desc);
    set_valid_object (0);
    push_number (-1); push_number (4 | 1 << 8); failed = top_apply (LOGGER, "top", 2, desc);
    set_valid_object (1);
    expect_fail = 1;
    pending_destructed++;             /* the vetoed object was entered in obj_list + hash and destructed again */
    break;
  case T_CLONE:
    snprintf (desc, sizeof desc, "clone /c08/a"); vx_obs ("%s", desc);
    push_number (-1); push_number (5); failed = top_apply (LOGGER, "top", 2, desc); break;
  case T_MOVE:
    snprintf (desc, sizeof desc, "move O%d -> O%d", o.x, o.y); vx_obs ("%s", desc);
    expect_fail = in_subtree (o.y, o.x);
    push_number (-1); push_number (2 | o.x << 8 | o.y << 16); failed = top_apply (LOGGER, "top", 2, desc); break;
  case T_DEST:
    snprintf (desc, sizeof desc, "destruct O%d", o.x); vx_obs ("%s", desc);
    push_number (-1); push_number (3 | o.x << 8); failed = top_apply (LOGGER, "top", 2, desc); break;
  case T_LIVING:
    snprintf (desc, sizeof desc, "O%d enable_commands + set_living_name", o.x); vx_obs ("%s", desc);
    push_number (o.x); push_number (6); failed = top_apply (LOGGER, "top", 2, desc); break;
  case T_TIMERS:
    snprintf (desc, sizeof desc, "O%d set_heart_beat + call_out", o.x); vx_obs ("%s", desc);
    push_number (o.x); push_number (7); failed = top_apply (LOGGER, "top", 2, desc); break;
  case T_CMD:
    snprintf (desc, sizeof desc, "O%d command \"v\"", o.x); vx_obs ("%s", desc);
    vx_count (C_COMMANDS, 1);
    push_number (o.x); push_number (8); failed = top_apply (LOGGER, "top", 2, desc); break;
  case T_MOVE_S:
    snprintf (desc, sizeof desc, "O%d move_object(\"%s\")%s", o.x, obj_file[o.y], live (o.y) ? "" : " (destination not loaded)"); vx_obs ("%s", desc);
    expect_fail = -1;           /* succeeds or fails depending on what the destination's create() does: the model decides */
    push_number (-1); push_number (10 | o.x << 8 | o.y << 16); failed = top_apply (LOGGER, "top", 2, desc); break;
  case T_LOAD_VIA: {
    static const char *via[] = { "", "call_other", "first_inventory", "tell_room" };
    snprintf (desc, sizeof desc, "load %s through %s(\"%s\", ...)", obj_file[o.x], via[o.y], obj_file[o.x]); vx_obs ("%s", desc);
    push_number (-1); push_number (11 | o.x << 8 | o.y << 16); failed = top_apply (LOGGER, "top", 2, desc); break;
  }
  case T_PRESENT:
    snprintf (desc, sizeof desc, "present(\"thing\", O%d)", o.x); vx_obs ("%s", desc);
    push_number (-1); push_number (12 | o.x << 8); failed = top_apply (LOGGER, "top", 2, desc); break;
  case T_SHAPE: {
    static const char *sh[] = { "O->poke(kill(O))", "tell_object(O, kill(O))", "present(O, kill(O) -> env)", "take(O, kill(O))" };
    snprintf (desc, sizeof desc, "%s with O = O%d", sh[o.y], o.x); vx_obs ("%s", desc);
    expect_fail = -1;           /* the call may end in "bad argument": what matters is that nothing runs in / sees the destructed object */
    push_number (-1); push_number (13 | o.x << 8 | o.y << 16); failed = top_apply (LOGGER, "top", 2, desc); break;
  }
  case T_CO_ARG:
    snprintf (desc, sizeof desc, "call_out carrying O%d as argument (shape %d)", o.x, o.y); vx_obs ("%s", desc);
    push_number (-1); push_number (14 | o.x << 8 | o.y << 16); failed = top_apply (LOGGER, "top", 2, desc); break;
  case T_TICK:
    if (lco_on) expect_fail = -1;          /* (: call_other :) on an argument that has become 0 raises inside call_out() */
    snprintf (desc, sizeof desc, "tick"); vx_obs ("%s", desc);
    ticks_done++; last_hb_id = -1; tick_err = do_tick (); failed = tick_err != 0; if (tick_err != 1) lco_on = 0; /* a round abandoned by a heart_beat error never reaches the call_out phase */ break;
  case T_CLEANUP:
    snprintf (desc, sizeof desc, "remove_destructed_objects"); vx_obs ("%s", desc);
    remove_destructed_objects ();
    pending_destructed = 0;
    for (int i = 0; i < NOBJ; i++) if (M[i].st == 2) M[i].st = 3;       /* no longer in obj_list_destruct (the harness keeps the memory alive) */
    break;
  default: return;
  }
  if (tick_err == 1) heart_beat_fault = 1;
  after_step (failed, desc, expect_fail);
}

static int enabled_tops (top *v) {
  int n = 0;
  if (!live (0)) v[n++] = (top) { T_LOAD_A, 0, 0 };
  if (!live (1)) { v[n++] = (top) { T_LOAD_B, 0, 0 }; v[n++] = (top) { T_LOAD_B_VETO, 0, 0 }; }
  if (nclone < 2) v[n++] = (top) { T_CLONE, 0, 0 };
  for (int x = 0; x < NOBJ; x++) if (live (x)) for (int y = 0; y < NOBJ; y++) if (live (y)) v[n++] = (top) { T_MOVE, x, y };
  for (int x = 0; x < NOBJ; x++) if (live (x)) v[n++] = (top) { T_DEST, x, 0 };
  for (int x = 0; x < NOBJ; x++) if (live (x) && !M[x].living) v[n++] = (top) { T_LIVING, x, 0 };
  for (int x = 0; x < NOBJ; x++) if (live (x) && !M[x].hb) v[n++] = (top) { T_TIMERS, x, 0 };
  for (int x = 0; x < NOBJ; x++) if (live (x) && M[x].living) v[n++] = (top) { T_CMD, x, 0 };
  for (int x = 0; x < NOBJ; x++) if (live (x)) for (int t = 0; t < 2; t++) if (!live (t)) v[n++] = (top) { T_MOVE_S, x, t };
  for (int t = 0; t < 2; t++) if (!live (t)) for (int k = 1; k <= 3; k++) v[n++] = (top) { T_LOAD_VIA, t, k };
  for (int x = 0; x < NOBJ; x++) if (live (x) && has_children (x)) v[n++] = (top) { T_PRESENT, x, 0 };
  if (shapes_on) for (int x = 0; x < NOBJ; x++) if (live (x)) for (int k = 0; k < 4; k++) v[n++] = (top) { T_SHAPE, x, k };
  if (shapes_on && !lco_on) for (int x = 0; x < NOBJ; x++) if (live (x)) for (int k = 0; k < 3; k++) v[n++] = (top) { T_CO_ARG, x, k };
  if (ticks_done < maxticks) { int any = lco_on; for (int x = 0; x < NOBJ; x++) any |= M[x].hb | M[x].co; if (any) v[n++] = (top) { T_TICK, 0, 0 }; }
  if (pending_destructed) v[n++] = (top) { T_CLEANUP, 0, 0 };
  return n;
}

/* canonical state: abstract world + what of the driver's own state decides the future
   (inventory order, sentence lists, heart-beat order, pending call_outs, sentence free list, cleanup backlog) */
static int canon (char *b, int len, int step) {
  int n = snprintf (b, len, "s%d c%d pd%d t%d sf%d lco%d%d%d|", step, nclone, pending_destructed, ticks_done, vw_sent_free_len (), lco_on, lco_on ? lco_x : 0, lco_on ? lco_k : 0);
  for (int i = 0; i < NOBJ; i++) {
    n += snprintf (b + n, len - n, "%d:%d:%d%d%d%d[", M[i].st, M[i].parent, M[i].living, M[i].lname, M[i].hb, M[i].co);
    if (live (i) && OB[i]) {
      int g = 0;
      for (object_t *c = OB[i]->contains; c && g < 8; c = c->next_inv, g++) n += snprintf (b + n, len - n, "%d,", id_of (c));
      n += snprintf (b + n, len - n, "/");
      g = 0;
      for (sentence_t *s = OB[i]->sent; s && g < 24; s = s->next, g++) n += snprintf (b + n, len - n, "%d%s,", id_of (s->ob), s->ob && (s->ob->flags & O_DESTRUCTED) ? "d" : "");
    }
    n += snprintf (b + n, len - n, "]");
  }
  n += snprintf (b + n, len - n, "hb:");
  for (int h = 0; h < vw_num_hb_objs (); h++) n += snprintf (b + n, len - n, "%d,", id_of (vw_hb_ob (h)));
  for (int bk = 0; bk < CONFIG_INT (__LIVING_HASH_TABLE_SIZE__); bk++) if (hashed_living[bk]) { n += snprintf (b + n, len - n, "|L"); int g = 0; for (object_t *o = hashed_living[bk]; o && g < 8; o = o->next_hashed_living, g++) n += snprintf (b + n, len - n, "%d,", id_of (o)); }
  return n;
}

static const top preset[4][8] = {
  { { T_STOP } },
  { { T_LOAD_B }, { T_CLONE }, { T_STOP } },                                                         /* a (via inherit), b, c2: all top level */
  { { T_LOAD_B }, { T_CLONE }, { T_LIVING, 0 }, { T_MOVE, 0, 1 }, { T_MOVE, 2, 0 }, { T_STOP } },         /* c2 in a in b, a living */
  { { T_LOAD_B }, { T_CLONE }, { T_LIVING, 2 }, { T_TIMERS, 2 }, { T_MOVE, 1, 0 }, { T_MOVE, 2, 0 }, { T_STOP } },   /* b and c2 in a, c2 living with timers */
};

static void body (void) {
  char cb[1200];
  int init = (int) vx_opt_long ("init", -1);
  if (init < 0) init = vx_choose_free (4, "world");
  choices_on = 0;
  for (int k = 0; preset[init][k].t != T_STOP; k++) run_top (preset[init][k]);
  choices_on = 1;
  for (int step = 0; step < depth; step++) {
    vx_state (cb, (size_t) canon (cb, sizeof cb, step));
    top v[160];
    int n = enabled_tops (v);
    int c = vx_choose_free (1 + n, "op");
    if (!c) break;
    run_top (v[c - 1]);
  }
  /* epilogue: cleanup + one tick + commands by every living object, nobody interferes */
  choices_on = 0;
  if (pending_destructed) run_top ((top) { T_CLEANUP, 0, 0 });
  run_top ((top) { T_TICK, 0, 0 });
  for (int x = 0; x < NOBJ; x++) if (live (x) && M[x].living) run_top ((top) { T_CMD, x, 0 });
  if (pending_destructed) run_top ((top) { T_CLEANUP, 0, 0 });
  vx_count (C_HIST, 1);
}

#ifndef __SANITIZE_ADDRESS__
#include <signal.h>
#include <ucontext.h>
#include <dlfcn.h>
/* plain profile: name the function a fatal signal happened in (the ASan profile reports it with a full stack) */
static void on_fatal (int sig, siginfo_t *si, void *uc_) {
  ucontext_t *uc = uc_;
  void *ip = (void *) uc->uc_mcontext.gregs[REG_RIP];
  Dl_info di;
  const char *fn = (dladdr (ip, &di) && di.dli_sname) ? di.dli_sname : "?";
  char key[120];
  snprintf (key, sizeof key, "crash:signal%d:%s", sig, fn);
  vx_fail (key, "fatal signal %d at address %p inside %s()", sig, si->si_addr, fn);
  vx_obs ("!! %s", key);
  vx_child_exit (0);
}
static void install_fatal (void) {
  struct sigaction sa; memset (&sa, 0, sizeof sa);
  sa.sa_sigaction = on_fatal; sa.sa_flags = SA_SIGINFO | SA_NODEFER;
  sigaction (SIGSEGV, &sa, 0); sigaction (SIGBUS, &sa, 0); sigaction (SIGFPE, &sa, 0);
}
#else
static void install_fatal (void) {}
#endif

static char conf_extra[64];
int main (int argc, char **argv) {
  char mud[PATH_MAX];
  snprintf (mud, sizeof mud, "%s/mudlib/base", hx_verif_dir ());
  vx_init_args (argc, argv);
  depth = (int) vx_opt_long ("depth", 3);
  maxticks = (int) vx_opt_long ("ticks", 2);
  selftest = (int) vx_opt_long ("selftest", 0);
  ohash = (int) vx_opt_long ("ohash", 0);
  shapes_on = (int) vx_opt_long ("shapes", 0);
  if (ohash > 0) snprintf (conf_extra, sizeof conf_extra, "ObjectHashSize %d\n", ohash);
  hx_boot (mud, conf_extra, 0);
  install_fatal ();
  static const char *cn[] = { "histories_completed", "top_level_steps", "hook_invocations", "scripted_hooks", "moves", "destructs", "ops_ending_in_error", "inventory_destructed_by_driver", "commands", "verb_functions_run", "reentrant_loads", "structure_walks" };
  for (int i = 0; i < 12; i++) vx_count_name (i, cn[i]);
#ifdef NEOLITH_VERIF
  neolith_verif_insn_hook = hook;
#else
#error "C08 needs the H1 hook (NEOLITH_VERIF)"
#endif
  LOGGER = hx_load ("/c08/log", 0);
  if (!LOGGER) { fprintf (stderr, "cannot load /c08/log: %s\n", hx_last_error); return 2; }
  add_ref (LOGGER, "h_c08");
  for (int i = 0; i < NOBJ; i++) M[i].parent = -1;
  /* two living names that collide in the living hash (same rule as lib/lpc/object.c: whashstr(name, 20) % size) */
  {
    int sz = CONFIG_INT (__LIVING_HASH_TABLE_SIZE__), found = 0;
    for (int a = 0; a < 400 && !found; a++) for (int b = a + 1; b < 400 && !found; b++) {
      char na[16], nb[16]; snprintf (na, sizeof na, "n%d", a); snprintf (nb, sizeof nb, "n%d", b);
      if (whashstr (na, 20) % sz == whashstr (nb, 20) % sz) { strcpy (lname1, na); strcpy (lname2, nb); found = 1; }
    }
    if (!found) { fprintf (stderr, "no colliding living names found\n"); return 2; }
    push_constant_string (lname1); push_constant_string (lname2);
    if (!hx_apply (LOGGER, "set_names", 2)) { fprintf (stderr, "set_names failed: %s\n", hx_last_error); return 2; }
  }
  for (object_t *o = obj_list; o; o = o->next_all) base_objs++;
  if (ohash > 0 && vw_otable_size () > 4) { fprintf (stderr, "ObjectHashSize not applied (%d)\n", vw_otable_size ()); return 2; }
  return vx_run (argc, argv, body);
}
